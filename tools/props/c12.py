"""C12 - export files sit at the documented location with exactly the declared length."""
import oracles
from props import runbase
from props import c03 as _c03

correspondence, search, replay, ASSUMPTIONS = runbase.make(
    "C12", [oracles.c12, oracles.c03],
    [("std", 200, 2000, {}, None), ("odd", 60, 500, {}, _c03.odd_names)],
    "generated worlds incl. unicode / nested names, odd names (dots with invisible characters, backslashes, components of 255-300 bytes), padding and empty files, torrents sharing names, prior export states absent/shorter/exact/longer; export tree listing after the run vs the documented layout, plus trace validation against the model",
    "target_*_shape (export/<40 hex>/Data/name[/path...]), good_op (SetLen to the declared length; only targets of non-padding segments are ever created or written) proved; tied to the code by trace validation",
    ["distinct info-hashes give distinct 40-digit directory names (C07_hex_injective)"])
