"""C12 - export files sit at the documented location with exactly the declared length."""
import oracles
from props import runbase
from props import c03 as _c03

def name_is_component(w, rng):
    """A multi-file torrent whose name is also the name of one of its files or directories (an extension-less file
    inside a same-named folder, a folder repeated one level down): the file still goes to Data/<name>/<path...>."""
    import worldgen
    nm = rng.choice([b"notes", b"README", b"disc", b"x"])
    shape = rng.choice(["top", "top+sibling", "dir", "deep"])
    F = worldgen.TFile
    files = {"top": [F([nm], worldgen.rand_content(rng, rng.randint(1, 6)))],
             "top+sibling": [F([nm], worldgen.rand_content(rng, rng.randint(1, 6))), F([b"other.bin"], worldgen.rand_content(rng, rng.randint(1, 5)))],
             "dir": [F([nm, b"a.bin"], worldgen.rand_content(rng, rng.randint(1, 6))), F([b"b.bin"], worldgen.rand_content(rng, 3))],
             "deep": [F([nm, nm], worldgen.rand_content(rng, rng.randint(1, 6))), F([nm, b"c"], worldgen.rand_content(rng, 2))]}[shape]
    t = worldgen.TorrentSpec(nm, rng.choice([2, 4, 8]), files, False)
    if any(t.info_hash == u.info_hash for u in w.torrents):
        return
    w.torrents.append(t)
    w.presented = list(w.presented) + [len(w.torrents) - 1]
    for k, f in enumerate(t.files):
        w.put_file(tuple(list(w.scans[0]) + [b"nic_%d" % k]), f.content)


correspondence, search, replay, ASSUMPTIONS = runbase.make(
    "C12", [oracles.c12, oracles.c03],
    [("std", 200, 2000, {}, None), ("odd", 60, 500, {}, _c03.odd_names), ("namecomp", 24, 200, {}, name_is_component)],
    "generated worlds incl. unicode / nested names, multi-file torrents whose name is also the name of one of their files or directories, odd names (dots with invisible characters, backslashes, components of 255-300 bytes), padding and empty files, torrents sharing names, prior export states absent/shorter/exact/longer; export tree listing after the run vs the documented layout, plus trace validation against the model",
    "target_*_shape (export/<40 hex>/Data/name[/path...]), good_op (SetLen to the declared length; only targets of non-padding segments are ever created or written) proved; tied to the code by trace validation",
    ["distinct info-hashes give distinct 40-digit directory names (C07_hex_injective)"])
