"""C08 - the decoder accepts exactly canonical bencode: Parser::decode vs BencodeModel.decode
(tree with every span), with an independent strict reference decoder as the search oracle."""
import itertools
import bengen
import vlib

ASSUMPTIONS = [
    "the theorems are about BencodeModel.v; the tie to src/bencode/parser.rs is the differential run (exhaustive over a bencode alphabet up to a length bound + generated inputs)",
]
SIGMA = b"deil012:-a+"


def gen_cases(ctx, tier=None):
    tier = tier or ctx["tier"]
    rng = vlib.rng_for(ctx["seed"], "C08")
    dist = {"exhaustive": 0, "grammar": 0, "mutated": 0, "key_order": 0, "numeric": 0}
    inputs = []
    maxlen = 5 if tier == "quick" else 6
    inputs.append(b"")
    for n in range(1, maxlen + 1):
        for t in itertools.product(SIGMA, repeat=n):
            inputs.append(bytes(t))
    dist["exhaustive"] = len(inputs)
    ng = 3000 if tier == "quick" else 30000
    valid = []
    for _ in range(ng):
        v = bengen.rand_value(rng, 0, rng.choice([2, 3, 4, 6]))
        x = bengen.enc(v)
        valid.append(x)
        inputs.append(x)
    dist["grammar"] = ng
    for _ in range(2 * ng):
        inputs.append(bengen.mutate(rng, rng.choice(valid)))
    dist["mutated"] = 2 * ng
    for _ in range(ng // 3):
        inputs.append(bengen.swap_keys(rng, None))
    dist["key_order"] = ng // 3
    adv = bengen.numeric_adversaries()
    inputs += adv
    dist["numeric"] = len(adv)
    return ["c%d %s" % (i, x.hex() if x else "-") for i, x in enumerate(inputs)], dist


def oracle(case, impl):
    x = bytes.fromhex(case.split()[1]) if case.split()[1] != "-" else b""
    want = bengen.ref_decode(x)
    if want == "err-depth":
        return None
    if impl != want:
        if impl.startswith("ok") and want == "err":
            return "accepts a string that is not one canonical bencoded value"
        if impl == "err" and want.startswith("ok"):
            return "rejects a canonical bencoded value"
        if impl.startswith("ok") and want.startswith("ok"):
            return "returned tree or spans differ from the value / exact node extents: expected " + want
        return "decoder did not return a value or an error: " + impl
    return None


def run(ctx, cases):
    impl = vlib.run_sharded(ctx["harness"], "decode", cases)
    model = vlib.run_sharded(ctx["driver"], "decode", cases)
    return impl, model


def correspondence(ctx):
    cases, dist = gen_cases(ctx)
    impl, model = run(ctx, cases)
    dis = vlib.compare(cases, impl, model)
    findings, broken = [], []
    # the independent oracle is also run on every agreeing case: model and implementation could be wrong together
    agree = set(c.split()[0] for c in cases) - set(d["case"].split()[0] for d in dis)
    for c in cases:
        k = c.split()[0]
        if k in agree and len(findings) < 5:
            clause = oracle(c, impl.get(k, "<no output>"))
            if clause:
                findings.append({"case": c[:2000], "impl": impl.get(k), "model": model.get(k), "violated_clause": clause,
                                 "note": "implementation and model agree; the independent oracle derived from the property text disagrees with both"})
    for d in dis[:50]:
        clause = oracle(d["case"], d["impl"])
        if clause:
            findings.append({"case": d["case"], "input_bytes": repr(bytes.fromhex(d["case"].split()[1]) if d["case"].split()[1] != "-" else b""),
                             "impl": d["impl"], "model": d["model"], "violated_clause": clause})
        else:
            broken.append({"what": "BencodeModel.decode and Parser::decode differ on an input where the implementation agrees with the reference decoder", **d})
    accepted = set(c.split()[1] for c in cases if model.get(c.split()[0], "").startswith("ok"))
    dist["accepted"] = len(accepted)
    dist["rejected"] = len(cases) - sum(1 for c in cases if model.get(c.split()[0], "").startswith("ok"))
    pick = [c for c in cases if model.get(c.split()[0], "").startswith("ok")]
    samples = [{"case": c, "impl": impl.get(c.split()[0]), "model": model.get(c.split()[0])} for c in (pick[3], pick[len(pick) // 2], pick[-1], cases[1000])]
    return {
        "evaluations": len(cases), "distinct_nontrivial": len(accepted),
        "rule": "every string over {d,e,i,l,0,1,2,:,-,a} up to length %d, grammar-generated canonical values, single-point mutations, swapped/duplicated keys, numeric adversaries; compared: whole tree with every start/continuation offset; non-trivial = distinct accepted input" % (5 if ctx["tier"] == "quick" else 6),
        "samples": samples, "distribution": dist, "disagreements": len(dis), "findings": findings, "broken": broken,
        "exhaustive": False,
        "explanation": "decode_spec (accepted <-> encoding of one canonical value with exact spans) proved over BencodeModel.v + differential run of the extracted model against Parser::decode",
    }


def search(ctx, unexplained):
    cases, _ = gen_cases(ctx, "thorough")
    impl = vlib.run_sharded(ctx["harness"], "decode", cases)
    out = []
    for c in cases:
        clause = oracle(c, impl.get(c.split()[0], "<no output>"))
        if clause:
            out.append({"case": c, "impl": impl.get(c.split()[0]), "violated_clause": clause})
            if len(out) >= 3:
                break
    return out


def replay(ctx, payload):
    harness = vlib.build_harness()
    case = payload["case"]
    r = vlib.run_sharded(harness, "decode", [case]).get(case.split()[0], "<no output>")
    clause = oracle(case, r)
    print("case:", case)
    print("impl:", r)
    print("reference:", bengen.ref_decode(bytes.fromhex(case.split()[1]) if case.split()[1] != "-" else b""))
    print("violated clause:", clause)
    return 1 if clause else 0
