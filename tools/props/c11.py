"""C11 - interrupting a run at any instant leaves a sound, resumable export tree.  The fs shim
cuts the process off at the k-th file operation (a write after j of its bytes); the interrupted
tree is checked byte for byte, the cut-off run is replayed against the model, and a clean re-run on
the same tree must recover everything that was available."""
import collections

import oracles
import runlib
import runprops
import vlib
import worlds

ASSUMPTIONS = ["a crash is a process kill at a file operation of the fs shim: kernel file state survives, an in-flight write leaves a prefix; power loss / write-back reordering is outside the statement"]


def oracle(w, first, second):
    rr, ce = first
    if rr.result != "crash":
        return None if rr.result in ("ok", "err") else "unexpected result %s" % rr.result
    cx = oracles.Ctx(w, rr, ce)
    for fn in (oracles.c01, oracles.c03):
        bad = fn(cx)
        if bad:
            return "interrupted state: " + bad
    _, loose_before = oracles.verified_ranges(cx, rr.before, exact=False)
    for t, pc in loose_before:
        if not cx.piece_verifies(rr.after, t, pc, False):
            return "piece %d of %s verified before the interrupted run and does not afterwards" % (pc[0], t.hex)
    rr2, ce2 = second
    if rr2.result != "ok" and not (rr2.result == "err" and w.resize):
        return "the re-run after the interruption did not complete: %s %s" % (rr2.result, getattr(rr2, "result_msg", ""))
    if rr2.result == "ok":
        cx2 = oracles.Ctx(w, rr2, ce2)
        for fn in (oracles.c01, oracles.c03):
            bad = fn(cx2)
            if bad:
                return "re-run: " + bad
        if all(o in (["success"], ["failed"]) for o in ce2["outcomes"].values()):
            for t, pc in oracles.available_pieces(cx):
                if not cx2.piece_verifies(rr2.after, t, pc, False):
                    return "piece %d of %s was available to an uninterrupted run and is not recovered by the re-run after the interruption" % (pc[0], t.hex)
    return None


def build(ctx, tier):
    nworlds = 12 if tier == "quick" else 50
    per = 22 if tier == "quick" else 70
    rng = vlib.rng_for(ctx["seed"], "C11plan")
    base = []
    for i in range(nworlds):
        w = runprops.world_for("crash", ctx["seed"], i)
        w.threads = 1 if i % 3 else rng.choice([2, 3])
        base.append((runprops.Scenario("crash", ctx["seed"], i, {"ref": True}), w))
    refs = runprops.run_scenarios(ctx, base)
    jobs = []
    for r in refs:
        recs = [rec for rec in r["rr"].records if "op" in rec]
        muts = [rec for rec in recs if rec["kind"] in ("write", "set_len", "mkdir_all") or (rec["kind"] == "open" and rec.get("w") == "1") or rec["kind"] == "seek"]
        others = [rec for rec in recs if rec not in muts]
        rng.shuffle(others)
        chosen = muts[:] if len(muts) <= per else rng.sample(muts, per)
        chosen += others[:max(3, per // 5)]
        for rec in chosen:
            k = int(rec["op"])
            variants = [None]
            if rec["kind"] == "write" and rec.get("data"):
                n = len(rec["data"]) // 2
                variants = sorted(set([0, 1, max(0, n - 1)]))
            for j in variants:
                jobs.append((r["sc"].index, r["w"], {"crash": k, "partial": j}))
    return refs, jobs


def correspondence(ctx):
    refs, jobs = build(ctx, ctx["tier"])
    hist = worlds.run_histories([("h%d" % i, w, [{"plan": plan}, {}]) for i, (idx, w, plan) in enumerate(jobs)])
    firsts = {cid: lst[0] for cid, lst in hist.items()}
    ver = worlds.validate_many(firsts, ctx["driver"])
    findings, broken = [], []
    stats = collections.Counter()
    runs = []
    for i, (idx, w, plan) in enumerate(jobs):
        cid = "h%d" % i
        first, second = hist[cid][0], hist[cid][1]
        sc = runprops.Scenario("crash", ctx["seed"], idx, dict(plan, threads=w.threads))
        runs.append({"sc": sc, "w": w, "rr": first[0], "ce": first[1], "verdict": ver[cid]})
        stats["first run " + first[0].result] += 1
        stats["re-run " + second[0].result] += 1
        bad = oracle(w, first, second)
        if bad:
            if len(findings) < 5:
                findings.append({"scenario": sc.ident(), "violated_clause": bad, "model_verdict": ver[cid][:400], "world": runprops.describe_world(w)})
        elif not ver[cid].startswith("ok"):
            if len(broken) < 10:
                broken.append({"what": "the interrupted run is not a prefix of a behaviour of the model: " + ver[cid][:600], "scenario": sc.ident()})
    res = runprops.result("C11", ctx, runs, findings, broken, dict(stats),
                          "generated worlds; reference run, then the process is cut off at the k-th file operation (every mutating operation of the run or a sample, writes cut after 0 / 1 / len-1 bytes, plus some non-mutating points); interrupted tree checked byte for byte, replayed against the model as a cut-off trace, then a clean re-run on the same tree",
                          "walk_good (cut-off traces are good), file_ops_sound (any order, cut writes), fs_ops_preserve_verified proved; tied to the code by trace validation of interrupted runs")
    res["distinct_nontrivial"] = len(set((r["sc"].index, r["sc"].variant["crash"], r["sc"].variant["partial"]) for r in runs if r["rr"].result == "crash"))
    return res


def replay(ctx, payload):
    vlib.build_harness()
    ctx["driver"] = vlib.build_driver()
    sc = payload["scenario"]
    w = runprops.world_for("crash", sc["world_seed"], sc["index"])
    w.threads = sc["variant"].get("threads", 1)
    plan = {"crash": sc["variant"]["crash"], "partial": sc["variant"].get("partial")}
    hist = worlds.run_histories([("h", w, [{"plan": plan}, {}])])["h"]
    bad = oracle(w, hist[0], hist[1])
    print("first run:", hist[0][0].result, "re-run:", hist[1][0].result)
    print("violated clause:", bad)
    return 1 if bad else 0
