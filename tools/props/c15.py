"""C15 - the reported availability figures are truthful and account for every piece."""
import oracles
from props import runbase


def dup(w, rng):
    """Duplicate / permute the presented torrent list."""
    if w.presented and rng.random() < 0.6:
        w.presented = w.presented + [rng.choice(w.presented) for _ in range(rng.choice([1, 1, 2]))]
        rng.shuffle(w.presented)


def many_threads(w, rng):
    w.threads = rng.choice([2, 3, 4, 8])


def scheduled(sc, w):
    """Run under the deterministic scheduler (every lock operation and every println! is a scheduling point)."""
    return {"sched": (7919 * sc.index + 13, [])}


correspondence, search, replay, ASSUMPTIONS = runbase.make(
    "C15", [oracles.c15],
    [("std", 130, 1200, {}, None), ("dup", 70, 800, {}, dup), ("sched", 60, 600, {}, many_threads, scheduled)],
    "generated worlds, with duplicate and permuted torrent lists, with real threads and (stream sched) under seeded schedules of the deterministic scheduler in which every lock operation and every progress print is a scheduling point; stdout progress lines of the real run, in print order, vs piece count, per-piece outcomes and the export tree afterwards",
    "counters_sum / one line per piece on the model; success only after the found branch (solve_prog) ; tied to the code by trace validation and the progress-line oracle",
    ["'verifies afterwards' is checked for fault-free completed runs"])
