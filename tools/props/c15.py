"""C15 - the reported availability figures are truthful and account for every piece."""
import oracles
from props import runbase


def dup(w, rng):
    """Duplicate / permute the presented torrent list."""
    if w.presented and rng.random() < 0.6:
        w.presented = w.presented + [rng.choice(w.presented) for _ in range(rng.choice([1, 1, 2]))]
        rng.shuffle(w.presented)


def many_threads(w, rng):
    w.threads = rng.choice([2, 3, 4, 8])


def scheduled(sc, w):
    """Run under the deterministic scheduler (every lock operation and every println! is a scheduling point)."""
    return {"sched": (7919 * sc.index + 13, [])}


def padding_pieces(w, rng):
    """A torrent in which one or more whole pieces lie inside a padding file (a pad at least one piece long, or one that
    starts on a piece boundary and fills the piece): such pieces are pieces - counted, printed, succeeded (zeros verify)."""
    import worldgen
    L = rng.choice([2, 3, 4])
    F = worldgen.TFile
    a = F([b"a.bin"], worldgen.rand_content(rng, rng.choice([L, 2 * L, L + 1, 1])))
    pad = F([b".pad", b"%d" % rng.randint(0, 99)], bytes(rng.choice([L, 2 * L, 2 * L + 1, 3 * L - (a.length % L)])), pad=True)
    b = F([b"d", b"b.bin"], worldgen.rand_content(rng, rng.randint(1, 5)))
    t = worldgen.TorrentSpec(b"padded%d" % rng.randint(0, 99), L, [a, pad, b], False)
    if any(t.info_hash == u.info_hash for u in w.torrents):
        return
    w.torrents.append(t)
    w.presented = list(w.presented) + [len(w.torrents) - 1]
    for k, f in enumerate(t.files):
        if not f.pad and rng.random() < 0.85:
            w.put_file(tuple(list(w.scans[0]) + [b"pp_%d" % k]), f.content)


_correspondence, search, replay, ASSUMPTIONS = runbase.make(
    "C15", [oracles.c15],
    [("std", 130, 1200, {}, None), ("dup", 70, 800, {}, dup), ("sched", 60, 600, {}, many_threads, scheduled), ("padpieces", 24, 200, {}, padding_pieces)],
    "generated worlds, with duplicate and permuted torrent lists, torrents in which whole pieces lie inside a padding file, with real threads and (stream sched) under seeded schedules of the deterministic scheduler in which every lock operation and every progress print is a scheduling point; stdout progress lines of the real run, in print order, vs piece count, per-piece outcomes and the export tree afterwards",
    "counters_sum / one line per piece on the model; success only after the found branch (solve_prog) ; tied to the code by trace validation and the progress-line oracle",
    ["'verifies afterwards' is checked for fault-free completed runs"])


def dup_path_worlds(seed):
    """Known finding K3: a files list that names one path twice."""
    import worldgen
    import vlib
    out = []
    for i in range(4):
        rng = vlib.rng_for(seed, "C15dup/%d" % i)
        w = worldgen.World()
        w.put_dir((b"export",))
        w.put_dir((b"scan0",))
        w.scans = [(b"scan0",)]
        L = rng.choice([2, 3, 4])
        a, b = bytes(rng.randrange(1, 256) for _ in range(L)), bytes(rng.randrange(1, 256) for _ in range(L))
        files = [worldgen.TFile([b"d", b"a"], a), worldgen.TFile([b"d", b"a"], b), worldgen.TFile([b"c"], bytes(rng.randrange(1, 256) for _ in range(rng.randint(1, L))))]
        if i % 2:
            files = [files[2], files[0], files[1]]
        t = worldgen.TorrentSpec(b"dup%d" % i, L, files, False)
        w.torrents = [t]
        w.presented = [0]
        for k, f in enumerate(files):
            w.put_file((b"scan0", b"x%d" % k), f.content)
        w.threads = rng.choice([1, 1, 2])
        out.append(w)
    return out


def correspondence(ctx):
    import runprops
    import vlib
    res = _correspondence(ctx)
    k3 = [kf for kf in vlib.known_findings() if kf.get("id") == "K3" and kf.get("status") == "known"]
    scen = [(runprops.Scenario("duppath", ctx["seed"], i), w) for i, w in enumerate(dup_path_worlds(ctx["seed"]))]
    runs = runprops.run_scenarios(ctx, scen)
    res["evaluations"] += len(runs)
    for r in runs:
        bad = oracles.c15(oracles.Ctx(r["w"], r["rr"], r["ce"]))
        if bad and k3 and "counted as succeeded but does not verify" in bad:
            res.setdefault("known_lines", [])
            line = "K3: a torrent whose file list names one path twice: pieces of both entries are counted as succeeded, only the last one written is in the export file"
            if line not in res["known_lines"]:
                res["known_lines"].append(line)
        elif bad:
            res["findings"].append({"scenario": r["sc"].ident(), "violated_clause": bad, "world": runprops.describe_world(r["w"])})
    return res
