"""C15 - the reported availability figures are truthful and account for every piece."""
import oracles
from props import runbase


def dup(w, rng):
    """Duplicate / permute the presented torrent list."""
    if w.presented and rng.random() < 0.6:
        w.presented = w.presented + [rng.choice(w.presented) for _ in range(rng.choice([1, 1, 2]))]
        rng.shuffle(w.presented)


correspondence, search, replay, ASSUMPTIONS = runbase.make(
    "C15", [oracles.c15],
    [("std", 160, 1500, {}, None), ("dup", 100, 1000, {}, dup)],
    "generated worlds, with duplicate and permuted torrent lists; stdout progress lines of the real run vs piece count, per-piece outcomes and the export tree afterwards",
    "counters_sum / one line per piece on the model; success only after the found branch (solve_prog) ; tied to the code by trace validation and the progress-line oracle",
    ["'verifies afterwards' is checked for fault-free completed runs"])
