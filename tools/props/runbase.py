"""Factory for the run-level property modules whose scenarios are plain generated worlds."""
import oracles
import runprops
import vlib


def make(prop, oracle_fns, streams, rule, explanation, assumptions):
    """streams: list of (tag, n_quick, n_thorough, gen kwargs, tweak(world, rng) or None[, run_kw(scenario, world) -> kwargs of run_world])."""
    run_kw = {st[0]: st[5] for st in streams if len(st) > 5}
    streams = [st[:5] for st in streams]

    def kwargs_of(sc, w):
        f = run_kw.get(sc.tag)
        return f(sc, w) if f else {}

    def build(ctx, tier):
        sw = []
        for tag, nq, nt, kw, tweak in streams:
            n = nq if tier == "quick" else nt
            for i in range(n):
                w = runprops.world_for(tag, ctx["seed"], i, **kw)
                if tweak:
                    tweak(w, vlib.rng_for(ctx["seed"], "%s/tweak/%d" % (tag, i)))
                sw.append((runprops.Scenario(tag, ctx["seed"], i), w))
        return sw

    def correspondence(ctx):
        runs = runprops.run_scenarios(ctx, build(ctx, ctx["tier"]), kwargs_of=kwargs_of)
        findings, broken, stats = runprops.judge(prop, runs, oracle_fns)
        return runprops.result(prop, ctx, runs, findings, broken, stats, rule, explanation)

    def search(ctx, unexplained):
        ctx2 = dict(ctx, tier="thorough")
        runs = runprops.run_scenarios(ctx2, build(ctx2, "thorough"), kwargs_of=kwargs_of)
        findings, _, _ = runprops.judge(prop, runs, oracle_fns)
        return findings[:3]

    def replay(ctx, payload):
        vlib.build_harness()
        ctx["driver"] = vlib.build_driver()
        sc = payload.get("scenario")
        if not sc:
            print(payload)
            return 1
        for tag, nq, nt, kw, tweak in streams:
            if tag == sc["tag"]:
                w = runprops.world_for(tag, sc["world_seed"], sc["index"], **kw)
                if tweak:
                    tweak(w, vlib.rng_for(sc["world_seed"], "%s/tweak/%d" % (tag, sc["index"])))
                runs = runprops.run_scenarios(ctx, [(runprops.Scenario(tag, sc["world_seed"], sc["index"]), w)], kwargs_of=kwargs_of)
                findings, broken, _ = runprops.judge(prop, runs, oracle_fns)
                print("result:", runs[0]["rr"].result, "model verdict:", runs[0]["verdict"][:300])
                for f in findings:
                    print("violated clause:", f["violated_clause"])
                return 1 if findings else 0
        print("unknown scenario stream", sc)
        return 1

    return correspondence, search, replay, assumptions
