"""C16 - bad paths fail before any change; loadable torrents never crash a run.  Child runs of the
real start() with every kind and position of bad path, with no / unloadable torrents, with
degenerate but loadable torrents, and of the CLI binary."""
import collections
import copy
import os
import shutil
import subprocess
import tempfile

import docgen
import oracles
import runlib
import runprops
import vlib
import worldgen
import worlds

ASSUMPTIONS = ["special files: a FIFO at an export location blocks the run in open() (known finding K4); other special files are not generated", "allocation failure for buffers sized by declared lengths is runtime (known finding K2)", "clap argument parsing of the CLI is not modelled; the binary is exercised as a child process"]
GARBAGE = [b"", b"garbage", b"d4:infoi1ee", b"d4:infod4:name1:a12:piece lengthi4e6:pieces0:ee", b"le", b"d4:infod6:lengthi4e4:name2:..12:piece lengthi4e6:pieces20:aaaaaaaaaaaaaaaaaaaaee"]


def bad_path_scenarios(ctx, n):
    out = []
    for i in range(n):
        rng = vlib.rng_for(ctx["seed"], "C16bad/%d" % i)
        w = runprops.world_for("bad", ctx["seed"], i)
        pos = rng.randrange(len(w.scans) + 1)
        kind = rng.choice(["relative", "missing", "file", "nested-missing", "nested-file"])
        # replace one of the paths by the bad one, or (scan paths only) add the bad one next to the valid ones
        mode = rng.choice(["replace", "insert"]) if not kind.startswith("nested") else "insert"
        if i % 6 == 4:
            kind = rng.choice(["fifo", "devnull"])   # exists, absolute, neither a directory nor a regular file
            mode = "replace" if kind == "devnull" else mode
        if i % 6 == 5:
            kind = "dotdot-missing"       # <tree>/lnk_bad/../ghost: the kernel resolves it to a path that does not exist, a textual fold to one that does
        out.append((runprops.Scenario("bad", ctx["seed"], i, {"pos": pos, "kind": kind, "mode": mode}), w))
    return out


def bad_kwargs(sc, w):
    # paths are resolved inside run_in_tree relative to the tree, so build them lazily through a marker
    return {"bad": (sc.variant["pos"], sc.variant["kind"])}


def run_bad(ctx, scen):
    """Bad-path runs need the tree location: materialise, then override one path."""
    jobs = []
    results = {}

    def one(item):
        i, (sc, w) = item
        root = tempfile.mkdtemp(prefix="tbv-", dir=runlib.SANDBOX_BASE)
        try:
            tree = os.path.join(root, "w")
            worldgen.materialise(w, tree)
            btree = os.fsencode(tree)
            scans = [os.path.join(btree, *s) for s in w.scans]
            export = os.path.join(btree, *w.export)
            pos, kind = sc.variant["pos"], sc.variant["kind"]
            first_file = next((os.path.join(btree, *k) for k, v in sorted(w.files.items()) if v[0] == "file" and w.scans and k[:len(w.scans[0])] == tuple(w.scans[0])), os.path.join(btree, b"loose.bin"))
            if kind == "fifo" and not os.path.lexists(os.path.join(btree, b"a-fifo")):
                os.mkfifo(os.path.join(btree, b"a-fifo"))
            if kind == "dotdot-missing":
                os.makedirs(os.path.join(btree, b"bystander", b"deep"), exist_ok=True)
                os.makedirs(os.path.join(btree, b"ghost"), exist_ok=True)
                if not os.path.lexists(os.path.join(btree, b"lnk_bad")):
                    os.symlink(b"bystander/deep", os.path.join(btree, b"lnk_bad"))
            bad = {"fifo": os.path.join(btree, b"a-fifo"), "devnull": b"/dev/null", "dotdot-missing": os.path.join(btree, b"lnk_bad", b"..", b"ghost"), "relative": b"relative/dir", "missing": os.path.join(btree, b"no-such-dir"), "file": os.path.join(btree, b"loose.bin"),
                   "nested-missing": os.path.join(scans[0], b"no-such-child") if scans else os.path.join(btree, b"no-such-dir"),
                   "nested-file": first_file}[kind]
            if sc.variant.get("mode") == "insert":
                scans.insert(min(pos, len(scans)), bad)     # the valid directories stay; the bad one may lie inside one of them
            elif pos < len(scans):
                scans[pos] = bad
            else:
                export = bad
            rr = runlib.RunResult()
            rr.root = root
            rr = runlib.run_in_tree(w, tree, rr, scans_override=scans, export_override=export)
            rr.world = w
            return i, rr, runlib.canonical_events(rr)
        finally:
            shutil.rmtree(root, ignore_errors=True)
    import concurrent.futures
    with concurrent.futures.ThreadPoolExecutor(max_workers=vlib.JOBS) as ex:
        for i, rr, ce in ex.map(one, list(enumerate(scen))):
            results["b%d" % i] = (rr, ce)
    return results


def degenerate_world(rng, i):
    """Loadable but degenerate torrents: padding-only pieces, (almost) only empty files, huge declared lengths, odd names."""
    w = worldgen.World()
    kind = ["pad-only-piece", "empties", "huge-declared", "odd-names", "huge-padding"][i % 5]
    T, F = worldgen.TorrentSpec, worldgen.TFile
    if kind == "pad-only-piece":
        L = rng.choice([2, 3, 4])
        files = [F([b"a"], worldgen.rand_content(rng, L)), F([b".pad", b"7"], bytes(L * rng.choice([1, 2])), pad=True), F([b"b"], worldgen.rand_content(rng, rng.randint(1, L)))]
        t = T(b"padonly", L, files, False)
    elif kind == "empties":
        files = [F([b"e%d" % k], b"") for k in range(rng.randint(1, 3))] + [F([b"x"], worldgen.rand_content(rng, rng.randint(1, 5)))] + [F([b"z%d" % k], b"") for k in range(rng.randint(0, 2))]
        rng.shuffle(files)
        t = T(b"empt", rng.choice([1, 2, 4, 8]), files, False)
    elif kind == "odd-names":
        nm = rng.choice([b"...", b".hidden", b"a\\b", b" ", b"x" * 200, "‮name".encode(), b"con", b"a\tb", b"-rf", b"*", b"~"])
        files = [F([nm, rng.choice([b"...", b"..a", b"a..", b" x "])], worldgen.rand_content(rng, 5)), F([b"q"], worldgen.rand_content(rng, 3))]
        t = T(nm, 4, files, False)
    else:
        t = None
    w.put_dir((b"scan0",)); w.put_dir(w.export)
    w.scans = [(b"scan0",)]
    raw = None
    if t is not None:
        w.torrents = [t]
        for f in t.files:
            if not f.pad and rng.random() < 0.8:
                w.put_file((b"scan0", b"c_" + (f.path[-1] if len(f.path[-1]) < 100 else b"long")), f.content)
        w.presented = [0]
    else:
        # declared lengths far beyond anything on disk; pieces are rejected (no candidate), nothing is allocated
        big = 2 ** 46
        if kind == "huge-declared":
            info = {b"name": b"huge", b"piece length": big, b"pieces": b"\x01" * 20 + b"\x02" * 20, b"files": [{b"length": big, b"path": [b"a"]}, {b"length": 3, b"path": [b"b"]}]}
        else:
            info = {b"name": b"hugepad", b"piece length": big, b"pieces": b"\x01" * 20, b"files": [{b"length": 4, b"path": [b"a"]}, {b"length": big - 4, b"path": [b".pad", b"1"]}]}
            w.put_file((b"scan0", b"a"), b"abcd")
        raw = docgen.enc({b"info": info})
        w.presented = [raw]
    w.threads = rng.choice([1, 2])
    w.notes["kind"] = kind
    return w, kind


def near_miss_world(rng, i):
    import hashlib
    w = worldgen.World()
    n = rng.choice([1, 3, 4, 7])
    L = rng.choice([2, 4, 8])
    content = worldgen.rand_content(rng, n)
    hashes = b"".join(hashlib.sha1(content[k:k + L]).digest() for k in range(0, n, L))
    bad = rng.choice([b"..", b"", b".", b"a/b", b"/abs", b"../x"])
    where = ["name.utf-8", "name", "path.utf-8", "path"][i % 4]
    info = {b"piece length": L, b"pieces": hashes}
    if where.startswith("name"):
        info[b"length"] = n
        info[b"name"] = b"plain" if where == "name.utf-8" else bad
        if where == "name.utf-8":
            info[b"name.utf-8"] = bad
    else:
        info[b"name"] = b"plain"
        f = {b"length": n, b"path": [b"sub", b"leaf"] if where == "path.utf-8" else [b"sub", bad]}
        if where == "path.utf-8":
            f[b"path.utf-8"] = [bad, b"leaf"] if rng.random() < 0.5 else [b"sub", bad]
        info[b"files"] = [f]
    w.put_dir((b"scan0",)); w.put_dir(w.export)
    w.scans = [(b"scan0",)]
    for k in range(rng.choice([2, 3])):
        w.put_file((b"scan0", b"cand%d" % k), content if k == 0 else worldgen.corrupt(rng, content))
    w.put_file((b"loose.bin",), b"outside everything")
    w.presented = [docgen.enc({b"info": info})]
    w.threads = rng.choice([1, 2])
    w.notes["near"] = "%s=%r" % (where, bad)
    return w


def cli_binary():
    env = {"CARGO_TARGET_DIR": os.path.join(vlib.HARNESS, "target-cli")}
    rc, out, err = vlib.sh(["cargo", "build", "--offline", "--quiet", "--bin", "torrent_bootstrap"], cwd=vlib.REPO, env=env, timeout=1800)
    if rc != 0:
        raise vlib.CheckError("CLI build failed: " + err[-2000:])
    return os.path.join(vlib.HARNESS, "target-cli", "debug", "torrent_bootstrap")


def cli_runs(ctx, n):
    """The real binary: a torrent file that fails to load is reported and skipped."""
    exe = cli_binary()
    out = []
    for i in range(n):
        rng = vlib.rng_for(ctx["seed"], "C16cli/%d" % i)
        w = runprops.world_for("cli", ctx["seed"], i)
        root = tempfile.mkdtemp(prefix="tbv-", dir=runlib.SANDBOX_BASE)
        try:
            tree = os.path.join(root, "w")
            worldgen.materialise(w, tree)
            follow, _ = runlib.prepare_links(w, os.fsencode(tree))
            before = worldgen.snapshot(tree, *follow)
            tdir = os.path.join(root, "torrents")
            os.makedirs(tdir)
            paths = []
            items = [("good", t.raw) for t in w.torrents]
            items.insert(rng.randrange(len(items) + 1), ("bad", rng.choice(GARBAGE)))
            if rng.random() < 0.5:
                items.insert(rng.randrange(len(items) + 1), ("bad", rng.choice(GARBAGE)))
            for k, (kind, raw) in enumerate(items):
                p = os.path.join(tdir, "t%d.torrent" % k)
                open(p, "wb").write(raw)
                paths.append(p)
            args = [exe, "--torrents"] + paths + ["--scan"] + [os.path.join(tree, *[os.fsdecode(c) for c in s]) for s in w.scans] + ["--export", os.path.join(tree, *[os.fsdecode(c) for c in w.export]), "--threads", str(w.threads)]
            if w.resize:
                args.append("--resize-export-files")
            p = subprocess.run(args, stdout=subprocess.PIPE, stderr=subprocess.PIPE, timeout=120)
            after = worldgen.snapshot(tree, *follow)
            rr = runlib.RunResult()
            rr.before, rr.after, rr.tree, rr.result = before, after, tree, "ok"
            rr.presented = list(range(len(w.torrents)))
            rr.stdout = p.stdout.decode("utf-8", "replace")
            rr.progress = []
            out.append({"i": i, "w": w, "rr": rr, "rc": p.returncode, "stderr": p.stderr.decode("utf-8", "replace"), "nbad": sum(1 for k, _ in items if k == "bad")})
        finally:
            shutil.rmtree(root, ignore_errors=True)
    return out


def fifo_run(ctx):
    """One run of the CLI with a named pipe at the export location of the torrent's only file.  True if it had to be killed."""
    import hashlib
    exe = cli_binary()
    root = tempfile.mkdtemp(prefix="tbv-", dir=runlib.SANDBOX_BASE)
    try:
        content = b"abc"
        info = {b"name": b"t", b"length": 3, b"piece length": 4, b"pieces": hashlib.sha1(content).digest()}
        raw = docgen.enc({b"info": info})
        ih = hashlib.sha1(docgen.enc(info)).hexdigest()
        os.makedirs(os.path.join(root, "scan"))
        open(os.path.join(root, "scan", "t"), "wb").write(content)
        d = os.path.join(root, "export", ih, "Data")
        os.makedirs(d)
        os.mkfifo(os.path.join(d, "t"))
        tp = os.path.join(root, "t.torrent")
        open(tp, "wb").write(raw)
        try:
            subprocess.run([exe, "--torrents", tp, "--scan", os.path.join(root, "scan"), "--export", os.path.join(root, "export"), "--threads", "1"],
                           stdout=subprocess.PIPE, stderr=subprocess.PIPE, timeout=5)
            return False
        except subprocess.TimeoutExpired:
            return True
    finally:
        shutil.rmtree(root, ignore_errors=True)


def correspondence(ctx):
    tier = ctx["tier"]
    findings, broken, runs = [], [], []
    stats = collections.Counter()
    known_lines = set()
    # (a) bad paths
    scen = bad_path_scenarios(ctx, 60 if tier == "quick" else 400)
    res = run_bad(ctx, scen)
    ver = worlds.validate_many(res, ctx["driver"])
    for i, (sc, w) in enumerate(scen):
        rr, ce = res["b%d" % i]
        runs.append({"sc": sc, "w": w, "rr": rr, "ce": ce, "verdict": ver["b%d" % i]})
        stats["bad path %s at %s" % (sc.variant["kind"], "export" if sc.variant["pos"] >= len(w.scans) else "scan")] += 1
        bad = None
        if rr.result != "err":
            bad = "a %s %s path did not make the run fail: result %s" % (sc.variant["kind"], "export" if sc.variant["pos"] >= len(w.scans) else "scan", rr.result)
        elif rr.before != rr.after:
            bad = "the run failed on a bad path but the tree changed"
        elif any(ev["t"] != "probe" or ev.get("flags") for ev in ce["prelude"]) or ce["pieces"]:
            bad = "the run failed on a bad path after doing more than stat'ing the arguments"
        if bad and len(findings) < 5:
            findings.append({"scenario": sc.ident(), "violated_clause": bad, "world": runprops.describe_world(w)})
        elif not bad and not ver["b%d" % i].startswith("ok") and len(broken) < 10:
            broken.append({"what": "bad-path run is not a behaviour of the model: " + ver["b%d" % i][:500], "scenario": sc.ident()})
    # (b) no loadable torrent / unloadable among loadable
    scen2 = []
    for i in range(30 if tier == "quick" else 200):
        rng = vlib.rng_for(ctx["seed"], "C16none/%d" % i)
        w = runprops.world_for("none", ctx["seed"], i)
        if i % 2 == 0:
            w.presented = [rng.choice(GARBAGE) for _ in range(rng.randint(0, 2))]
        else:
            w.presented = list(w.presented)
            w.presented.insert(rng.randrange(len(w.presented) + 1), rng.choice(GARBAGE))
        scen2.append((runprops.Scenario("none", ctx["seed"], i, {"mode": "none" if i % 2 == 0 else "mixed"}), w))
    # documents one step away from loadable: a degenerate value ('..', '', '.', a separator, an absolute path) in the
    # name / path variant the loader would USE, everything else well-formed, and several files of the declared length
    # on disk (so that a loader that lets one through reaches the candidate ranking and the writer)
    for i in range(24 if tier == "quick" else 160):
        rng = vlib.rng_for(ctx["seed"], "C16near/%d" % i)
        w = near_miss_world(rng, i)
        scen2.append((runprops.Scenario("none", ctx["seed"], 1000 + i, {"mode": "none", "near": w.notes["near"]}), w))
    r2 = runprops.run_scenarios(ctx, scen2)
    for r in r2:
        runs.append(r)
        rr, w = r["rr"], r["w"]
        bad = None
        if r["sc"].variant["mode"] == "none":
            stats["no loadable torrent"] += 1
            if rr.result != "ok":
                bad = "a run without a loadable torrent must succeed, got %s" % rr.result
            elif rr.before != rr.after or rr.records:
                bad = "a run without a loadable torrent touched the file system"
        else:
            stats["unloadable among loadable"] += 1
            cx = oracles.Ctx(w, rr, r["ce"])
            bad = (None if rr.result in ("ok", "err") else "the run did not return a result: " + rr.result) or oracles.c01(cx) or oracles.c02(cx) or oracles.c15(cx)
        if bad and len(findings) < 5:
            findings.append({"scenario": r["sc"].ident(), "violated_clause": bad, "world": runprops.describe_world(w)})
        elif not bad and not r["verdict"].startswith("ok") and len(broken) < 10:
            broken.append({"what": "run is not a behaviour of the model: " + r["verdict"][:500], "scenario": r["sc"].ident()})
    # (c) degenerate but loadable torrents
    scen3 = []
    for i in range(50 if tier == "quick" else 300):
        rng = vlib.rng_for(ctx["seed"], "C16deg/%d" % i)
        w, kind = degenerate_world(rng, i)
        scen3.append((runprops.Scenario("deg", ctx["seed"], i, {"kind": kind}), w))
    r3 = runprops.run_scenarios(ctx, scen3)
    for r in r3:
        runs.append(r)
        rr, w, kind = r["rr"], r["w"], r["sc"].variant["kind"]
        stats["degenerate: " + kind] += 1
        bad = None
        if rr.result not in ("ok", "err"):
            if kind == "huge-padding" and any(k.get("status") == "known" and k.get("id") == "K2" for k in vlib.known_findings()) and rr.rc not in (0, 77) and "memory allocation" in rr.stderr:
                known_lines.add("K2: a piece containing a declared padding length of 2^46 bytes aborts the process in vec![0; len] (memory allocation failure)")
                continue
            bad = "a loadable %s torrent crashed the run: result %s rc %s %s" % (kind, rr.result, rr.rc, (getattr(rr, "result_msg", "") or rr.stderr[-200:]))
        elif w.torrents:
            cx = oracles.Ctx(w, rr, r["ce"])
            bad = oracles.c01(cx) or oracles.c02(cx) or oracles.c12(cx)
        if bad and len(findings) < 5:
            findings.append({"scenario": r["sc"].ident(), "violated_clause": bad, "world": runprops.describe_world(w) if w.torrents else {"kind": kind}})
        elif not bad and w.torrents and not r["verdict"].startswith("ok") and len(broken) < 10:
            broken.append({"what": "run is not a behaviour of the model: " + r["verdict"][:500], "scenario": r["sc"].ident()})
    # (d) the CLI binary
    for c in cli_runs(ctx, 8 if tier == "quick" else 40):
        stats["cli runs"] += 1
        bad = None
        if c["rc"] != 0:
            bad = "the CLI exited with status %d" % c["rc"]
        elif c["stderr"].count("Unable to load torrent") != c["nbad"]:
            bad = "%d unloadable torrent files, %d reported" % (c["nbad"], c["stderr"].count("Unable to load torrent"))
        elif "panicked" in c["stderr"]:
            bad = "the CLI panicked: " + c["stderr"][-200:]
        else:
            cx = oracles.Ctx(c["w"], c["rr"], {"pieces": {}, "prelude": [], "outcomes": {}})
            if "Error:" not in c["stderr"]:
                for t, pc in oracles.available_pieces(cx):
                    if not cx.piece_verifies(c["rr"].after, t, pc, False):
                        bad = "CLI run with an unloadable torrent file: available piece %d of %s not recovered" % (pc[0], t.hex)
                        break
        if bad and len(findings) < 5:
            findings.append({"scenario": {"tag": "cli", "world_seed": ctx["seed"], "index": c["i"]}, "violated_clause": bad, "stderr": c["stderr"][-400:]})
    # (e) a FIFO at an export location (known finding K4): the run must return; it blocks in open()
    hung = fifo_run(ctx)
    stats["cli runs"] += 1
    if hung:
        if any(k.get("status") == "known" and k.get("id") == "K4" for k in vlib.known_findings()):
            known_lines.add("K4: the export location of a torrent file is a FIFO: the run never returns (open() of the named pipe blocks)")
        elif len(findings) < 5:
            findings.append({"scenario": {"tag": "fifo", "world_seed": ctx["seed"]}, "violated_clause": "with a FIFO at the export location of a torrent file the CLI does not return (killed after the time limit)"})
    out = runprops.result("C16", ctx, runs, findings, broken, dict(stats),
                          "a FIFO or a device node as a directory argument; a missing directory spelled through a symbolic link and '..' whose textual fold exists; near-loadable documents (a degenerate value in the name / path variant the loader uses, same-length files on disk); bad path of every kind (relative / missing / a file; also missing or a file INSIDE a valid scan directory, added next to the valid ones) in every position (each scan directory, the export directory); no loadable torrent; unloadable documents among loadable ones; degenerate loadable torrents (padding-only pieces, empty files, 2^46-byte declared lengths, odd names); the CLI binary with unloadable torrent files; each run in a child process",
                          "bad_path_no_effect (prelude program), solve_prog_good (no panic), load_total proved; tied to the code by trace validation and child-process outcomes")
    out["known_lines"] = sorted(known_lines)
    out["evaluations"] = len(runs) + stats["cli runs"]
    out["distinct_nontrivial"] = len(runs)
    return out


def replay(ctx, payload):
    print(payload.get("violated_clause"))
    print("re-run: ./check C16 with VERIF_SEED=%s" % payload.get("seed"))
    return 1
