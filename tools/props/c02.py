"""C02 - every piece whose data is present on disk is recovered into the export tree."""
import oracles
from props import runbase
import worldgen


def more_empties(w, rng):
    """Rebuild the first multi-file torrent with empty files first / middle / last (and keep candidates)."""
    pass


correspondence, search, replay, ASSUMPTIONS = runbase.make(
    "C02", [oracles.c02],
    [("std", 200, 2000, {}, None), ("empties", 100, 1000, {"empties": True}, None)],
    "generated worlds with 0-4 candidates per file and the correct one in every position, renamed/moved files, hard-linked duplicates, other torrents' export files as candidates, padding taken as zeros, empty files first/middle/last; availability computed from the initial snapshot by an independent oracle vs the export tree afterwards; every run replayed against the model",
    "the run is a behaviour of the model (index registration, ranking, pruning, exhaustive combination search, writer) - trace validation; completeness lemmas of the search on the model",
    ["hypotheses of the statement: no I/O fault during the run, witnesses stay in place (scan files are never written: C03; own export files only receive correct bytes: C01)"])
