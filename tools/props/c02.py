"""C02 - every piece whose data is present on disk is recovered into the export tree."""
import oracles
from props import runbase
import worldgen


def more_empties(w, rng):
    """Rebuild the first multi-file torrent with empty files first / middle / last (and keep candidates)."""
    pass


def stale_export(w, rng):
    """The only correct copy of one file sits INSIDE the export directory at a place that is not the
    export location of any loaded torrent (the sub-tree of a torrent exported earlier and not loaded
    now, or a stray file), and the export directory is - or lies below - a scan directory."""
    cands = [(t, f) for t in w.torrents for f in t.files if not f.pad and f.length > 0]
    if not cands:
        return
    t, f = rng.choice(cands)
    w.remove_files(lambda rel, data: data == f.content)
    where = rng.choice([(b"0123456789abcdef0123456789abcdef01234567", b"Data", b"old", b"copy.bin"), (b"stray.bin",), (b"tmp", b"x", b"copy")])
    rel = tuple(w.export) + where
    for i in range(len(w.export) + 1, len(rel)):
        if rel[:i] not in w.files:
            w.put_dir(rel[:i])
    w.put_file(rel, f.content)
    w.scans = rng.choice([[tuple(w.export)], [()], list(w.scans) + [tuple(w.export)]])
    w.resize = False


def linked_inside(w, rng):
    """The only correct copy of one file lies in a directory outside every scan directory that is reachable through a
    symbolic link INSIDE a scan directory, and that link is itself given as a scan directory: the walk of the outer
    directory skips the link, the link's own walk follows it (walkdir follows its root)."""
    cands = [(t, f) for t in w.torrents for f in t.files if not f.pad and f.length > 0]
    real = [s for s in w.scans if s and not s[-1].startswith(b"lnk")]
    if not cands or not real:
        return
    t, f = rng.choice(cands)
    w.remove_files(lambda rel, data: data == f.content)
    w.put_dir((b"elsewhere",))
    w.put_file((b"elsewhere", b"kept_" + (f.path[-1] if f.path else t.name)[:30]), f.content)
    s = tuple(real[0])
    lnk = s + (b"lnk_m",)
    w.files[lnk] = ("symlink", b"../" * len(s) + b"elsewhere")
    w.scans = list(w.scans) + [lnk]
    w.resize = False


def twin_files(w, rng):
    """A multi-file torrent with two files of the same length and content (a LICENSE shipped twice) that one piece
    touches, and a single copy of them on disk under another name - the same candidate file serves both segments."""
    import worldgen
    F = worldgen.TFile
    body = worldgen.rand_content(rng, rng.randint(1, 3))
    head = F([b"h.bin"], worldgen.rand_content(rng, rng.randint(0, 3)))
    a = F([b"docs", b"LICENSE"], body)
    b = F([b"LICENSE"], body)
    tail = F([b"t.bin"], worldgen.rand_content(rng, rng.randint(1, 4)))
    t = worldgen.TorrentSpec(b"twins%d" % rng.randint(0, 99), rng.choice([8, 16]), [head, a, b, tail], False)
    if any(t.info_hash == u.info_hash for u in w.torrents):
        return
    w.torrents.append(t)
    w.presented = list(w.presented) + [len(w.torrents) - 1]
    root = list(w.scans[0])
    w.put_file(tuple(root + [b"tw_copying.txt"]), body)                      # the one copy, renamed
    if rng.random() < 0.3:
        w.put_file(tuple(root + [b"tw_other_name"]), body)                   # or two copies, both renamed
    for k, f in ((0, head), (3, tail)):
        if f.length:
            w.put_file(tuple(root + [b"tw_%d" % k]), f.content)


correspondence, search, replay, ASSUMPTIONS = runbase.make(
    "C02", [oracles.c02],
    [("std", 170, 1700, {}, None), ("empties", 80, 900, {"empties": True}, None), ("stale", 50, 400, {}, stale_export), ("twins", 24, 200, {}, twin_files), ("linkin", 24, 200, {}, linked_inside)],
    "(stream linkin) the only copy of a file reachable through a symbolic link inside a scan directory that is itself a scan directory; (stream twins) two identical files of a torrent inside one piece with a single renamed copy on disk; generated worlds with 0-4 candidates per file and the correct one in every position, renamed/moved files, hard-linked duplicates, other torrents' export files as candidates, data that lives only inside the export directory outside every loaded torrent's export location (scan directory = export directory or above it), padding taken as zeros, empty files first/middle/last; availability computed from the initial snapshot by an independent oracle vs the export tree afterwards; every run replayed against the model",
    "the run is a behaviour of the model (index registration, ranking, pruning, exhaustive combination search, writer) - trace validation; completeness lemmas of the search on the model",
    ["hypotheses of the statement: no I/O fault during the run, witnesses stay in place (scan files are never written: C03; own export files only receive correct bytes: C01)"])
