"""C06 - piece layout: Pieces::from_torrent vs the model LayoutModel.layout, plus an
independent interval-arithmetic oracle that names the violated clause."""
import itertools
import vlib

ASSUMPTIONS = [
    "the theorems are about LayoutModel.v; the tie to src/torrent/pieces.rs is the differential run below",
    "hash counts are those the loader enforces (hashes_ok); C06_hash_count proves the loader's test equal to it",
]
U64 = 2 ** 64 - 1


def ceil_div(a, b):
    return (a + b - 1) // b


def gen_cases(ctx):
    tier, rng = ctx["tier"], vlib.rng_for(ctx["seed"], "C06")
    cases = []
    dist = {"exhaustive_multi": 0, "exhaustive_single": 0, "random_small": 0, "huge": 0}
    maxf, maxlen, maxl = (4, 5, 6) if tier == "quick" else (5, 6, 8)
    n = 0
    for nf in range(1, maxf + 1):
        for lens in itertools.product(range(maxlen + 1), repeat=nf):
            tot = sum(lens)
            for L in range(1, maxl + 1):
                cases.append("m%d M %d %d %s" % (n, L, ceil_div(tot, L), " ".join(map(str, lens))))
                n += 1
                dist["exhaustive_multi"] += 1
    for flen in range(0, 40 if tier == "quick" else 120):
        for L in range(1, 12 if tier == "quick" else 30):
            cases.append("s%d S %d %d %d" % (n, L, ceil_div(flen, L), flen))
            n += 1
            dist["exhaustive_single"] += 1
    # piece length 0 is loadable only for an empty torrent (no hashes)
    cases.append("z%d M 0 0 0 0 0" % n); n += 1
    cases.append("z%d S 0 0 0" % n); n += 1
    for _ in range(1500 if tier == "quick" else 15000):
        nf = rng.randint(1, 9)
        lens = [rng.choice([0, 0, 1, 2, 3, rng.randint(0, 40), rng.randint(0, 300)]) for _ in range(nf)]
        L = rng.choice([1, 2, 3, 4, 7, 16, rng.randint(1, 64), rng.randint(1, 400)])
        cases.append("r%d M %d %d %s" % (n, L, ceil_div(sum(lens), L), " ".join(map(str, lens))))
        n += 1
        dist["random_small"] += 1
    big = [2 ** 32 - 1, 2 ** 32, 2 ** 32 + 1, 2 ** 63 - 1, 2 ** 63, 2 ** 63 + 1, U64 - 1, U64]
    for _ in range(800 if tier == "quick" else 8000):
        nf = rng.randint(1, 5)
        lens = [rng.choice(big + [0, 1, rng.randint(0, U64)]) for _ in range(nf)]
        tot = sum(lens)
        # keep the number of pieces small: piece length within a factor 40 of the total
        lo = max(1, tot // 40)
        L = min(U64, rng.choice([max(lo, 1), rng.randint(lo, max(lo, min(U64, tot + 3))), U64, max(1, tot // 2), max(1, tot // 3 + 1)]))
        nh = ceil_div(tot, L)
        if nh > 64:
            continue
        form = "M"
        if nf == 1 and rng.random() < 0.5:
            form = "S"
        cases.append("h%d %s %d %d %s" % (n, form, L, nh, " ".join(map(str, lens))))
        n += 1
        dist["huge"] += 1
    return cases, dist


def oracle(case, impl):
    """Clause-by-clause check of an implementation result against closed-form interval arithmetic.
    Returns None if the result satisfies C06 for this case, else the violated clause."""
    t = case.split()
    form, L, nh = t[1], int(t[2]), int(t[3])
    lens = list(map(int, t[4:]))
    tot = sum(lens)
    if not impl.startswith("ok"):
        return "from_torrent did not return a layout: " + impl
    body = impl[3:].strip()
    pieces = body.split("|") if body else []
    if len(pieces) != nh:
        return "expected %d pieces, got %d" % (nh, len(pieces))
    starts = [0]
    for x in lens:
        starts.append(starts[-1] + x)
    for i, p in enumerate(pieces):
        pos, hidx, plen, segs = p.split(":")
        if int(pos) != i or hidx != str(i):
            return "piece %d carries position %s / hash %s" % (i, pos, hidx)
        lo, hi = i * L, min((i + 1) * L, tot)
        want = []
        for k, x in enumerate(lens):
            a, b = max(lo, starts[k]), min(hi, starts[k] + x)
            if a < b:
                want.append((k, a - starts[k], b - a, x))
        got = [tuple(map(int, s.split(","))) for s in segs.split(";") if s]
        pos_got = [g for g in got if g[2] > 0]
        if pos_got != want:
            return "piece %d: positive-length segments %s, interval arithmetic gives %s" % (i, pos_got, want)
        for g in got:
            if g[2] == 0 and not (g[3] == 0 and g[1] == 0 and lens[g[0]] == 0):
                return "piece %d: zero-length segment %s not for an empty file" % (i, g)
        if int(plen) != hi - lo:
            return "piece %d: length field %s, expected %d" % (i, plen, hi - lo)
    return None


def hashcount_cases(ctx):
    """The loader's hash-count test (torrent.rs) through Torrent::from_bytes vs the model's load,
    on totals up to far above 2^64 with tiny piece lengths (expected piece counts >= 2^64)."""
    import docgen
    rng = vlib.rng_for(ctx["seed"], "C06hc")
    docs = []
    big = [U64, U64 - 1, 2 ** 63, 2 ** 32, 3, 1, 0]
    for _ in range(400 if ctx["tier"] == "quick" else 4000):
        nf = rng.randint(1, 4)
        lens = [rng.choice(big) for _ in range(nf)]
        tot = sum(lens)
        L = rng.choice([1, 1, 2, 3, 2 ** 32, U64, max(1, tot // 2), 0])
        want = 0 if tot == 0 else (ceil_div(tot, L) if L else 0)
        nh = rng.choice([want % (2 ** 64), want % (2 ** 64), want, want + 1, max(0, want - 1), 0, 1, 2])
        nh = min(nh, 5)
        info = {b"name": b"n", b"piece length": L, b"pieces": b"\x07" * (20 * nh), b"files": [{b"length": x, b"path": [b"f%d" % i]} for i, x in enumerate(lens)]}
        docs.append(docgen.enc({b"info": info}))
    return ["q%d %s" % (i, d.hex()) for i, d in enumerate(docs)]


def doc_cases(ctx):
    """Whole documents through Torrent::from_bytes + Pieces::from_torrent vs the model's load + layout:
    small length vectors (zeros anywhere), repeated paths, the same file name in different
    directories, single-file form, and the structured documents of the loader stream."""
    import docgen
    rng = vlib.rng_for(ctx["seed"], "C06doc")
    docs = []
    n = 600 if ctx["tier"] == "quick" else 6000
    for _ in range(n):
        nf = rng.randint(1, 5)
        lens = [rng.choice([0, 0, 1, 2, 3, 4, 5, 8]) for _ in range(nf)]
        L = rng.choice([1, 2, 3, 4, 8])
        tot = sum(lens)
        nh = ceil_div(tot, L) if tot else 0
        names = [b"a.bin", b"b.bin", b"c", b"a.bin", b"d"]
        style = rng.random()
        files = []
        for i, x in enumerate(lens):
            if style < 0.35:
                path = [rng.choice(names)]                       # repeated paths are likely
            elif style < 0.6:
                path = [rng.choice([b"d1", b"d2"]), rng.choice(names)]
            else:
                path = [b"f%d" % i]
            files.append({b"length": x, b"path": path})
        hashes = b"".join(bytes([i + 1]) * 20 for i in range(nh))
        if nf == 1 and rng.random() < 0.5:
            info = {b"name": b"n", b"piece length": L, b"pieces": hashes, b"length": lens[0]}
        else:
            info = {b"name": b"n", b"piece length": L, b"pieces": hashes, b"files": files}
        docs.append(docgen.enc({b"info": info}))
    for _ in range(n // 3):
        docs.append(docgen.structured(rng)[0])
    return ["d%d %s" % (i, d.hex()) for i, d in enumerate(docs)]


def doc_oracle(case, impl):
    """The declared (length) list of the document, by the reference loader, against interval arithmetic."""
    import docgen
    x = bytes.fromhex(case.split()[1])
    verdict, want = docgen.ref_load(x)
    if verdict != "ok" or not impl.startswith("ok"):
        return None
    fields = dict(f.split("=", 1) for f in want.split()[1:])
    if fields["files"] == "-":
        lens, form = [int(fields["len"])], "S"
    else:
        lens, form = [int(e.split(":")[0]) for e in fields["files"][1:-1].split(",")], "M"
    L = int(fields["pl"])
    hashes = [h for h in fields["hashes"].split(",") if h] if fields["hashes"] not in ("", "-") else []
    body = impl[3:].strip()
    got = []
    for pce in (body.split("|") if body else []):
        pos, hx, plen, segs = pce.split(":")
        got.append((int(pos), hx, int(plen), [tuple(map(int, sg.split(","))) for sg in segs.split(";") if sg]))
    if len(got) != len(hashes):
        return "the layout of the loaded document has %d pieces for %d hashes" % (len(got), len(hashes))
    starts = [0]
    for v in lens:
        starts.append(starts[-1] + v)
    tot = starts[-1]
    for i, (pos, hidx, plen, segs) in enumerate(got):
        lo, hi = i * L, min((i + 1) * L, tot)
        want_segs = []
        for k, v in enumerate(lens):
            a, b = max(lo, starts[k]), min(hi, starts[k] + v)
            if a < b:
                want_segs.append((k, a - starts[k], b - a, v))
        if [sg for sg in segs if sg[2] > 0] != want_segs:
            return "piece %d of the loaded document: segments %r, the declared file table gives %r" % (i, [sg for sg in segs if sg[2] > 0], want_segs)
    return None


def repeated_world(seed, i):
    """Torrents in which several pieces of one file are byte-identical (same SHA-1, different offsets)."""
    import worldgen
    rng = vlib.rng_for(seed, "C06repeat/%d" % i)
    w = worldgen.World()
    w.put_dir(w.export)
    w.put_dir((b"scan0",))
    w.scans = [(b"scan0",)]
    L = rng.choice([2, 3, 4])
    A, B = worldgen.rand_content(rng, L), worldgen.rand_content(rng, L)
    shapes = [A + B + A, bytes(3 * L) + A, A + bytes(2 * L) + A[:rng.randint(1, L)], A * rng.choice([2, 3, 4]), B + A + A + B[:1]]
    ts = [worldgen.TorrentSpec(b"rep%d" % i, L, [worldgen.TFile([], rng.choice(shapes))], True)]
    head = worldgen.rand_content(rng, rng.randint(0, L))
    ts.append(worldgen.TorrentSpec(b"mrep%d" % i, L, [worldgen.TFile([b"h"], head), worldgen.TFile([b"d", b"body"], rng.choice(shapes)), worldgen.TFile([b"t"], worldgen.rand_content(rng, rng.randint(1, 3)))], False))
    w.torrents = sorted(ts, key=lambda t: t.info_hash)
    w.presented = list(range(len(w.torrents)))
    k = 0
    for t in w.torrents:
        for f in t.files:
            w.put_file((b"scan0", b"c%d" % k), f.content)
            k += 1
            if rng.random() < 0.4 and f.length:
                # a stale export file: one of the repeated pieces is already there, the others are not
                w.put_file(tuple(list(w.export) + t.rel_target(f)), f.content[:L] + bytes(f.length - min(L, f.length)))
    w.threads = rng.choice([1, 2, 3])
    return w


def correspondence(ctx):
    hc = hashcount_cases(ctx)
    hci = vlib.run_sharded(ctx["harness"], "load", hc)
    hcm = vlib.run_sharded(ctx["driver"], "load", hc)
    hc_dis = vlib.compare(hc, hci, hcm)
    cases, dist = gen_cases(ctx)
    dist["loader_hash_count"] = len(hc)
    impl = vlib.run_sharded(ctx["harness"], "layout", cases)
    model = vlib.run_sharded(ctx["driver"], "layout", cases)
    dis = vlib.compare(cases, impl, model)
    findings, broken = [], []
    dc = doc_cases(ctx)
    dci = vlib.run_sharded(ctx["harness"], "doclayout", dc)
    dcm = vlib.run_sharded(ctx["driver"], "doclayout", dc)
    dist["documents_through_loader_and_layout"] = len(dc)
    for d in vlib.compare(dc, dci, dcm)[:5]:
        clause = doc_oracle(d["case"], d["impl"]) or "Torrent::from_bytes + Pieces::from_torrent differs from the model's load + layout"
        findings.append({"case": d["case"][:3000], "impl": d["impl"][:600], "model": d["model"][:600], "violated_clause": clause})
    for c in dc:
        k = c.split()[0]
        if len(findings) < 5 and dci.get(k) == dcm.get(k):
            clause = doc_oracle(c, dci.get(k, ""))
            if clause:
                findings.append({"case": c[:3000], "impl": dci.get(k, "")[:600], "violated_clause": clause, "note": "implementation and model agree; the interval oracle on the declared file table disagrees with both"})
    for d in hc_dis[:5]:
        import docgen
        verdict, want = docgen.ref_load(bytes.fromhex(d["case"].split()[1]))
        findings.append({"case": d["case"], "impl": d["impl"], "model": d["model"], "reference": want,
                         "violated_clause": "the loader's hash-count test differs from ceil(total / piece length): a torrent %s although the reference says %s" % ("loads" if d["impl"].startswith("ok") else "is refused", verdict)})
    # the independent oracle is also run on every agreeing case: model and implementation could be wrong together
    agree = set(c.split()[0] for c in cases) - set(d["case"].split()[0] for d in dis)
    for c in cases:
        k = c.split()[0]
        if k in agree and len(findings) < 5:
            clause = oracle(c, impl.get(k, "<no output>"))
            if clause:
                findings.append({"case": c[:2000], "impl": impl.get(k), "model": model.get(k), "violated_clause": clause,
                                 "note": "implementation and model agree; the independent oracle derived from the property text disagrees with both"})
    for d in dis[:50]:
        clause = oracle(d["case"], d["impl"])
        if clause:
            findings.append({"case": d["case"], "impl": d["impl"], "model": d["model"], "violated_clause": clause,
                             "how_to_replay": "./check C06 --replay <this file>"})
        else:
            broken.append({"what": "LayoutModel.layout and Pieces::from_torrent differ on a case where the implementation still satisfies the interval specification", **d})
    # where the layout is consumed: the work list of real runs (orchestrator::convert_pieces_to_work) against the model's
    # [work_of], on torrents whose content repeats - equal pieces at different offsets of one file, zero runs, A-B-A -
    # so that two pieces of a torrent carry the same hash; every byte must still belong to exactly one work item
    import runprops, oracles
    rep = [(runprops.Scenario("repeat", ctx["seed"], i), repeated_world(ctx["seed"], i)) for i in range(24 if ctx["tier"] == "quick" else 200)]
    for r in runprops.run_scenarios(ctx, rep):
        dist["runs_with_repeated_pieces"] = dist.get("runs_with_repeated_pieces", 0) + 1
        cx = oracles.Ctx(r["w"], r["rr"], r["ce"])
        bad = (None if r["rr"].result == "ok" else "the run did not return Ok: %s" % r["rr"].result) or oracles.c02(cx) or oracles.c01(cx)
        if bad and len(findings) < 5:
            findings.append({"scenario": r["sc"].ident(), "violated_clause": bad, "model_verdict": r["verdict"][:300], "world": runprops.describe_world(r["w"])})
        elif not bad and not r["verdict"].startswith("ok") and len(broken) < 10:
            broken.append({"what": "run with repeated pieces is not a behaviour of the model (work list / events): " + r["verdict"][:500], "scenario": r["sc"].ident()})
    nontrivial = set()
    for c in cases:
        k = c.split(" ", 1)[0]
        r = model.get(k, "")
        if r.startswith("ok") and "|" in r:
            nontrivial.add(c.split(" ", 1)[1])
    return {
        "evaluations": len(cases), "distinct_nontrivial": len(nontrivial),
        "rule": "exhaustive length vectors (<=%s files) x piece lengths, single-file strides, random small vectors, random u64-boundary vectors with totals above 2^64; hash count = ceil(total/L); non-trivial = distinct case with at least two pieces" % ("4" if ctx["tier"] == "quick" else "5"),
        "samples": [{"case": c, "impl": impl.get(c.split()[0]), "model": model.get(c.split()[0])} for c in (cases[7], cases[len(cases) // 2], cases[-1])],
        "distribution": dist, "disagreements": len(dis), "findings": findings, "broken": broken,
        "exhaustive": False,
        "explanation": "proof of the layout theorems over LayoutModel.v + differential run of the extracted model against Pieces::from_torrent",
    }


def search(ctx, unexplained):
    """The proof or the correspondence broke without an oracle failure among the disagreements:
    run the interval oracle over every generated case (thorough generator)."""
    ctx2 = dict(ctx, tier="thorough")
    cases, _ = gen_cases(ctx2)
    impl = vlib.run_sharded(ctx["harness"], "layout", cases)
    out = []
    for c in cases:
        clause = oracle(c, impl.get(c.split()[0], "<no output>"))
        if clause:
            out.append({"case": c, "impl": impl.get(c.split()[0]), "violated_clause": clause})
            if len(out) >= 3:
                break
    return out


def replay(ctx, payload):
    harness = vlib.build_harness()
    case = payload.get("case")
    if not case:
        print(payload)
        return 1
    impl = vlib.run_sharded(harness, "layout", [case])
    r = impl.get(case.split()[0], "<no output>")
    clause = oracle(case, r)
    print("case:", case)
    print("impl:", r)
    print("violated clause:", clause)
    return 1 if clause else 0
