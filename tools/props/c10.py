"""C10 - a torrent loads iff it is well-formed and the loaded fields are faithful:
Torrent::from_bytes vs TorrentModel.load, with an independent reference loader as the oracle."""
import collections
import docgen
import vlib

ASSUMPTIONS = [
    "the theorems are about TorrentModel.v / BencodeModel.v; the tie to src/torrent/torrent.rs is the differential run on generated documents",
    "std::str::from_utf8 is modelled by Utf8.utf8_valid (compared on every name / path of every generated document and on a dedicated UTF-8 stream in the thorough tier)",
]


def gen_cases(ctx, tier=None):
    tier = tier or ctx["tier"]
    rng = vlib.rng_for(ctx["seed"], "C10")
    n = 20000 if tier == "quick" else 150000
    docs = []
    switches = collections.Counter()
    for i in range(n):
        if i % 5 == 4:
            docs.append(docgen.chaotic(rng))
            switches["chaotic-stream"] += 1
        else:
            d, sw = docgen.structured(rng)
            if i % 9 == 8:
                d = docgen.with_outer_copies(rng, d)
                switches["outer-copies-of-info-keys"] += 1
            docs.append(d)
            for s in sw or ["none"]:
                switches[s] += 1
    # UTF-8 boundary stream: every 1- and 2-byte sequence (thorough) / a sample (quick) as the name
    seqs = [bytes([a]) for a in range(256)]
    step = 1 if tier == "thorough" else 37
    seqs += [bytes([a, b]) for a in range(0xC0, 0x100) for b in range(0, 256, step)]
    seqs += [bytes(t) for t in [(0xE0, 0x9F, 0x80), (0xE0, 0xA0, 0x80), (0xED, 0x9F, 0xBF), (0xED, 0xA0, 0x80), (0xEE, 0x80, 0x80), (0xEF, 0xBF, 0xBF),
                               (0xF0, 0x8F, 0x80, 0x80), (0xF0, 0x90, 0x80, 0x80), (0xF4, 0x8F, 0xBF, 0xBF), (0xF4, 0x90, 0x80, 0x80), (0xF5, 0x80, 0x80, 0x80),
                               (0xE2, 0x82), (0xF0, 0x9F, 0x98), (0xE1, 0x80, 0xC0), (0xF1, 0x80, 0x80, 0x7F)]]
    for sq in seqs:
        docs.append(docgen.enc({b"info": {b"name": b"a" + sq + b"b", b"piece length": 1, b"pieces": b"", b"length": 0}}))
        switches["utf8-stream"] += 1
    # names / path components of awkward lengths and compositions (see docgen.string_adversaries)
    for d in docgen.string_documents(rng, None if tier == "thorough" else 900):
        docs.append(d)
        switches["string-adversary-stream"] += 1
    # well-formed documents in a non-canonical encoding (one defect at one node): none may load
    for d in docgen.noncanonical_documents(rng, 400 if tier == "quick" else 4000):
        docs.append(d)
        switches["non-canonical-encoding-stream"] += 1
    return ["c%d %s" % (i, d.hex()) for i, d in enumerate(docs)], dict(switches)


def oracle(case, impl):
    x = bytes.fromhex(case.split()[1])
    verdict, want = docgen.ref_load(x)
    if verdict == "ok" and impl != want:
        if impl == "err":
            return "refuses a well-formed document (reference: %s)" % want[:200]
        return "loaded fields differ from the values in the input: expected " + want[:300]
    if verdict == "err" and impl != "err":
        return "loads a document that is not well-formed" if impl.startswith("ok") else "no value or error returned: " + impl
    if verdict == "may-refuse" and impl not in ("err", want):
        return "document with a non-plain name: loaded fields differ from the input or no result: " + impl[:200]
    return None


def correspondence(ctx):
    cases, switches = gen_cases(ctx)
    impl = vlib.run_sharded(ctx["harness"], "load", cases)
    model = vlib.run_sharded(ctx["driver"], "load", cases)
    dis = vlib.compare(cases, impl, model)
    findings, broken = [], []
    # the independent oracle is also run on every agreeing case: model and implementation could be wrong together
    agree = set(c.split()[0] for c in cases) - set(d["case"].split()[0] for d in dis)
    for c in cases:
        k = c.split()[0]
        if k in agree and len(findings) < 5:
            clause = oracle(c, impl.get(k, "<no output>"))
            if clause:
                findings.append({"case": c[:2000], "impl": impl.get(k), "model": model.get(k), "violated_clause": clause,
                                 "note": "implementation and model agree; the independent oracle derived from the property text disagrees with both"})
    for d in dis[:50]:
        clause = oracle(d["case"], d["impl"])
        if clause:
            findings.append({"case": d["case"], "document": repr(bytes.fromhex(d["case"].split()[1]))[:600], "impl": d["impl"], "model": d["model"], "violated_clause": clause})
        else:
            broken.append({"what": "TorrentModel.load and Torrent::from_bytes differ on a document where the implementation agrees with the reference loader", **d})
    acc = [c for c in cases if model.get(c.split()[0], "").startswith("ok")]
    multi = sum(1 for c in acc if "files=[" in model[c.split()[0]])
    dist = {"documents": len(cases), "accepted": len(acc), "accepted_multi_file": multi, "switches": switches}
    return {
        "evaluations": len(cases), "distinct_nontrivial": len(set(c.split()[1] for c in acc)),
        "rule": "structured documents (well-formed template, 0-3 named switches flipped, decoy keys adjacent in sort order, u64 boundaries, .utf-8 variants), a chaotic stream, a UTF-8 boundary stream, well-formed documents in a non-canonical encoding (zero-padded string length, leading zero / -0 / + in an integer, keys out of order, repeated key, trailing bytes - at any node); compared: Err vs every loaded field incl. the info-hash; non-trivial = distinct accepted document",
        "samples": [{"case": c[:300], "impl": impl.get(c.split()[0]), "model": model.get(c.split()[0])} for c in (acc[0], acc[len(acc) // 2], cases[3])],
        "distribution": dist, "disagreements": len(dis), "findings": findings, "broken": broken,
        "explanation": "load_iff_wf / load_fields_faithful proved over TorrentModel.v + differential run of the extracted model (with the Gallina SHA-1) against Torrent::from_bytes",
    }


def search(ctx, unexplained):
    cases, _ = gen_cases(ctx, "thorough")
    impl = vlib.run_sharded(ctx["harness"], "load", cases)
    out = []
    for c in cases:
        clause = oracle(c, impl.get(c.split()[0], "<no output>"))
        if clause:
            out.append({"case": c, "impl": impl.get(c.split()[0]), "violated_clause": clause})
            if len(out) >= 3:
                break
    return out


def replay(ctx, payload):
    harness = vlib.build_harness()
    case = payload["case"]
    r = vlib.run_sharded(harness, "load", [case]).get(case.split()[0], "<no output>")
    print("document:", bytes.fromhex(case.split()[1]))
    print("impl:", r)
    print("reference:", docgen.ref_load(bytes.fromhex(case.split()[1])))
    clause = oracle(case, r)
    print("violated clause:", clause)
    return 1 if clause else 0
