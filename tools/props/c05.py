"""C05 - any thread count and interleaving: terminates, each piece evaluated exactly once.
The real executor is driven by the deterministic scheduler of the sync shim through seeded
schedules (every lock / try_lock / unlock / spawn / join / exit is a scheduling point), and also
run with real threads; each run is replayed against the model and checked by direct oracles."""
import collections
import re

import execlog

import oracles
import runlib
import runprops
import vlib
import worlds

ASSUMPTIONS = ["std::sync::Mutex / thread::spawn / join behave as locks and threads; the scheduler shim assumes sequential consistency at scheduling points (all shared data is lock-protected in the source)",
               "termination is proved on the transition system by a strictly decreasing measure (no fairness assumption); wall-clock behaviour is exercised by the runs"]


def lock_discipline(rr, nfiles):
    """Independent check of the scheduling log: mutual exclusion, and the documented lock order
    (execution state -> own queue -> other queues ascending; file locks and the counter lock with
    nothing else held except nothing)."""
    owner = {}
    held = collections.defaultdict(list)
    for line in rr.sched:
        m = re.match(r"tid=(\d+) op=(\w+)(?:\((\d+)\))? res=(\d)", line)
        if not m:
            continue
        tid, op, arg, res = int(m.group(1)), m.group(2), m.group(3), m.group(4) == "1"
        if op in ("Lock", "TryLock") and res:
            l = int(arg)
            if owner.get(l) is not None:
                return "lock %d acquired by thread %d while held by thread %d" % (l, tid, owner[l])
            owner[l] = tid
            held[tid].append(l)
        elif op == "Unlock":
            l = int(arg)
            if owner.get(l) != tid:
                return "thread %d released lock %d it does not hold" % (tid, l)
            owner[l] = None
            held[tid].remove(l)
        elif op == "Exit" and held[tid]:
            return "thread %d exited holding locks %r" % (tid, held[tid])
    return None


def oracle(r):
    rr, ce, w = r["rr"], r["ce"], r["w"]
    if rr.result == "err" and w.resize:
        return oracles.c14(oracles.Ctx(w, rr, ce))      # the pre-flight legitimately refuses an over-long export file
    if rr.result != "ok":
        return "the run did not complete: %s %s" % (rr.result, (getattr(rr, "result_msg", "") or rr.stderr[-300:]))
    if rr.deadlock:
        return "deadlock: no enabled thread while some thread is parked"
    cx = oracles.Ctx(w, rr, ce)
    total = sum(len(t.hashes) for t in cx.torrents)
    outs = ce["outcomes"]
    if sum(len(v) for v in outs.values()) != total or any(len(v) != 1 for v in outs.values()):
        return "%d piece evaluations for %d pieces (a piece was lost or evaluated twice)" % (sum(len(v) for v in outs.values()), total)
    bad = lock_discipline(rr, 0)
    if bad:
        return bad
    for fn in (oracles.c01, oracles.c02, oracles.c15):
        bad = fn(cx)
        if bad:
            return bad
    return None


def shared_file_world(seed, i):
    """Every export file is absent and is shared by several pieces that all match from the scan
    directory, so that several workers create / extend / write the same new file at the same time."""
    import worldgen
    rng = vlib.rng_for(seed, "C05shared/%d" % i)
    w = worldgen.World()
    w.put_dir((b"export",))
    w.put_dir((b"scan0",))
    w.scans = [(b"scan0",)]
    ts = []
    n1 = rng.choice([7, 9, 12])
    ts.append(worldgen.TorrentSpec(b"long%d" % i, rng.choice([2, 3]), [worldgen.TFile([], bytes(rng.randrange(1, 256) for _ in range(n1)))], True))
    files = [worldgen.TFile([b"d", b"f%d" % k], bytes(rng.randrange(1, 256) for _ in range(rng.choice([3, 4, 5])))) for k in range(rng.choice([3, 4]))]
    ts.append(worldgen.TorrentSpec(b"multi%d" % i, rng.choice([2, 3]), files, False))
    w.torrents = sorted(ts, key=lambda t: t.info_hash)
    w.presented = list(range(len(w.torrents)))
    k = 0
    for t in w.torrents:
        for f in t.files:
            w.put_file((b"scan0", b"c%d" % k), f.content)
            k += 1
    w.resize = False
    return w


def world_of(seed, i):
    if i % 5 == 4:
        return shared_file_world(seed, i)
    if i % 5 == 3:
        # torrents with empty files inside their pieces; in half of these worlds no zero-length file exists anywhere on
        # disk, so the empty files have no candidate list at all and are created by whichever worker writes their piece
        w = runprops.world_for("sched-empties", seed, i, allow_shared=False, empties=True)
        if i % 10 == 3:
            w.remove_files(lambda rel, data: len(data) == 0)
        return w
    return runprops.world_for("sched", seed, i, allow_shared=False)


def build(ctx, tier):
    nworlds = 30 if tier == "quick" else 150
    nsched = 8 if tier == "quick" else 40
    scen = []
    for i in range(nworlds):
        rng = vlib.rng_for(ctx["seed"], "C05/%d" % i)
        w = world_of(ctx["seed"], i)
        for s in range(nsched):
            import copy
            v = copy.copy(w)
            v.threads = rng.choice([2, 2, 3, 3, 8, 0, 1, 5])
            scen.append((runprops.Scenario("sched", ctx["seed"], i, {"threads": v.threads, "sched_seed": 1000 * i + s + 1}), v))
        for th in (0, 1, 2, 3, 8):
            v = copy.copy(w)
            v.threads = th
            scen.append((runprops.Scenario("sched", ctx["seed"], i, {"threads": th, "sched_seed": None}), v))
    return scen


def correspondence(ctx):
    scen = build(ctx, ctx["tier"])
    runs = runprops.run_scenarios(ctx, scen, kwargs_of=lambda sc, w: ({"sched": (sc.variant["sched_seed"], [])} if sc.variant["sched_seed"] else {}))
    findings, broken = [], []
    stats = collections.Counter()
    points = []
    # the executor's synchronisation log replayed through the extracted ExecRun.xstep: every accepted log is a
    # path of the transition system of ExecModel.v (ExecRunProofs.accepted_log_is_model_path)
    sched_runs = {"x%d" % i: (r["rr"], r["ce"]) for i, r in enumerate(runs) if r["sc"].variant["sched_seed"] and r["rr"].result == "ok" and not r["rr"].deadlock}
    exec_verdicts = execlog.validate(ctx["driver"], sched_runs)
    for i, r in enumerate(runs):
        v = exec_verdicts.get("x%d" % i)
        if v is None:
            continue
        stats["executor logs replayed"] += 1
        if v.startswith("ok"):
            stats["executor logs accepted as paths of ExecModel.step"] += 1
        elif len(broken) < 10:
            broken.append({"what": "the executor's synchronisation log is not a path of the executor model: " + v[:500], "scenario": r["sc"].ident()})
    trees = collections.defaultdict(set)
    for r in runs:
        stats["threads %d" % r["w"].threads] += 1
        stats["scheduled" if r["sc"].variant["sched_seed"] else "real threads"] += 1
        if r["rr"].sched:
            points.append(len(r["rr"].sched))
        stats["rebalances"] += sum(1 for q in r["ce"]["queues"] if q.get("tag") == "rebalance")
        bad = oracle(r)
        if bad:
            if len(findings) < 5:
                findings.append({"scenario": r["sc"].ident(), "violated_clause": bad, "model_verdict": r["verdict"][:300], "world": runprops.describe_world(r["w"]),
                                 "schedule_tail": r["rr"].sched[-30:]})
        elif not r["verdict"].startswith("ok"):
            if len(broken) < 10:
                broken.append({"what": "the scheduled run is not a behaviour of the model: " + r["verdict"][:600], "scenario": r["sc"].ident()})
        elif oracles.determined(oracles.Ctx(r["w"], r["rr"], r["ce"])):
            stats["runs of worlds whose data determines the outcome"] += 1
            trees[r["sc"].index].add(repr(sorted((k, v[0], v[1] if v[0] != "dir" else None) for k, v in r["rr"].after.items())))
    # no I/O failure is injected here: a piece may be counted as faulted under some schedule only if
    # the single-threaded run of the same world faults on it too (same guarantees as a single-threaded run)
    ref_faults = {}
    for r in runs:
        if r["sc"].variant["sched_seed"] is None and r["w"].threads == 1:
            ref_faults[r["sc"].index] = set(k for k, v in r["ce"]["outcomes"].items() if "fault" in v)
    for r in runs:
        extra = set(k for k, v in r["ce"]["outcomes"].items() if "fault" in v) - ref_faults.get(r["sc"].index, set())
        if extra and r["sc"].index in ref_faults and len(findings) < 5:
            findings.append({"scenario": r["sc"].ident(), "violated_clause": "piece(s) %s counted as faulted under this schedule / thread count although no I/O failure was injected and the single-threaded run of the same world evaluates them without fault" % sorted(extra),
                             "model_verdict": r["verdict"][:300], "world": runprops.describe_world(r["w"]), "schedule_tail": r["rr"].sched[-30:]})
    for idx, ts in trees.items():
        if len(ts) > 1 and len(findings) < 5:
            findings.append({"scenario": {"tag": "sched", "world_seed": ctx["seed"], "index": idx}, "violated_clause": "different schedules / thread counts produced different export trees for a world whose available data determines the result"})
    stats["scheduling points per run (min/median/max)"] = "%d/%d/%d" % (min(points or [0]), sorted(points or [0])[len(points) // 2] if points else 0, max(points or [0]))
    res = runprops.result("C05", ctx, runs, findings, broken, dict(stats),
                          "generated worlds x seeded schedules of the deterministic scheduler (threads 0/1/2/3/5/8, also more threads than pieces) + real-thread runs with threads 0/1/2/3/8; per run: completion, no deadlock, every piece evaluated exactly once, mutual exclusion and no lock held at exit from the scheduling log, C01/C02/C15 oracles, identical tree across schedules; each run replayed against the model",
                          "exec_conservation / exec_exactly_once / exec_deadlock_free / exec_terminates on the transition system; tied to the code by replaying the synchronisation log of every scheduler-driven run through the extracted ExecRun.xstep (accepted_log_is_model_path)")
    res["distinct_nontrivial"] = len(set((r["sc"].index, r["sc"].variant["sched_seed"], r["sc"].variant["threads"]) for r in runs if r["rr"].sched and len(r["rr"].sched) > 30))
    return res


def search(ctx, unexplained):
    ctx2 = dict(ctx, tier="thorough")
    res = correspondence(ctx2)
    return res.get("findings", [])[:3]


def replay(ctx, payload):
    vlib.build_harness()
    ctx["driver"] = vlib.build_driver()
    sc = payload["scenario"]
    w = world_of(sc["world_seed"], sc["index"])
    w.threads = sc.get("variant", {}).get("threads", 2)
    seed = sc.get("variant", {}).get("sched_seed")
    runs = runprops.run_scenarios(ctx, [(runprops.Scenario("sched", sc["world_seed"], sc["index"], sc.get("variant", {})), w)],
                                  kwargs_of=lambda s, ww: ({"sched": (seed, [])} if seed else {}))
    bad = oracle(runs[0])
    print("result:", runs[0]["rr"].result, "deadlock:", runs[0]["rr"].deadlock, "model verdict:", runs[0]["verdict"][:200])
    print("violated clause:", bad)
    return 1 if bad else 0
