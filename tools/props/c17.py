"""C17 - the outcome does not depend on how torrents and directories are presented."""
import collections
import copy

import oracles
import runprops
import vlib
import worlds
import worldgen

ASSUMPTIONS = ["'identical tree' is demanded when no torrent's export file can serve as a candidate for another torrent (no content shared between torrents) and oracles.determined holds: no piece can become available only through a transient state of a file the run itself writes"]


def presentations(w, rng):
    out = [("base", w)]
    a = copy.copy(w); a.presented = list(reversed(w.presented)); a.scans = list(reversed(w.scans)); out.append(("permuted", a))
    b = copy.copy(w); b.presented = w.presented + [rng.choice(w.presented)] if w.presented else []; b.scans = w.scans + [w.scans[0]]; out.append(("duplicated", b))
    c = copy.copy(w); c.scans = [()] if rng.random() < 0.5 else w.scans + [()]; out.append(("nested", c))
    d = copy.copy(w); d.scans = w.scans + [w.export]; d.threads = rng.choice([0, 1, 2, 3, 8]); out.append(("export-included", d))
    # the same directories under other spellings (trailing separator, '.' component, doubled separator), one of them twice
    e = copy.copy(w); e.notes = dict(w.notes, spell=rng.choice(["slash", "dot", "dslash"])); e.scans = w.scans + [w.scans[0]]; out.append(("respelled", e))
    return out


def base_world(seed, i):
    """Every fifth world: --resize-export-files with short export files that are the only source of
    their pieces (whether the export directory is listed as a scan directory must not matter)."""
    if i % 5 == 4:
        from props import c14
        w = runprops.world_for("pres", seed, i, allow_shared=False, export_heavy=True)
        c14.only_in_export(w, vlib.rng_for(seed, "C17/src/%d" % i))
        return w
    w = runprops.world_for("pres", seed, i, allow_shared=False)
    if i % 5 == 2 and w.torrents:
        # a directory full of same-length decoys (more than any plausible cap on candidates), listed next to the real data
        import worldgen
        rng = vlib.rng_for(seed, "C17/bulk/%d" % i)
        fs = [f for t in w.torrents for f in t.files if not f.pad and f.length > 0]
        if fs:
            f = rng.choice(fs)
            w.put_dir((b"bulk",))
            for k in range(70):
                w.put_file((b"bulk", b"decoy%02d" % k), bytes((b + k + 1) % 256 for b in f.content))
            w.scans = [(b"bulk",)] + list(w.scans)
    if i % 5 == 3 and w.torrents:
        # a content twin: the same name, layout and pieces with one more (uninterpreted) key in the info dictionary - another
        # info-hash, another export subtree; both must be recovered, however the list is presented
        import worldgen
        rng = vlib.rng_for(seed, "C17/twin/%d" % i)
        t = rng.choice(w.torrents)
        twin = worldgen.TorrentSpec(t.name, t.piece_length, t.files, t.single, extra={rng.choice([b"source", b"private", b"x-note"]): rng.choice([b"tracker-a", 1, b""])})
        if all(twin.info_hash != u.info_hash for u in w.torrents):
            w.torrents.append(twin)
            w.presented = list(w.presented) + [len(w.torrents) - 1]
    return w


def tree_of(rr):
    # (the second spelling of a scan directory given through a symbolic link is in the snapshot only when that link is a scan root)
    return {k: (v[0], v[1] if v[0] != "dir" else None) for k, v in rr.after.items() if not k[0].startswith(b"lnk_")}


def correspondence(ctx):
    tier = ctx["tier"]
    n = 60 if tier == "quick" else 500
    scen = []
    for i in range(n):
        rng = vlib.rng_for(ctx["seed"], "C17/%d" % i)
        w = base_world(ctx["seed"], i)
        for name, v in presentations(w, rng):
            scen.append((runprops.Scenario("pres", ctx["seed"], i, {"presentation": name}), v))
        # supersets: one more candidate-bearing scan directory content / one more torrent
    runs = runprops.run_scenarios(ctx, scen)
    findings, broken, stats = runprops.judge("C17", runs, [oracles.c01, oracles.c02, oracles.c03, oracles.c12])
    by_world = collections.defaultdict(list)
    for r in runs:
        by_world[r["sc"].index].append(r)
    stats["worlds"] = len(by_world)
    for idx, rs in by_world.items():
        base = rs[0]
        if any(r["rr"].result != base["rr"].result for r in rs):
            kinds = {r["sc"].variant["presentation"]: r["rr"].result for r in rs}
            if len(findings) < 5:
                findings.append({"scenario": base["sc"].ident(), "violated_clause": "the result differs between presentations of the same world: %r" % kinds, "world": runprops.describe_world(base["w"])})
            continue
        distinct_hashes = len(set(t.info_hash for t in base["w"].torrents)) == len(base["w"].torrents)
        shared = not all(oracles.determined(oracles.Ctx(r["w"], r["rr"], r["ce"])) for r in rs) or any(f.content == g.content and f.length > 0 for a in base["w"].torrents for b in base["w"].torrents if a is not b for f in a.files for g in b.files if not f.pad and not g.pad and f.length == g.length)
        t0 = tree_of(base["rr"])
        for r in rs[1:]:
            if tree_of(r["rr"]) != t0 and not shared and base["rr"].result == "ok":
                diff = [b"/".join(k) for k in set(t0) | set(tree_of(r["rr"])) if t0.get(k) != tree_of(r["rr"]).get(k)]
                if len(findings) < 5:
                    findings.append({"scenario": r["sc"].ident(), "violated_clause": "the export tree differs from the base presentation's although the available data determines it: %r" % diff[:5],
                                     "world": runprops.describe_world(base["w"])})
                break
            stats["identical trees"] = stats.get("identical trees", 0) + 1
    return runprops.result("C17", ctx, runs, findings, broken, stats,
                           "each generated world (no content shared between torrents) is run under five presentations: as generated, torrent list and scan list reversed, a torrent listed twice + a scan directory repeated, the sandbox root as (nested) scan directory, the export directory among the scan directories with another thread count; guarantees C01/C02/C03/C12 on each, trees compared with each other, every run replayed against the model",
                           "dedup/sort invariance and order-oracle independence on the model; tied to the code by trace validation under every presentation")


def search(ctx, unexplained):
    ctx2 = dict(ctx, tier="thorough")
    res = correspondence(ctx2)
    return res.get("findings", [])[:3]


def replay(ctx, payload):
    vlib.build_harness()
    ctx["driver"] = vlib.build_driver()
    sc = payload["scenario"]
    rng = vlib.rng_for(sc["world_seed"], "C17/%d" % sc["index"])
    w = base_world(sc["world_seed"], sc["index"])
    scen = [(runprops.Scenario("pres", sc["world_seed"], sc["index"], {"presentation": n}), v) for n, v in presentations(w, rng)]
    runs = runprops.run_scenarios(ctx, scen)
    t0 = tree_of(runs[0]["rr"])
    rc = 0
    for r in runs:
        same = tree_of(r["rr"]) == t0
        print(r["sc"].variant["presentation"], r["rr"].result, "tree identical to base:", same, r["verdict"][:100])
        rc = rc or (0 if same else 1)
    return rc
