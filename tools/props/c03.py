"""C03 - nothing outside the loaded torrents' export subtrees is ever touched."""
import oracles
from props import runbase


def overlap(w, rng):
    """Scan directories overlapping or containing the export directory, or the sandbox root itself."""
    r = rng.random()
    if r < 0.3:
        w.scans = w.scans + [w.export]
    elif r < 0.5:
        w.scans = [()] if rng.random() < 0.5 else w.scans + [()]
    elif r < 0.6:
        w.scans = w.scans + [w.scans[0]]


LONG = [b"n" * 255, b"n" * 256, b"\xe4\xb8\xad" * 85 + b"ab", b"\xe4\xb8\xad" * 94, b"p" * 300, b"\xc3\xa9" * 128 + b"z", b"q" * 254 + b"\xc3\xa9"]
ODD = [b".\x7f.", b".\xe2\x80\xae.", b"\xe2\x80\x8e..", b"..\xe2\x80\x8f", b".\x01.", b"\x7f", b"\xe2\x80\xae", b"a\x7fb", b"\xc2\x85..", b".\xe2\x80\x8b.", b"\xef\xbb\xbf..", b".\x00.", b".\t.",
       b"..\\..\\..\\escaped.bin", b"a\\b", b"..\\x", b"...", b"..a", b"a..", b" ", b"~", b"-x", b"*", b"con", b".hidden", b"a:b", b"%2e%2e", b"x\\..\\..\\y"]


def odd_names(w, rng):
    """Rename one file's last path component (or the torrent name) to an odd but loadable token and
    keep a correct candidate on disk, so that the writer really runs for it."""
    import worldgen
    if not w.torrents:
        return
    i = rng.randrange(len(w.torrents))
    t = w.torrents[i]
    tok = rng.choice(ODD + LONG)
    files = t.files
    name = t.name
    r = rng.random()
    if t.single or r < 0.25:
        name = tok
    elif r < 0.6:
        f = rng.choice([x for x in files if not x.pad])
        f.path = list(f.path[:-1]) + [tok]
    else:
        # several odd components at once: the name and every directory component of one file
        name = tok
        f = rng.choice([x for x in files if not x.pad])
        f.path = [rng.choice(ODD[:13]) for _ in range(rng.choice([1, 2, 3]))] + [b"leaf"]
    nt = worldgen.TorrentSpec(name, t.piece_length, files, t.single)
    if any(nt.info_hash == u.info_hash for k, u in enumerate(w.torrents) if k != i):
        return
    w.torrents[i] = nt
    for f in nt.files:
        if not f.pad and f.length:
            w.put_file((w.scans[0][0], b"odd_%d" % files.index(f)), f.content)


correspondence, search, replay, ASSUMPTIONS = runbase.make(
    "C03", [oracles.c03],
    [("std", 130, 1200, {}, None), ("overlap", 70, 800, {}, overlap), ("odd", 60, 500, {}, odd_names)],
    "generated worlds with bystander directories, scan directories overlapping / containing the export directory, both flag values; recursive before/after snapshot of the whole sandbox + every open mode from the fs-shim log; adversarial names are exercised at the loader (C10 stream) and here through documents that must not load",
    "good_op: every mutating operation targets the export image of a non-padding segment or its parent directories; target_*_shape: lexically inside export/<hex>/Data; candidate/index opens are read-only (Generated.v obligations)",
    ["no symbolic link inside an export subtree redirects a path (lexical confinement)"])
