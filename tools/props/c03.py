"""C03 - nothing outside the loaded torrents' export subtrees is ever touched."""
import oracles
from props import runbase


def overlap(w, rng):
    """Scan directories overlapping or containing the export directory, or the sandbox root itself."""
    r = rng.random()
    if r < 0.3:
        w.scans = w.scans + [w.export]
    elif r < 0.5:
        w.scans = [()] if rng.random() < 0.5 else w.scans + [()]
    elif r < 0.6:
        w.scans = w.scans + [w.scans[0]]


correspondence, search, replay, ASSUMPTIONS = runbase.make(
    "C03", [oracles.c03],
    [("std", 160, 1500, {}, None), ("overlap", 100, 1000, {}, overlap)],
    "generated worlds with bystander directories, scan directories overlapping / containing the export directory, both flag values; recursive before/after snapshot of the whole sandbox + every open mode from the fs-shim log; adversarial names are exercised at the loader (C10 stream) and here through documents that must not load",
    "good_op: every mutating operation targets the export image of a non-padding segment or its parent directories; target_*_shape: lexically inside export/<hex>/Data; candidate/index opens are read-only (Generated.v obligations)",
    ["no symbolic link inside an export subtree redirects a path (lexical confinement)"])
