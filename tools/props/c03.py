"""C03 - nothing outside the loaded torrents' export subtrees is ever touched."""
import oracles
from props import runbase


def overlap(w, rng):
    """Scan directories overlapping or containing the export directory, or the sandbox root itself."""
    r = rng.random()
    if r < 0.3:
        w.scans = w.scans + [w.export]
    elif r < 0.5:
        w.scans = [()] if rng.random() < 0.5 else w.scans + [()]
    elif r < 0.6:
        w.scans = w.scans + [w.scans[0]]


LONG = [b"n" * 255, b"n" * 256, b"\xe4\xb8\xad" * 85 + b"ab", b"\xe4\xb8\xad" * 94, b"p" * 300, b"\xc3\xa9" * 128 + b"z", b"q" * 254 + b"\xc3\xa9"]
ODD = [b".\x7f.", b".\xe2\x80\xae.", b"\xe2\x80\x8e..", b"..\xe2\x80\x8f", b".\x01.", b"\x7f", b"\xe2\x80\xae", b"a\x7fb", b"\xc2\x85..", b".\xe2\x80\x8b.", b"\xef\xbb\xbf..", b".\x00.", b".\t.",
       b"..\\..\\..\\escaped.bin", b"a\\b", b"..\\x", b"...", b"..a", b"a..", b" ", b"~", b"-x", b"*", b"con", b".hidden", b"a:b", b"%2e%2e", b"x\\..\\..\\y"]


def odd_names(w, rng):
    """Rename one file's last path component (or the torrent name) to an odd but loadable token and
    keep a correct candidate on disk, so that the writer really runs for it."""
    import worldgen
    if not w.torrents:
        return
    i = rng.randrange(len(w.torrents))
    t = w.torrents[i]
    tok = rng.choice(ODD + LONG)
    files = t.files
    name = t.name
    r = rng.random()
    if t.single or r < 0.25:
        name = tok
    elif r < 0.6:
        f = rng.choice([x for x in files if not x.pad])
        f.path = list(f.path[:-1]) + [tok]
    else:
        # several odd components at once: the name and every directory component of one file
        name = tok
        f = rng.choice([x for x in files if not x.pad])
        f.path = [rng.choice(ODD[:13]) for _ in range(rng.choice([1, 2, 3]))] + [b"leaf"]
    nt = worldgen.TorrentSpec(name, t.piece_length, files, t.single)
    if any(nt.info_hash == u.info_hash for k, u in enumerate(w.torrents) if k != i):
        return
    w.torrents[i] = nt
    for f in nt.files:
        if not f.pad and f.length:
            w.put_file((w.scans[0][0], b"odd_%d" % files.index(f)), f.content)


def dotdot(w, rng):
    """The export directory is given as <tree>/lnk_up/../<export>, where lnk_up is a symbolic link to a directory two
    levels down: the kernel's '..' is the parent of the link's TARGET, a textual '..' is not.  Everything the run
    creates must lie below the directory the argument really names."""
    old = tuple(w.export)
    new = (b"bystander",) + old
    w.put_dir((b"bystander", b"deep"))
    w.files[(b"lnk_up",)] = ("symlink", b"bystander/deep")
    for k in list(w.files):
        if k[:len(old)] == old:
            v = w.files.pop(k)
            if v[0] != "symlink":
                w.files[new + k[len(old):]] = v
    for k, v in list(w.files.items()):
        if v[0] == "link" and tuple(v[1][:len(old)]) == old:
            w.files[k] = ("link", new + tuple(v[1][len(old):]))
    w.files = {k: v for k, v in w.files.items() if not (v[0] == "link" and tuple(v[1]) not in w.files)}
    w.scans = [new if tuple(s) == old else s for s in w.scans]
    w.export = new
    w.export_arg = (b"lnk_up", b"..") + old


def missing_export(w, rng):
    """The export directory does not exist (nor does its parent): the run must fail and leave no trace - in particular it
    must not create the export directory and its ancestors, which lie outside every export subtree."""
    old = tuple(w.export)
    for k in list(w.files):
        if k[:len(old)] == old:
            del w.files[k]
    w.files = {k: v for k, v in w.files.items() if not (v[0] == "link" and tuple(v[1]) not in w.files)}
    w.scans = [s for s in w.scans if tuple(s) != old] or [w.scans[0]]
    w.scans = [s for s in w.scans if tuple(s[:len(old)]) != old] or [()]
    w.export = (b"not-there", b"exp") if rng.random() < 0.5 else (b"nowhere",)
    w.notes.pop("spell", None)


correspondence, search, replay, ASSUMPTIONS = runbase.make(
    "C03", [oracles.c03],
    [("std", 130, 1200, {}, None), ("overlap", 70, 800, {}, overlap), ("odd", 60, 500, {}, odd_names), ("dotdot", 24, 200, {}, dotdot), ("noexport", 16, 120, {}, missing_export),
     # the whole process under strace: no successful creating / modifying / renaming / removing system call on a path outside the sandbox
     ("traced", 16, 120, {}, None, lambda sc, w: {"trace": True})],
    "generated worlds with bystander directories, a missing export directory (nothing may be created), the process' working directory / HOME / TMPDIR inside the sandbox and listed afterwards, a sample of runs under strace (every successful mutating system call must name a path inside the sandbox), an export argument spelled through a symbolic link and '..' (the kernel's parent differs from the textual one), scan directories overlapping / containing the export directory, both flag values; recursive before/after snapshot of the whole sandbox + every open mode from the fs-shim log; adversarial names are exercised at the loader (C10 stream) and here through documents that must not load",
    "good_op: every mutating operation targets the export image of a non-padding segment or its parent directories; target_*_shape: lexically inside export/<hex>/Data; candidate/index opens are read-only (Generated.v obligations)",
    ["no symbolic link inside an export subtree redirects a path (lexical confinement)"])
