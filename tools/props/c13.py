"""C13 - an I/O failure on one piece is confined to that piece.  The fs shim fails the k-th file
operation of a run (every kind: open, fstat, read, create_dir_all, set_len, seek, write), one at a
time and in pairs; each faulty run is replayed against the model and checked by direct oracles."""
import collections

import oracles
import runlib
import runprops
import vlib
import worlds

ASSUMPTIONS = ["fault injection is at the fs shim: the operation is not performed and an io::Error is returned",
               "a failure in the prelude (argument validation, pre-flight) legitimately makes the run return Err; the property speaks of failures while evaluating or writing a piece"]


def op_info(rr, k):
    for rec in rr.records:
        if rec.get("op") == str(k):
            return rec
    return None


def oracle(r, plan):
    rr, ce, w = r["rr"], r["ce"], r["w"]
    if rr.result not in ("ok", "err"):
        return "the run did not return normally after an injected I/O failure: %s %s" % (rr.result, getattr(rr, "result_msg", ""))
    cx = oracles.Ctx(w, rr, ce)
    hit_pieces = collections.Counter()
    in_prelude = False
    for k in plan:
        rec = op_info(rr, k)
        if rec is None:
            continue
        if rec.get("piece", "-") == "-":
            in_prelude = True
        else:
            hit_pieces[rec["piece"]] += 1
    if rr.result == "err" and not in_prelude:
        return "a failure while evaluating a piece made the whole run return Err"
    if rr.result == "ok":
        total = sum(len(t.hashes) for t in cx.torrents)
        outs = ce["outcomes"]
        if sum(len(v) for v in outs.values()) != total or any(len(v) != 1 for v in outs.values()):
            return "after an injected failure not every piece was evaluated exactly once (%d outcomes for %d pieces)" % (sum(len(v) for v in outs.values()), total)
        for key in hit_pieces:
            if outs.get(key) != ["fault"]:
                return "piece %s had an I/O failure and is counted as %r" % (key, outs.get(key))
        nfault = sum(1 for v in outs.values() if v == ["fault"])
        if nfault != len(hit_pieces):
            return "%d pieces counted as faulted, %d pieces had an injected failure" % (nfault, len(hit_pieces))
        if rr.progress and int(rr.progress[-1][2]) != nfault and max(int(p[2]) for p in rr.progress) != nfault:
            return "final report shows %s faulted, expected %d" % (rr.progress[-1][2], nfault)
    for fn in (oracles.c01, oracles.c03):
        bad = fn(cx)
        if bad:
            return bad
    # every piece without a failure must still get the usual guarantee
    if rr.result == "ok" and not in_prelude:
        for t, pc in oracles.available_pieces(cx):
            segs = oracles.piece_segments(t, pc[0])
            if not cx.piece_verifies(rr.after, t, pc, False):
                # allowed only if this very piece was hit
                n = 0
                ids = {}
                for tt in cx.torrents:
                    for kk, f in enumerate(tt.files):
                        ids[(tt.hex, kk)] = n
                        n += 1
                key = "%d:%d" % (ids[(t.hex, segs[0][0])], segs[0][1])
                if key not in hit_pieces:
                    return "piece %d of %s was available and had no I/O failure, yet it was not recovered" % (pc[0], t.hex)
    return None


def obstructed_world(seed, i):
    """Something sits where an export DIRECTORY is needed - a regular file, or a dangling symbolic link - so that every
    write below it fails with a real error (no injection).  The failure must stay with the pieces that need that
    directory: every other piece, of this and of every other torrent, gets the usual guarantees."""
    for attempt in range(40):
        w = runprops.world_for("obstructed", seed, 40 * i + attempt)
        rng = vlib.rng_for(seed, "C13obst/%d/%d" % (i, attempt))
        cands = [(t, f) for t in w.torrents if not t.single for f in t.files if not f.pad and len(t.rel_target(f)) >= 4]
        if not cands:
            continue
        t, f = rng.choice(cands)
        rel = tuple(w.export) + tuple(t.rel_target(f))
        depth = rng.randrange(len(w.export) + 3, len(rel))        # somewhere from Data/<name> down to the file's own directory
        blocked = rel[:depth]
        for k in list(w.files):
            if k[:len(blocked)] == blocked:
                del w.files[k]
        w.files = {k: v for k, v in w.files.items() if not (v[0] == "link" and tuple(v[1]) not in w.files)}
        w.files[blocked] = ("file", b"in the way") if rng.random() < 0.5 else ("symlink", b"no-such-target")
        w.notes["blocked"] = blocked
        w.resize = False        # (with the flag on, the pre-flight's open of a file below a regular file fails with ENOTDIR and the whole run returns Err - as the model's prelude does)
        w.threads = rng.choice([1, 1, 2, 4])
        return w
    return None


def obstructed_oracle(r):
    rr, ce, w = r["rr"], r["ce"], r["w"]
    if rr.result != "ok":
        return "with %r in the way of an export directory the run did not return Ok: %s %s" % (w.files[w.notes["blocked"]][0], rr.result, getattr(rr, "result_msg", ""))
    cx = oracles.Ctx(w, rr, ce)
    total = sum(len(t.hashes) for t in cx.torrents)
    outs = ce["outcomes"]
    if sum(len(v) for v in outs.values()) != total or any(len(v) != 1 for v in outs.values()):
        return "not every piece was evaluated exactly once (%d outcomes for %d pieces)" % (sum(len(v) for v in outs.values()), total)
    for fn in (oracles.c01, oracles.c03):
        bad = fn(cx)
        if bad:
            return bad
    blocked = w.notes["blocked"]
    for t, pc in oracles.available_pieces(cx):
        below = any((cx.export_rel + tuple(t.rel_target(t.files[k])))[:len(blocked)] == blocked for k, off, ln in oracles.piece_segments(t, pc[0]) if not t.files[k].pad)
        if not below and not cx.piece_verifies(rr.after, t, pc, False):
            return "piece %d of %s was available and needs nothing below the obstruction at %r, yet it was not recovered" % (pc[0], t.hex, b"/".join(blocked))
    return None


def build(ctx, tier):
    nworlds = 14 if tier == "quick" else 60
    per = 24 if tier == "quick" else 80
    rng = vlib.rng_for(ctx["seed"], "C13plan")
    base = []
    for i in range(nworlds):
        w = runprops.world_for("fault", ctx["seed"], i)
        w.threads = 1 if i % 3 else rng.choice([2, 3])
        base.append((runprops.Scenario("fault", ctx["seed"], i, {"ref": True}), w))
    # second stream: torrents with empty files none of which exists on disk (their segments have no
    # source at all), failures placed on the writer's operations only
    for i in range(8 if tier == "quick" else 40):
        w = runprops.world_for("faultempty", ctx["seed"], i, empties=True)
        w.remove_files(lambda rel, data: len(data) == 0)
        w.threads = 1 if i % 2 else rng.choice([2, 3])
        base.append((runprops.Scenario("faultempty", ctx["seed"], i, {"ref": True}), w))
    refs = runprops.run_scenarios(ctx, base)
    scen = []
    for r in refs:
        nops = max([int(rec["op"]) for rec in r["rr"].records if "op" in rec] + [-1]) + 1
        if nops == 0:
            continue
        ks = list(range(nops))
        if r["sc"].tag == "faultempty":
            ks = [int(rec["op"]) for rec in r["rr"].records if "op" in rec and rec.get("piece", "-") != "-" and rec.get("kind") in ("mkdir_all", "set_len", "seek", "write", "open")]
        rng.shuffle(ks)
        chosen = sorted(ks[:per])
        for k in chosen:
            scen.append((runprops.Scenario(r["sc"].tag, ctx["seed"], r["sc"].index, {"fail": [k], "threads": r["w"].threads}), r["w"]))
        if tier == "thorough" or len(chosen) > 4:
            for _ in range(4 if tier == "quick" else 20):
                a, b = sorted(rng.sample(range(nops), 2)) if nops >= 2 else (0, 0)
                scen.append((runprops.Scenario(r["sc"].tag, ctx["seed"], r["sc"].index, {"fail": [a, b], "threads": r["w"].threads}), r["w"]))
    return refs, scen


def correspondence(ctx):
    refs, scen = build(ctx, ctx["tier"])
    runs = runprops.run_scenarios(ctx, scen, kwargs_of=lambda sc, w: {"plan": {"fail": sc.variant["fail"]}})
    findings, broken = [], []
    kinds = collections.Counter()
    for r in runs:
        plan = r["sc"].variant["fail"]
        for k in plan:
            rec = op_info(r["rr"], k)
            kinds[(rec or {}).get("kind", "not reached") + ("" if (rec or {}).get("piece", "-") != "-" else " (prelude)")] += 1
        bad = oracle(r, plan)
        if bad:
            if len(findings) < 5:
                findings.append({"scenario": r["sc"].ident(), "violated_clause": bad, "model_verdict": r["verdict"][:400], "world": runprops.describe_world(r["w"])})
        elif not r["verdict"].startswith("ok"):
            if len(broken) < 10:
                broken.append({"what": "the faulty run is not a behaviour of the model: " + r["verdict"][:600], "scenario": r["sc"].ident()})
    # third stream: a real obstruction (no injection)
    obst = []
    for i in range(16 if ctx["tier"] == "quick" else 120):
        w = obstructed_world(ctx["seed"], i)
        if w is not None:
            obst.append((runprops.Scenario("obstructed", ctx["seed"], i, {"what": w.files[w.notes["blocked"]][0]}), w))
    for r in runprops.run_scenarios(ctx, obst):
        runs.append(r)
        kinds["obstruction: " + r["sc"].variant["what"]] += 1
        bad = obstructed_oracle(r)
        if bad:
            if len(findings) < 5:
                findings.append({"scenario": r["sc"].ident(), "violated_clause": bad, "model_verdict": r["verdict"][:400], "world": runprops.describe_world(r["w"])})
        elif not r["verdict"].startswith("ok") and len(broken) < 10:
            broken.append({"what": "the obstructed run is not a behaviour of the model: " + r["verdict"][:600], "scenario": r["sc"].ident()})
    res = runprops.result("C13", ctx, runs, findings, broken, {"failed operation kinds": dict(kinds), "reference runs": len(refs)},
                          "worlds with a regular file or a dangling symbolic link where an export directory is needed (real errors, no injection; pieces that need nothing below it keep their guarantees); generated worlds; reference run, then the k-th file operation fails (sampled k over the whole run, plus pairs); kinds: open, fstat, read, create_dir_all, set_len, seek, write; result/counters/per-piece outcomes/tree checked and the faulty run replayed against the model",
                          "fault_closed / lock_ok / good for every answer proved on the piece programs; tied to the code by trace validation of faulty runs")
    res["distinct_nontrivial"] = len(set((r["sc"].tag, r["sc"].index, tuple(r["sc"].variant.get("fail", []))) for r in runs if any("fault" in v for v in r["ce"]["outcomes"].values())))
    return res


def replay(ctx, payload):
    vlib.build_harness()
    ctx["driver"] = vlib.build_driver()
    sc = payload["scenario"]
    if sc["tag"] == "obstructed":
        w = obstructed_world(sc["world_seed"], sc["index"])
        runs = runprops.run_scenarios(ctx, [(runprops.Scenario("obstructed", sc["world_seed"], sc["index"], sc["variant"]), w)])
        bad = obstructed_oracle(runs[0])
        print("result:", runs[0]["rr"].result, "model verdict:", runs[0]["verdict"][:300])
        print("violated clause:", bad)
        return 1 if bad else 0
    if sc["tag"] == "faultempty":
        w = runprops.world_for("faultempty", sc["world_seed"], sc["index"], empties=True)
        w.remove_files(lambda rel, data: len(data) == 0)
    else:
        w = runprops.world_for("fault", sc["world_seed"], sc["index"])
    w.threads = sc["variant"].get("threads", 1)
    runs = runprops.run_scenarios(ctx, [(runprops.Scenario(sc["tag"], sc["world_seed"], sc["index"], sc["variant"]), w)],
                                  kwargs_of=lambda s, ww: {"plan": {"fail": s.variant["fail"]}})
    bad = oracle(runs[0], sc["variant"]["fail"])
    print("result:", runs[0]["rr"].result, "model verdict:", runs[0]["verdict"][:300])
    print("violated clause:", bad)
    return 1 if bad else 0
