"""C14 - resize pre-flight: short files zero-extended; any over-long file aborts first."""
import oracles
from props import runbase


def force(flag):
    def tweak(w, rng):
        w.resize = flag
    return tweak


def only_in_export(w, rng):
    """Flag on, and for every export file that exists but is shorter than declared the scan
    directories hold NO correct copy: after the extension the export file itself must count as the
    source of the pieces that lie inside its old length."""
    w.resize = True
    for t in w.torrents:
        for f in t.files:
            if f.pad or not f.length:
                continue
            tgt = tuple(list(w.export) + t.rel_target(f))
            cur = w.files.get(tgt)
            if cur and cur[0] == "file" and 0 < len(cur[1]) < f.length and f.content.startswith(cur[1]):
                w.remove_files(lambda rel, data, tgt=tgt, f=f: rel != tgt and data == f.content)


correspondence, search, replay, ASSUMPTIONS = runbase.make(
    "C14", [oracles.c14, oracles.c02],
    [("on", 140, 1200, {"export_heavy": True}, force(True)), ("off", 80, 700, {"export_heavy": True}, force(False)),
     ("source", 60, 500, {"export_heavy": True}, only_in_export)],
    "worlds in which most export files pre-exist in a random state (absent / shorter by any amount / exact / longer), any file order, flag on and off, and (stream source) extended export files as the only source of their pieces (availability oracle of C02 on the state after the pre-flight); pre-flight operations from the fs-shim log and before/after snapshots, plus trace validation of the prelude program",
    "resize_abort_no_mutation / resize_extends_exactly on the prelude program; tied to fix_export_file_lengths by prelude trace validation",
    ["a directory sitting at an export path is outside the modelled fragment"])
