"""C14 - resize pre-flight: short files zero-extended; any over-long file aborts first."""
import oracles
from props import runbase


def force(flag):
    def tweak(w, rng):
        w.resize = flag
    return tweak


def only_in_export(w, rng):
    """Flag on, and for every export file that exists but is shorter than declared the scan
    directories hold NO correct copy: after the extension the export file itself must count as the
    source of the pieces that lie inside its old length."""
    w.resize = True
    for t in w.torrents:
        for f in t.files:
            if f.pad or not f.length:
                continue
            tgt = tuple(list(w.export) + t.rel_target(f))
            cur = w.files.get(tgt)
            if cur and cur[0] == "file" and 0 < len(cur[1]) < f.length and f.content.startswith(cur[1]):
                w.remove_files(lambda rel, data, tgt=tgt, f=f: rel != tgt and data == f.content)


def linked_targets(w, rng):
    """Flag on; two export paths with DIFFERENT declared lengths are hard links of one file whose
    length lies between them: it is over-long for one of them, so the run must abort untouched."""
    w.resize = True
    fs = [(t, f) for t in w.torrents for f in t.files if not f.pad]
    pairs = [(a, b) for a in fs for b in fs if a[1].length > b[1].length + 0]
    if not pairs:
        return
    (ta, fa), (tb, fb) = rng.choice(pairs)
    pa = tuple(list(w.export) + ta.rel_target(fa))
    pb = tuple(list(w.export) + tb.rel_target(fb))
    if pa == pb:
        return
    for p in (pa, pb):
        w.remove_files(lambda rel, data, p=p: rel == p)
        w.files.pop(p, None)
    n = rng.randint(fb.length + 1, fa.length)
    w.put_file(pa, (fa.content + bytes(n))[:n])
    w.put_link(pb, pa)


def linked_long(w, rng):
    """Flag on; one export location is a symbolic link to an OVER-LONG file kept elsewhere (a cross-seeding layout): the
    pre-flight opens it like any export file, so the run must abort before modifying anything.  (Only generated here, with
    the flag on: without it the writer would resize the link's target - the case DESIGN 0.10 leaves outside.)"""
    w.resize = True
    cands = [(t, f) for t in w.torrents for f in t.files if not f.pad and f.length]
    if not cands:
        return
    t, f = rng.choice(cands)
    tgt = tuple(list(w.export) + t.rel_target(f))
    w.remove_files(lambda rel, data, tgt=tgt: rel == tgt)
    w.files.pop(tgt, None)
    v = (b"vault", b"long%d" % rng.randint(0, 999))
    w.put_dir((b"vault",))
    w.put_file(v, f.content + bytes(rng.randint(1, 3)))
    w.files[tgt] = ("symlink", b"../" * (len(tgt) - 1) + b"/".join(v))


def prefix_dirs(w, rng):
    """Flag on; a multi-file torrent with two sibling directories of which one name is a TEXTUAL prefix of the other
    ('S 1' / 'S 10'); the first is absent from the export tree, the second exists and holds a file that is short (to be
    extended) or over-long (the run must abort untouched)."""
    import worldgen
    w.resize = True
    L = rng.choice([2, 4])
    a = worldgen.TFile([b"S 1", b"a.bin"], worldgen.rand_content(rng, rng.randint(1, 6)))
    b = worldgen.TFile([b"S 10", b"b.bin"], worldgen.rand_content(rng, rng.randint(2, 6)))
    c = worldgen.TFile([b"S 10", b"c.bin"], worldgen.rand_content(rng, rng.randint(1, 4)))
    t = worldgen.TorrentSpec(b"show%d" % rng.randint(0, 99), L, [a, b, c], False)
    if any(t.info_hash == u.info_hash for u in w.torrents):
        return
    w.torrents.append(t)
    w.presented = list(w.presented) + [len(w.torrents) - 1]
    for k, f in enumerate(t.files):
        w.put_file(tuple(list(w.scans[0]) + [b"pfx_%d" % k]), f.content)
    tb = tuple(list(w.export) + t.rel_target(b))
    if rng.random() < 0.5:
        w.put_file(tb, b.content[:rng.randrange(b.length)])                 # short: must be extended and count as a source
    else:
        w.put_file(tb, b.content + bytes(rng.randint(1, 3)))                # over-long: abort before any change
    w.put_file(tuple(list(w.export) + t.rel_target(c)), c.content[:rng.randrange(c.length + 1)])


correspondence, search, replay, ASSUMPTIONS = runbase.make(
    "C14", [oracles.c14, oracles.c02],
    [("on", 140, 1200, {"export_heavy": True}, force(True)), ("off", 80, 700, {"export_heavy": True}, force(False)),
     ("source", 50, 450, {"export_heavy": True}, only_in_export), ("linked", 30, 250, {"export_heavy": True}, linked_targets),
     ("prefixdirs", 24, 200, {"export_heavy": True}, prefix_dirs), ("linkedlong", 16, 120, {"export_heavy": True}, linked_long)],
    "worlds in which most export files pre-exist in a random state (absent / shorter by any amount / exact / longer), any file order, flag on and off, and (stream source) extended export files as the only source of their pieces, (stream linkedlong) an export location that is a symbolic link to an over-long file, (stream prefixdirs) sibling export directories one of whose names is a textual prefix of the other, the shorter-named one absent, (stream linked) two export paths of different declared lengths hard-linked to one file that is over-long for one of them (availability oracle of C02 on the state after the pre-flight); pre-flight operations from the fs-shim log and before/after snapshots, plus trace validation of the prelude program",
    "resize_abort_no_mutation / resize_extends_exactly on the prelude program; tied to fix_export_file_lengths by prelude trace validation",
    ["a directory sitting at an export path is outside the modelled fragment"])
