"""C14 - resize pre-flight: short files zero-extended; any over-long file aborts first."""
import oracles
from props import runbase


def force(flag):
    def tweak(w, rng):
        w.resize = flag
    return tweak


correspondence, search, replay, ASSUMPTIONS = runbase.make(
    "C14", [oracles.c14],
    [("on", 180, 1500, {"export_heavy": True}, force(True)), ("off", 100, 800, {"export_heavy": True}, force(False))],
    "worlds in which most export files pre-exist in a random state (absent / shorter by any amount / exact / longer), any file order, flag on and off; pre-flight operations from the fs-shim log and before/after snapshots, plus trace validation of the prelude program",
    "resize_abort_no_mutation / resize_extends_exactly on the prelude program; tied to fix_export_file_lengths by prelude trace validation",
    ["a directory sitting at an export path is outside the modelled fragment"])
