"""C01 - only SHA-1-verified torrent bytes are ever written into the export tree."""
import oracles
from props import runbase

RULE = ("generated worlds (1-3 torrents single/multi-file, pieces spanning files, padding and empty files, exact copies, same-length decoys, "
        "partial files, hard links, shared files, every prior export state, both flag values, threads 0/1/2/3/8); each run of the real start() is "
        "replayed against the extracted model (per-piece programs fed the observed read results) and checked by the write-log / byte-provenance oracle; "
        "non-trivial = distinct run with at least one successful mutating operation")
correspondence, search, replay, ASSUMPTIONS = runbase.make(
    "C01", [oracles.c01],
    [("std", 260, 2500, {}, None)],
    RULE,
    "solve_prog_good (for every read answer and op result: only good operations, never a panic) and walk_good (every accepted trace consists of good events) proved; the model is tied to solver/writer by trace validation of whole runs",
    ["'correct torrent bytes' is expressed with hypothesis cr: anything hashing to the piece hash is the piece's content (second-preimage resistance at the touched points)",
     "interleavings are covered because the piece theorem holds for EVERY answer the environment gives; worker threads only interact through the file system"])
