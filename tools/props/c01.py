"""C01 - only SHA-1-verified torrent bytes are ever written into the export tree."""
import oracles
from props import runbase

RULE = ("generated worlds (1-3 torrents single/multi-file, pieces spanning files, padding and empty files, exact copies, same-length decoys, "
        "partial files, hard links, shared files, every prior export state, both flag values, threads 0/1/2/3/8); each run of the real start() is "
        "replayed against the extracted model (per-piece programs fed the observed read results) and checked by the write-log / byte-provenance oracle; "
        "non-trivial = distinct run with at least one successful mutating operation")
def repeated_pieces(w, rng):
    """Torrents whose pieces repeat (A-B-A, zero runs: equal SHA-1 at different offsets), with damaged candidates: a copy
    in which some of the repeated pieces are corrupt, so that pieces fail between two equal ones."""
    import worldgen
    from props import c06
    w2 = c06.repeated_world(rng.randrange(10 ** 6), rng.randrange(10 ** 6))
    for t in w2.torrents:
        for f in t.files:
            if f.length >= 2 * t.piece_length and rng.random() < 0.7:
                # replace the intact copy by one with a corrupt middle: the first piece is good, the next ones are not
                L = t.piece_length
                bad = bytearray(f.content)
                for k in range(L, min(len(bad), 3 * L)):
                    bad[k] ^= 0x5A
                for rel, what in list(w2.files.items()):
                    if what[0] == "file" and what[1] == f.content and rel[0] == b"scan0":
                        w2.files[rel] = ("file", bytes(bad))
    w2.threads = rng.choice([1, 1, 2])
    w.__dict__.update(w2.__dict__)


correspondence, search, replay, ASSUMPTIONS = runbase.make(
    "C01", [oracles.c01],
    [("std", 260, 2500, {}, None), ("repeat", 24, 200, {}, repeated_pieces)],
    RULE,
    "solve_prog_good (for every read answer and op result: only good operations, never a panic) and walk_good (every accepted trace consists of good events) proved; the model is tied to solver/writer by trace validation of whole runs",
    ["'correct torrent bytes' is expressed with hypothesis cr: anything hashing to the piece hash is the piece's content (second-preimage resistance at the touched points)",
     "interleavings are covered because the piece theorem holds for EVERY answer the environment gives; worker threads only interact through the file system"])
