"""C07 - info-hash = SHA-1 of the exact bytes of the info value; 40-digit lowercase hex directory
name.  Torrent::from_bytes(..).info_hash vs the model (Gallina SHA-1 over the info span),
get_sha1_hexdigest vs hexdigest, the sha1 crate vs the Gallina SHA-1; hashlib is the oracle."""
import hashlib
import bengen
import docgen
import vlib

ASSUMPTIONS = [
    "SHA-1 is abstract (a Section variable H) in the theorems; the executable instance Sha1.sha1 is validated here against the sha1 crate and hashlib on all lengths 0..200 and random messages",
]


def gen_docs(ctx, tier):
    rng = vlib.rng_for(ctx["seed"], "C07")
    n = 4000 if tier == "quick" else 40000
    docs = []
    for i in range(n):
        d, sw = docgen.structured(rng)
        if rng.random() < 0.6:
            # wrap with extra top-level keys before and after "info", containing confusing strings
            try:
                root = docgen.ref_parse(d)
            except Exception:
                docs.append(d)
                continue
            if isinstance(root.v, dict) and b"info" in root.v:
                info_bytes = d[root.v[b"info"].s:root.v[b"info"].e]
                extras = {}
                for k in [b"a", b"announce", b"inf", b"info ", b"infp", b"z", b"info\x00", b"comment"]:
                    if rng.random() < 0.4:
                        extras[k] = bengen.enc(bengen.rand_value(rng, 0, 3))
                # keys the loader knows, at the WRONG level: a summary copy of info's own fields (same bytes,
                # or a value of another type) next to "info", and an "info" key inside info is left to docgen
                inner = root.v[b"info"].v if isinstance(root.v[b"info"].v, dict) else {}
                if rng.random() < 0.45:
                    for k in [b"name", b"name.utf-8", b"length", b"files", b"pieces", b"piece length", b"path", b"private"]:
                        if rng.random() < 0.55:
                            if k in inner and rng.random() < 0.8:
                                extras[k] = d[inner[k].s:inner[k].e]
                            else:
                                extras[k] = bengen.enc(rng.choice([b"x" * 20, 7, 16384, [], {}, b""]))
                extras[b"info"] = info_bytes
                d = b"d" + b"".join(bengen.enc(k) + extras[k] for k in sorted(extras)) + b"e"
        docs.append(d)
    return docs


def correspondence(ctx):
    tier = ctx["tier"]
    rng = vlib.rng_for(ctx["seed"], "C07b")
    docs = gen_docs(ctx, tier)
    cases = ["c%d %s" % (i, d.hex()) for i, d in enumerate(docs)]
    impl = vlib.run_sharded(ctx["harness"], "load", cases)
    model = vlib.run_sharded(ctx["driver"], "load", cases)
    dis = vlib.compare(cases, impl, model)
    findings, broken = [], []
    loaded = 0
    for c in cases:
        k, h = c.split()
        r = impl.get(k, "<no output>")
        if r.startswith("ok"):
            loaded += 1
            x = bytes.fromhex(h)
            verdict, want = docgen.ref_load(x)
            if verdict != "err" and r.split(" ih=")[1] != want.split(" ih=")[1] and len(findings) < 5:
                findings.append({"case": c[:3000], "impl": r, "violated_clause": "info_hash is not the SHA-1 of the bytes of the info value: expected " + want.split(" ih=")[1]})
    for d in dis[:20]:
        if not any(f["case"].split()[0] == d["case"].split()[0] for f in findings):
            broken.append({"what": "TorrentModel.load and Torrent::from_bytes differ", **{k: v[:2000] for k, v in d.items()}})
    # hex rendering
    msgs = [bytes([b]) for b in range(256)] + [bytes(rng.randint(0, 255) for _ in range(20)) for _ in range(300)] + [b"", bytes(range(256))]
    hcases = ["h%d %s" % (i, m.hex() if m else "-") for i, m in enumerate(msgs)]
    himpl = vlib.run_sharded(ctx["harness"], "hex", hcases)
    hmodel = vlib.run_sharded(ctx["driver"], "hex", hcases)
    for c, m in zip(hcases, msgs):
        k = c.split()[0]
        want = m.hex().encode().hex() if m else "-"
        if himpl.get(k) != want and len(findings) < 8:
            findings.append({"case": c, "impl": himpl.get(k), "violated_clause": "hex rendering is not two lowercase hexadecimal digits per byte: expected " + want})
        elif himpl.get(k) != hmodel.get(k):
            broken.append({"what": "hexdigest model differs from get_sha1_hexdigest", "case": c, "impl": himpl.get(k), "model": hmodel.get(k)})
    # SHA-1 instance
    smsgs = [bytes((i * 7 + j) % 256 for j in range(i)) for i in range(0, 201)] + [bytes(rng.randint(0, 255) for _ in range(rng.randint(0, 700))) for _ in range(100 if tier == "quick" else 1000)]
    scases = ["s%d %s" % (i, m.hex() if m else "-") for i, m in enumerate(smsgs)]
    simpl = vlib.run_sharded(ctx["harness"], "sha1", scases)
    smodel = vlib.run_sharded(ctx["driver"], "sha1", scases)
    for c, m in zip(scases, smsgs):
        k = c.split()[0]
        want = hashlib.sha1(m).hexdigest()
        if simpl.get(k) != want or smodel.get(k) != want:
            broken.append({"what": "SHA-1 instances disagree", "case": c[:200], "crate": simpl.get(k), "gallina": smodel.get(k), "hashlib": want})
    # "The per-torrent export directory is named by its 40-digit lowercase hexadecimal form": real runs; the export
    # directory already holds an UPPER-case namesake of the torrent's directory (and other 40-digit names), which is not it
    import runprops, oracles, worldgen
    scen = []
    for i in range(16 if tier == "quick" else 120):
        w = runprops.world_for("hexdir", ctx["seed"], i)
        r2 = vlib.rng_for(ctx["seed"], "C07hexdir/%d" % i)
        if w.torrents:
            worldgen.upper_case_namesake(w, r2.choice(w.torrents), r2)
        scen.append((runprops.Scenario("hexdir", ctx["seed"], i), w))
    nruns = 0
    for r in runprops.run_scenarios(ctx, scen):
        nruns += 1
        cx = oracles.Ctx(r["w"], r["rr"], r["ce"])
        bad = None if r["rr"].result in ("ok", "err") else "the run did not return a result: %s" % r["rr"].result
        bad = bad or oracles.c12(cx) or oracles.c03(cx)
        if not bad and r["rr"].result == "ok":
            for t in cx.torrents:
                made = [rel for rel in r["rr"].after if rel not in r["rr"].before and rel[:len(cx.export_rel)] == cx.export_rel and len(rel) == len(cx.export_rel) + 1]
                for rel in made:
                    nm = rel[-1]
                    if not (len(nm) == 40 and all(c in b"0123456789abcdef" for c in nm) and any(nm == u.hex.encode() for u in cx.torrents)):
                        bad = "directory %r created in the export directory is not the 40-digit lowercase hexadecimal info-hash of a loaded torrent" % (nm,)
        if bad and len(findings) < 8:
            findings.append({"scenario": r["sc"].ident(), "violated_clause": bad, "model_verdict": r["verdict"][:300], "world": runprops.describe_world(r["w"])})
        elif not bad and not r["verdict"].startswith("ok") and len(broken) < 10:
            broken.append({"what": "run with an upper-case namesake directory is not a behaviour of the model: " + r["verdict"][:500], "scenario": r["sc"].ident()})
    return {
        "evaluations": len(cases) + len(hcases) + len(scases) + nruns, "distinct_nontrivial": loaded,
        "rule": "generated documents with random top-level keys before/after 'info' (nested containers, strings full of d/e/i/l/digits/':'), extra keys inside info, the loader's own key names (name, length, files, pieces, piece length, ...) copied or mistyped at the top level next to 'info'; all 256 single bytes + random 20-byte strings for the hex form; SHA-1 on every length 0..200 + random; real runs with an UPPER-case namesake of the export directory already present (the directory created must be the lowercase form); non-trivial = loadable document",
        "samples": [{"case": c[:300], "impl": impl.get(c.split()[0])} for c in cases[:3]],
        "distribution": {"documents": len(cases), "loaded": loaded, "hex_cases": len(hcases), "sha1_cases": len(scases), "runs_with_upper_case_namesake_directory": nruns},
        "disagreements": len(dis), "findings": findings, "broken": broken[:10],
        "explanation": "info_hash_is_H_of_info_value / info_hash_indep_outer / hex_* proved; model tied to the code by differential runs",
    }


def replay(ctx, payload):
    harness = vlib.build_harness()
    case = payload["case"]
    sub = {"c": "load", "h": "hex", "s": "sha1"}[case[0]]
    r = vlib.run_sharded(harness, sub, [case]).get(case.split()[0], "<no output>")
    print("impl:", r)
    if sub == "load":
        v, want = docgen.ref_load(bytes.fromhex(case.split()[1]))
        print("reference:", want)
        return 1 if (r.startswith("ok") and v != "err" and r.split(" ih=")[1] != want.split(" ih=")[1]) else 0
    return 0
