"""C09 - decoding and loading are total and prompt.  Every case runs in a child process of the
harness (debug-with-overflow-checks and release builds), under a wall-clock limit and a counting
allocator; the model supplies the expected Ok/Err class."""
import os
import re
import bengen
import docgen
import vlib

ASSUMPTIONS = [
    "stack depth, wall-clock time and allocator behaviour are runtime: the theorems (decode_no_panic, decode_total with fuel |x|+1, load_total) are about the model; the child-process runs exercise the real code",
    "known finding K1: recursion depth of the decoder (and of Drop) equals the nesting depth of the input",
]
U64 = 2 ** 64
LIMIT_MS = 4000
K1_DEPTH = 4096


def nesting_depth(x):
    """Upper bound on the container nesting depth: longest run-up of l / d openers not closed yet
    (computed on the raw bytes with a tiny tolerant scanner)."""
    depth = best = 0
    i, n = 0, len(x)
    while i < n:
        c = x[i]
        if c in (108, 100):
            depth += 1
            best = max(best, depth)
            i += 1
        elif c == 101:
            depth = max(0, depth - 1)
            i += 1
        elif c == 105:
            j = x.find(b"e", i)
            i = n if j < 0 else j + 1
        elif 48 <= c <= 57:
            j = i
            while j < n and 48 <= x[j] <= 57:
                j += 1
            if j < n and x[j] == 58 and j - i < 12:
                i = j + 1 + int(x[i:j])
            else:
                i = j + 1
        else:
            i += 1
    return best


def doc(info, extra=None):
    root = {b"info": info}
    if extra:
        root.update(extra)
    return docgen.enc(root)


def gen_cases(ctx, tier=None):
    tier = tier or ctx["tier"]
    rng = vlib.rng_for(ctx["seed"], "C09")
    inputs = []
    dist = {}

    def add(kind, xs):
        dist[kind] = dist.get(kind, 0) + len(xs)
        inputs.extend((kind, x) for x in xs)

    add("numeric", bengen.numeric_adversaries())
    # extreme numbers inside well-formed documents
    ex = []
    h = lambda n: b"\x11" * (20 * n)
    for total, pl, nh in [(2 ** 60, 1, 0), (2 ** 60, 1, 1), (5, 0, 0), (5, 0, 1), (0, 0, 0), (U64 - 1, 1, 2), (U64 - 1, U64 - 1, 1), (U64 - 1, 2 ** 63, 2),
                          (2 ** 40, 2, 3), (U64, 1, 1), (U64 - 1, 0, 0), (2 ** 63, 3, 1)]:
        ex.append(doc({b"name": b"n", b"piece length": pl, b"pieces": h(nh), b"length": total}))
    for lens, pl, nh in [([2 ** 63, 2 ** 63], 2 ** 63, 2), ([U64 - 1, U64 - 1], U64 - 1, 2), ([U64 - 1] * 5, U64 - 1, 5), ([U64 - 1, 1], U64 - 1, 2),
                         ([2 ** 63, 2 ** 63, 1], 1, 1), ([U64 - 1] * 3, 0, 0), ([U64 - 1] * 3, 1, 3), ([0, 0, 0], 0, 0), ([2 ** 62] * 4, 2 ** 62, 4),
                         ([U64 - 1] * 40, U64 - 1, 40)]:
        ex.append(doc({b"name": b"n", b"piece length": pl, b"pieces": h(nh), b"files": [{b"length": l, b"path": [b"f%d" % i]} for i, l in enumerate(lens)]}))
    add("extreme_documents", ex)
    # generated documents and raw values
    n = 1500 if tier == "quick" else 15000
    add("documents", [docgen.structured(rng)[0] for _ in range(n)])
    add("chaotic", [docgen.chaotic(rng) for _ in range(n // 3)])
    add("string_adversaries", docgen.string_documents(rng, None if tier != "quick" else 600))
    vals = [bengen.enc(bengen.rand_value(rng, 0, rng.choice([3, 5, 8]))) for _ in range(n)]
    add("values", vals)
    add("mutated", [bengen.mutate(rng, rng.choice(vals)) for _ in range(n)])
    # nesting
    deep = []
    for d in [10, 100, 1000, 3000] + ([20000, 100000] if True else []):
        deep.append(b"l" * d + b"e" * d)
        deep.append(b"d1:a" * d + b"0:" + b"e" * d)
        deep.append(b"l" * d)
        deep.append(b"d4:info" + b"d1:a" * d + b"le" + b"e" * d + b"e")
    add("nesting", deep)
    # long flat inputs: time must stay linear-ish
    flat = [b"l" + b"i1e" * 200000 + b"e", b"l" + b"0:" * 300000 + b"e",
            b"d" + b"".join(bengen.enc(b"%08d" % i) + b"i0e" for i in range(60000)) + b"e",
            b"1000000:" + b"a" * 1000000, b"9" * 400000 + b":", b"i" + b"9" * 400000 + b"e",
            doc({b"name": b"n", b"piece length": 1, b"pieces": b"\x01" * (20 * 30000), b"length": 30000}),
            doc({b"name": b"n", b"piece length": 1, b"pieces": b"", b"files": [{b"length": 0, b"path": [b"p"] * 3} for _ in range(20000)]})]
    add("long_flat", flat)
    return [("c%d" % i, kind, x) for i, (kind, x) in enumerate(inputs)], dist


def run_impl(ctx, cases, release):
    exe = vlib.build_harness(release=release)
    lines = ["%s %s" % (k, x.hex() if x else "-") for k, _, x in cases]
    return vlib.run_sharded(exe, "total", lines, extra_args=[exe, str(LIMIT_MS)], timeout=3000)


def judge(k, kind, x, out, want):
    """Returns (violation text or None, known-finding text or None)."""
    if out.startswith("abort") or out == "<no output>":
        d = nesting_depth(x)
        for kf in vlib.known_findings():
            if kf.get("status") == "known" and kf.get("property") == "C09" and kf["match"].get("outcome") == "abort" and d >= kf["match"]["min_nesting_depth"]:
                return None, "%s: a %d-deep nested input aborts the process (stack overflow; recursion depth = nesting depth)" % (kf["id"], kf["match"]["min_nesting_depth"])
        return "child process died (%s) on a %d-byte input nested %d deep" % (out, len(x), d), None
    if out.startswith("timeout"):
        return "no result within %d ms on a %d-byte input" % (LIMIT_MS, len(x)), None
    m = re.match(r"decode=(\w+) load=(\w+) largest=(\d+) peak=(\d+) ms=(\d+)", out)
    if not m:
        return "unparsable outcome: " + out, None
    d, l, largest, peak, ms = m.group(1), m.group(2), int(m.group(3)), int(m.group(4)), int(m.group(5))
    if d == "panic" or l == "panic":
        return "panic (decode=%s load=%s)" % (d, l), None
    if largest > 256 * len(x) + 4096:
        return "single allocation of %d bytes for a %d-byte input (a number in the input sizes a buffer)" % (largest, len(x)), None
    if peak > 2048 * len(x) + (1 << 16):
        return "peak allocation %d bytes for a %d-byte input" % (peak, len(x)), None
    if ms > 1500 + len(x) // 200:
        return "took %d ms for a %d-byte input" % (ms, len(x)), None
    return None, None


def correspondence(ctx):
    cases, dist = gen_cases(ctx)
    small = [(k, kind, x) for k, kind, x in cases if len(x) <= 40000]
    model = vlib.run_sharded(ctx["driver"], "total", ["%s %s" % (k, x.hex() if x else "-") for k, _, x in small])
    findings, broken, known = [], [], set()
    outcomes = {}
    evals = 0
    for release in (False, True):
        impl = run_impl(ctx, cases, release)
        evals += len(cases)
        tag = "release" if release else "debug"
        # a time-based verdict is re-measured with the machine to itself (the sharded run competes for the cores):
        # only a case that is slow three times in a row is reported
        slow = [(k, kind, x) for k, kind, x in cases if impl.get(k, "").startswith("timeout") or (judge(k, kind, x, impl.get(k, "<no output>"), None)[0] or "").startswith(("took ", "no result within"))]
        for attempt in range(2):
            if not slow:
                break
            again = {}
            for k, kind, x in slow[:40]:
                again.update(run_impl(ctx, [(k, kind, x)], release))
            still = []
            for k, kind, x in slow[:40]:
                v = judge(k, kind, x, again.get(k, "<no output>"), None)[0] or ""
                if v.startswith(("took ", "no result within")):
                    still.append((k, kind, x))
                else:
                    impl[k] = again.get(k, impl.get(k))
            slow = still
        for k, kind, x in cases:
            out = impl.get(k, "<no output>")
            cls = out.split(" largest")[0]
            outcomes[cls.split()[0] if cls.startswith(("abort", "timeout")) else cls] = outcomes.get(cls.split()[0] if cls.startswith(("abort", "timeout")) else cls, 0) + 1
            v, kn = judge(k, kind, x, out, None)
            if kn:
                known.add(kn)
            if v and len(findings) < 5:
                findings.append({"case": "%s %s" % (k, x.hex() if len(x) < 3000 else "<%d bytes, kind %s, head %r>" % (len(x), kind, x[:60])), "build": tag, "kind": kind,
                                 "impl": out, "violated_clause": v, "input_head": repr(x[:120])})
            elif not v and not kn and k in model:
                want = model[k]
                got = cls
                if got != want and len(broken) < 10:
                    broken.append({"what": "Ok/Err class of decode/load differs between model and implementation (%s build)" % tag, "case": "%s %s" % (k, x.hex()[:2000]), "impl": got, "model": want})
    nontrivial = len(set(x for _, _, x in cases))
    return {
        "evaluations": evals, "distinct_nontrivial": nontrivial,
        "rule": "numeric adversaries, well-formed documents with extreme numbers (piece length 0/1 with huge totals, sums above 2^64, string lengths near 2^64), generated documents/values and mutations, names and path components of awkward lengths/compositions (multi-byte characters straddling offsets 1..1000, refused and accepted, control/invisible characters, invalid UTF-8), nesting depth 10..100000, long flat inputs; each in a child process, debug+release, %d ms limit, counting allocator; non-trivial = distinct input" % LIMIT_MS,
        "samples": [{"case": k, "kind": kind, "input_head": repr(x[:80]), "len": len(x)} for k, kind, x in (cases[5], cases[200], cases[-3])],
        "distribution": {"kinds": dist, "outcomes": outcomes}, "disagreements": len(broken), "findings": findings, "broken": broken,
        "known_lines": sorted(known),
        "explanation": "decode_no_panic / decode_total / load_total proved over the models; runtime residue (stack, time, allocation) exercised in child processes",
    }


def replay(ctx, payload):
    case = payload.get("case", "")
    k, _, h = case.partition(" ")
    if h.startswith("<"):
        print("input too long to embed; regenerate with seed", payload.get("seed"))
        return 1
    x = bytes.fromhex(h)
    rc = 0
    for release in (False, True):
        out = run_impl(ctx, [(k, "replay", x)], release).get(k, "<no output>")
        v, kn = judge(k, "replay", x, out, None)
        print("release" if release else "debug", out, "->", v or kn or "fine")
        rc = rc or (1 if v else 0)
    return rc
