"""C04 - already-verified export data is never rewritten, damaged or lost across runs.  Histories of
2-4 runs on the same tree with changing scan sets, torrent subsets, flags and thread counts."""
import collections

import oracles
import runlib
import runprops
import vlib
import worlds

ASSUMPTIONS = ["'verifies in the export tree' for the no-rewrite clause is the exact reading (export files of the declared length); preservation and monotonicity use the loose reading (ranges exist and hash correctly)"]


def build(ctx, tier):
    n = 90 if tier == "quick" else 700
    jobs = []
    for i in range(n):
        rng = vlib.rng_for(ctx["seed"], "C04/%d" % i)
        # every fifth world: multi-file torrents with many padding files, most of them NOT ending on a piece boundary
        w = runprops.world_for("hist", ctx["seed"], i, pad_heavy=(i % 5 == 4))
        steps = []
        for s in range(rng.choice([2, 2, 3, 4])):
            scans = [sc for sc in w.scans if rng.random() < 0.7] or list(w.scans[:1])
            if rng.random() < 0.2:
                scans = scans + [w.export]
            pres = [p for p in w.presented if rng.random() < 0.8] or list(w.presented[:1])
            rng.shuffle(pres)
            steps.append({"threads": rng.choice([0, 1, 2, 3, 8]), "resize": rng.random() < 0.3, "scans": scans, "presented": pres})
        # last step: everything again, to reach the 'all verified' clause more often
        if rng.random() < 0.6:
            steps.append({"threads": rng.choice([1, 3]), "resize": False, "scans": list(w.scans), "presented": list(w.presented)})
            steps.append({"threads": rng.choice([1, 2]), "resize": rng.random() < 0.5, "scans": list(w.scans), "presented": list(w.presented)})
        jobs.append((i, w, steps))
    return jobs


def check_history(w, lst):
    """lst: [(rr, ce)] in order.  Returns the first violated clause or None."""
    prev = None
    for step, (rr, ce) in enumerate(lst):
        if rr.result not in ("ok", "err"):
            return "run %d of the history did not return a result: %s" % (step, rr.result)
        cx = oracles.Ctx(rr.world, rr, ce)
        bad = oracles.c04(cx)
        if bad:
            return "run %d of the history: %s" % (step, bad)
        # monotonicity over ALL torrents of the world, loaded in this run or not
        allcx = oracles.Ctx(w, rr, ce)
        allcx.torrents = sorted(w.torrents, key=lambda t: t.info_hash)
        _, now = oracles.verified_ranges(allcx, rr.after, exact=False)
        nowset = set((t.hex, pc[0]) for t, pc in now)
        if prev is not None and not prev <= nowset:
            return "run %d of the history: pieces %r verified before it and no longer do" % (step, sorted(prev - nowset)[:3])
        prev = nowset
    return None


def correspondence(ctx):
    jobs = build(ctx, ctx["tier"])
    hist = worlds.run_histories([("h%d" % i, w, steps) for i, w, steps in jobs])
    flat = {}
    for i, w, steps in jobs:
        for s, pair in enumerate(hist["h%d" % i]):
            flat["h%d_%d" % (i, s)] = pair
    ver = worlds.validate_many(flat, ctx["driver"])
    findings, broken, runs = [], [], []
    stats = collections.Counter()
    for i, w, steps in jobs:
        lst = hist["h%d" % i]
        sc = runprops.Scenario("hist", ctx["seed"], i, {"steps": len(steps)})
        bad = check_history(w, lst)
        for s, (rr, ce) in enumerate(lst):
            runs.append({"sc": runprops.Scenario("hist", ctx["seed"], i, {"step": s}), "w": rr.world, "rr": rr, "ce": ce, "verdict": ver["h%d_%d" % (i, s)]})
            stats["runs"] += 1
            cx = oracles.Ctx(rr.world, rr, ce)
            total = sum(len(t.hashes) for t in cx.torrents)
            _, ver_before = oracles.verified_ranges(cx, rr.before, exact=True)
            if total and len(ver_before) == total:
                stats["runs starting with every piece verified"] += 1
            if ver_before:
                stats["runs starting with some piece verified"] += 1
            if not bad and not ver["h%d_%d" % (i, s)].startswith("ok") and len(broken) < 10:
                broken.append({"what": "run %d of the history is not a behaviour of the model: %s" % (s, ver["h%d_%d" % (i, s)][:600]), "scenario": sc.ident()})
        if bad and len(findings) < 5:
            findings.append({"scenario": sc.ident(), "violated_clause": bad, "world": runprops.describe_world(w),
                             "steps": [{k: (v if k != "scans" else [repr(b"/".join(x)) for x in v]) for k, v in st.items()} for st in steps]})
    res = runprops.result("C04", ctx, runs, findings, broken, dict(stats),
                          "histories of 2-6 runs on one tree (scan subsets, export included, torrent subsets permuted, flags, threads 0/1/2/3/8 changing between runs); write log intersected with the ranges verified beforehand, verified set before/after each run, 'all verified => nothing modified'; every run replayed against the model",
                          "export_first / verified_not_written on the model, fs_ops_preserve_verified (a verified range survives every admissible operation) proved; tied to the code by trace validation")
    res["distinct_nontrivial"] = stats["runs starting with some piece verified"]
    return res


def search(ctx, unexplained):
    """Wider hunt with the direct oracle (thorough generator)."""
    ctx2 = dict(ctx, tier="thorough")
    jobs = build(ctx2, "thorough")[:400]
    hist = worlds.run_histories([("h%d" % i, w, steps) for i, w, steps in jobs])
    out = []
    for i, w, steps in jobs:
        bad = check_history(w, hist["h%d" % i])
        if bad:
            out.append({"scenario": runprops.Scenario("hist", ctx["seed"], i, {"steps": len(steps)}).ident(), "violated_clause": bad, "world": runprops.describe_world(w)})
            if len(out) >= 3:
                break
    return out


def replay(ctx, payload):
    vlib.build_harness()
    ctx["driver"] = vlib.build_driver()
    sc = payload["scenario"]
    jobs = [j for j in build(dict(ctx, seed=sc["world_seed"]), "thorough") if j[0] == sc["index"]]
    i, w, steps = jobs[0]
    lst = worlds.run_histories([("h", w, steps)])["h"]
    bad = check_history(w, lst)
    print("violated clause:", bad)
    return 1 if bad else 0
