#!/bin/sh
# Runs every claimed check's quick command on the current tree (refreshes evidence/*.json).
cd "$(dirname "$0")/.."
rc=0
for p in $(python3 -c "import json; print(' '.join(c['property_id'] for c in json.load(open('MANIFEST.json'))['checks']))"); do
  ./check $p --tier ${1:-quick} | tail -3 || rc=1
done
exit $rc
