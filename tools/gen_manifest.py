"""Writes MANIFEST.json from the table below (kept in one place so that it stays valid)."""
import json
import os
import subprocess

VERIF = os.path.dirname(os.path.dirname(os.path.abspath(__file__)))

TRUST = ("Trusted: Coq 8.16.1 kernel (no axioms: every theorem is checked to print 'Closed under the global context'); "
         "ExtrOcamlBasic extraction + OCaml driver; the Rust harness/hooks and Python generators of the correspondence check; "
         "modelled-not-verified parts listed in DESIGN.md section 3.2 and 7.")

CHECKS = {
    "C01": dict(
        technique="Coq proof (piece program as interaction tree: only good operations for EVERY read answer/op result; byte invariant for any order of set_len/writes; lifted to the FS model) + trace validation of real runs against the extracted model + write-log oracle",
        text="C01_piece_issues_only_good_ops holds for every answer the environment can give (hence every interleaving, candidate/decoy combination and prior export state), C01_accepted_traces_are_good links validated traces to it, C01_fs_bytes_sound gives 'old byte / zero of extension / torrent byte' for every inode. Each of 260 (2500 thorough) generated runs of the real start() is replayed event by event against the extracted programs, index, work list and FS model, and checked by an independent byte-provenance oracle. WHOLE RUN (SystemModel/SystemProofs/GlueProofs): the scanning phase is a transition system (pool of piece programs over one shared file system; steps = any program's next action, failed operations, arbitrary read answers, a write cut short); C01_whole_run_bytes_sound proves the byte invariant in EVERY reachable state for the table and work list the model builds from loadable torrents; the validator replays the events of all pieces in global order through the extracted sys_event, every accepted event being a step of that system (sys_event_sound).",
        ref="DESIGN.md section 0.7 and 5 C01", note="Remaining premises of the whole-run theorem (run_setup): collision-freeness of the content at every piece, one file per export path, no two export paths initially hard-linked; the wf_piece side conditions are now PROVED from the layout theorems for every piece of the work list (C01_every_work_piece_good)."),
    "C02": dict(
        technique="Coq proof (candidate index complete and sound for every hash-map order; de-duplication keeps representatives; exhaustive combination search; available => Success with the segments written) + trace validation + independent availability oracle",
        text="C02_built_index_is_the_registered_set (IndexBuild.v): the index that FileCache's insertion procedure (IndexModel.build_index, extracted; the validator compares the implementation's index with it on every run) builds from any listing containing every regular file under a scan directory plus the export probes IS the registered set, for every file system, table, scan set, insertion order and multiplicity. C02_present_means_recovered (AvailProofs.v): C02 as stated - index = exactly the registered set of the start state, each segment present in a regular file of the declared length under a scan directory or at an export location that the run cannot damage, nothing in the way => Success and in place, for every hash-map order and interleaving. C02_stably_available_means_recovered / C02_stable_availability_is_invariant (RerunProofs.v): when each witness is a file the table owns no path of, or an export image already verifying for its own entry, availability at the START is kept in every reachable state (a theorem, not a hypothesis) and the piece is recovered. C02_available_means_recovered (CompleteProofs.v + EstablishProofs.v): in a fault-free run of the whole system, under every interleaving, all of whose states keep the piece available and unobstructed, the piece's evaluation can only return Success and every non-padding segment is then in place in the export tree. C02_candidates_complete/sound, C02_witnesses_give_combination, C02_search_exhaustive, C02_available_piece_recovered: at the program level, a piece whose every segment has a readable candidate holding the torrent's bytes succeeds and writes every segment not sourced from its own export file. Tied to the code by replaying 300 (3000) generated runs against the model and by an availability oracle computed from the initial snapshot. Worlds contain symbolic links where the tool resolves them (export files linked to complete files elsewhere, scan roots given through links), candidate names that are not valid UTF-8 (incl. pairs with the same lossy rendering), directory arguments under other spellings.",
        ref="DESIGN.md section 5 C02", note="Statement-level hypotheses: fault-free run, the witnesses stay in place and nothing obstructs the export paths in every state of the run (avail), collision-freeness, the torrent's hash is the hash of the content; the file-system effect of the emitted operations is the FS model's (validated against real runs)."),
    "C03": dict(
        technique="Coq proof (every mutating op targets an entry's export path or its parent; table paths confined to export/<hex>/Data; open modes from Generated.v) + whole-sandbox snapshot oracle + trace validation",
        text="C03_targets_confined, C03_open_modes (re-extracted flags), C03_resize_ops_on_targets, C03_unnamed_inodes_unchanged and the plain-name clause of the loader; tied to the code by before/after snapshots of the whole sandbox, every open mode in the fs-shim log, scan directories overlapping/containing the export directory, and trace validation. WHOLE RUN (SystemModel/SystemProofs/GlueProofs): the scanning phase is a transition system (pool of piece programs over one shared file system; steps = any program's next action, failed operations, arbitrary read answers, a write cut short); C03_whole_run_outside_untouched: in every reachable state no path is removed or retyped, every inode that is not an export image keeps its exact content, and whatever appears is an export image or a directory on the way to one. Further streams: an export argument spelled through a symbolic link and '..' (dotdot), directory arguments under other spellings and with names that are not valid UTF-8, the process' working directory / HOME / TMPDIR inside the sandbox and listed afterwards, and a sample of runs under strace (every successful creating / modifying / renaming / removing system call must name a path inside the sandbox).",
        ref="DESIGN.md section 5 C03", note="Lexical confinement: assumes no symbolic link inside an export subtree."),
    "C11": dict(
        technique="Coq proof (cut-off traces of good programs are good, byte invariant under any prefix incl. cut writes, verified ranges survive) + crash injection at every mutating operation with re-run",
        text="C11_cut_traces_are_good, C11_interrupted_bytes_sound, C11_verified_ranges_survive; the fs shim cuts the process at the k-th file operation (writes after 0/1/len-1 bytes), the interrupted tree is checked byte for byte and replayed as a cut-off trace of the model, and a clean re-run must recover everything that was available. WHOLE RUN (SystemModel/SystemProofs/GlueProofs): the scanning phase is a transition system (pool of piece programs over one shared file system; steps = any program's next action, failed operations, arbitrary read answers, a write cut short); C11_every_interrupted_state_sound: the invariant SI holds in every reachable state, which includes every crash point and the cut write. C11_rerun_recovers (RerunProofs.v): the first run is any path of that system (killed anywhere), the second a fault-free run from the state it left; every piece stably available before the first run ends in Success and in place.",
        ref="DESIGN.md section 5 C11", note="Crash = process kill (kernel state survives); power loss is outside the statement."),
    "C12": dict(
        technique="Coq proof (target shape, SetLen = declared length, padding never in a mutating op, disjoint subtrees via hex injectivity) + export-tree listing oracle + trace validation",
        text="C12_single/multi_file_location, C12_dir_name_length, C12_only_targets_declared_length, C12_subtrees_disjoint; tied to the code by the tree listing after each generated run and trace validation. WHOLE RUN (SystemModel/SystemProofs/GlueProofs): the scanning phase is a transition system (pool of piece programs over one shared file system; steps = any program's next action, failed operations, arbitrary read answers, a write cut short); C12_whole_run_creates_only_export_images.",
        ref="DESIGN.md section 5 C12"),
    "C13": dict(
        technique="Coq proof (unconditional structural facts: an error answer leads to Ret Fault after releasing the lock; lock discipline; goodness for error answers) + fault injection at every file operation (singles and pairs)",
        text="C13_whole_run_failures_elsewhere_any_schedule: the same END-TO-END statement with every evaluation but the one of piece i free to fail, be answered arbitrarily or be cut in the middle of a write (pstep_but i), under every schedule of the composed executor. C13_fault_ends_the_piece and C13_no_lock_leaked hold for every piece with no hypothesis; C13_ops_before_fault_good; the fs shim fails the k-th operation (open, fstat, read, create_dir_all, set_len, seek, write; pairs too) and each faulty run is replayed against the model and checked for confinement, counters and byte correctness. WHOLE RUN (SystemModel/SystemProofs/GlueProofs): the scanning phase is a transition system (pool of piece programs over one shared file system; steps = any program's next action, failed operations, arbitrary read answers, a write cut short); C13_whole_run_other_pieces_unaffected: after any failures every program still in the pool is good. C13_failure_elsewhere_costs_nothing: with every OTHER program free to fault or be cut, a piece that stays available can still only return Success and is then in place (rely/guarantee, CompleteProofs.v). Stream obstructed: a regular file or a dangling symbolic link where an export directory is needed (real errors, no injection); pieces that need nothing below it keep their guarantees.",
        ref="DESIGN.md section 5 C13"),
    "C14": dict(
        technique="Coq proof (prelude program evaluated against an arbitrary probe-answer function: abort with no mutation on any over-long file; exactly the shorter files extended to the declared length; no mutation without the flag) + pre-flight oracle + prelude trace validation",
        text="C14_extended_file_counts_as_source: after the pre-flight's SetLen a short export file is present (AvailProofs) at its own export location, so C02_present_means_recovered applies to it. C14_overlong_aborts_before_any_change (any position), C14_extends_exactly_the_shorter_files, C14_no_flag_no_prelude_change, open modes from Generated.v; tied to fix_export_file_lengths by runs over random per-file export states with the flag on and off. Stream prefixdirs: sibling export directories one of whose names is a textual prefix of the other, the shorter-named one absent.",
        ref="DESIGN.md section 5 C14", note="A directory sitting at an export path is outside the modelled fragment."),
    "C15": dict(
        technique="Coq proof (rely/guarantee proof that Success implies every segment in place in the fault-free system; counter arithmetic; one line per piece; success only through good traces) + stdout progress-line oracle on real and scheduled runs + trace validation",
        text="C15_available_piece_counted_succeeded: in every complete fault-free run the evaluation of a piece whose data is present has returned Success (what the counters count as succeeded) and the piece is in place; the validator replays the printed progress lines through the extracted count/progress. C15_success_means_in_place / C15_in_place_forever (EstablishProofs.v, rely-guarantee): in every fault-free run of the whole system, under every interleaving, when the evaluation of a piece returns Success every non-padding segment of the piece is held by its export file - written by this evaluation or found there - and stays so in every later state (faults and crashes included). C15_counters_sum, C15_one_line_per_piece, C15_success_only_via_good_trace; the progress lines of each real run are parsed and compared with the piece count of the distinct torrents, the per-piece outcomes and the export tree afterwards (duplicate / permuted torrent lists included).",
        ref="DESIGN.md section 5 C15", note="'Every piece evaluated exactly once' is C05; 'available => succeeded' relies on C02 (checked by oracle here). Known finding K3 (duplicate file paths in one torrent: succeeded pieces that do not verify) is listed in known_findings.json."),
    "C16": dict(
        technique="Coq proof (bad path in any position => Fault with no mutating op; no piece program panics; loader total) + child-process runs (bad paths, no/unloadable torrents, degenerate torrents, CLI binary)",
        text="C16_setup_never_panics (SetupTotal.v): for torrents the loader returned and any index (any directory contents) the candidate ranking and the work-list construction return Ok - no unwrap of the set-up can fire; C16_loaded_paths_ok. Partial: C16_bad_path_no_effect, C16_piece_never_panics, C16_load_total are theorems of the model; allocation failure is runtime (known finding K2). Bad paths of every kind in every position, runs without loadable torrents, degenerate loadable torrents and the CLI binary are exercised as child processes. WHOLE RUN (SystemModel/SystemProofs/GlueProofs): the scanning phase is a transition system (pool of piece programs over one shared file system; steps = any program's next action, failed operations, arbitrary read answers, a write cut short); C16_whole_run_no_panic; C16_loaded_torrent_ok ties the loader to the premises of the layout/work-list theorems. Streams: near-loadable documents (a degenerate value in the name / path variant the loader uses, same-length files on disk: the run must do nothing); a FIFO at an export location (known finding K4).",
        ref="DESIGN.md section 5 C16", note="Allocation failure and thread panics at join are runtime."),
    "C04": dict(
        technique="Coq proof (export file first for every hash-map order; verified piece => Success with NO mutating operation; verified ranges survive every admissible operation; no truncate flags) + histories of runs with write-log oracle",
        text="C04_export_file_is_first_candidate, C04_verified_multi/single_piece_not_written, C04_verified_ranges_preserved, C04_never_truncates; C04_verified_set_only_grows (RerunProofs.v): over any sequence of runs, each with its own table and each complete, faulted or killed, a verified range of an export file keeps verifying; tied to the code by histories of 2-6 runs on one tree (changing scan sets, torrent subsets, flags, thread counts; finished export files hard-linked into scan directories), the write log intersected with previously verified ranges, and trace validation of every run. WHOLE RUN (SystemModel/SystemProofs/GlueProofs): the scanning phase is a transition system (pool of piece programs over one shared file system; steps = any program's next action, failed operations, arbitrary read answers, a write cut short); C04_whole_run_verified_preserved: a range holding the torrent's bytes holds them in every reachable state.",
        ref="DESIGN.md section 5 C04", note="'verifies' for the no-rewrite clause = export files of the declared length (exact reading); preservation/monotonicity use the loose reading."),
    "C05": dict(
        technique="Coq proof (labelled transition system of the executor with one-at-a-time lock release: 18-field invariant, conservation, exactly-once, deadlock freedom, strictly decreasing measure; concrete rebalancing relation proved a permutation / even) + refinement proof of an executable replay (ExecRun.xstep) + replay of the synchronisation log of every deterministic-scheduler run of the real executor through it",
        text="C05_whole_run_any_schedule (WholeRunProofs.v): END TO END for a run of loadable torrents set up by the model's own functions, n workers, fault-free composition of executor and evaluations: complete runs exist, every run terminates, every complete run evaluated every piece exactly once and each piece whose data is present ended in Success and is in place. C05_composed_* (ComposeProofs.v): the executor model and the system of piece programs composed as in the code (the worker that popped piece w performs the steps of w's program, then 'solved'): every composed run is a run of both models, it terminates, never gets stuck, complete runs exist, and when all workers are done every piece's program has returned, each evaluated by exactly one worker. C05_every_evaluation_terminates (TerminationProofs.v): the transition system of the scanning phase (all interleavings, faults, cut writes) has no infinite path; C05_fault_free_run_completes / C05_stuck_means_all_returned: runs can always be completed and then every evaluation has returned. C05_work_conserved, C05_exactly_once, C05_deadlock_free, C05_terminates hold for every thread count and every reachable state, i.e. every interleaving, with no fairness assumption (a measure decreases at every step); C05_balance_* prove the concrete balance a permutation that fills queues evenly. The real executor is driven through seeded schedules by the sync shim (every lock/try_lock/unlock/spawn/join/exit a scheduling point) and with real threads; each run is replayed against the model and checked for completion, exactly-once, mutual exclusion and identical trees. C05_accepted_log_is_model_path: the lock / try_lock / unlock operations on the queue and state locks, the piece scope markers and the queue dump of every balance() of each scheduled run are replayed through the extracted xstep (silent decisions + one step per synchronisation operation; the balance result is checked against BalanceModel.balance with a witness for the hash-map order), and every accepted log is proved to be a path of ExecModel.step from the initial state.",
        ref="DESIGN.md section 5 C05", note="std Mutex/thread semantics and the memory model are assumed; the shim assumes sequential consistency at scheduling points."),
    "C06": dict(
        technique="Coq proof (induction over the cursor loop, closed-form interval spec) + differential run of the extracted model against Pieces::from_torrent",
        text="Theorems C06_layout_multi / C06_layout_single / C06_hash_count and the partition theorems hold for all file-length vectors and piece lengths with u64 checks explicit; the model is tied to pieces.rs by an exhaustive small-vector and u64-boundary differential run with an independent interval oracle; C06_loaded_torrent_layout: for every torrent the loader returns the layout model returns Ok with non-empty pieces whose segments lie inside the files they name; the loader's hash-count test is run against the model on totals far above 2^64. Real runs on torrents with byte-identical pieces at different offsets (A-B-A, zero runs): the work list (convert_pieces_to_work) against the model's work_of, availability oracle.",
        ref="DESIGN.md section 5 C06"),
    "C07": dict(
        technique="Coq proof (info span = encoding of the info value via exact spans; hex round-trip) + differential run against Torrent::from_bytes, get_sha1_hexdigest and the sha1 crate",
        text="C07_info_hash_is_H_of_info_bytes: for every loadable input the info-hash is H of exactly the contiguous bytes encoding the value bound to 'info'; C07_info_hash_indep_outer: it depends on the info value only; hex length/lowercase/injective. H (SHA-1) is abstract in the theorems; its executable instance is validated against the sha1 crate and hashlib.",
        ref="DESIGN.md section 5 C07"),
    "C08": dict(
        technique="Coq proof (soundness + completeness of the fuelled decoder w.r.t. the canonical encoder, spans specified by a function) + exhaustive/generated differential run against Parser::decode",
        text="C08_decode_spec: decode x = Ok t <-> x is the encoding of exactly one canonical value v and t = annot 0 v (every node's start/continuation computed from the encodings); proved for all byte strings. The model is tied to parser.rs by comparing whole trees incl. every span on all strings over a 11-symbol bencode alphabet (d e i l 0 1 2 : - a +) up to length 5 (6 thorough) plus grammar-generated, mutated and numeric-adversary inputs; an independent reference decoder names the violated clause.",
        ref="DESIGN.md section 5 C08"),
    "C09": dict(
        technique="Coq proof (no Panic, fuel |x|+1 suffices, loader total) + child-process runs of the real decoder/loader (debug+release, time limit, counting allocator)",
        text="Partial by nature: C09_decode_no_panic, C09_decode_fuel_linear, C09_load_total are theorems of the models (all unchecked arithmetic/slices modelled as Panic-capable); C09_string/integer_automaton_is_model: the two numeric state machines of parser.rs, modelled state by state with checked_mul/checked_add/checked_sub and the unchecked position increment, are proved equal to the functions the decoder model uses and never to overflow the position; stack depth, time and allocation are runtime and are exercised by child-process runs on numeric adversaries, extreme-number documents, deep nesting and long flat inputs. Known finding K1 (stack overflow on >= 4096-deep nesting) is listed in known_findings.json. The child processes also build the piece table (Pieces::from_torrent) of every document that loads.",
        ref="DESIGN.md section 0.8 and 5 C09", note="Runtime residue (stack, wall time, allocator) is not provable in the model."),
    "C10": dict(
        technique="Coq proof (loader model on token trees = specification on abstract values with exact-key look-up) + differential run against Torrent::from_bytes on generated documents",
        text="C10_load_iff_wellformed: a byte string loads iff it is the canonical encoding of a value meeting spec_doc (clauses spelled out in C10_fields_faithful), with every loaded field equal to the value in the input; C10_exact_key: look-ups are by exact key. Tied to torrent.rs by 20k (150k thorough) structured/chaotic documents and a UTF-8 boundary stream, with an independent reference loader as oracle. Stream of well-formed documents in a non-canonical encoding (one defect - zero-padded string length, leading zero / -0 / + in an integer, keys out of order, repeated key, trailing bytes - at one node): none may load.",
        ref="DESIGN.md section 5 C10"),
    "C17": dict(
        technique="Coq proof (sorted+deduplicated torrent list depends only on the set of torrents; candidate lists represent exactly the registered inodes with the export file first for every hash-map order; exhaustive search monotone in candidates) + runs under five presentations of each world",
        text="C17_index_independent_of_insertion_order (IndexBuild.v): two insertion sequences with the same registrations build indexes holding the same nodes (build_index = FileCache's insertion procedure, extracted and compared with the implementation's index on every run). C17_scan_list_permuted / _repeated / _nested / _added: the scan list enters the completeness theorems only through under_of (extracted; used by the validator), which is invariant under permutation, repetition and nesting and monotone under addition; C17_presence_monotone: more files, more scan directories, more torrents keep a present segment present. C17_distinct_torrents, C17_torrent_list_presentation, C17_candidates_order_independent, C17_export_first_for_every_order, C17_more_candidates_monotone; each generated world is run as generated, permuted, with duplicates, with nested scan directories and with the export directory among the scan directories; guarantees checked on each, trees compared, every run replayed against the model.",
        ref="DESIGN.md section 5 C17", note="Identical trees are demanded when no content is shared between torrents (otherwise the order of evaluation legitimately matters)."),
}

PENDING = {}


def hook_commits():
    try:
        out = subprocess.run(["git", "-C", "/repo", "log", "--format=%H %s"], capture_output=True, text=True).stdout
        return [l.split()[0] for l in out.splitlines() if " verif hook:" in l]
    except Exception:
        return []


def main():
    props = [json.loads(l)["id"] for l in open(os.path.join(VERIF, "properties.jsonl"))]
    checks = []
    for pid in props:
        if pid not in CHECKS:
            continue
        c = CHECKS[pid]
        checks.append({
            "property_id": pid,
            "quick_cmd": "./check %s --tier quick" % pid,
            "thorough_cmd": "./check %s --tier thorough" % pid,
            "evidence_file": "/verif/evidence/%s.json" % pid,
            "replay_cmd_template": "./check %s --replay {path}" % pid,
            "engine": "coq-proof+correspondence",
            "level_claimed": {"category": "proof", "text": c["text"], "design_ref": c["ref"]},
            "level_note": TRUST + (" " + c["note"] if c.get("note") else ""),
            "technique": c["technique"],
        })
    na = [{"property_id": pid, "reason": PENDING.get(pid, "not claimed in this revision: its model and theorems are not yet part of the committed development")}
          for pid in props if pid not in CHECKS]
    m = {
        "version": 1,
        "setup_cmd": "./setup.sh",
        "hooks": {
            "guard": "--cfg torrent_bootstrap_verif",
            "enable": "RUSTFLAGS=\"--cfg torrent_bootstrap_verif\" cargo build (the harness crate /verif/harness depends on /repo by path)",
            "baseline_off_cmd": "cd /repo && cargo test --workspace --no-fail-fast --offline",
            "source_commits": hook_commits(),
            "add_only": True,
        },
        "engines": [{
            "name": "coq-proof+correspondence", "path": "/verif/check",
            "serves_properties": [c["property_id"] for c in checks],
            "kind_free_text": "Coq 8.16.1 theorems over hand-written Gallina models (coq/theories), tied to /repo on every run by a differential correspondence check (Rust harness vs model extracted to OCaml) and a translator for declarative constants (Generated.v)",
        }],
        "checks": checks,
        "not_applicable": na,
        "notes": "See DESIGN.md. Known findings and fixed defects are listed in known_findings.json.",
    }
    with open(os.path.join(VERIF, "MANIFEST.json"), "w") as f:
        json.dump(m, f, indent=1)
        f.write("\n")


if __name__ == "__main__":
    main()
