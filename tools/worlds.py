"""Parallel execution of world runs and batch validation against the extracted model."""
import concurrent.futures
import subprocess

import runlib
import vlib
import worldgen


def run_many(jobs, workers=vlib.JOBS):
    """jobs: list of (case id, world, kwargs for runlib.run_world). Returns {case id: (rr, ce)}."""
    out = {}

    def one(job):
        cid, w, kw = job
        rr = runlib.run_world(w, **kw)
        ce = runlib.canonical_events(rr)
        rr.world = w
        return cid, rr, ce
    with concurrent.futures.ThreadPoolExecutor(max_workers=workers) as ex:
        for cid, rr, ce in ex.map(one, jobs):
            out[cid] = (rr, ce)
    return out


def validate_many(results, driver, workers=vlib.JOBS):
    """results: {case id: (rr, ce)} -> {case id: verdict string}"""
    ids = list(results)
    chunks = [ids[i::workers] for i in range(workers)]
    verdicts = {}

    def one(chunk):
        if not chunk:
            return ""
        inp = "".join(runlib.validator_input(cid, results[cid][0], results[cid][1]) for cid in chunk)
        p = subprocess.run([driver, "validate"], input=inp.encode(), stdout=subprocess.PIPE, stderr=subprocess.PIPE, timeout=1800)
        return p.stdout.decode("utf-8", "replace")
    with concurrent.futures.ThreadPoolExecutor(max_workers=workers) as ex:
        for text in ex.map(one, chunks):
            for line in text.splitlines():
                cid, _, v = line.partition(" ")
                verdicts[cid] = v
    for cid in ids:
        verdicts.setdefault(cid, "bad no verdict from the model runner")
    return verdicts


def gen_worlds(seed, tag, n, **kw):
    rng = vlib.rng_for(seed, tag)
    return [worldgen.gen_world(rng, **kw) for _ in range(n)]


def run_histories(jobs, workers=vlib.JOBS):
    """jobs: list of (case id, world, steps) -> {case id: [(rr, ce), ...]}"""
    out = {}

    def one(job):
        cid, w, steps = job
        rrs = runlib.run_history(w, steps)
        return cid, [(rr, runlib.canonical_events(rr)) for rr in rrs]
    with concurrent.futures.ThreadPoolExecutor(max_workers=workers) as ex:
        for cid, lst in ex.map(one, jobs):
            out[cid] = lst
    return out
