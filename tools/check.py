"""./check <Cxx> [--tier quick|thorough] [--replay file]
Exit 0: the property held on everything explored.  Exit 1 with a line
`VIOLATION property=<id> replay=<path>` otherwise (ending in no-failing-input-found when the
proof or correspondence broke but no concrete failing input was found)."""
import argparse
import importlib
import json
import os
import sys
import time
import traceback

sys.path.insert(0, os.path.dirname(os.path.abspath(__file__)))
import vlib


def main():
    ap = argparse.ArgumentParser()
    ap.add_argument("prop")
    ap.add_argument("--tier", default=os.environ.get("VERIF_TIER", "quick"))
    ap.add_argument("--replay")
    args = ap.parse_args()
    prop = args.prop.upper()
    tier = "thorough" if args.tier == "thorough" else "quick"
    try:
        seed = int(os.environ.get("VERIF_SEED", "1"))
    except ValueError:
        seed = 1
    mod = importlib.import_module("props." + prop.lower())
    t0 = time.time()
    os.makedirs(vlib.WORK, exist_ok=True)
    ctx = {"prop": prop, "tier": tier, "seed": seed, "work": os.path.join(vlib.WORK, prop)}
    os.makedirs(ctx["work"], exist_ok=True)

    if args.replay:
        sys.exit(mod.replay(ctx, json.load(open(args.replay))))

    violations = []      # (replay payload, found_input: bool)
    known_lines = []
    coq = {"ok": False, "obligations": 0, "discharged": 0, "failed": ["not run"], "assumptions": {}}
    corr = {"evaluations": 0, "distinct_nontrivial": 0, "rule": "", "samples": [], "disagreements": 0}
    try:
        coq = vlib.build_coq(prop)
        if tier == "thorough" and coq["ok"]:
            ok, txt = vlib.coqchk(prop)
            coq["coqchk"] = {"ok": ok, "tail": txt}
            if not ok:
                coq["ok"] = False
                coq["failed"].append("coqchk failed: " + txt[-300:])
        ctx["coq"] = coq
        ctx["harness"] = vlib.build_harness()
        ctx["driver"] = vlib.build_driver()
        corr = mod.correspondence(ctx)
        findings = corr.pop("findings", [])      # concrete failing inputs: dicts
        broken = corr.pop("broken", [])          # broken correspondences without a concrete failing input
        for f in findings:
            k = mod.known(f) if hasattr(mod, "known") else None
            if k:
                known_lines.append("KNOWN-FINDING: property=%s %s" % (prop, k))
            else:
                violations.append((f, True))
        for line in corr.pop("known_lines", []):
            known_lines.append("KNOWN-FINDING: property=%s %s" % (prop, line))
        unexplained = list(broken)
        if not coq["ok"]:
            unexplained.append({"what": "proof obligations of Properties/%s.v no longer check" % prop, "details": coq["failed"]})
        if unexplained and not violations:
            # the tie broke: look for a concrete failing input with the property's direct oracle
            extra = mod.search(ctx, unexplained) if hasattr(mod, "search") else []
            for f in extra:
                k = mod.known(f) if hasattr(mod, "known") else None
                if k:
                    known_lines.append("KNOWN-FINDING: property=%s %s" % (prop, k))
                else:
                    violations.append((f, True))
            if not violations:
                violations.append(({"property": prop, "no_failing_input_found": True, "broken": unexplained}, False))
    except Exception as ex:
        tb = traceback.format_exc()
        vlib.log(tb)
        violations.append(({"property": prop, "no_failing_input_found": True,
                            "broken": [{"what": "check machinery could not run against the current tree", "details": str(ex)[-3000:]}]}, False))

    for line in sorted(set(known_lines)):
        print(line)
    rc = 0
    reported = 0
    for payload, found in violations[:5]:
        payload.setdefault("property", prop)
        payload.setdefault("seed", seed)
        payload.setdefault("tier", tier)
        path = vlib.write_replay(prop, payload)
        print("VIOLATION property=%s replay=%s%s" % (prop, path, "" if found else " no-failing-input-found"))
        reported += 1
        rc = 1
    vlib.write_evidence(prop, tier, seed, coq, corr, time.time() - t0, len(violations),
                        extra_assumptions=getattr(mod, "ASSUMPTIONS", []))
    if rc == 0:
        print("OK property=%s tier=%s obligations=%d/%d evaluations=%d wall=%.1fs" % (
            prop, tier, coq.get("discharged", 0), coq.get("obligations", 0), corr.get("evaluations", 0), time.time() - t0))
    sys.exit(rc)


if __name__ == "__main__":
    main()
