"""World generator for the run-level properties (C01-C05, C11-C17): torrents with ground-truth
content, scan trees with exact copies / decoys / partial files / hard links, prior export states,
flags and thread counts.  Everything derives from the rng handed in."""
import hashlib
import os
import random

import docgen

NAMES = [b"a", b"b.bin", b"c d", "éx".encode(), b"f-1", b"g_2", b"h.tar.gz", b"I", b"data", b"Data", b"x.pad", b"0"]
DIRS = [b"d1", b"sub", b"deep", "ün".encode(), b"D 2", b"Data", b"x"]


def sha1(b):
    return hashlib.sha1(b).digest()


class TFile:
    def __init__(self, path, content, pad=False):
        self.path = path          # list of byte components (multi) / [] (single)
        self.content = content
        self.pad = pad

    @property
    def length(self):
        return len(self.content)


class TorrentSpec:
    def __init__(self, name, piece_length, files, single, extra=None):
        self.extra = dict(extra or {})      # further keys of the info dictionary that the tool does not interpret (they change the info-hash)
        self.name = name
        self.piece_length = piece_length
        self.files = files
        self.single = single
        data = b"".join(f.content for f in files)
        self.total = len(data)
        L = piece_length
        self.hashes = [sha1(data[i:i + L]) for i in range(0, len(data), L)] if L > 0 else []
        info = {b"name": name, b"piece length": piece_length, b"pieces": b"".join(self.hashes)}
        if single:
            info[b"length"] = files[0].length
        else:
            info[b"files"] = [{b"length": f.length, b"path": list(f.path)} for f in files]
        info.update(self.extra)
        self.info = info
        self.raw = docgen.enc({b"info": info, b"announce": b"http://t/" + name})
        self.info_hash = sha1(docgen.enc(info))
        self.hex = self.info_hash.hex()

    def rel_target(self, f):
        comps = [self.hex.encode(), b"Data", self.name] + ([] if self.single else list(f.path))
        return comps

    def pieces(self):
        """[(index, [(file index, offset, length)], bytes)] by interval arithmetic."""
        out = []
        starts = [0]
        for f in self.files:
            starts.append(starts[-1] + f.length)
        data = b"".join(f.content for f in self.files)
        L = self.piece_length
        for i in range(len(self.hashes)):
            lo, hi = i * L, min((i + 1) * L, self.total)
            segs = []
            for k, f in enumerate(self.files):
                a, b = max(lo, starts[k]), min(hi, starts[k] + f.length)
                if a < b:
                    segs.append((k, a - starts[k], b - a))
            out.append((i, segs, data[lo:hi]))
        return out


def rand_content(rng, n, flavour=None):
    flavour = flavour or rng.choice(["rand", "rand", "rand", "zeros", "ramp"])
    if flavour == "zeros":
        return bytes(n)
    if flavour == "ramp":
        s = rng.randint(0, 255)
        return bytes((s + i) % 256 for i in range(n))
    return bytes(rng.randint(0, 255) for _ in range(n))


def uniq_name(rng, used):
    for _ in range(50):
        n = rng.choice(NAMES) if rng.random() < 0.7 else bytes(rng.choice(b"abcdefgXYZ") for _ in range(rng.randint(1, 4)))
        if n not in used:
            used.add(n)
            return n
    n = b"n%d" % len(used)
    used.add(n)
    return n


def gen_torrent(rng, idx, maxlen=12, empties=False):
    single = rng.random() < 0.35
    name = rng.choice(NAMES) + b"%d" % idx if rng.random() < 0.8 else rng.choice(NAMES)
    L = rng.choice([1, 2, 3, 4, 4, 5, 6, 8])
    if single:
        n = rng.choice([1, 2, 3, 5, 7, 8, 9, 12, rng.randint(1, maxlen)])
        files = [TFile([], rand_content(rng, n))]
    else:
        nf = rng.choice([1, 2, 2, 3, 3, 4])
        files = []
        used = set()
        npad = 0
        for i in range(nf):
            r = rng.random()
            if r < 0.12 and i > 0:
                npad += 1
                padname = b"%d" % rng.randint(0, 99999) if rng.random() < 0.7 else bytes(rng.choice(b"0123456789") for _ in range(rng.choice([1, 19, 20, 21, 24, 40])))
                files.append(TFile([b".pad", padname], bytes(rng.randint(1, 6)), pad=True))
                while tuple(files[-1].path) in used:
                    files[-1].path[1] += b"0"
                used.add(tuple(files[-1].path))
                continue
            n = rng.choice([0, 0, 1, 2, 3, 4, 5, 8, rng.randint(0, maxlen)]) if not empties else rng.choice([0, 0, 0, 1, 2, 3, 4, 6])
            depth = rng.choice([1, 1, 1, 2, 3])
            while True:
                p = [rng.choice(DIRS) for _ in range(depth - 1)] + [uniq_name(rng, set())]
                # no path may be a prefix of another
                if all(tuple(p) != q[:len(p)] and tuple(q) != tuple(p[:len(q)]) for q in used):
                    break
                depth = min(depth + 1, 4)
            used.add(tuple(p))
            files.append(TFile(p, rand_content(rng, n)))
        if sum(f.length for f in files) == 0:
            files[0] = TFile(files[0].path, rand_content(rng, rng.randint(1, 6)))
    return TorrentSpec(name, L, files, single)


class World:
    """files: relpath (tuple of byte components) -> ('file', bytes) | ('link', relpath) | ('symlink', bytes) | ('dir',)"""

    def __init__(self):
        self.torrents = []       # TorrentSpec, distinct
        self.presented = []      # indices into torrents (may repeat / be permuted) or raw bytes of unloadable documents
        self.files = {}
        self.scans = []          # relpaths (tuples)
        self.export = (b"export",)
        self.resize = False
        self.threads = 1
        self.notes = {}

    def free(self, rel):
        """True if a regular file may be created at rel: nothing there, no file on the way, not a directory prefix of something."""
        rel = tuple(rel)
        if rel in self.files:
            return False
        for i in range(1, len(rel)):
            k = self.files.get(rel[:i])
            if k is not None and k[0] != "dir":
                return False
        for q in self.files:
            if q[:len(rel)] == rel:
                return False
        return True

    def put_file(self, rel, content):
        self.files[tuple(rel)] = ("file", content)

    def put_link(self, rel, to):
        self.files[tuple(rel)] = ("link", tuple(to))

    def remove_files(self, pred):
        """Removes the regular files whose (rel, content) satisfies pred, and the hard links that point at them."""
        gone = set(k for k, v in self.files.items() if v[0] == "file" and pred(k, v[1]))
        changed = True
        while changed:
            changed = False
            for k, v in list(self.files.items()):
                if k not in gone and v[0] == "link" and tuple(v[1]) in gone:
                    gone.add(k)
                    changed = True
        for k, v in list(self.files.items()):
            # a symbolic link left dangling would redirect the creation of the export file to where it points
            if v[0] == "symlink" and any(g[0] == b"vault" and v[1].endswith(b"/" + b"/".join(g)) for g in gone):
                gone.add(k)
        for k in gone:
            del self.files[k]

    def put_dir(self, rel):
        self.files[tuple(rel)] = ("dir",)


def corrupt(rng, content, how=None):
    if not content:
        return content
    how = how or rng.choice(["flip", "flip", "zeros", "tail", "head"])
    b = bytearray(content)
    if how == "flip":
        i = rng.randrange(len(b))
        b[i] ^= 1 << rng.randrange(8)
    elif how == "zeros":
        b = bytearray(len(b))
        if bytes(b) == content:
            b[0] = 1
    elif how == "tail":
        k = rng.randrange(len(b))
        for i in range(k, len(b)):
            b[i] = (b[i] + 1) % 256
    else:
        k = rng.randrange(len(b)) + 1
        for i in range(k):
            b[i] = (b[i] + 1) % 256
    return bytes(b)


def gen_padded_torrent(rng, idx):
    """A multi-file torrent in which padding files sit in the MIDDLE of pieces (alignment smaller than the piece
    length - legal, unusual): real, pad, real [, pad, real], with a piece length that spans them."""
    files = []
    k = 0
    for j in range(rng.choice([2, 3, 3])):
        if j:
            files.append(TFile([b".pad", b"%d" % rng.randint(0, 999)], bytes(rng.randint(1, 4)), pad=True))
            while any(tuple(f.path) == tuple(files[-1].path) for f in files[:-1]):
                files[-1].path[1] += b"0"
        k += 1
        files.append(TFile([rng.choice(DIRS)][:rng.choice([0, 1])] + [b"p%d" % k + rng.choice(NAMES)], rand_content(rng, rng.randint(1, 6))))
    return TorrentSpec(rng.choice(NAMES) + b"%d" % idx, rng.choice([4, 6, 8, 16]), files, False)


def gen_world(rng, ntorrents=None, allow_shared=True, empties=False, export_heavy=False, pad_heavy=False):
    w = World()
    nt = ntorrents or rng.choice([1, 1, 2, 2, 3])
    for i in range(nt):
        t = gen_padded_torrent(rng, i) if (pad_heavy and i == 0) else gen_torrent(rng, i, empties=empties)
        if empties and t.single:
            t = gen_torrent(rng, i, empties=empties)
        if any(t.info_hash == u.info_hash for u in w.torrents):
            continue
        w.torrents.append(t)
    # identical file shared between torrents: copy a file content into another torrent (rebuilding it)
    if allow_shared and len(w.torrents) >= 2 and rng.random() < 0.4:
        a, b = w.torrents[0], w.torrents[1]
        src = rng.choice([f for f in a.files if not f.pad])
        tgt = rng.choice([f for f in b.files if not f.pad])
        tgt.content = src.content
        w.torrents[1] = TorrentSpec(b.name, b.piece_length, b.files, b.single)
        if w.torrents[1].info_hash == w.torrents[0].info_hash:
            w.torrents.pop()
    w.presented = list(range(len(w.torrents)))
    # decisions added later draw from a generator of their own, so that the worlds of a given seed keep everything else
    rng2 = random.Random(b"symlinks" + (w.torrents[0].info_hash if w.torrents else b""))
    nscan = rng.choice([1, 1, 2, 3])
    if rng.random() < 0.3:
        scan_roots = [(nm,) for nm in [b"media", b"media2", b"media22"][:nscan]]     # textual prefixes of one another, not ancestors
    else:
        scan_roots = [(b"scan%d" % i,) for i in range(nscan)]
    if rng2.random() < 0.1:
        # directory arguments whose names are not valid UTF-8 (a Latin-1 name, a stray continuation byte)
        w.export = (b"export-\xe9t\xe9",)
        scan_roots = [(s[0] + b"\xff",) if k == 0 else s for k, s in enumerate(scan_roots)]
    for s in scan_roots:
        w.put_dir(s)
    w.scans = list(scan_roots)
    w.put_dir(w.export)
    w.put_dir((b"bystander",))
    w.put_file((b"bystander", b"keep.txt"), b"do not touch")
    w.put_file((b"loose.bin",), b"outside everything")
    counter = [0]

    def fresh_under(root, name_hint, depth=None):
        depth = rng.choice([0, 0, 1, 2]) if depth is None else depth
        comps = list(root) + [rng.choice(DIRS) for _ in range(depth)]
        counter[0] += 1
        nm = name_hint if rng.random() < 0.5 else b"r%d_" % counter[0] + name_hint
        p = tuple(comps + [nm])
        while not w.free(p):
            counter[0] += 1
            p = tuple(list(root) + [b"r%d_" % counter[0] + name_hint])
        return p

    for t in w.torrents:
        for f in t.files:
            if f.pad:
                continue
            leaf = f.path[-1] if not t.single else t.name
            avail = rng.random() < 0.8
            ncand = rng.choice([0, 1, 1, 2, 3, 4])
            cands = []
            if avail and ncand == 0:
                ncand = 1
            good_pos = rng.randrange(ncand) if (avail and ncand) else -1
            for c in range(ncand):
                root = rng.choice(scan_roots)
                style = rng.choice(["samename", "renamed", "relpath", "nested"])
                if style == "relpath" and not t.single:
                    p = tuple(list(root) + [t.name] + list(f.path))
                    if not w.free(p):
                        p = fresh_under(root, leaf)
                elif style == "samename":
                    p = tuple(list(root) + [leaf])
                    if not w.free(p):
                        p = fresh_under(root, leaf)
                else:
                    p = fresh_under(root, leaf, None if style == "nested" else 0)
                if c == good_pos:
                    content = f.content
                else:
                    content = corrupt(rng, f.content) if f.length else f.content
                    if rng.random() < 0.2 and f.length:
                        # partially correct: right in one piece range only
                        content = bytearray(corrupt(rng, f.content, "zeros"))
                        k = rng.randrange(f.length)
                        content[k:k + t.piece_length] = f.content[k:k + t.piece_length]
                        content = bytes(content)
                w.put_file(p, content)
                cands.append(p)
                if rng.random() < 0.15:
                    w.put_link(fresh_under(rng.choice(scan_roots), leaf), p)   # hard-linked duplicate
            # a copy under a name that is not valid UTF-8 (paths are byte strings all the way)
            if rng2.random() < 0.08:
                rawdir = list(rng2.choice(scan_roots))
                rawp = tuple(rawdir + [b"\xff\xfe_" + leaf[:40]])
                if w.free(rawp):
                    good = rng2.random() < 0.6
                    w.put_file(rawp, f.content if good else f.content[::-1])
                    # a sibling whose name differs only in the invalid bytes (the two names have the same lossy rendering)
                    sib = tuple(rawdir + [b"\xfe\xff_" + leaf[:40]])
                    if rng2.random() < 0.6 and w.free(sib):
                        w.put_file(sib, f.content[::-1] if good else f.content)
            # a few wrong-length neighbours with the same name
            if rng.random() < 0.2:
                w.put_file(fresh_under(rng.choice(scan_roots), leaf), f.content + b"x")
            # prior export state
            st = rng.choice(["absent", "absent", "absent", "shorter", "exact-correct", "exact-partly", "exact-wrong", "longer"])
            if rng2.random() < 0.06:
                st = "symlink-correct"
            if export_heavy:
                st = rng.choice(["absent", "shorter", "shorter", "shorter", "exact-correct", "exact-partly", "exact-wrong", "longer" if rng.random() < 0.25 else "shorter"])
            tgt = tuple(list(w.export) + t.rel_target(f))
            if st == "shorter" and f.length:
                w.put_file(tgt, f.content[:rng.randrange(f.length)])
            elif st == "exact-correct":
                w.put_file(tgt, f.content)
                if rng.random() < 0.35:
                    # the finished export file is also hard-linked into a scan directory (a client / library folder)
                    for _ in range(rng.choice([1, 1, 2, 4])):
                        w.put_link(fresh_under(rng.choice(scan_roots), leaf), tgt)
            elif st == "exact-partly" and f.length:
                w.put_file(tgt, corrupt(rng, f.content, rng.choice(["tail", "head", "flip"])))
            elif st == "exact-wrong" and f.length:
                w.put_file(tgt, corrupt(rng, f.content, "zeros"))
            elif st == "longer":
                w.put_file(tgt, f.content + bytes(rng.randint(1, 3)))
            elif st == "symlink-correct":
                # the finished file lives elsewhere (not under any scan directory) and is linked into the export tree symbolically
                counter[0] += 1
                v = (b"vault", b"v%d" % counter[0])
                w.put_dir((b"vault",))
                w.put_file(v, f.content)
                w.files[tgt] = ("symlink", b"../" * (len(tgt) - 1) + b"/".join(v))
            w.notes.setdefault("export_states", {}).setdefault(st, 0)
            w.notes["export_states"][st] += 1
    if rng.random() < 0.3:
        w.files[scan_roots[0] + (b"sym",)] = ("symlink", b"../loose.bin")
    if rng2.random() < 0.12:
        # a scan directory given through a symbolic link (the walk follows its root and reports paths under the link's spelling)
        k = rng2.randrange(len(scan_roots))
        lnk = (b"lnk_" + scan_roots[k][0],)
        w.files[lnk] = ("symlink", scan_roots[k][0])
        if rng2.random() < 0.6:
            w.scans[k] = lnk
        else:
            w.scans.append(lnk)
        w.notes["scan_via_symlink"] = True
    if rng.random() < 0.25:
        w.put_file(tuple(list(w.export) + [b"stray.txt"]), b"stray")
    w.resize = rng.random() < 0.35
    w.threads = rng.choice([0, 1, 1, 2, 3, 8])
    if rng2.random() < 0.12:
        w.notes["spell"] = rng2.choice(["slash", "dot", "dslash"])      # how runlib spells the directory arguments
    if w.torrents and rng2.random() < 0.08:
        upper_case_namesake(w, rng2.choice(w.torrents), rng2)
    return w


def upper_case_namesake(w, t, rng):
    """The export directory already holds a directory named by the torrent's 40 hexadecimal digits in UPPER case (left by
    another tool): it is not the torrent's export directory and must stay as it is."""
    up = tuple(w.export) + (t.hex.upper().encode(),)
    w.put_dir(up)
    if rng.random() < 0.6:
        w.put_dir(up + (b"Data",))
        w.put_file(up + (b"Data", b"left-over.bin"), b"not ours")
    w.notes["upper_case_namesake"] = True


def parents_of(rel):
    return [tuple(rel[:i]) for i in range(1, len(rel))]


def materialise(w, root):
    """Creates the tree below `root` (a fresh directory)."""
    os.makedirs(root, exist_ok=True)
    broot = os.fsencode(root)

    def full(rel):
        return os.path.join(broot, *rel) if rel else broot
    items = sorted(w.files.items(), key=lambda kv: (0 if kv[1][0] != "link" else 1, len(kv[0])))
    for rel, what in items:
        if what[0] == "dir":
            os.makedirs(full(rel), exist_ok=True)
    for rel, what in items:
        if what[0] == "file":
            os.makedirs(os.path.dirname(full(rel)), exist_ok=True)
            with open(full(rel), "wb") as f:
                f.write(what[1])
        elif what[0] == "symlink":
            os.makedirs(os.path.dirname(full(rel)), exist_ok=True)
            os.symlink(what[1], full(rel))
    for rel, what in items:
        if what[0] == "link":
            os.makedirs(os.path.dirname(full(rel)), exist_ok=True)
            os.link(full(what[1]), full(rel))


def snapshot(root, follow_files_under=None, follow_dirs=()):
    """rel path (tuple of byte components) -> ('dir',) | ('file', content, (dev, ino)) | ('symlink', target).
    Symbolic links are recorded as such, except where the tool itself resolves them: a link to a regular file
    below `follow_files_under` (the export directory: export files are opened by path) is recorded as the file it
    resolves to - same (dev, ino), i.e. one more name of that inode (marked with a fourth component True: a directory walk does not list it); a link to a directory listed in `follow_dirs`
    (a scan directory given through a link: the walk follows its root) is recorded as a directory holding the same
    inodes under the link's spelling."""
    snap = {}
    broot = os.fsencode(root)
    follow_dirs = set(tuple(d) for d in follow_dirs)

    def record_file(rel, p, link=False):
        st = os.stat(p)
        import stat as _stat
        if not _stat.S_ISREG(st.st_mode):
            snap[rel] = ("special", _stat.S_IFMT(st.st_mode))       # a FIFO, socket or device: never opened here
            return
        with open(p, "rb") as f:
            snap[rel] = ("file", f.read(), (st.st_dev, st.st_ino)) + ((True,) if link else ())

    def walk(top, relbase):
        for d, dirs, files in os.walk(top):
            rel = relbase if d == top else relbase + tuple(os.path.relpath(d, top).split(b"/"))
            if rel:
                snap[rel] = ("dir",)
            for n in dirs:
                p = os.path.join(d, n)
                if os.path.islink(p):
                    r = rel + (n,)
                    if r in follow_dirs and os.path.isdir(p):
                        walk(os.path.realpath(p), r)
                    else:
                        snap[r] = ("symlink", os.readlink(p))
            for n in files:
                p = os.path.join(d, n)
                r = rel + (n,)
                if os.path.islink(p):
                    if follow_files_under is not None and r[:len(follow_files_under)] == tuple(follow_files_under) and os.path.isfile(p):
                        record_file(r, p, True)
                    else:
                        snap[r] = ("symlink", os.readlink(p))
                else:
                    record_file(r, p)
    walk(broot, ())
    return snap
