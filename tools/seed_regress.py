"""Regression over the seeded changes: applies each seeded/<name>/patch.diff to /repo, runs the
quick check of the property it breaks (or the checks given), undoes the change straight afterwards,
and reports which were detected.  Usage: seed_regress.py [name-prefix ...] [--checks Cxx,Cyy]"""
import json
import os
import subprocess
import sys
import time

VERIF = os.path.dirname(os.path.dirname(os.path.abspath(__file__)))


def sh(cmd, cwd=None, timeout=3000):
    p = subprocess.run(cmd, cwd=cwd, stdout=subprocess.PIPE, stderr=subprocess.STDOUT, timeout=timeout, env=dict(os.environ, CARGO_NET_OFFLINE="true"))
    return p.returncode, p.stdout.decode("utf-8", "replace")


def main():
    args = [a for a in sys.argv[1:] if not a.startswith("--")]
    checks = None
    for a in sys.argv[1:]:
        if a.startswith("--checks="):
            checks = a.split("=", 1)[1].split(",")
    rc, o = sh(["git", "-C", "/repo", "status", "--porcelain", "--untracked-files=no"])
    if o.strip():
        print("refusing: /repo has uncommitted changes"); sys.exit(2)
    names = sorted(d for d in os.listdir(os.path.join(VERIF, "seeded")) if os.path.exists(os.path.join(VERIF, "seeded", d, "patch.diff")))
    names = [n for n in names if not args or any(n.startswith(a) for a in args)]
    missed = []
    for n in names:
        meta = json.load(open(os.path.join(VERIF, "seeded", n, "meta.json")))
        todo = checks or [meta["property"]]
        rc, o = sh(["git", "-C", "/repo", "apply", os.path.join(VERIF, "seeded", n, "patch.diff")])
        if rc:
            print(n, "PATCH DOES NOT APPLY", o[-200:]); missed.append(n); continue
        try:
            for c in todo:
                t0 = time.time()
                rc, o = sh([os.path.join(VERIF, "check"), c], cwd=VERIF)
                lines = [l for l in o.splitlines() if l.startswith(("VIOLATION", "OK "))]
                print("%-34s %s exit=%d %5.1fs %s" % (n, c, rc, time.time() - t0, (lines or ["?"])[0][:140]), flush=True)
                if rc == 0 and c == meta["property"]:
                    missed.append(n)
        finally:
            sh(["git", "-C", "/repo", "checkout", "--", "."])
    print("missed:", missed)
    sys.exit(1 if missed else 0)


if __name__ == "__main__":
    main()
