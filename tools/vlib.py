"""Common machinery of the checks: building the Coq development, the Rust harness and the
extracted model runner from /repo's current working tree, running both sides on the same
cases, diffing, writing evidence and replay files."""
import fcntl
import hashlib
import json
import os
import random
import re
import shutil
import subprocess
import sys
import time

VERIF = os.path.dirname(os.path.dirname(os.path.abspath(__file__)))
REPO = os.environ.get("VERIF_REPO", "/repo")
COQ = os.path.join(VERIF, "coq")
HARNESS = os.path.join(VERIF, "harness")
OCAML = os.path.join(VERIF, "ocaml")
WORK = os.path.join(VERIF, "work")
EVIDENCE = os.path.join(VERIF, "evidence")
REPLAYS = os.path.join(EVIDENCE, "replays")
GUARD = "torrent_bootstrap_verif"
JOBS = 16

FORBIDDEN = re.compile(
    r"\b(Admitted|admit|Axiom|Axioms|Parameter|Parameters|Conjecture|Conjectures|Abort)\b|"
    r"Unset\s+Guard|bypass_check|Admit\s+Obligations|type-in-type|impredicative-set|"
    r"Unset\s+Positivity|Unset\s+Universe")

TRUSTED_BASE = [
    "Coq 8.16.1 kernel (coqc, full .vo build; vm_compute used for concrete Examples only; no native_compute)",
    "no axioms: every property theorem must print 'Closed under the global context' (checked on every run)",
    "extraction: ExtrOcamlBasic only (Extract Inductive for bool, option, unit, prod, list, sumbool, sumor; no Extract Constant), OCaml 4.13.1 ocamlfind ocamlopt, zarith used in the driver for decimal parsing/printing only",
    "correspondence check (differential test): Rust harness /verif/harness built against /repo's working tree with --cfg torrent_bootstrap_verif, OCaml driver /verif/ocaml/driver.ml, Python generators and canonicalisers in /verif/tools",
    "tools/gen_constants.py (translator for declarative constants: OpenOptions flags, key literals, markers) feeding coq/theories/Generated.v",
    "modelled, not verified: std::fs / POSIX semantics, walkdir, std::path on plain components, the sha1 crate, clap, mutex/thread semantics, memory and stack (DESIGN.md section 3.2)",
]


class CheckError(Exception):
    pass


def log(*a):
    print(*a, file=sys.stderr, flush=True)


def sh(cmd, cwd=None, env=None, timeout=1800, input_data=None, check=False):
    e = dict(os.environ)
    e.update({"CARGO_NET_OFFLINE": "true", "GOPROXY": "off", "PIP_NO_INDEX": "1"})
    if env:
        e.update(env)
    try:
        p = subprocess.run(cmd, cwd=cwd, env=e, timeout=timeout, input=input_data,
                           stdout=subprocess.PIPE, stderr=subprocess.PIPE, shell=isinstance(cmd, str))
    except subprocess.TimeoutExpired as ex:
        return 124, (ex.stdout or b"").decode("utf-8", "replace"), "timeout after %ss" % timeout
    out = p.stdout.decode("utf-8", "replace")
    err = p.stderr.decode("utf-8", "replace")
    if check and p.returncode != 0:
        raise CheckError("command failed (%s): %s\n%s\n%s" % (p.returncode, cmd, out[-3000:], err[-3000:]))
    return p.returncode, out, err


class BuildLock:
    """Serialises builds when several checks run at once."""

    def __init__(self, name):
        os.makedirs(WORK, exist_ok=True)
        self.path = os.path.join(WORK, name + ".lock")

    def __enter__(self):
        self.f = open(self.path, "w")
        fcntl.flock(self.f, fcntl.LOCK_EX)
        return self

    def __exit__(self, *a):
        fcntl.flock(self.f, fcntl.LOCK_UN)
        self.f.close()


# ------------------------------------------------------------------------------------------------
# Coq
# ------------------------------------------------------------------------------------------------

def scan_forbidden():
    """Returns the list of forbidden constructs found in the development (comments stripped)."""
    hits = []
    for root, _, files in os.walk(os.path.join(COQ, "theories")):
        for f in files:
            if not f.endswith(".v"):
                continue
            p = os.path.join(root, f)
            text = open(p, encoding="utf-8").read()
            text = strip_coq_comments(text)
            for m in FORBIDDEN.finditer(text):
                line = text.count("\n", 0, m.start()) + 1
                hits.append("%s:%d: %s" % (os.path.relpath(p, VERIF), line, m.group(0)))
    cp = open(os.path.join(COQ, "_CoqProject")).read()
    for bad in ("-type-in-type", "-impredicative-set", "-vos", "-vok"):
        if bad in cp:
            hits.append("_CoqProject: " + bad)
    return hits


def strip_coq_comments(text):
    out = []
    depth = 0
    i = 0
    n = len(text)
    while i < n:
        if text.startswith("(*", i):
            depth += 1
            i += 2
        elif text.startswith("*)", i) and depth > 0:
            depth -= 1
            i += 2
        else:
            if depth == 0:
                out.append(text[i])
            elif text[i] == "\n":
                out.append("\n")
            i += 1
    return "".join(out)


def coq_makefile():
    mk = os.path.join(COQ, "Makefile")
    cp = os.path.join(COQ, "_CoqProject")
    if not os.path.exists(mk) or os.path.getmtime(mk) < os.path.getmtime(cp):
        sh(["coq_makefile", "-f", "_CoqProject", "-o", "Makefile"], cwd=COQ, check=True)


def theorems_of(vfile):
    text = strip_coq_comments(open(vfile, encoding="utf-8").read())
    thms = re.findall(r"^\s*Theorem\s+([A-Za-z0-9_']+)", text, re.M)
    printed = re.findall(r"^\s*Print\s+Assumptions\s+([A-Za-z0-9_']+)\s*\.", text, re.M)
    return thms, printed


def build_coq(prop_id, extra_targets=()):
    """Builds the closure of Properties/<prop>.v (full .vo) and Extract.vo; then compiles the
    property file once more to capture what Print Assumptions reports.
    Returns a dict: ok, obligations, discharged, failed (list of strings), assumptions."""
    res = {"ok": False, "obligations": 0, "discharged": 0, "failed": [], "assumptions": {}, "log": ""}
    with BuildLock("coq"):
        try:
            import gen_constants
            gen_constants.generate()
        except Exception as ex:  # a constant that can no longer be located
            res["failed"].append("Generated.v: " + str(ex))
            res["log"] = str(ex)
        coq_makefile()
        os.makedirs(os.path.join(COQ, "extracted"), exist_ok=True)
        os.makedirs(os.path.join(WORK, prop_id), exist_ok=True)
        vfile = os.path.join(COQ, "theories", "Properties", prop_id + ".v")
        thms, printed = theorems_of(vfile)
        res["obligations"] = len(thms)
        missing = [t for t in thms if t not in printed]
        if missing:
            res["failed"].append("no Print Assumptions for: " + ", ".join(missing))
        bad = scan_forbidden()
        if bad:
            res["failed"].append("forbidden constructs: " + "; ".join(bad[:10]))
        targets = ["theories/Properties/%s.vo" % prop_id, "theories/Extract.vo"] + list(extra_targets)
        rc, out, err = sh(["make", "-j%d" % JOBS] + targets, cwd=COQ, timeout=2400)
        res["log"] += out[-4000:] + err[-4000:]
        if rc != 0:
            m = re.search(r'File "([^"]+)", line (\d+)', err)
            where = "%s:%s" % (m.group(1), m.group(2)) if m else "unknown location"
            res["failed"].append("coq build failed at %s: %s" % (where, err.strip().splitlines()[-1] if err.strip() else "?"))
            return res
        rc, out, err = sh(["coqc", "-Q", "theories", "TB", "-w", "-notation-overridden",
                           "-o", os.path.join(WORK, prop_id, prop_id + ".vo"), vfile], cwd=COQ, timeout=900)
        if rc != 0:
            res["failed"].append("property file does not compile: " + err.strip()[-500:])
            return res
    # parse the assumption reports, in order
    blocks = re.split(r"(?m)^(?=Closed under the global context|Axioms:|Section Variables:)", out)
    blocks = [b for b in blocks if b.startswith(("Closed under", "Axioms:", "Section Variables:"))]
    if len(blocks) != len(printed):
        res["failed"].append("expected %d assumption reports, got %d" % (len(printed), len(blocks)))
    for name, b in zip(printed, blocks):
        closed = b.startswith("Closed under the global context")
        res["assumptions"][name] = "closed" if closed else b.strip()[:400]
        if closed and name in thms:
            res["discharged"] += 1
        elif not closed:
            res["failed"].append("theorem %s depends on: %s" % (name, b.strip()[:200]))
    res["ok"] = not res["failed"] and res["discharged"] == res["obligations"]
    return res


def coqchk(prop_id):
    """Thorough tier: independent re-check of the property's closure with coqchk."""
    rc, out, err = sh(["coqchk", "-silent", "-o", "-Q", "theories", "TB", "TB.Properties." + prop_id], cwd=COQ, timeout=3000)
    txt = out + err
    axioms = re.findall(r"(?m)^\s*\*\s*Axioms:\s*(.*)$", txt)
    return rc == 0, txt[-1500:]


# ------------------------------------------------------------------------------------------------
# Rust harness and OCaml driver
# ------------------------------------------------------------------------------------------------

def harness_bin(release=False):
    return os.path.join(HARNESS, "target", "release" if release else "debug", "tbv-harness")


def build_harness(release=False):
    with BuildLock("cargo"):
        lock_src = os.path.join(REPO, "Cargo.lock")
        lock_dst = os.path.join(HARNESS, "Cargo.lock")
        if not os.path.exists(lock_dst):
            shutil.copy(lock_src, lock_dst)
        env = {"RUSTFLAGS": "--cfg " + GUARD, "CARGO_TARGET_DIR": os.path.join(HARNESS, "target")}
        cmd = ["cargo", "build", "--offline", "--quiet"] + (["--release"] if release else [])
        rc, out, err = sh(cmd, cwd=HARNESS, env=env, timeout=1800)
        if rc != 0 and "Cargo.lock" in err:
            shutil.copy(lock_src, lock_dst)
            rc, out, err = sh(cmd, cwd=HARNESS, env=env, timeout=1800)
        if rc != 0:
            raise CheckError("harness build failed against %s:\n%s" % (REPO, err[-3000:]))
    return harness_bin(release)


def build_driver():
    with BuildLock("ocaml"):
        drv = os.path.join(OCAML, "_build", "driver")
        srcs = [os.path.join(COQ, "extracted", "model.ml"), os.path.join(OCAML, "driver.ml"), os.path.join(OCAML, "conv.ml"), os.path.join(OCAML, "validate.ml")]
        if os.path.exists(drv) and all(os.path.getmtime(s) <= os.path.getmtime(drv) for s in srcs):
            return drv
        rc, out, err = sh(["sh", os.path.join(OCAML, "build.sh")], timeout=900)
        if rc != 0 or not os.path.exists(drv):
            raise CheckError("model runner build failed:\n" + (out + err)[-3000:])
    return drv


def run_sharded(binary, subcmd, cases, shards=JOBS, timeout=1200, extra_args=()):
    """Feeds `cases` (list of lines) to `binary subcmd`, split over several processes; returns the
    output lines keyed by the case id (first token)."""
    if not cases:
        return {}
    shards = max(1, min(shards, (len(cases) + 199) // 200))
    chunks = [cases[i::shards] for i in range(shards)]
    procs = []
    for ch in chunks:
        p = subprocess.Popen([binary, subcmd] + list(extra_args), stdin=subprocess.PIPE, stdout=subprocess.PIPE, stderr=subprocess.PIPE)
        procs.append((p, ("\n".join(ch) + "\n").encode()))
    import threading
    outs = [None] * len(procs)

    def feed(i):
        p, data = procs[i]
        try:
            o, e = p.communicate(data, timeout=timeout)
        except subprocess.TimeoutExpired:
            p.kill()
            o, e = p.communicate()
        outs[i] = (p.returncode, o.decode("utf-8", "replace"), e.decode("utf-8", "replace"))

    ths = [threading.Thread(target=feed, args=(i,)) for i in range(len(procs))]
    [t.start() for t in ths]
    [t.join() for t in ths]
    result = {}
    for rc, o, e in outs:
        for line in o.splitlines():
            if not line.strip():
                continue
            k, _, v = line.partition(" ")
            result[k] = v
    return result


def compare(cases, impl, model):
    """Returns the list of disagreements: dicts with case, impl, model."""
    dis = []
    for c in cases:
        k = c.split(" ", 1)[0]
        a, b = impl.get(k, "<no output>"), model.get(k, "<no output>")
        if a != b:
            dis.append({"case": c, "impl": a, "model": b})
    return dis


# ------------------------------------------------------------------------------------------------
# Evidence, replays, known findings
# ------------------------------------------------------------------------------------------------

def known_findings():
    p = os.path.join(VERIF, "known_findings.json")
    if not os.path.exists(p):
        return []
    return json.load(open(p))["findings"]


def write_replay(prop_id, payload):
    os.makedirs(REPLAYS, exist_ok=True)
    blob = json.dumps(payload, indent=1, sort_keys=True)
    h = hashlib.sha1(blob.encode()).hexdigest()[:12]
    path = os.path.join(REPLAYS, "%s-%s.json" % (prop_id, h))
    with open(path, "w") as f:
        f.write(blob + "\n")
    return path


def write_evidence(prop_id, tier, seed, coq, corr, wall, violations, extra_assumptions=()):
    os.makedirs(EVIDENCE, exist_ok=True)
    cov = {
        "obligations": coq.get("obligations", 0),
        "discharged": coq.get("discharged", 0),
        "checker_cmd": "make -C coq theories/Properties/%s.vo (coqc 8.16.1, full .vo) + Print Assumptions allow-list + forbidden-construct scan%s" % (prop_id, "; coqchk -o" if tier == "thorough" else ""),
        "trusted_base": TRUSTED_BASE,
        "theorems": coq.get("assumptions", {}),
        "proof_failures": coq.get("failed", []),
        "evaluations": corr.get("evaluations", 0),
        "distinct_nontrivial": corr.get("distinct_nontrivial", 0),
        "rule": corr.get("rule", ""),
        "samples": clip(corr.get("samples", [])[:12]),
        "traces_validated_against_impl": corr.get("evaluations", 0),
        "disagreements_checked": corr.get("disagreements", 0),
        "distribution": corr.get("distribution", {}),
        "exhaustive": bool(corr.get("exhaustive", False)),
        "explanation": corr.get("explanation", ""),
    }
    if "coqchk" in coq:
        cov["coqchk"] = coq["coqchk"]
    ev = {
        "property_id": prop_id, "tier": tier, "seed": seed, "level": "proof", "coverage": cov,
        "assumptions": list(extra_assumptions) + corr.get("assumptions", []),
        "wall_s": round(wall, 2), "violations": violations,
    }
    with open(os.path.join(EVIDENCE, prop_id + ".json"), "w") as f:
        json.dump(ev, f, indent=1)
        f.write("\n")


def clip(x, n=400):
    if isinstance(x, str):
        return x if len(x) <= n else x[:n] + "...(%d chars)" % len(x)
    if isinstance(x, list):
        return [clip(y, n) for y in x]
    if isinstance(x, dict):
        return {k: clip(v, n) for k, v in x.items()}
    return x


def rng_for(seed, tag):
    return random.Random("%s/%s" % (seed, tag))
