"""Metainfo document generator (C07, C09, C10) and an independent reference loader.

Two streams: `structured` builds a well-formed document and flips at most a few named switches
(about half of the documents stay loadable, the rejections are spread over the clauses of the
property); `chaotic` randomises every key independently.  All randomness comes from the rng."""
import hashlib

from bengen import D, enc, Reject, _str, _num, I128_MIN, I128_MAX

U64 = 2 ** 64

GOOD_NAMES = [b"n", b"name.bin", "é x".encode(), b"a\\b", b"...", b" ", b"x\x00y", b"\xe2\x82\xac", b"\xf0\x9f\x98\x80", b".pad", b"Data", b"d4:infod", b"a.b.c", b"..a", b"a.."]
BAD_UTF8 = [b"\xff", b"\xc3", b"\xed\xa0\x80", b"\xf4\x90\x80\x80", b"\xc0\xaf", b"\xe0\x80\x80", b"a\x80", b"\xf8\x88\x80\x80\x80"]
NON_PLAIN = [b"", b".", b"..", b"a/b", b"/abs", b"../x", b"/", b"a/", b"./a"]
WRONG = ["int", "str", "list", "dict"]


def wrong_type(rng, avoid):
    k = rng.choice([w for w in WRONG if w != avoid])
    return {"int": rng.choice([3, 0, -1]), "str": rng.choice([b"s", b"", b"5"]), "list": rng.choice([[], [b"x"], [1]]), "dict": D([])}[k]


def good_name(rng):
    if rng.random() < 0.5:
        return rng.choice(GOOD_NAMES)
    return bytes(rng.choice(b"abcXYZ._- 0") for _ in range(rng.randint(1, 6))).strip(b".") or b"q"


def plain_ok(s):
    return s not in (b"", b".", b"..") and b"/" not in s


def utf8_ok(s):
    try:
        s.decode("utf-8")
        return True
    except UnicodeDecodeError:
        return False


def ceil_div(a, b):
    return (a + b - 1) // b


def hashes(rng, n):
    return b"".join(bytes([rng.randint(0, 255)]) * 20 for _ in range(n))


def structured(rng):
    """Returns (document bytes, list of switches applied)."""
    sw = []
    multi = rng.random() < 0.5
    info = {}
    pl = rng.choice([1, 2, 3, 4, 8, 16, 5, 2 ** 14, U64 - 1, 2 ** 63])
    if multi:
        nf = rng.choice([1, 1, 2, 2, 3, 4])
        files = []
        for _ in range(nf):
            ln = rng.choice([0, 0, 1, 3, 5, 8, 13, 16, 40]) if rng.random() < 0.9 else rng.choice([2 ** 32, 2 ** 63, U64 - 1])
            depth = rng.choice([1, 1, 2, 3])
            f = {b"length": ln, b"path": [good_name(rng) for _ in range(depth)]}
            files.append(f)
        info[b"files"] = files
        total = sum(f[b"length"] for f in files)
    else:
        total = rng.choice([0, 1, 5, 8, 16, 17, 40, 100]) if rng.random() < 0.9 else rng.choice([2 ** 32 + 1, 2 ** 63, U64 - 1])
        info[b"length"] = total
    info[b"name"] = good_name(rng)
    if total > 0 and ceil_div(total, pl) > 8:
        pl = rng.choice([max(1, total // 3), total, max(1, total // 2 + 1), U64 - 1])
        pl = min(pl, U64 - 1)
    if total == 0 and rng.random() < 0.3:
        pl = 0
    info[b"piece length"] = pl
    nh = 0 if total == 0 else ceil_div(total, pl)
    info[b"pieces"] = hashes(rng, nh)
    root = {b"info": info}

    # a few independent, harmless decorations (must not change loadability)
    for dk in [b"lengt", b"length2", b"name.utf-7", b"piece lengt", b"piece length2", b"pieces2", b"private", b"file", b"nam", b"name.utf-8x", b"path"]:
        if rng.random() < 0.06:
            info[dk] = rng.choice([1, b"q", [1], D([(b"length", 5)])])
    for dk in [b"announce", b"comment", b"info2", b"inf", b"zzz", b"creation date", b"a", b"info\x00"]:
        if rng.random() < 0.3:
            root[dk] = rng.choice([rng.randint(0, 10 ** 12), b"d4:infod" + bytes(rng.randint(0, 255) for _ in range(rng.randint(0, 8))),
                                   [[b"e"]], D([(b"x", 1)]), D([(b"info", D([(b"name", b"decoy")]))])])
    if multi:
        for f in info[b"files"]:
            for dk in [b"lengt", b"length2", b"pat", b"path.utf-8x", b"path.utf-7", b"md5sum"]:
                if rng.random() < 0.05:
                    f[dk] = rng.choice([9, [b"zz"], b"s"])

    nflips = rng.choice([0, 0, 0, 0, 1, 1, 1, 2, 3])
    for _ in range(nflips):
        apply_switch(rng, root, info, multi, sw)
    if b"\x00marker-not-dict" in root:
        doc = enc(rng.choice([[1, {b"info": info}], 5, b"info", [{b"info": info}]]))
    else:
        doc = enc(root)
    r = rng.random()
    if r < 0.01:
        doc = doc[:-1]; sw.append("truncated")
    elif r < 0.02:
        doc = doc + b"e"; sw.append("trailing")
    elif r < 0.03 and len(doc) > 3:
        i = rng.randrange(len(doc))
        doc = doc[:i] + bytes([rng.choice(b"deil0:9-")]) + doc[i + 1:]
        sw.append("byteflip")
    return doc, sw


def apply_switch(rng, root, info, multi, sw):
    choices = ["name.utf8_ok", "name.utf8_bad", "name.utf8_wrongtype", "name_missing", "name_wrongtype", "name_badutf8", "name_nonplain",
               "pl_missing", "pl_wrongtype", "pl_negative", "pl_2^64", "pl_zero",
               "pieces_missing", "pieces_wrongtype", "pieces_plus1byte", "hash_plus1", "hash_minus1",
               "info_missing", "info_wrongtype", "root_not_dict", "both", "neither"]
    if multi:
        choices += ["files_empty", "files_wrongtype_len_str", "file_not_dict", "file_len_missing", "file_len_wrongtype", "file_len_negative",
                    "file_len_2^64", "path_missing", "path_wrongtype", "path_empty", "path_elem_wrongtype", "path_badutf8", "path_nonplain",
                    "path.utf8_ok", "path.utf8_empty", "path.utf8_wrongtype", "path.utf8_badutf8", "sum_over_2^64", "length_str_plus_files",
                    "length_negint_plus_files"]
    else:
        choices += ["len_wrongtype", "len_negative", "len_2^64", "files_str_plus_length", "files_emptylist_plus_length"]
    s = rng.choice(choices)
    sw.append(s)
    files = info.get(b"files") if isinstance(info.get(b"files"), list) else None
    dfiles = [x for x in files if isinstance(x, dict)] if files else []
    f = rng.choice(dfiles) if dfiles else None
    if s == "name.utf8_ok":
        info[b"name.utf-8"] = good_name(rng)
        if rng.random() < 0.3:
            info.pop(b"name", None)
        elif rng.random() < 0.3:
            info[b"name"] = rng.choice(BAD_UTF8)
    elif s == "name.utf8_bad": info[b"name.utf-8"] = rng.choice(BAD_UTF8)
    elif s == "name.utf8_wrongtype": info[b"name.utf-8"] = wrong_type(rng, "str")
    elif s == "name_missing": info.pop(b"name", None)
    elif s == "name_wrongtype": info[b"name"] = wrong_type(rng, "str")
    elif s == "name_badutf8": info[b"name"] = rng.choice(BAD_UTF8)
    elif s == "name_nonplain": info[b"name"] = rng.choice(NON_PLAIN)
    elif s == "pl_missing": info.pop(b"piece length", None)
    elif s == "pl_wrongtype": info[b"piece length"] = wrong_type(rng, "int")
    elif s == "pl_negative": info[b"piece length"] = -rng.choice([1, 4, 2 ** 63])
    elif s == "pl_2^64": info[b"piece length"] = rng.choice([U64, U64 + 1, 2 ** 100])
    elif s == "pl_zero": info[b"piece length"] = 0
    elif s == "pieces_missing": info.pop(b"pieces", None)
    elif s == "pieces_wrongtype": info[b"pieces"] = wrong_type(rng, "str")
    elif s == "pieces_plus1byte" and isinstance(info.get(b"pieces"), bytes): info[b"pieces"] += b"x"
    elif s == "hash_plus1" and isinstance(info.get(b"pieces"), bytes): info[b"pieces"] += b"\x07" * 20
    elif s == "hash_minus1" and isinstance(info.get(b"pieces"), bytes): info[b"pieces"] = info[b"pieces"][:-20]
    elif s == "info_missing": root.pop(b"info", None)
    elif s == "info_wrongtype": root[b"info"] = wrong_type(rng, "dict")
    elif s == "root_not_dict": root.clear(); root[b"\x00marker-not-dict"] = 1
    elif s == "both":
        if multi: info[b"length"] = 5
        else: info[b"files"] = [{b"length": info.get(b"length", 1) if isinstance(info.get(b"length"), int) else 1, b"path": [b"p"]}]
    elif s == "neither":
        info.pop(b"length", None); info.pop(b"files", None)
    elif s == "files_empty": info[b"files"] = []
    elif s == "files_wrongtype_len_str": info[b"files"] = wrong_type(rng, "list")
    elif s == "file_not_dict" and files: files[rng.randrange(len(files))] = wrong_type(rng, "dict")
    elif s == "file_len_missing" and f: f.pop(b"length", None)
    elif s == "file_len_wrongtype" and f: f[b"length"] = wrong_type(rng, "int")
    elif s == "file_len_negative" and f: f[b"length"] = -1
    elif s == "file_len_2^64" and f: f[b"length"] = U64
    elif s == "path_missing" and f: f.pop(b"path", None)
    elif s == "path_wrongtype" and f: f[b"path"] = wrong_type(rng, "list")
    elif s == "path_empty" and f: f[b"path"] = []
    elif s == "path_elem_wrongtype" and f and isinstance(f.get(b"path"), list): f[b"path"] = f[b"path"] + [rng.choice([1, [], D([])])]
    elif s == "path_badutf8" and f: f[b"path"] = [rng.choice(BAD_UTF8)]
    elif s == "path_nonplain" and f: f[b"path"] = [b"ok", rng.choice(NON_PLAIN)]
    elif s == "path.utf8_ok" and f:
        f[b"path.utf-8"] = [good_name(rng)]
        if rng.random() < 0.3: f.pop(b"path", None)
        elif rng.random() < 0.3: f[b"path"] = [rng.choice(BAD_UTF8)]
    elif s == "path.utf8_empty" and f: f[b"path.utf-8"] = []
    elif s == "path.utf8_wrongtype" and f: f[b"path.utf-8"] = wrong_type(rng, "list")
    elif s == "path.utf8_badutf8" and f: f[b"path.utf-8"] = [rng.choice(BAD_UTF8)]
    elif s == "sum_over_2^64" and files:
        if isinstance(files[0], dict): files[0][b"length"] = U64 - 1
        files.append({b"length": U64 - 1, b"path": [b"big"]})
        tot = sum(x[b"length"] for x in files if isinstance(x, dict) and isinstance(x.get(b"length"), int))
        info[b"piece length"] = U64 - 1
        info[b"pieces"] = hashes(rng, ceil_div(tot, U64 - 1))
    elif s == "length_str_plus_files": info[b"length"] = b"5"
    elif s == "length_negint_plus_files": info[b"length"] = -1
    elif s == "len_wrongtype": info[b"length"] = wrong_type(rng, "int")
    elif s == "len_negative": info[b"length"] = -3
    elif s == "len_2^64": info[b"length"] = U64
    elif s == "files_str_plus_length": info[b"files"] = b"x"
    elif s == "files_emptylist_plus_length": info[b"files"] = []


def to_ben(v):
    """dict-of-python -> bengen value with sorted keys (recursively)."""
    if isinstance(v, D):
        return D([(k, to_ben(x)) for k, x in v])
    if isinstance(v, dict):
        return D([(k, to_ben(v[k])) for k in sorted(v)])
    if isinstance(v, list):
        return [to_ben(x) for x in v]
    return v


_enc0 = enc


def enc(v):  # noqa: F811  (encode python dicts with sorted keys at every level)
    return _enc0(to_ben(v))


# ------------------------------------------------------------------------------------------------
# reference loader (independent of the Coq model): strict parse to Python values, then the
# clauses of C10 one by one
# ------------------------------------------------------------------------------------------------

def ref_parse(x):
    """Strict canonical parse; returns (value, spans) where dictionaries are D lists of
    (key, value, (start, end) of the value)."""
    v, p = _pany(x, 0)
    if p != len(x):
        raise Reject
    return v


class Node:
    __slots__ = ("v", "s", "e")

    def __init__(self, v, s, e):
        self.v, self.s, self.e = v, s, e


def _pany(x, p):
    if p >= len(x):
        raise Reject
    c = x[p]
    if 48 <= c <= 57:
        v, q = _str(x, p)
        return Node(bytes(v), p, q), q
    if c == 105:
        q = p + 1
        neg = False
        if q < len(x) and x[q] == 45:
            neg = True
            q += 1
        n, q = _num(x, q)
        if neg and n == 0:
            raise Reject
        z = -n if neg else n
        if z < I128_MIN or z > I128_MAX or q >= len(x) or x[q] != 101:
            raise Reject
        return Node(z, p, q + 1), q + 1
    if c == 108:
        q = p + 1
        items = []
        while True:
            if q >= len(x):
                raise Reject
            if x[q] == 101:
                return Node(items, p, q + 1), q + 1
            n, q = _pany(x, q)
            items.append(n)
    if c == 100:
        q = p + 1
        items = {}
        prev = None
        while True:
            if q >= len(x):
                raise Reject
            if x[q] == 101:
                return Node(items, p, q + 1), q + 1
            if not (48 <= x[q] <= 57):
                raise Reject
            k, q1 = _str(x, q)
            k = bytes(k)
            if prev is not None and not (prev < k):
                raise Reject
            prev = k
            n, q = _pany(x, q1)
            items[k] = n
    raise Reject


def hx(b):
    return b.hex() if b else "-"


def ref_load(x):
    """Returns (verdict, rendering): verdict in {'ok', 'err', 'may-refuse'}; for 'may-refuse' the
    rendering is what a tree that accepts non-plain names must produce."""
    try:
        root = ref_parse(x)
    except (Reject, RecursionError):
        return "err", "err"
    if not isinstance(root.v, dict):
        return "err", "err"
    info = root.v.get(b"info")
    if info is None or not isinstance(info.v, dict):
        return "err", "err"
    d = info.v
    may_refuse = False

    def typed(dd, key, ty):
        n = dd.get(key)
        if n is None:
            return None
        if ty is int:
            return n if isinstance(n.v, int) else None
        return n if isinstance(n.v, ty) else None

    name = typed(d, b"name.utf-8", bytes) or typed(d, b"name", bytes)
    if name is None or not utf8_ok(name.v):
        return "err", "err"
    if not plain_ok(name.v):
        may_refuse = True
    pieces = typed(d, b"pieces", bytes)
    if pieces is None or len(pieces.v) % 20 != 0:
        return "err", "err"
    hs = [pieces.v[i:i + 20] for i in range(0, len(pieces.v), 20)]
    pl = typed(d, b"piece length", int)
    if pl is None or not (0 <= pl.v < U64):
        return "err", "err"
    length = typed(d, b"length", int)
    files = typed(d, b"files", list)
    if (length is None) == (files is None):
        return "err", "err"
    if length is not None:
        if not (0 <= length.v < U64):
            return "err", "err"
        total = length.v
        frender = "-"
        lrender = str(length.v)
    else:
        if not files.v:
            return "err", "err"
        out = []
        total = 0
        for fn in files.v:
            if not isinstance(fn.v, dict):
                return "err", "err"
            fl = typed(fn.v, b"length", int)
            if fl is None or not (0 <= fl.v < U64):
                return "err", "err"
            pth = typed(fn.v, b"path.utf-8", list) or typed(fn.v, b"path", list)
            if pth is None or not pth.v:
                return "err", "err"
            comps = []
            for c in pth.v:
                if not isinstance(c.v, bytes) or not utf8_ok(c.v):
                    return "err", "err"
                if not plain_ok(c.v):
                    may_refuse = True
                comps.append(c.v)
            total += fl.v
            out.append("%d:%s" % (fl.v, "/".join(hx(c) for c in comps)))
        frender = "[" + ",".join(out) + "]"
        lrender = "-"
    k = len(hs)
    if not (k * pl.v >= total and (k == 0 or (k - 1) * pl.v < total)):
        return "err", "err"
    ih = hashlib.sha1(x[info.s:info.e]).digest()
    r = "ok name=%s len=%s files=%s pl=%d hashes=%s ih=%s" % (hx(name.v), lrender, frender, pl.v, ",".join(hx(h) for h in hs), hx(ih))
    return ("may-refuse" if may_refuse else "ok"), r


def chaotic(rng):
    """Every key independently present / missing / mistyped (the prototype's generator)."""
    def wt():
        return rng.choice([3, b"s", [], D([])])

    def u64ish():
        return rng.choice([0, 1, 2, 5, 7, 16, 20, 2 ** 32, 2 ** 63, U64 - 1, U64, U64 + 1, -1, -5, rng.randint(0, 40)])

    names = GOOD_NAMES + BAD_UTF8 + NON_PLAIN

    def pick():
        return rng.choice(names) if rng.random() < 0.5 else good_name(rng)

    def mk_file():
        d = {}
        r = rng.random()
        if r < 0.85: d[b"length"] = rng.choice([0, 1, 3, 5, 8, 13, U64 - 1, 2 ** 63]) if rng.random() < 0.9 else u64ish()
        elif r < 0.93: d[b"length"] = wt()
        def plist():
            return [pick() if rng.random() < 0.95 else wt() for _ in range(rng.choice([0, 1, 1, 1, 2, 3]))]
        r = rng.random()
        if r < 0.8: d[b"path"] = plist()
        elif r < 0.9: d[b"path"] = wt()
        r = rng.random()
        if r < 0.15: d[b"path.utf-8"] = plist()
        elif r < 0.2: d[b"path.utf-8"] = wt()
        return d if rng.random() < 0.97 else wt()

    info = {}
    if rng.random() < 0.5:
        fl = [mk_file() for _ in range(rng.choice([0, 1, 1, 2, 2, 3, 4]))]
        r = rng.random()
        if r < 0.9: info[b"files"] = fl
        elif r < 0.95: info[b"files"] = wt()
        if rng.random() < 0.1: info[b"length"] = rng.choice([5, -1, b"5"])
    else:
        r = rng.random()
        if r < 0.9: info[b"length"] = rng.choice([0, 1, 5, 8, 16, 17, 40, U64 - 1]) if rng.random() < 0.9 else u64ish()
        elif r < 0.95: info[b"length"] = wt()
        if rng.random() < 0.1: info[b"files"] = rng.choice([[mk_file()], b"x", []])
    r = rng.random()
    if r < 0.9: info[b"name"] = pick()
    elif r < 0.95: info[b"name"] = wt()
    r = rng.random()
    if r < 0.15: info[b"name.utf-8"] = pick()
    elif r < 0.2: info[b"name.utf-8"] = wt()
    pl = rng.choice([1, 2, 4, 8, 16, 0, U64 - 1, 2 ** 63]) if rng.random() < 0.9 else u64ish()
    r = rng.random()
    if r < 0.92: info[b"piece length"] = pl
    elif r < 0.96: info[b"piece length"] = wt()
    t = 0
    if isinstance(info.get(b"files"), list):
        t = sum(f[b"length"] for f in info[b"files"] if isinstance(f, dict) and isinstance(f.get(b"length"), int))
    elif isinstance(info.get(b"length"), int):
        t = info[b"length"]
    nh = ceil_div(t, pl) if pl > 0 and 0 <= t < U64 * 4 else 0
    nh = max(0, min(nh, 6) + rng.choice([0, 0, 0, 0, 0, 0, 1, -1]))
    hs = hashes(rng, nh)
    r = rng.random()
    if r < 0.9: info[b"pieces"] = hs
    elif r < 0.94: info[b"pieces"] = hs + b"x"
    elif r < 0.97: info[b"pieces"] = wt()
    root = {}
    r = rng.random()
    if r < 0.93: root[b"info"] = info
    elif r < 0.96: root[b"info"] = wt()
    for dk in [b"announce", b"comment", b"info2", b"inf", b"zzz"]:
        if rng.random() < 0.3:
            root[dk] = rng.choice([rng.randint(0, 10 ** 12), b"d4:infod", [[b"e"]], D([(b"x", 1)])])
    return enc(root)


# ---- string adversaries: names and path components of awkward lengths and compositions ----
BOUNDARIES = [0, 1, 2, 3, 7, 8, 15, 16, 17, 31, 32, 33, 47, 48, 49, 63, 64, 65, 100, 127, 128, 129, 255, 256, 257, 1000]
MULTI = ["é", "€", "\U0001F600", "‮", "٦"]


def string_adversaries(rng):
    """Byte strings meant to shake out every slice / index / truncation on names and path
    components: a multi-byte character straddling each boundary offset, with and without a
    character that makes the string a non-plain (refused) component, control and invisible
    characters, and invalid UTF-8."""
    out = []
    for b in BOUNDARIES:
        for ch in MULTI:
            enc_ch = ch.encode("utf-8")
            for back in range(1, len(enc_ch)):
                start = b - back                      # the character occupies [start, start+len): b falls inside it
                if start < 0:
                    continue
                base = b"a" * start + enc_ch
                out.append(base + b"tail")
                out.append(base + b"/payload.bin")    # refused: contains '/'
                out.append(base + b"\\x")
        out.append(b"a" * b)
        out.append(b"a" * b + b"/")
        out.append(b"." * b)
    out += [b"..", b".", b"", b"/", b"//", b"/abs", b"a/b", b"..\\..", b".\xe2\x80\xae.", b".\x7f.", b"\x00", b"a\x00b", b"nul\x00/x",
            b"\xff", b"\xc3", b"a\xe2\x82", b"\xf0\x9f\x98", b"\x80abc", b"ok\xc3\xa9", b" ", b"~", b"-", b"con", b"a" * 5000]
    rng.shuffle(out)
    return out


def string_documents(rng, limit=None):
    """Loadable-shaped documents that put each string adversary in the name, name.utf-8, a path
    component or a path.utf-8 component (single- and multi-file)."""
    docs = []
    advs = string_adversaries(rng)
    for i, s in enumerate(advs if limit is None else advs[:limit]):
        where = i % 6
        info = {b"piece length": 4, b"pieces": b"\x07" * 20}
        if where == 0:
            info.update({b"name": s, b"length": 3})
        elif where == 1:
            info.update({b"name": b"plain", b"name.utf-8": s, b"length": 3})
        elif where == 2:
            info.update({b"name": b"n", b"files": [{b"length": 3, b"path": [b"d", s]}]})
        elif where == 3:
            info.update({b"name": b"n", b"files": [{b"length": 3, b"path": [s, b"f"]}]})
        elif where == 4:
            info.update({b"name": b"n", b"files": [{b"length": 1, b"path": [b"ok"]}, {b"length": 2, b"path": [b"x"], b"path.utf-8": [b"d", s]}]})
        else:
            info.update({b"name": s, b"files": [{b"length": 3, b"path": [s]}]})
        docs.append(enc({b"info": info, b"comment": s[:40]}))
    return docs


def with_outer_copies(rng, d):
    """Rebuilds document d with keys the loader knows placed at the WRONG level: a summary copy of
    the info dictionary's own fields (same bytes, or a value of another type) next to 'info'.
    Returns d unchanged when it is not a canonical dictionary with an info dictionary."""
    import bengen
    try:
        root = ref_parse(d)
    except Exception:
        return d
    if not (isinstance(root.v, dict) and b"info" in root.v and isinstance(root.v[b"info"].v, dict)):
        return d
    inner = root.v[b"info"].v
    parts = {k: d[n.s:n.e] for k, n in root.v.items()}
    for k in [b"name", b"name.utf-8", b"length", b"files", b"pieces", b"piece length", b"path", b"private"]:
        if rng.random() < 0.55:
            if k in inner and rng.random() < 0.8:
                parts[k] = d[inner[k].s:inner[k].e]
            else:
                parts[k] = bengen.enc(rng.choice([b"x" * 20, 7, 16384, [], {}, b""]))
    return b"d" + b"".join(bengen.enc(k) + parts[k] for k in sorted(parts)) + b"e"


# ------------------------------------------------------------------------------------------------
# well-formed documents in a NON-canonical encoding: exactly one defect at one node
# ------------------------------------------------------------------------------------------------

def noncanonical_documents(rng, n):
    """Documents that denote a well-formed torrent but are not canonical bencode - a zero-padded
    string length, an integer with a leading zero / '-0' / '+', two keys out of order, a repeated
    key, trailing bytes - anywhere in the document (root keys, info keys, file dictionaries, path
    lists).  None may load (C10: 'loads iff canonical ...')."""
    import hashlib
    out = []
    for _ in range(n):
        ln = rng.choice([1, 3, 4, 9])
        pl = rng.choice([2, 4, 16])
        npieces = (ln + pl - 1) // pl
        info = {b"name": rng.choice([b"a", b"name", b"x.bin"]), b"piece length": pl, b"pieces": bytes(rng.randrange(256) for _ in range(20 * npieces))}
        if rng.random() < 0.5:
            info[b"length"] = ln
        else:
            info[b"files"] = [{b"length": ln, b"path": [b"d", b"f.bin"]}]
        if rng.random() < 0.4:
            info[b"name.utf-8"] = info[b"name"]
        doc = {b"info": info}
        if rng.random() < 0.6:
            doc[b"created by"] = b"tool"
            doc[b"creation date"] = 1000
        sites = []

        def walk(v, path):
            if isinstance(v, bytes):
                sites.append((path, "strlen"))
            elif isinstance(v, int):
                sites.append((path, "int"))
            elif isinstance(v, list):
                for k, x in enumerate(v):
                    walk(x, path + (k,))
            else:
                if len(v) >= 2:
                    sites.append((path, "order"))
                sites.append((path, "dupkey"))
                for k in sorted(v):
                    sites.append((path + (("key", k),), "strlen"))
                    walk(v[k], path + (k,))
        walk(doc, ())
        site, kind = rng.choice(sites)
        how = rng.choice(["lead0", "neg0", "plus"]) if kind == "int" else kind

        def e(v, path):
            path = ("off",) if path is None or path[:1] == ("off",) else path
            here = path == site
            if isinstance(v, bytes):
                return (b"0" if here else b"") + b"%d:" % len(v) + v
            if isinstance(v, int):
                if here:
                    return {"lead0": b"i0%de" % v, "neg0": b"i-0e", "plus": b"i+%de" % v}[how]
                return b"i%de" % v
            if isinstance(v, list):
                return b"l" + b"".join(e(x, path + (k,)) for k, x in enumerate(v)) + b"e"
            keys = sorted(v)
            if here and kind == "order":
                j = rng.randrange(len(keys) - 1)
                keys[j], keys[j + 1] = keys[j + 1], keys[j]
            body = b""
            for k in keys:
                body += e(k, path + (("key", k),)) + e(v[k], path + (k,))
                if here and kind == "dupkey" and k == keys[0]:
                    body += e(k, None) + e(v[k], None)
            return b"d" + body + b"e"
        d = e(doc, ())
        if rng.random() < 0.05:
            d = e(doc, None) + rng.choice([b"e", b"\n", b"0:", b" "])       # canonical value + trailing bytes
        out.append(d)
    return out
