"""Turns the raw log of a scheduler-driven run (sync-shim scheduling points, piece scope markers,
queue dumps; all in one global order) into the input of the executor trace validator
(`driver exec`, ocaml/execval.ml), which replays it through the extracted ExecRun.xstep."""
import re
import subprocess

import vlib


def piece_table(ce):
    """piece key 'id:off' -> number (index in the work list), and per number (nfiles, gid)."""
    keys = {}
    table = []
    for w in sorted(ce["work"], key=lambda x: x["index"]):
        segs = w["segs"]
        key = "%d:%d" % (segs[0][0], segs[0][1]) if segs else "?"
        keys[key] = w["index"]
        table.append((w["index"], len(segs), segs[0][0] if segs else 0))
    return keys, table


def parse_queue_dump(q, keys):
    out = []
    for part in q.split("|"):
        out.append([keys[k] for k in part.split(",") if k])
    return out


def order_witness(queues, table, a=None):
    """First-appearance order of the group ids of single-file pieces in the dealt sequence
    (item k of the arrangement went to queue k mod a, position k div a)."""
    info = {p: (nf, g) for p, nf, g in table}
    a = len(queues) if a is None else a
    seq = []
    k = 0
    while True:
        qi, pos = k % a if a else 0, k // a if a else 0
        if a == 0 or pos >= len(queues[qi]):
            # the deal is round robin, so the first missing position ends the sequence
            break
        seq.append(queues[qi][pos])
        k += 1
    order = []
    for p in seq:
        nf, g = info[p]
        if nf == 1 and g not in order:
            order.append(g)
    return order


def fmt_queues(qs):
    return "|".join(",".join(str(x) for x in q) if q else "-" for q in qs)


def fmt_list(l):
    return ",".join(str(x) for x in l) if l else "-"


def case_text(cid, rr, ce):
    """Returns (text, error): the validator input, or why the log cannot be translated."""
    keys, table = piece_table(ce)
    init = [r for r in ce["queues"] if r.get("tag") == "init"]
    if not table:
        return None, None                      # no work: executor::run returns at once
    if len(init) != 1:
        return None, "expected one initial queue dump, found %d" % len(init)
    try:
        q0 = parse_queue_dump(init[0]["q"], keys)
    except KeyError as ex:
        return None, "initial queue dump names an unknown piece %s" % ex
    n = len(q0)
    lines = ["case %s" % cid, "n %d" % n]
    for p, nf, g in table:
        lines.append("piece %d %d %d" % (p, nf, g))
    lines.append("init %s %s" % (fmt_list(order_witness(q0, table)), fmt_queues(q0)))
    # lock identities: worker t (scheduler thread t+1) first try_locks its own queue lock; the queue locks are
    # created one after the other and the execution-state lock right after them
    first_try = {}
    for rec in rr.records:
        if rec["kind"] == "sched" and rec["op"].startswith("TryLock(") and rec.get("piece", "-") == "-":
            tid = int(rec["tid"])
            first_try.setdefault(tid, int(rec["op"][8:-1]))
    if not first_try:
        return None, "no try_lock in the scheduling log"
    base = min(first_try.values())
    for tid, l in first_try.items():
        if l != base + tid - 1:
            return None, "worker %d first try_locks lock %d, expected its own queue lock %d" % (tid - 1, l, base + tid - 1)
    state = base + n
    # the log's own thread numbers (field t) -> scheduler thread ids (field tid of the scheduling records)
    tmap = {rec["t"]: int(rec["tid"]) for rec in rr.records if rec["kind"] == "sched"}

    def worker(rec):
        return tmap[rec["t"]] - 1
    for rec in rr.records:
        k = rec["kind"]
        if k == "sched":
            tid = int(rec["tid"])
            if tid == 0 or rec.get("piece", "-") != "-":
                continue                       # main thread; locks taken inside solver.solve (file locks, counters)
            t = tid - 1
            m = re.match(r"(\w+)(?:\((\d+)\))?$", rec["op"])
            op, arg = m.group(1), (int(m.group(2)) if m.group(2) is not None else None)
            if op in ("Start", "Exit"):
                continue
            if op == "Join":
                continue
            if arg == state:
                if op == "Lock":
                    lines.append("ev %d locks" % t)
                elif op == "Unlock":
                    lines.append("ev %d unlocks" % t)
                else:
                    return None, "unexpected %s on the execution-state lock" % op
            elif base <= arg < base + n:
                i = arg - base
                if op == "TryLock":
                    if i != t:
                        return None, "worker %d try_locks queue %d" % (t, i)
                    lines.append("ev %d try %s" % (t, rec["res"]))
                elif op == "Lock":
                    lines.append("ev %d lockq %d" % (t, i))
                elif op == "Unlock":
                    lines.append("ev %d unlockq %d" % (t, i))
            else:
                return None, "worker %d uses lock %d outside a piece scope (queue locks are %d..%d, state lock %d)" % (t, arg, base, base + n - 1, state)
        elif k == "piece_begin":
            if rec["piece"] not in keys:
                return None, "piece scope for an unknown piece %s" % rec["piece"]
            lines.append("ev %d begin %d" % (worker(rec), keys[rec["piece"]]))
        elif k == "piece_end":
            lines.append("ev %d end %d" % (worker(rec), keys[rec["piece"]]))
        elif k == "queues" and rec.get("tag") == "rebalance":
            try:
                qs = parse_queue_dump(rec["q"], keys)
            except KeyError as ex:
                return None, "queue dump names an unknown piece %s" % ex
            full = qs + [[] for _ in range(n - len(qs))]
            lines.append("ev %d queues %s %s" % (worker(rec), fmt_list(order_witness(qs, table)), fmt_queues(full)))
    lines.append("end")
    return "\n".join(lines) + "\n", None


def validate(driver, cases):
    """cases: {id: (rr, ce)} with scheduling logs -> {id: verdict}"""
    text = []
    verdicts = {}
    for cid, (rr, ce) in cases.items():
        t, err = case_text(cid, rr, ce)
        if err:
            verdicts[cid] = "bad " + err
        elif t is None:
            verdicts[cid] = "ok (no work)"
        else:
            text.append(t)
    if text:
        p = subprocess.run([driver, "exec"], input="".join(text).encode(), stdout=subprocess.PIPE, stderr=subprocess.PIPE, timeout=1800)
        for line in p.stdout.decode("utf-8", "replace").splitlines():
            cid, _, v = line.partition(" ")
            verdicts[cid] = v
    for cid in cases:
        verdicts.setdefault(cid, "bad no verdict from the executor validator")
    return verdicts
