"""Bencode tools for the generators: encoder, an independent strict reference decoder (the
search oracle of C08), random canonical values, mutations and numeric adversaries."""

I128_MIN = -(2 ** 127)
I128_MAX = 2 ** 127 - 1
USIZE_MAX = 2 ** 64 - 1


class D(list):
    """Dictionary as an ordered list of (key bytes, value) pairs (order as written)."""


def enc(v):
    if isinstance(v, (bytes, bytearray)):
        return str(len(v)).encode() + b":" + bytes(v)
    if isinstance(v, bool):
        raise TypeError
    if isinstance(v, int):
        return b"i" + str(v).encode() + b"e"
    if isinstance(v, D):
        return b"d" + b"".join(enc(k) + enc(x) for k, x in v) + b"e"
    if isinstance(v, dict):
        return b"d" + b"".join(enc(k) + enc(v[k]) for k in sorted(v)) + b"e"
    if isinstance(v, (list, tuple)):
        return b"l" + b"".join(enc(x) for x in v) + b"e"
    raise TypeError(type(v))


class Reject(Exception):
    pass


def hx(b):
    return b.hex() if b else "-"


def ref_decode(x):
    """Strict canonical decoder written independently of the model: returns the rendering used
    by the harness ('ok <tree>') or 'err'."""
    try:
        s, p = _any(x, 0, 0)
        if p != len(x):
            raise Reject
        return "ok " + s
    except Reject:
        return "err"
    except RecursionError:
        return "err-depth"


def _num(x, p):
    """canonical unsigned decimal at p: returns (value, next position)"""
    q = p
    while q < len(x) and 48 <= x[q] <= 57:
        q += 1
    if q == p:
        raise Reject
    if x[p] == 48 and q - p > 1:
        raise Reject
    return int(x[p:q]), q


def _str(x, p):
    n, q = _num(x, p)
    if n > USIZE_MAX:
        raise Reject
    if q >= len(x) or x[q] != 58:
        raise Reject
    q += 1
    if q + n > len(x):
        raise Reject
    return x[q:q + n], q + n


def _any(x, p, depth):
    if p >= len(x):
        raise Reject
    c = x[p]
    if 48 <= c <= 57:
        v, q = _str(x, p)
        return "s(%s,%d,%d)" % (hx(v), p, q), q
    if c == 105:
        q = p + 1
        neg = False
        if q < len(x) and x[q] == 45:
            neg = True
            q += 1
        n, q = _num(x, q)
        if neg and n == 0:
            raise Reject
        z = -n if neg else n
        if z < I128_MIN or z > I128_MAX:
            raise Reject
        if q >= len(x) or x[q] != 101:
            raise Reject
        return "i(%d,%d,%d)" % (z, p, q + 1), q + 1
    if c == 108:
        q = p + 1
        items = []
        while True:
            if q >= len(x):
                raise Reject
            if x[q] == 101:
                return "l(%d,%d)[%s]" % (p, q + 1, ",".join(items)), q + 1
            s, q = _any(x, q, depth + 1)
            items.append(s)
    if c == 100:
        q = p + 1
        items = []
        prev = None
        while True:
            if q >= len(x):
                raise Reject
            if x[q] == 101:
                return "d(%d,%d)[%s]" % (p, q + 1, ",".join(items)), q + 1
            if not (48 <= x[q] <= 57):
                raise Reject
            k, q1 = _str(x, q)
            if prev is not None and not (prev < k):
                raise Reject
            prev = k
            s, q2 = _any(x, q1, depth + 1)
            items.append("s(%s,%d,%d)=%s" % (hx(k), q, q1, s))
            q = q2
    raise Reject


TRICKY = [b"", b"e", b"d", b"l", b"i", b":", b"-", b"0", b"1:", b"de", b"le", b"i0e", b"0:", b"d1:ae", b"\x00", b"\xff", b"ee", b"10", b"a", b"ab", b"a\x00", b"b"]


def rand_bytes(rng, maxlen=8):
    if rng.random() < 0.45:
        return rng.choice(TRICKY)
    n = rng.choice([0, 1, 1, 2, 3, rng.randint(0, maxlen)])
    return bytes(rng.choice([rng.randint(0, 255), rng.choice(b"deil:-0123456789ab")]) for _ in range(n))


def rand_int(rng):
    r = rng.random()
    if r < 0.3:
        return rng.randint(-10, 10)
    if r < 0.5:
        return rng.choice([0, 1, -1, 9, 10, -10, 99, 100, 2 ** 31, 2 ** 32, 2 ** 63 - 1, 2 ** 63, 2 ** 64 - 1, 2 ** 64, -(2 ** 63), I128_MAX, I128_MIN, I128_MAX - 1, I128_MIN + 1])
    if r < 0.8:
        return rng.randint(-(10 ** rng.randint(1, 38)), 10 ** rng.randint(1, 38))
    return rng.randint(I128_MIN, I128_MAX)


def rand_keys(rng, n):
    """n distinct keys, with adjacent / prefix-related ones likely, sorted."""
    keys = set()
    while len(keys) < n:
        if keys and rng.random() < 0.5:
            k = rng.choice(sorted(keys))
            k = rng.choice([k + b"\x00", k + b"a", k[:-1], k + k[-1:] if k else b"a", k[:-1] + bytes([min(255, (k[-1] if k else 0) + 1)])])
        else:
            k = rand_bytes(rng, 5)
        keys.add(k)
    return sorted(keys)


def rand_value(rng, depth=0, maxdepth=5):
    r = rng.random()
    if depth >= maxdepth or r < 0.35:
        return rand_bytes(rng) if rng.random() < 0.55 else rand_int(rng)
    if r < 0.65:
        return [rand_value(rng, depth + 1, maxdepth) for _ in range(rng.choice([0, 1, 1, 2, 3, 4]))]
    n = rng.choice([0, 1, 2, 2, 3, 5])
    return D([(k, rand_value(rng, depth + 1, maxdepth)) for k in rand_keys(rng, n)])


def mutate(rng, x):
    """Single-point mutation of an encoding."""
    x = bytearray(x)
    if not x:
        return bytes([rng.randint(0, 255)])
    i = rng.randrange(len(x))
    r = rng.random()
    if r < 0.2:
        del x[i]
    elif r < 0.4:
        x.insert(i, x[i])
    elif r < 0.6:
        x[i] = rng.choice(b"deil:-0123456789") if rng.random() < 0.7 else rng.randint(0, 255)
    elif r < 0.7:
        x.insert(i, 48)                       # leading zero somewhere
    elif r < 0.8:
        x = x[:i]                             # truncate
    elif r < 0.9:
        x += bytes([rng.choice(b"deil:0e")])  # trailing byte
    else:
        if 48 <= x[i] <= 57:
            x[i] = 48 + (x[i] - 48 + rng.choice([1, 9])) % 10   # length / number off by one
        else:
            x[i] ^= 1 << rng.randrange(8)
    return bytes(x)


def swap_keys(rng, v):
    """Returns an encoding of a dictionary with two adjacent keys swapped or one duplicated."""
    ks = rand_keys(rng, rng.randint(2, 4))
    items = [(k, rand_value(rng, 2, 3)) for k in ks]
    i = rng.randrange(len(items) - 1)
    if rng.random() < 0.5:
        items[i], items[i + 1] = items[i + 1], items[i]
    else:
        items[i + 1] = (items[i][0], items[i + 1][1])
    inner = D(items)
    wrap = rng.random()
    if wrap < 0.3:
        return enc(inner)
    if wrap < 0.6:
        return enc([1, inner])
    return enc(D([(b"a", [b"x", inner]), (b"b", 0)]))


def numeric_adversaries():
    out = []
    for n in [I128_MAX, I128_MAX + 1, I128_MIN, I128_MIN - 1, 10 ** 38, 10 ** 39, -(10 ** 39), 2 ** 128, 10 ** 60]:
        out.append(b"i%de" % n)
        out.append(b"li%dee" % n)
    for s in [b"i-0e", b"i00e", b"i01e", b"i-01e", b"i-e", b"ie", b"i+1e", b"i1", b"i", b"i-", b"i 1e", b"i1 e", b"i0", b"i-00e"]:
        out.append(s)
        out.append(b"l" + s + b"e")
    for n in [2 ** 63 - 1, 2 ** 63, 2 ** 64 - 2, 2 ** 64 - 1, 2 ** 64, 2 ** 64 + 1, 10 ** 19, 10 ** 20, 10 ** 25, 10 ** 40]:
        out.append(b"%d:a" % n)
        out.append(b"%d:" % n)
        out.append(b"l%d:ae" % n)
        out.append(b"d%d:a0:e" % n)
        out.append(b"d1:a%d:ae" % n)
    for s in [b"00:", b"01:a", b"1:", b"2:a", b"1:ab", b"0:a", b"-1:a", b"1a:a", b":", b"1", b"0", b"9", b"10:aaaaaaaaa", b"10:aaaaaaaaaa", b"10:aaaaaaaaaaa"]:
        out.append(s)
        out.append(b"l" + s + b"e")
    return out
