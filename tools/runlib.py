"""Running the real start() on a generated world through the harness, and turning the fs-shim
log into the events the model speaks (probe / read / mutating op per piece)."""
import os
import re
import shutil
import subprocess
import tempfile

import vlib
import worldgen

SANDBOX_BASE = os.environ.get("VERIF_SANDBOX", "/tmp")


def penc(comps):
    """Path (sequence of byte components) -> driver syntax."""
    return "/".join(c.hex() for c in comps) if comps else "-"


def abs_comps(path_bytes):
    # as Path::components(): repeated separators, a trailing separator and '.' components do not count
    return tuple(c for c in path_bytes.split(b"/") if c and c != b".")


class RunResult:
    pass


def parse_fields(rest):
    d = {}
    for tok in rest.split(" "):
        if "=" in tok:
            k, _, v = tok.partition("=")
            d[k] = v
    return d


def run_world(w, plan=None, sched=None, timeout=120, keep=False, scans_override=None, export_override=None, presented=None, trace=False):
    """Materialises the world in a fresh sandbox, runs the harness once, returns a RunResult."""
    os.makedirs(SANDBOX_BASE, exist_ok=True)
    root = tempfile.mkdtemp(prefix="tbv-", dir=SANDBOX_BASE)
    rr = RunResult()
    rr.root = root
    try:
        tree = os.path.join(root, "w")
        worldgen.materialise(w, tree)
        return run_in_tree(w, tree, rr, plan, sched, timeout, scans_override, export_override, presented, trace)
    finally:
        if not keep:
            shutil.rmtree(root, ignore_errors=True)


def prepare_links(w, btree, scans_override=None):
    """Where the tool itself resolves symbolic links: export files (opened by path) and scan roots (the walk follows
    its root).  Returns (arguments for worldgen.snapshot, scans_override)."""
    links = [rel for rel, what in w.files.items() if what[0] == "symlink" and rel[-1].startswith(b"lnk")]

    def rel_of(s):
        if isinstance(s, tuple):
            return tuple(s)
        if s == btree or s.startswith(btree + b"/"):
            comps = [c for c in s[len(btree):].split(b"/") if c]
            return None if any(c in (b".", b"..") for c in comps) else tuple(comps)
        return None
    # a link is followed (by the tool's walk, hence by the snapshot) exactly when it is itself a scan root or lies on the
    # way to one; a walk that starts ABOVE the link skips it, but what lies below the link is then registered by the
    # link's own walk, so the registered set - a union over the scan roots - is the same
    cur = list(scans_override) if scans_override is not None else list(w.scans)
    links = [r for r in links if any(x is not None and x[:len(r)] == r for x in [rel_of(s) for s in cur])]
    return (tuple(w.export), links), scans_override


def run_in_tree(w, tree, rr, plan=None, sched=None, timeout=120, scans_override=None, export_override=None, presented=None, trace=False):
    btree = os.fsencode(tree)
    rr.tree = tree
    rr.follow, scans_override = prepare_links(w, btree, scans_override)
    rr.before = worldgen.snapshot(tree, *rr.follow)
    spec = []
    pres = presented if presented is not None else w.presented
    rr.presented = pres
    rr.presented_raw = []
    rr.resize = w.resize
    for p in pres:
        raw = w.torrents[p].raw if isinstance(p, int) else p
        rr.presented_raw.append(raw)
        spec.append("torrent " + raw.hex())
    scans = scans_override if scans_override is not None else [os.path.join(btree, *s) for s in w.scans]
    export = export_override if export_override is not None else os.path.join(btree, *(getattr(w, "export_arg", None) or w.export))
    spell = w.notes.get("spell") if (scans_override is None and export_override is None) else None
    if spell:
        # the same directories under another spelling: a trailing separator, a '.' component, a doubled separator
        def respell(p, k):
            if spell == "slash":
                return p + b"/"
            parts = p.split(b"/")
            j = 1 + (k % max(1, len(parts) - 1))
            return b"/".join(parts[:j] + ([b"."] if spell == "dot" else [b""]) + parts[j:])
        scans = [respell(s, k) for k, s in enumerate(scans)]
        export = respell(export, len(scans))
    rr.scans, rr.export = scans, export
    rr.rewrites = []
    for arg in [export] + list(scans):
        if arg.startswith(b"/") and b".." in arg.split(b"/") and os.path.isdir(arg):
            real = os.path.realpath(arg)
            if abs_comps(real) != abs_comps(arg):
                rr.rewrites.append((abs_comps(arg), abs_comps(real)))
    for s in scans:
        spec.append("scan " + s.hex())
    spec.append("export " + export.hex())
    spec.append("threads %d" % w.threads)
    spec.append("resize %d" % (1 if w.resize else 0))
    if plan:
        if plan.get("fail"):
            spec.append("fail " + ",".join(str(k) for k in plan["fail"]))
        if plan.get("crash") is not None:
            spec.append("crash %d%s" % (plan["crash"], "" if plan.get("partial") is None else " %d" % plan["partial"]))
    if sched:
        spec.append("sched %d %s" % (sched[0], " ".join(str(x) for x in sched[1])))
    base = os.path.dirname(tree)
    spec_path = os.path.join(base, "spec.txt")
    out_path = os.path.join(base, "out.txt")
    if os.path.exists(out_path):
        os.remove(out_path)
    with open(spec_path, "w") as f:
        f.write("\n".join(spec) + "\n")
    # the process runs with its working directory, HOME, TMPDIR and the XDG directories inside the sandbox (empty
    # directories next to the tree), so that anything it leaves there - a log, a cache, a temporary file - is seen
    side = {}
    for nm in ("cwd", "home", "tmp"):
        side[nm] = os.path.join(base, "side-" + nm)
        os.makedirs(side[nm], exist_ok=True)
    side_before = set(os.path.join(d, n) for sd in side.values() for d, dn, fn in os.walk(sd) for n in dn + fn)
    env = dict(os.environ, HOME=side["home"], TMPDIR=side["tmp"], TMP=side["tmp"], TEMP=side["tmp"],
               XDG_CACHE_HOME=os.path.join(side["home"], ".cache"), XDG_CONFIG_HOME=os.path.join(side["home"], ".config"),
               XDG_DATA_HOME=os.path.join(side["home"], ".local", "share"), XDG_STATE_HOME=os.path.join(side["home"], ".local", "state"))
    cmd = [vlib.harness_bin(), "run", spec_path, out_path]
    trace_path = os.path.join(base, "strace.txt")
    if trace:
        # every file-system call of the process (and its threads) that can create, change, rename or remove something
        cmd = ["strace", "-f", "-qq", "-o", trace_path, "-e",
               "trace=open,openat,openat2,creat,mkdir,mkdirat,rename,renameat,renameat2,unlink,unlinkat,rmdir,link,linkat,symlink,symlinkat,truncate,chmod,fchmodat,chown,fchownat,utimensat,mknod,mknodat"] + cmd
    try:
        p = subprocess.run(cmd, stdout=subprocess.PIPE, stderr=subprocess.PIPE, timeout=timeout, cwd=side["cwd"], env=env)
        rr.rc = p.returncode
        rr.stdout = p.stdout.decode("utf-8", "replace")
        rr.stderr = p.stderr.decode("utf-8", "replace")
    except subprocess.TimeoutExpired as ex:
        rr.rc = -9
        rr.stdout = (ex.stdout or b"").decode("utf-8", "replace")
        rr.stderr = "timeout"
    rr.raw = open(out_path).read().splitlines() if os.path.exists(out_path) else []
    rr.after = worldgen.snapshot(tree, *rr.follow)
    rr.stray = sorted(set(os.path.join(d, n) for sd in side.values() for d, dn, fn in os.walk(sd) for n in dn + fn) - side_before)
    rr.outside = mutating_calls_outside(trace_path, base) if trace else None
    parse_log(rr)
    return rr


def mutating_calls_outside(trace_path, root):
    """Successful system calls of the traced process that create / modify / rename / remove a path outside `root`
    (relative paths are relative to the working directory, which is inside it)."""
    import re
    out = []
    if not os.path.exists(trace_path):
        return ["(no trace was written)"]
    broot = os.path.realpath(root).rstrip("/") + "/"
    for line in open(trace_path, errors="replace"):
        m = re.match(r"\s*\d+\s+(\w+)\((.*)\)\s+=\s+(-?\d+)", line)
        if not m or int(m.group(3)) < 0:
            continue
        call, args = m.group(1), m.group(2)
        paths = re.findall(r'"((?:[^"\\]|\\.)*)"', args)
        if call in ("open", "openat", "openat2", "creat"):
            if call != "creat" and not re.search(r"O_WRONLY|O_RDWR|O_CREAT|O_TRUNC|O_APPEND", args):
                continue
            paths = paths[:1]
        elif call == "utimensat" and not paths:
            continue
        for pth in paths:
            if not pth.startswith("/"):
                continue
            comps = [c for c in pth.split("/") if c and c != "."]        # the arguments may be spelled with '//' or '/./'
            norm = os.path.realpath("/" + "/".join(comps))
            if not (norm + "/").startswith(broot) and norm not in ("/dev/null", "/dev/tty"):
                out.append("%s %s" % (call, pth))
    return out


def parse_log(rr):
    rr.result = "none"
    rr.records = []
    rr.sched = []
    rr.deadlock = False
    rr.loaded = []
    for line in rr.raw:
        kind, _, rest = line.partition(" ")
        if kind == "result":
            rr.result = rest.split(" ")[0]
            rr.result_msg = bytes.fromhex(rest.split(" ")[1]).decode("utf-8", "replace") if " " in rest else ""
        elif kind == "loaded":
            rr.loaded = [x == "1" for x in rest.split(",")] if rest else []
        elif kind == "schedinfo":
            rr.deadlock = "deadlock=1" in rest
        elif kind == "schedlog":
            rr.sched.append(rest)
        else:
            f = parse_fields(rest)
            f["kind"] = kind
            rr.records.append(f)
    if rr.result == "none" and rr.rc == 77:
        rr.result = "crash"
    rr.progress = re.findall(r"Success: (\d+), Failed: (\d+), Faulted: (\d+), Total: (\d+)", rr.stdout)


def pcomps(hexpath):
    return abs_comps(bytes.fromhex(hexpath))


def canonical_events(rr):
    """Returns dict: prelude events, per-piece events (in order of first appearance), index dump,
    entries, work, outcomes; each event also carries its global sequence number."""
    handles = {}
    prelude = []
    pieces = {}
    order = []
    outcomes = {}
    index = []
    entries = []
    work = []
    queues = []
    seq = 0
    cur_seek = {}
    rewrites = getattr(rr, "rewrites", [])

    def pcomps(hexpath):
        # a directory argument spelled through '..' / a symbolic link: the paths the tool builds from it are recorded
        # under the location the kernel resolves the argument to (a path built any OTHER way stays as it is)
        comps = abs_comps(bytes.fromhex(hexpath))
        for raw, real in rewrites:
            if comps[:len(raw)] == raw:
                return real + comps[len(raw):]
        return comps

    def emit(rec, ev):
        nonlocal seq
        ev["seq"] = seq
        seq += 1
        key = rec.get("piece", "-")
        if key == "-":
            prelude.append(ev)
        else:
            pieces.setdefault(key, []).append(ev)

    pending_open = {}
    for rec in rr.records:
        k = rec["kind"]
        if k == "stat":
            res = "dir" if rec["ok"] == "1" and rec.get("dir") == "1" else ("file:0:0:0" if rec["ok"] == "1" else "err")
            emit(rec, {"t": "probe", "path": pcomps(rec["path"]), "w": 0, "res": res})
        elif k == "open":
            h = rec["h"]
            handles[h] = {"path": pcomps(rec["path"]), "w": rec["w"] == "1", "c": rec["c"] == "1", "tr": rec["tr"] == "1", "piece": rec.get("piece", "-"), "reads": None}
            inpiece = rec.get("piece", "-") != "-"
            if handles[h]["w"] and inpiece:
                emit(rec, {"t": "mut", "op": "openw", "path": handles[h]["path"], "c": int(handles[h]["c"]), "tr": int(handles[h]["tr"]), "ok": int(rec["ok"] == "1"),
                           "flags": {x: rec[x] for x in ("r", "w", "c", "cn", "tr", "ap")}})
            elif inpiece:
                if rec["ok"] != "1":
                    emit(rec, {"t": "read", "path": handles[h]["path"], "off": 0, "len": 0, "data": None, "flags": {x: rec[x] for x in ("r", "w", "c", "cn", "tr", "ap")}})
                else:
                    handles[h]["reads"] = {"off": None, "data": b"", "failed": False, "rec": rec, "done": False, "flags": {x: rec[x] for x in ("r", "w", "c", "cn", "tr", "ap")}}
            else:
                if rec["ok"] != "1":
                    emit(rec, {"t": "probe", "path": handles[h]["path"], "w": int(handles[h]["w"]), "res": "nf" if rec["found"] == "0" else "err",
                               "flags": {x: rec[x] for x in ("r", "w", "c", "cn", "tr", "ap")}})
                else:
                    pending_open[h] = rec
        elif k == "fstat":
            h = rec["h"]
            if h in pending_open:
                orec = pending_open.pop(h)
                if rec["ok"] != "1":
                    res = "err"
                elif rec.get("dir") == "1":
                    res = "dir"
                else:
                    res = "file:%s:%s:%s" % (rec["len"], rec["dev"], rec["ino"])
                emit(orec, {"t": "probe", "path": handles[h]["path"], "w": int(handles[h]["w"]), "res": res,
                            "flags": {x: orec[x] for x in ("r", "w", "c", "cn", "tr", "ap")}})
        elif k == "seek":
            h = rec["h"]
            hd = handles.get(h)
            off = int(rec["to"].split(":")[1])
            if hd is None:
                continue
            if hd["reads"] is not None:
                hd["reads"]["off"] = off
                if rec["ok"] != "1":
                    hd["reads"]["failed"] = True
                    emit(rec, {"t": "read", "path": hd["path"], "off": off, "len": 0, "data": None, "flags": hd["reads"]["flags"]})
                    hd["reads"]["done"] = True
            else:
                # seek + write_all is one WriteAt for the model; write_all of an empty buffer issues no write at all
                ev = {"t": "mut", "op": "write", "path": hd["path"], "off": off, "data": b"", "ok": int(rec["ok"] == "1"), "cut": 0}
                hd["wev"] = ev
                emit(rec, ev)
        elif k == "read":
            h = rec["h"]
            hd = handles.get(h)
            if hd is None or hd["reads"] is None or hd["reads"]["done"]:
                continue
            r = hd["reads"]
            if rec["ok"] != "1":
                if r.get("ev") is not None:
                    r["ev"]["data"] = None      # a later chunk failed: the whole read failed
                else:
                    emit(rec, {"t": "read", "path": hd["path"], "off": r["off"] or 0, "len": 0, "data": None, "flags": r["flags"]})
                r["done"] = True
            else:
                chunk = bytes.fromhex(rec["data"]) if rec.get("data") else b""
                if r.get("ev") is None:
                    r["ev"] = {"t": "read", "path": hd["path"], "off": r["off"] or 0, "len": len(chunk), "data": chunk, "flags": r["flags"]}
                    emit(rec, r["ev"])
                else:
                    r["ev"]["data"] += chunk
                    r["ev"]["len"] = len(r["ev"]["data"])
        elif k == "set_len":
            h = rec["h"]
            emit(rec, {"t": "mut", "op": "setlen", "path": pcomps(rec["path"]), "n": int(rec["len"]), "ok": int(rec["ok"] == "1")})
        elif k == "write":
            h = rec["h"]
            data = bytes.fromhex(rec["data"]) if rec.get("data") else b""
            hd = handles.get(h)
            ev = hd.get("wev") if hd else None
            if ev is not None and ev["ok"] == 1 and int(rec["at"]) == ev["off"] + len(ev["data"]):
                # the bytes reach the file now, not when the handle was positioned: order the event here
                ev["seq"] = seq
                seq += 1
                ev["data"] += data
                ev["ok"] = int(rec["ok"] == "1")
                ev["cut"] = int(rec.get("cut", "0"))
            else:
                emit(rec, {"t": "mut", "op": "write", "path": pcomps(rec["path"]), "off": int(rec["at"]), "data": data, "ok": int(rec["ok"] == "1"), "cut": int(rec.get("cut", "0"))})
        elif k == "mkdir_all":
            ev = {"t": "mut", "op": "mkdir", "path": pcomps(rec["path"]), "ok": int(rec["ok"] == "1")}
            if rec["ok"] != "1" and rec.get("deepest"):
                ev["made"] = pcomps(rec["deepest"])      # a failed create_dir_all may have created some ancestors
            emit(rec, ev)
        elif k == "fsop":
            # a mutating std::fs function the tool does not use today (remove_*, rename, copy, hard_link, create_dir, write)
            emit(rec, {"t": "mut", "op": "other", "name": rec["name"], "path": pcomps(rec["path"]), "ok": int(rec["ok"] == "1")})
        elif k == "piece_begin":
            key = rec["piece"]
            order.append(key)
            pieces.setdefault(key, [])
        elif k == "piece_end":
            outcomes.setdefault(rec["piece"], []).append(rec["outcome"])
        elif k == "index":
            nodes = []
            for n in rec["nodes"].split(","):
                if n:
                    ph, dev, ino = n.split(":")
                    nodes.append((pcomps(ph), int(dev), int(ino)))
            index.append((int(rec["len"]), nodes))
        elif k == "entry":
            s = rec["searches"]
            entries.append({"id": int(rec["id"]), "hash": rec["hash"], "file": int(rec["file"]), "len": int(rec["len"]), "pad": rec["pad"] == "1",
                            "full": pcomps(rec["full"]), "partial": pcomps(rec["partial"]),
                            "searches": None if s == "none" else [pcomps(x) for x in s[5:].split(",") if x]})
        elif k == "work":
            work.append({"index": int(rec["index"]), "hash": rec["hash"], "segs": [tuple(int(x) for x in sg.split(":")) for sg in rec["segs"].split(",") if sg]})
        elif k == "queues":
            queues.append(rec)
    for evs in list(pieces.values()) + [prelude]:
        evs.sort(key=lambda e: e["seq"])
    return {"prelude": prelude, "pieces": pieces, "order": order, "outcomes": outcomes, "index": index, "entries": entries, "work": work, "queues": queues}


def is_under(path, prefix):
    return tuple(path[:len(prefix)]) == tuple(prefix)


def event_line(ev):
    t = ev["t"]
    if t == "probe":
        return "probe %s %d %s" % (penc(ev["path"]), ev["w"], ev["res"])
    if t == "read":
        data = "fail" if ev["data"] is None else (ev["data"].hex() or "-")
        return "read %s %d %d %s" % (penc(ev["path"]), ev["off"], ev["len"], data)
    op = ev["op"]
    if op == "mkdir":
        if not ev["ok"] and ev.get("made") is not None:
            return "mut mkdirp %s %s" % (penc(ev["path"]), penc(ev["made"]))
        return "mut mkdir %s %d" % (penc(ev["path"]), ev["ok"])
    if op == "other":
        return "mut other %s %s %d" % (ev["name"], penc(ev["path"]), ev["ok"])      # no such operation in the model: the validator refuses it
    if op == "openw":
        return "mut openw %s %d %d %d" % (penc(ev["path"]), ev["c"], ev["tr"], ev["ok"])
    if op == "setlen":
        return "mut setlen %s %d %d" % (penc(ev["path"]), ev["n"], ev["ok"])
    return "mut write %s %d %s %d" % (penc(ev["path"]), ev["off"], ev["data"].hex() or "-", ev["ok"])


def upath_line(kind, p):
    """p: bytes as passed on the command line."""
    if not p.startswith(b"/"):
        return "%s rel" % kind
    return "%s abs %s" % (kind, penc(abs_comps(p)))


def validator_input(case_id, rr, ce):
    """The description of one run for `driver validate`."""
    out = ["case %s" % case_id]
    for p, ok in zip(rr.presented_raw, rr.loaded or [True] * len(rr.presented_raw)):
        out.append("torrent " + p.hex())
    def resolved(p):
        for raw, real in getattr(rr, "rewrites", []):
            if abs_comps(p) == raw:
                return b"/" + b"/".join(real)
        return p
    for s in rr.scans:
        out.append(upath_line("scan", resolved(s)))
    out.append(upath_line("export", resolved(rr.export)))
    out.append("resize %d" % (1 if rr.resize else 0))
    base = abs_comps(os.fsencode(rr.tree))
    for i in range(1, len(base) + 1):
        out.append("fsdir " + penc(base[:i]))
    for rel, what in sorted(rr.before.items()):
        p = base + rel
        if what[0] == "dir":
            out.append("fsdir " + penc(p))
        elif what[0] == "file":
            out.append("fsfile %s %d %d %s" % (penc(p), what[2][0], what[2][1], what[1].hex() or "-"))
            if len(what) > 3 and what[3]:
                out.append("fslink " + penc(p))
    for ev in ce["prelude"]:
        out.append("pre %d %s" % (ev["seq"], event_line(ev)))
    for ln, nodes in ce["index"]:
        out.append("nodes %d %s" % (ln, " ".join("%s=%d:%d" % (penc(p), d, i) for p, d, i in nodes)))
    for e in ce["entries"]:
        if e["searches"] is None:
            out.append("searches %d none" % e["id"])
        else:
            out.append("searches %d some %s" % (e["id"], " ".join(penc(p) for p in e["searches"])))
    for wk in ce["work"]:
        out.append("work %d %s %s" % (wk["index"], wk["hash"], " ".join("%d:%d:%d" % s for s in wk["segs"])))
    for key, evs in ce["pieces"].items():
        for ev in evs:
            out.append("pev %s %d %s" % (key, ev["seq"], event_line(ev)))
    for key, outs in ce["outcomes"].items():
        for o in outs:
            out.append("pend %s %s" % (key, o))
    for pl in getattr(rr, "progress", []):
        out.append("progress %s %s %s %s" % tuple(pl))
    for rel, what in sorted(rr.after.items()):
        p = base + rel
        if what[0] == "dir":
            out.append("final dir " + penc(p))
        elif what[0] == "file":
            out.append("final file %s %s" % (penc(p), what[1].hex() or "-"))
    out.append("result %s" % rr.result)
    out.append("end")
    return "\n".join(out) + "\n"


def run_history(w, steps, timeout=120):
    """Materialises the world once and performs several runs on the same tree.
    steps: list of dicts with optional keys plan, sched, threads, resize, scans (list of rel tuples),
    presented, scans_override (raw byte paths), export_override.  Returns the list of RunResults."""
    import copy
    os.makedirs(SANDBOX_BASE, exist_ok=True)
    root = tempfile.mkdtemp(prefix="tbv-", dir=SANDBOX_BASE)
    out = []
    try:
        tree = os.path.join(root, "w")
        worldgen.materialise(w, tree)
        for st in steps:
            w2 = copy.copy(w)
            if "threads" in st:
                w2.threads = st["threads"]
            if "resize" in st:
                w2.resize = st["resize"]
            if "scans" in st:
                w2.scans = st["scans"]
            rr = RunResult()
            rr.root = root
            rr = run_in_tree(w2, tree, rr, st.get("plan"), st.get("sched"), timeout, st.get("scans_override"), st.get("export_override"), st.get("presented"))
            rr.world = w2
            out.append(rr)
        return out
    finally:
        shutil.rmtree(root, ignore_errors=True)
