"""Confirms a seeded change (patch + demonstration) in a scratch worktree of /repo and runs the
registered checks against it.  Usage: seed_eval.py <name> <property> <dir with patch.diff, tests/demo.rs> [checks...]"""
import json
import os
import shutil
import subprocess
import sys
import time

VERIF = os.path.dirname(os.path.dirname(os.path.abspath(__file__)))


def sh(cmd, cwd=None, timeout=3000, env=None):
    e = dict(os.environ, CARGO_NET_OFFLINE="true")
    if env:
        e.update(env)
    p = subprocess.run(cmd, cwd=cwd, shell=isinstance(cmd, str), stdout=subprocess.PIPE, stderr=subprocess.STDOUT, timeout=timeout, env=e)
    return p.returncode, p.stdout.decode("utf-8", "replace")


def main():
    name, prop, src = sys.argv[1], sys.argv[2], sys.argv[3]
    checks = sys.argv[4:] or [prop]
    out = os.path.join(VERIF, "seeded", name)
    os.makedirs(out, exist_ok=True)
    shutil.copy(os.path.join(src, "patch.diff"), os.path.join(out, "patch.diff"))
    demo = os.path.join(src, "tests", "demo.rs")
    shutil.copy(demo, os.path.join(out, "demo.rs"))
    meta = {"property": prop, "name": name}
    if os.path.exists(os.path.join(src, "meta.txt")):
        meta["needs_to_manifest"] = open(os.path.join(src, "meta.txt")).read()[:3000]
    wt = "/tmp/confirm-" + name
    sh(["git", "-C", "/repo", "worktree", "remove", "--force", wt])
    rc, o = sh(["git", "-C", "/repo", "worktree", "add", "--detach", wt, "HEAD"])
    env = {"CARGO_TARGET_DIR": "/tmp/confirm-target"}
    try:
        os.makedirs(os.path.join(wt, "tests"), exist_ok=True)
        shutil.copy(demo, os.path.join(wt, "tests", "demo.rs"))
        rc0, o0 = sh("cargo test --offline --test demo 2>&1 | tail -15", cwd=wt, env=env)
        meta["demo_without_change"] = "passes" if "test result: ok" in o0 else "FAILS: " + o0[-600:]
        rc, o = sh(["git", "apply", os.path.join(out, "patch.diff")], cwd=wt)
        meta["patch_applies"] = rc == 0
        rc1, o1 = sh("cargo test --offline --lib 2>&1 | grep 'test result'", cwd=wt, env=env)
        meta["suite_with_change"] = o1.strip()
        rc2, o2 = sh("cargo test --offline --test demo 2>&1 | tail -25", cwd=wt, env=env)
        meta["demo_with_change"] = "fails" if ("FAILED" in o2 or "failed" in o2 or "panicked" in o2) and "test result: ok" not in o2 else "PASSES: " + o2[-400:]
    finally:
        sh(["git", "-C", "/repo", "worktree", "remove", "--force", wt])
    confirmed = meta["demo_without_change"] == "passes" and meta["demo_with_change"] == "fails" and "87 passed" in meta["suite_with_change"] and meta["patch_applies"]
    meta["confirmed"] = confirmed
    # run the checks against the change, in /repo itself, and undo straight afterwards
    results = {}
    if confirmed:
        rc, o = sh(["git", "-C", "/repo", "apply", os.path.join(out, "patch.diff")])
        try:
            for c in checks:
                t0 = time.time()
                rc, o = sh(["./check", c], cwd=VERIF, timeout=3000)
                lines = [l for l in o.splitlines() if l.startswith(("VIOLATION", "OK ", "KNOWN"))]
                results[c] = {"exit": rc, "lines": lines[:4], "wall_s": round(time.time() - t0, 1)}
                if rc != 0:
                    for l in lines:
                        if l.startswith("VIOLATION"):
                            rp = l.split("replay=")[1].split()[0]
                            try:
                                d = json.load(open(rp))
                                results[c]["replay_excerpt"] = {k: (str(v)[:500]) for k, v in d.items() if k in ("violated_clause", "case", "scenario", "broken", "impl", "model", "no_failing_input_found")}
                            except Exception:
                                pass
                            break
        finally:
            sh(["git", "-C", "/repo", "checkout", "--", "."])
    meta["checks"] = results
    meta["detected_by"] = [c for c, r in results.items() if r["exit"] != 0]
    meta["what_was_run"] = "scratch worktree /tmp/confirm-%s: cargo test --test demo (without), git apply patch, cargo test --lib, cargo test --test demo (with); then git -C /repo apply, ./check <id> for %s, git -C /repo checkout -- ." % (name, ", ".join(checks))
    json.dump(meta, open(os.path.join(out, "meta.json"), "w"), indent=1)
    print(json.dumps({k: meta[k] for k in ("confirmed", "suite_with_change", "demo_without_change", "demo_with_change", "detected_by")}, indent=1))
    for c, r in results.items():
        print(c, r["exit"], r["lines"], r.get("replay_excerpt", ""))


if __name__ == "__main__":
    main()
