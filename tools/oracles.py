"""Direct oracles: decide a property on one concrete run of the real code, from the world's ground
truth, the before/after snapshots and the fs-shim log - without the model.  They are tests: used
to exhibit a failing input when the proof or the correspondence breaks (and run on every case as
a cross-check), never as the evidence that a property holds."""
import hashlib
import os

import runlib


def sha1(b):
    return hashlib.sha1(b).digest()


class Ctx:
    """Ground truth of a world laid over a run's snapshots."""

    def __init__(self, w, rr, ce):
        self.w, self.rr, self.ce = w, rr, ce
        self.base = runlib.abs_comps(os.fsencode(rr.tree))
        self.export_rel = tuple(w.export)
        loaded = []
        for p in rr.presented:
            if isinstance(p, int) and w.torrents[p] not in loaded:
                loaded.append(w.torrents[p])
        self.torrents = sorted(loaded, key=lambda t: t.info_hash)
        self.targets = {}      # rel path -> (torrent, file)
        for t in self.torrents:
            for f in t.files:
                if not f.pad:
                    self.targets[self.export_rel + tuple(t.rel_target(f))] = (t, f)
        self.subtrees = [self.export_rel + (t.hex.encode(),) for t in self.torrents]

    def rel(self, abs_path):
        return tuple(abs_path[len(self.base):]) if tuple(abs_path[:len(self.base)]) == self.base else None

    def muts(self):
        for key, evs in self.ce["pieces"].items():
            for ev in evs:
                if ev["t"] == "mut":
                    yield key, ev
        for ev in self.ce["prelude"]:
            if ev["t"] == "mut":
                yield "-", ev

    def all_events(self):
        for key, evs in self.ce["pieces"].items():
            for ev in evs:
                yield key, ev
        for ev in self.ce["prelude"]:
            yield "-", ev

    def file_before(self, rel):
        x = self.rr.before.get(rel)
        return x[1] if x and x[0] == "file" else None

    def file_after(self, rel):
        x = self.rr.after.get(rel)
        return x[1] if x and x[0] == "file" else None

    def piece_verifies(self, snap, t, piece, exact):
        idx, segs, data = piece
        got = b""
        if exact:
            # exact reading: every non-padding file the piece touches - the empty files whose zero-length
            # segment it carries included - sits at its export path with exactly the declared length
            for k, off, ln in piece_segments(t, idx):
                f = t.files[k]
                if f.pad:
                    continue
                x = snap.get(self.export_rel + tuple(t.rel_target(f)))
                if not x or x[0] != "file" or len(x[1]) != f.length:
                    return False
        for k, off, ln in segs:
            f = t.files[k]
            if f.pad:
                got += bytes(ln)
                continue
            x = snap.get(self.export_rel + tuple(t.rel_target(f)))
            if not x or x[0] != "file":
                return False
            if exact and len(x[1]) != f.length:
                return False
            if len(x[1]) < off + ln:
                return False
            got += x[1][off:off + ln]
        return sha1(got) == t.hashes[idx]


def c01(cx):
    """Only verified torrent bytes are written, at their own offsets."""
    for key, ev in cx.muts():
        if ev.get("op") == "write" and ev["ok"]:
            rel = cx.rel(ev["path"])
            tf = cx.targets.get(rel)
            if tf is None:
                return "write to %r which is not the export image of a torrent file" % (ev["path"],)
            t, f = tf
            want = f.content[ev["off"]:ev["off"] + len(ev["data"])]
            if ev["data"] != want:
                return "write of %s at offset %d of %r: the torrent's bytes there are %s" % (ev["data"].hex(), ev["off"], b"/".join(rel), want.hex())
    for rel, (t, f) in cx.targets.items():
        after = cx.file_after(rel)
        if after is None:
            continue
        before = cx.file_before(rel) or b""
        for i, b in enumerate(after):
            ok = (i < len(before) and before[i] == b) or (i >= len(before) and b == 0) or (i < f.length and f.content[i] == b)
            if not ok:
                return "byte %d of %r is %02x after the run: neither what it was, nor a zero of extension, nor the torrent's byte %s" % (
                    i, b"/".join(rel), b, ("%02x" % f.content[i]) if i < f.length else "(beyond the file)")
    return None


def c03(cx):
    """Nothing outside the loaded torrents' export subtrees is touched; sources only read."""
    def inside(rel):
        return any(rel[:len(s)] == s for s in cx.subtrees)
    for rel, what in cx.rr.before.items():
        if inside(rel):
            continue
        now = cx.rr.after.get(rel)
        if now is None:
            return "%r existed before the run and is gone" % (b"/".join(rel),)
        if now[0] != what[0] or (what[0] == "file" and (now[1] != what[1] or now[2] != what[2])) or (what[0] == "symlink" and now[1] != what[1]):
            return "%r (outside every export subtree) was modified" % (b"/".join(rel),)
    for rel, what in cx.rr.after.items():
        # (the export directory and everything above it exist before every valid run: only a subtree's own root may appear)
        if rel not in cx.rr.before and not inside(rel) and not any(s == rel for s in cx.subtrees):
            return "%r appeared outside the export subtrees" % (b"/".join(rel),)
        if rel not in cx.rr.before and inside(rel):
            sub = next(s for s in cx.subtrees if rel[:len(s)] == s)
            if what[0] == "file" and (len(rel) <= len(sub) + 1 or rel[len(sub)] != b"Data"):
                return "file %r created in an export subtree but not below its Data directory" % (b"/".join(rel),)
    if getattr(cx.rr, "outside", None):
        return "system calls that change the file system outside the sandbox: %r" % (cx.rr.outside[:3],)
    if getattr(cx.rr, "stray", None):
        return "the run left %r in its working directory / HOME / TMPDIR (outside every export subtree)" % ([os.path.basename(os.path.dirname(x)) + "/" + os.path.basename(x) for x in cx.rr.stray][:3],)
    for key, ev in cx.all_events():
        fl = ev.get("flags")
        if fl and (fl["w"] == "1" or fl["c"] == "1" or fl["tr"] == "1" or fl["ap"] == "1" or fl["cn"] == "1"):
            rel = cx.rel(ev["path"])
            if rel not in cx.targets:
                return "%r opened with write/create/truncate flags %s but it is not an export target" % (ev["path"], fl)
        if ev["t"] == "mut":
            rel = cx.rel(ev["path"])
            if rel is None or not (inside(rel) or any(s[:len(rel)] == rel for s in cx.subtrees)):
                return "mutating operation %s on %r outside the export subtrees" % (ev["op"], ev["path"])
            if ev.get("op") == "other" and ev["ok"] and not inside(rel):
                return "%s applied to %r, which is not inside an export subtree (an ancestor of the subtrees may be created, never removed or renamed)" % (ev.get("name"), ev["path"])
    return None


def verified_ranges(cx, snap, exact=True):
    """{target rel: [(lo, hi)]} of the pieces that verify in the export tree `snap`."""
    out = {}
    pieces = []
    for t in cx.torrents:
        for pc in t.pieces():
            if cx.piece_verifies(snap, t, pc, exact):
                pieces.append((t, pc))
                for k, off, ln in pc[1]:
                    if not t.files[k].pad:
                        out.setdefault(cx.export_rel + tuple(t.rel_target(t.files[k])), []).append((off, off + ln))
    return out, pieces


def c04(cx):
    """Pieces verifying before still verify; their ranges are not written; all verified => no file modified."""
    ranges, pieces = verified_ranges(cx, cx.rr.before, exact=True)
    for key, ev in cx.muts():
        if ev.get("op") == "write" and ev["ok"] and ev["data"]:
            rel = cx.rel(ev["path"])
            for lo, hi in ranges.get(rel, []):
                if ev["off"] < hi and lo < ev["off"] + len(ev["data"]):
                    return "bytes [%d,%d) of %r belong to a piece that verified before the run and were written again" % (max(lo, ev["off"]), min(hi, ev["off"] + len(ev["data"])), b"/".join(rel))
    _, loose_before = verified_ranges(cx, cx.rr.before, exact=False)
    for t, pc in loose_before:
        if not cx.piece_verifies(cx.rr.after, t, pc, False):
            return "piece %d of torrent %s verified in the export tree before the run and does not afterwards" % (pc[0], t.hex)
    total = sum(len(t.hashes) for t in cx.torrents)
    if total and len(pieces) == total and cx.rr.result == "ok":
        for rel, what in cx.rr.before.items():
            now = cx.rr.after.get(rel)
            if what[0] == "file" and (now is None or now[1] != what[1]):
                return "every piece already verified, yet the existing file %r was modified" % (b"/".join(rel),)
        for key, ev in cx.muts():
            if ev["ok"] and ev.get("op") in ("write", "setlen"):
                rel = cx.rel(ev["path"])
                if cx.file_before(rel) is not None and (ev.get("op") == "write" and ev["data"] or ev.get("op") == "setlen" and ev["n"] != len(cx.file_before(rel))):
                    return "every piece already verified, yet %s was applied to the existing file %r" % (ev["op"], b"/".join(rel))
    return None


def state_after_prelude(cx):
    """Export files as they are when scanning starts (short files zero-extended by the pre-flight)."""
    snap = dict(cx.rr.before)
    if cx.w.resize:
        for rel, (t, f) in cx.targets.items():
            b = cx.file_before(rel)
            if b is not None and len(b) < f.length:
                snap[rel] = ("file", b + bytes(f.length - len(b)), cx.rr.before[rel][2])
    return snap


def available_pieces(cx, loaded=None):
    """[(torrent, piece)] whose every non-padding positive-length segment has a stable witness."""
    snap = state_after_prelude(cx)
    scan_rels = [tuple(s) for s in cx.w.scans]
    out = []
    cand_by_len = {}
    for rel, what in snap.items():
        if what[0] != "file":
            continue
        in_scan = any(rel[:len(s)] == s for s in scan_rels) and not (len(what) > 3 and what[3])      # a walk does not list symbolic links
        in_export = rel[:len(cx.export_rel)] == cx.export_rel
        cand_by_len.setdefault(len(what[1]), []).append((rel, what[1], in_scan, in_export))
    for t in cx.torrents:
        for pc in t.pieces():
            ok = True
            for k, off, ln in pc[1]:
                f = t.files[k]
                if f.pad or ln == 0:
                    continue
                own = cx.export_rel + tuple(t.rel_target(f))
                found = False
                for rel, data, in_scan, in_export in cand_by_len.get(f.length, []):
                    # never written by the run: scan files outside the export directory, files inside it that are not the
                    # export location of any loaded torrent's file (C03), and the segment's own export file (C01)
                    stable = (in_scan and (not in_export or rel not in cx.targets)) or rel == own
                    if stable and data[off:off + ln] == f.content[off:off + ln]:
                        found = True
                        break
                if not found:
                    ok = False
                    break
            if ok:
                out.append((t, pc))
    return out


def determined(cx):
    """True when the available data determines the outcome of every piece whatever the schedule or
    presentation: every piece that could POSSIBLY be assembled (from any same-length file in any
    state it can pass through during the run - its initial bytes, zeros of an extension, or the
    bytes of any same-length torrent file an export write may put there) is STABLY available.
    Over-approximates 'possibly', so it errs on the side of not demanding identical trees."""
    snap = state_after_prelude(cx)
    stable = set((t.hex, pc[0]) for t, pc in available_pieces(cx))
    by_len = {}
    for rel, what in snap.items():
        if what[0] == "file":
            by_len.setdefault(len(what[1]), []).append(what[1])
    tgt_by_len = {}
    for rel, (t, f) in cx.targets.items():
        tgt_by_len.setdefault(f.length, []).append(f.content)
    for t in cx.torrents:
        for pc in t.pieces():
            if (t.hex, pc[0]) in stable:
                continue
            possible = True
            for k, off, ln in pc[1]:
                f = t.files[k]
                if f.pad or ln == 0:
                    continue
                need = f.content[off:off + ln]
                writes = tgt_by_len.get(f.length, [])
                # any existing file may be (a hard link of) an export file that is extended and written during the run
                cands = list(by_len.get(f.length, [])) + [b""]
                for rel, what in snap.items():
                    if what[0] == "file" and len(what[1]) < f.length:
                        cands.append(what[1])
                ok = False
                for data in cands:
                    if all((off + i < len(data) and data[off + i] == need[i]) or (off + i >= len(data) and need[i] == 0)
                           or any(c[off + i] == need[i] for c in writes) for i in range(ln)):
                        ok = True
                        break
                if not ok:
                    possible = False
                    break
            if possible:
                return False
    return True


def c02(cx):
    """Every available piece is recovered (fault-free completed runs)."""
    if cx.rr.result != "ok":
        return None
    if any(o != ["success"] and o != ["failed"] for o in cx.ce["outcomes"].values()):
        return None            # an I/O fault occurred: outside the hypothesis
    for t, pc in available_pieces(cx):
        if not cx.piece_verifies(cx.rr.after, t, pc, False):
            return "piece %d of torrent %s (%s) had all its data on disk and is not in the export tree after the run" % (pc[0], t.hex, t.name)
    return None


def c12(cx):
    """Created files are export images at the documented place with the declared length; no padding files."""
    for rel, what in cx.rr.after.items():
        new = rel not in cx.rr.before
        if new and what[0] == "file" and rel not in cx.targets:
            return "file %r was created and is not the export image of a torrent file" % (b"/".join(rel),)
        if new and what[0] == "dir" and not any(tr[:len(rel)] == rel for tr in cx.targets):
            return "directory %r was created and is not an ancestor of an export file" % (b"/".join(rel),)
        if b".pad" in rel and new and rel[:len(cx.export_rel)] == cx.export_rel:
            tf = cx.targets.get(rel)
            if tf is None:
                return "padding path %r was created" % (b"/".join(rel),)
    written = set()
    for key, ev in cx.muts():
        if ev["ok"] and ev.get("op") in ("write", "setlen", "openw") and key != "-":
            written.add(cx.rel(ev["path"]))
    for key, ev in cx.muts():
        if ev["ok"] and ev.get("op") == "write":
            pass
    if cx.rr.result == "ok":
        for key, evs in cx.ce["pieces"].items():
            wrote = set(cx.rel(ev["path"]) for ev in evs if ev["t"] == "mut" and ev.get("op") == "write" and ev["ok"])
            for rel in wrote:
                tf = cx.targets.get(rel)
                now = cx.file_after(rel)
                if tf and now is not None and len(now) != tf[1].length:
                    return "%r received a piece and has length %d, declared %d" % (b"/".join(rel), len(now), tf[1].length)
    for t in cx.torrents:
        for f in t.files:
            if f.pad and (cx.export_rel + tuple(t.rel_target(f))) in cx.rr.after and (cx.export_rel + tuple(t.rel_target(f))) not in cx.rr.before:
                return "padding file %r was created" % (b"/".join(t.rel_target(f)),)
    return None


def c14(cx):
    """Resize pre-flight."""
    existing = {rel: cx.file_before(rel) for rel in cx.targets if cx.file_before(rel) is not None}
    if cx.w.resize:
        longer = [rel for rel, b in existing.items() if len(b) > cx.targets[rel][1].length]
        if longer:
            if cx.rr.result != "err":
                return "export file %r is longer than declared, the run did not fail (result %s)" % (b"/".join(longer[0]), cx.rr.result)
            if cx.rr.after != cx.rr.before:
                return "an over-long export file must abort the run before anything is modified, but the tree changed"
            if any(True for _ in cx.muts()):
                return "an over-long export file must abort the run before anything is modified, but mutating operations were issued"
            return None
        if cx.rr.result == "ok":
            pre = [ev for ev in cx.ce["prelude"] if ev["t"] == "mut"]
            want = sorted(rel for rel, b in existing.items() if len(b) < cx.targets[rel][1].length)
            got = sorted(cx.rel(ev["path"]) for ev in pre if ev["op"] == "setlen" and ev["ok"])
            if want != got:
                return "the pre-flight must extend exactly the existing shorter export files %r, it extended %r" % (want, got)
            for ev in pre:
                rel = cx.rel(ev["path"])
                if ev["n"] != cx.targets[rel][1].length:
                    return "%r extended to %d, declared %d" % (b"/".join(rel), ev["n"], cx.targets[rel][1].length)
            first_piece = min([e["seq"] for evs in cx.ce["pieces"].values() for e in evs] or [10 ** 9])
            if any(ev["seq"] > first_piece for ev in pre):
                return "a pre-flight extension happened after scanning started"
            for rel in want:
                now = cx.file_after(rel)
                b = existing[rel]
                if now is None or now[:len(b)] != b and not _rewritten(cx, rel):
                    return "existing bytes of %r were not kept by the extension" % (b"/".join(rel),)
    else:
        for rel, before in cx.rr.before.items():
            if before[0] != "file":
                continue
            now = cx.file_after(rel)
            if now is not None and len(now) != len(before[1]) and not _rewritten(cx, rel):
                return "without --resize-export-files the length of %r changed although it received no verified piece" % (b"/".join(rel),)
        if any(ev["op"] == "setlen" for ev in cx.ce["prelude"] if ev["t"] == "mut"):
            return "set_len in the prelude without --resize-export-files"
    return None


def _rewritten(cx, rel):
    for key, ev in cx.muts():
        if key != "-" and ev["ok"] and ev.get("op") == "write" and cx.rel(ev["path"]) == rel:
            return True
    return False


def c15(cx):
    """Reported figures."""
    if cx.rr.result != "ok":
        return None
    total = sum(len(t.hashes) for t in cx.torrents)
    prog = [tuple(int(x) for x in p) for p in cx.rr.progress]
    if total == 0:
        return None if not prog else "progress lines printed for a run without pieces"
    if len(prog) != total:
        return "%d progress lines for %d pieces" % (len(prog), total)
    last = prog[-1]                     # the FINAL report is the last line printed
    if sum(last[:3]) != total or last[3] != total:
        return "final report %r (the last progress line printed) does not add up to the %d pieces of the distinct loaded torrents" % (last, total)
    if sorted(sum(p[:3]) for p in prog) != list(range(1, total + 1)):
        return "progress lines do not account for the pieces one at a time: %r" % (prog,)
    outs = cx.ce["outcomes"]
    counts = {"success": 0, "failed": 0, "fault": 0}
    for o in outs.values():
        for x in o:
            counts[x] += 1
    if (counts["success"], counts["failed"], counts["fault"]) != last[:3]:
        return "final report %r differs from the per-piece outcomes %r" % (last, counts)
    # succeeded => verifies afterwards; verified before / available => succeeded
    keymap = {}
    ids = {}
    n = 0
    for t in cx.torrents:
        for k, f in enumerate(t.files):
            ids[(t.hex, k)] = n
            n += 1
    for t in cx.torrents:
        for pc in t.pieces():
            segs = piece_segments(t, pc[0])
            k0, off0 = segs[0][0], segs[0][1]
            keymap["%d:%d" % (ids[(t.hex, k0)], off0)] = (t, pc)
    for key, o in outs.items():
        if key not in keymap:
            return "outcome reported for an unknown piece %s" % key
        t, pc = keymap[key]
        if o == ["success"] and not cx.piece_verifies(cx.rr.after, t, pc, False):
            return "piece %d of %s counted as succeeded but does not verify in the export tree" % (pc[0], t.hex)
    faultfree = all(o in (["success"], ["failed"]) for o in outs.values())
    if faultfree:
        _, before_ok = verified_ranges(cx, state_after_prelude(cx), exact=True)
        must = [(t.hex, pc[0]) for t, pc in before_ok] + [(t.hex, pc[0]) for t, pc in available_pieces(cx)]
        for key, (t, pc) in keymap.items():
            if (t.hex, pc[0]) in must and outs.get(key) != ["success"]:
                return "piece %d of %s verified already / was available, but is counted as %r" % (pc[0], t.hex, outs.get(key))
    return None


def piece_segments(t, i):
    """Segments of piece i including the zero-length ones of empty files: the cursor hands an empty
    file (at global position g) to the piece that is being filled when it reaches it, i.e. piece g // L."""
    starts = [0]
    for f in t.files:
        starts.append(starts[-1] + f.length)
    L = t.piece_length
    lo, hi = i * L, min((i + 1) * L, t.total)
    segs = []
    for k, f in enumerate(t.files):
        a, b = max(lo, starts[k]), min(hi, starts[k] + f.length)
        if a < b:
            segs.append((k, a - starts[k], b - a))
        elif f.length == 0 and not t.single and starts[k] // L == i:
            segs.append((k, 0, 0))
    segs.sort()
    return segs


ORACLES = {"C01": c01, "C02": c02, "C03": c03, "C04": c04, "C12": c12, "C14": c14, "C15": c15}
