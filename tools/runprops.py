"""Shared machinery of the run-level properties: generate worlds, run the real start() on each,
validate the run against the extracted model, apply the property's direct oracle."""
import collections
import copy

import oracles
import runlib
import vlib
import worldgen
import worlds


class Scenario:
    """One run to perform: how to (re)build the world and with which options."""

    def __init__(self, tag, seed, index, variant=None):
        self.tag, self.seed, self.index, self.variant = tag, seed, index, variant or {}

    def ident(self):
        return {"tag": self.tag, "world_seed": self.seed, "index": self.index, "variant": self.variant}


def world_for(tag, seed, index, **kw):
    """Deterministic world number `index` of the stream (tag, seed)."""
    rng = vlib.rng_for(seed, "%s/%d" % (tag, index))
    return worldgen.gen_world(rng, **kw)


def describe_world(w):
    return {
        "torrents": [{"name": repr(t.name), "single": t.single, "piece_length": t.piece_length,
                      "files": [{"path": [repr(c) for c in f.path], "length": f.length, "pad": f.pad, "content": f.content.hex()} for f in t.files],
                      "info_hash": t.hex} for t in w.torrents],
        "files": {repr(b"/".join(k)): (v[0] if v[0] != "file" else "file:" + v[1].hex()) for k, v in sorted(w.files.items())},
        "scans": [repr(b"/".join(s)) for s in w.scans], "export": repr(b"/".join(w.export)), "resize": w.resize, "threads": w.threads,
    }


def run_scenarios(ctx, scen_worlds, kwargs_of=None):
    """scen_worlds: list of (Scenario, World). Returns list of dicts with rr, ce, verdict."""
    jobs = []
    for i, (sc, w) in enumerate(scen_worlds):
        kw = kwargs_of(sc, w) if kwargs_of else {}
        jobs.append(("r%d" % i, w, kw))
    res = worlds.run_many(jobs)
    ver = worlds.validate_many(res, ctx["driver"])
    out = []
    for i, (sc, w) in enumerate(scen_worlds):
        rr, ce = res["r%d" % i]
        out.append({"sc": sc, "w": w, "rr": rr, "ce": ce, "verdict": ver["r%d" % i]})
    return out


def judge(prop, runs, oracle_fns, allow_results=("ok", "err"), expect_valid=True):
    """Splits the runs into findings (the property's oracle fails: a concrete failing run of the
    real code) and broken correspondences (the model does not allow what the code did, yet the
    oracle sees no violation)."""
    findings, broken = [], []
    stats = collections.Counter()
    for r in runs:
        rr, w = r["rr"], r["w"]
        cx = oracles.Ctx(w, rr, r["ce"])
        stats["result " + rr.result] += 1
        stats["threads %d" % w.threads] += 1
        stats["stream " + r["sc"].tag] += 1
        # environment features of the world (how often the generators produced them)
        if w.notes.get("spell"):
            stats["directory arguments respelled (%s)" % w.notes["spell"]] += 1
        if w.notes.get("scan_via_symlink"):
            stats["a scan root given through a symbolic link"] += 1
        if getattr(w, "export_arg", None):
            stats["export argument through a link and '..'"] += 1
        if tuple(w.export)[-1:] != (b"export",):
            stats["directory names that are not valid UTF-8"] += 1
        if any(k[-1].startswith((b"\xff\xfe", b"\xfe\xff")) for k in w.files):
            stats["candidate names that are not valid UTF-8"] += 1
        if any(v[0] == "symlink" and k[:len(w.export)] == tuple(w.export) for k, v in w.files.items()):
            stats["an export file that is a symbolic link"] += 1
        if w.notes.get("upper_case_namesake"):
            stats["an UPPER-case namesake of an export directory already present"] += 1
        if getattr(rr, "outside", None) is not None:
            stats["run under strace"] += 1
        bad = None
        if rr.result not in allow_results:
            bad = "the run did not return a result: %s %s" % (rr.result, getattr(rr, "result_msg", "") or rr.stderr[-300:])
        for fn in oracle_fns:
            if bad:
                break
            try:
                bad = fn(cx)
            except Exception as ex:  # an oracle crash is a machinery problem, reported as a broken tie
                broken.append({"what": "oracle %s raised %r" % (fn.__name__, ex), "scenario": r["sc"].ident()})
        if bad:
            stats["oracle failures"] += 1
            if len(findings) < 5:
                findings.append({"scenario": r["sc"].ident(), "violated_clause": bad, "model_verdict": r["verdict"][:600],
                                 "world": describe_world(w), "result": rr.result, "how_to_replay": "./check %s --replay <this file>" % prop})
        elif expect_valid and not r["verdict"].startswith("ok"):
            stats["model mismatches"] += 1
            if len(broken) < 10:
                broken.append({"what": "the run is not a behaviour of the model: " + r["verdict"][:800], "scenario": r["sc"].ident(), "world": describe_world(w)})
        else:
            stats["validated"] += 1
    return findings, broken, dict(stats)


def standard_scenarios(ctx, tag, n, **kw):
    out = []
    for i in range(n):
        sc = Scenario(tag, ctx["seed"], i)
        out.append((sc, world_for(tag, ctx["seed"], i, **kw)))
    return out


def sample(runs, k=3):
    out = []
    for r in runs[:k]:
        w = r["w"]
        out.append({"scenario": r["sc"].ident(), "torrents": [(repr(t.name), t.piece_length, [(f.length, f.pad) for f in t.files]) for t in w.torrents],
                    "threads": w.threads, "resize": w.resize, "result": r["rr"].result, "outcomes": dict(collections.Counter(o for v in r["ce"]["outcomes"].values() for o in v)),
                    "model_verdict": r["verdict"][:120]})
    return out


def nontrivial(runs):
    """Distinct runs in which at least one piece was written (a mutating operation happened)."""
    seen = set()
    for r in runs:
        if any(ev["t"] == "mut" and ev["ok"] for evs in r["ce"]["pieces"].values() for ev in evs):
            seen.add((r["sc"].tag, r["sc"].index, repr(sorted(r["sc"].variant.items()))))
    return len(seen)


def result(prop, ctx, runs, findings, broken, stats, rule, explanation, extra_dist=None):
    dist = {"stats": stats}
    if extra_dist:
        dist.update(extra_dist)
    exp = collections.Counter()
    for r in runs:
        for k, v in r["w"].notes.get("export_states", {}).items():
            exp[k] += v
    dist["prior_export_states"] = dict(exp)
    return {"evaluations": len(runs), "distinct_nontrivial": nontrivial(runs), "rule": rule, "samples": sample(runs),
            "distribution": dist, "disagreements": len(broken), "findings": findings, "broken": broken, "explanation": explanation}
