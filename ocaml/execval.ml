(* Executor trace validator: replays the synchronisation log of one real run of executor::run
   (lock / try_lock / unlock of the queue locks and the execution-state lock, piece scope markers,
   queue dumps) through the extracted [xstep] of ExecRun.v.  Every accepted event is a sequence of
   steps of the transition system of ExecModel.v (ExecRunProofs.xstep_refines).

   Input (stdin), per case:
     case <id>
     n <workers>
     piece <number> <nfiles> <gid>
     init <order> <queues>            order: csv of gids or -; queues: q|q|... each a csv of piece numbers or -
     ev <worker> try <0|1> | unlockq <i> | lockq <i> | locks | unlocks | begin <w> | end <w> | queues <order> <queues>
     end
   Output: "<id> ok events=<k> solved=<m>"  or  "<id> bad <what>". *)
open Model
open Conv

let words line = List.filter (fun s -> s <> "") (String.split_on_char ' ' (String.trim line))

let nats s = if s = "-" || s = "" then [] else List.map (fun x -> nat_of_int (int_of_string x)) (String.split_on_char ',' s)
let queues s = List.map nats (String.split_on_char '|' s)

let show_obs = function
  | OTry b -> Printf.sprintf "try_lock(own) = %b" b
  | OUnlockQ i -> Printf.sprintf "unlock(queue %d)" (int_of_nat i)
  | OLockQ i -> Printf.sprintf "lock(queue %d)" (int_of_nat i)
  | OLockState -> "lock(state)"
  | OUnlockState -> "unlock(state)"
  | OBegin w -> Printf.sprintf "begin piece %d" (int_of_nat w)
  | OEnd w -> Printf.sprintf "end piece %d" (int_of_nat w)
  | OQueues (_, q) -> Printf.sprintf "queues after balance: %s" (String.concat "|" (List.map (fun l -> String.concat "," (List.map (fun x -> string_of_int (int_of_nat x)) l)) q))

let show_pc = function
  | PTry -> "PTry" | PHoldOwn -> "PHoldOwn" | PSolve w -> Printf.sprintf "PSolve %d" (int_of_nat w) | PWantState -> "PWantState"
  | PChk -> "PChk" | PLockOwn -> "PLockOwn" | PChkLen -> "PChkLen" | PGather i -> Printf.sprintf "PGather %d" (int_of_nat i)
  | PBalance -> "PBalance" | PRelease (j, hi) -> Printf.sprintf "PRelease %d %d" (int_of_nat j) (int_of_nat hi)
  | PRelOwn -> "PRelOwn" | PRelState -> "PRelState" | PDone -> "PDone"

let exec_cmd () =
  let id = ref "" and n = ref 0 and table = ref [] and init = ref None and evs = ref [] in
  let reset () = n := 0; table := []; init := None; evs := [] in
  let finish () =
    let tbl = !table in
    let look f p = match List.assoc_opt (int_of_nat p) tbl with Some x -> nat_of_int (f x) | None -> O in
    let nfiles = look fst and gid = look snd in
    let nn = nat_of_int !n in
    match !init with
    | None -> Printf.printf "%s bad no initial queue dump\n" !id
    | Some (order, q0) ->
      let items = List.map (fun (k, _) -> nat_of_int k) (List.sort compare tbl) in
      let before = items :: List.init (max 0 (!n - 1)) (fun _ -> []) in
      if List.length q0 <> !n then Printf.printf "%s bad initial dump has %d queues for %d workers\n" !id (List.length q0) !n
      else if not (balanced_check nfiles gid order nn before q0) then
        Printf.printf "%s bad the initial distribution is not balance(order) of the work list\n" !id
      else begin
        let x = ref (xinit nn q0) in
        let k = ref 0 in
        let failed = ref None in
        List.iter (fun (t, o) ->
            if !failed = None then begin
              (if t < 0 || t >= !n then failed := Some (Printf.sprintf "event %d: worker %d out of range" !k t)
               else match xstep nfiles gid (nat_of_int t) o !x with
                 | Some x' -> x := x'
                 | None ->
                   let pc = try show_pc (List.nth (!x).xpc t) with _ -> "?" in
                   failed := Some (Printf.sprintf "event %d: worker %d does %s, which is not a step of the executor model from its state (pc %s, active %d)" !k t (show_obs o) pc (int_of_nat (!x).xa)));
              incr k
            end) (List.rev !evs);
        match !failed with
        | Some m -> Printf.printf "%s bad %s\n" !id m
        | None ->
          if not (xdone nn !x) then
            Printf.printf "%s bad the log ends but not every worker has finished: %s\n" !id (String.concat " " (List.map show_pc (!x).xpc))
          else begin
            let solved = List.sort compare (List.map int_of_nat (!x).xsolved) in
            let all = List.sort compare (List.map fst tbl) in
            if solved <> all then Printf.printf "%s bad solved pieces are not exactly the work list\n" !id
            else Printf.printf "%s ok events=%d solved=%d\n" !id !k (List.length solved)
          end
      end in
  (try while true do
    let line = input_line stdin in
    (try match words line with
    | ["case"; i] -> reset (); id := i
    | ["n"; k] -> n := int_of_string k
    | ["piece"; p; nf; g] -> table := (int_of_string p, (int_of_string nf, int_of_string g)) :: !table
    | ["init"; order; q] -> init := Some (nats order, queues q)
    | "ev" :: t :: rest ->
      let t = int_of_string t in
      let o = match rest with
        | ["try"; b] -> OTry (b = "1")
        | ["unlockq"; i] -> OUnlockQ (nat_of_int (int_of_string i))
        | ["lockq"; i] -> OLockQ (nat_of_int (int_of_string i))
        | ["locks"] -> OLockState
        | ["unlocks"] -> OUnlockState
        | ["begin"; w] -> OBegin (nat_of_int (int_of_string w))
        | ["end"; w] -> OEnd (nat_of_int (int_of_string w))
        | ["queues"; order; q] -> OQueues (nats order, queues q)
        | _ -> failwith ("unparsable event: " ^ line) in
      evs := (t, o) :: !evs
    | ["end"] -> finish (); flush stdout
    | [] -> ()
    | _ -> failwith ("unparsable line: " ^ line)
    with Failure m -> Printf.printf "%s bad %s\n" !id m; reset ())
  done with End_of_file -> ())
