(* Conversions between the extracted Coq number types and OCaml values (zarith used for
   decimal parsing / printing only). *)
open Model

let rec pos_of_z (z : Z.t) : positive =
  if Z.equal z Z.one then XH
  else if Z.is_even z then XO (pos_of_z (Z.shift_right z 1))
  else XI (pos_of_z (Z.shift_right z 1))

let n_of_z (z : Z.t) : n = if Z.sign z = 0 then N0 else Npos (pos_of_z z)
let n_of_string s = n_of_z (Z.of_string s)
let n_of_int i = n_of_z (Z.of_int i)

let rec z_of_pos = function
  | XH -> Z.one
  | XO p -> Z.shift_left (z_of_pos p) 1
  | XI p -> Z.succ (Z.shift_left (z_of_pos p) 1)

let z_of_n = function N0 -> Z.zero | Npos p -> z_of_pos p
let string_of_n x = Z.to_string (z_of_n x)
let int_of_n x = Z.to_int (z_of_n x)

let rec nat_of_int i = if i <= 0 then O else S (nat_of_int (i - 1))
let int_of_nat n = let rec go acc = function O -> acc | S m -> go (acc + 1) m in go 0 n

let bytes_of_hex (s : string) : n list =
  if s = "-" then [] else
  List.init (String.length s / 2) (fun i -> n_of_int (int_of_string ("0x" ^ String.sub s (2 * i) 2)))

let hex_of_bytes (l : n list) : string =
  if l = [] then "-" else String.concat "" (List.map (fun b -> Printf.sprintf "%02x" (int_of_n b)) l)
