(* Conversions between the extracted Coq number types and OCaml values (zarith used for
   decimal parsing / printing only). *)
module ZA = Z   (* zarith, before the extracted Coq module Z can shadow it *)
open Model

let rec pos_of_z (z : ZA.t) : positive =
  if ZA.equal z ZA.one then XH
  else if ZA.is_even z then XO (pos_of_z (ZA.shift_right z 1))
  else XI (pos_of_z (ZA.shift_right z 1))

let n_of_z (z : ZA.t) : n = if ZA.sign z = 0 then N0 else Npos (pos_of_z z)
let n_of_string s = n_of_z (ZA.of_string s)
let n_of_int i = n_of_z (ZA.of_int i)

let rec z_of_pos = function
  | XH -> ZA.one
  | XO p -> ZA.shift_left (z_of_pos p) 1
  | XI p -> ZA.succ (ZA.shift_left (z_of_pos p) 1)

let z_of_n = function N0 -> ZA.zero | Npos p -> z_of_pos p
let string_of_n x = ZA.to_string (z_of_n x)
let int_of_n x = ZA.to_int (z_of_n x)

let rec nat_of_int i = if i <= 0 then O else S (nat_of_int (i - 1))
let int_of_nat n = let rec go acc = function O -> acc | S m -> go (acc + 1) m in go 0 n

let bytes_of_hex (s : string) : n list =
  if s = "-" then [] else
  List.init (String.length s / 2) (fun i -> n_of_int (int_of_string ("0x" ^ String.sub s (2 * i) 2)))

let hex_of_bytes (l : n list) : string =
  if l = [] then "-" else String.concat "" (List.map (fun b -> Printf.sprintf "%02x" (int_of_n b)) l)

let z_of_coqz = function Z0 -> ZA.zero | Zpos p -> z_of_pos p | Zneg p -> ZA.neg (z_of_pos p)
let string_of_coqz z = ZA.to_string (z_of_coqz z)
let coqz_of_z (z : ZA.t) = if ZA.sign z = 0 then Z0 else if ZA.sign z > 0 then Zpos (pos_of_z z) else Zneg (pos_of_z (ZA.neg z))
