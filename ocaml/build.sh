#!/bin/sh
# Builds the model runner from the freshly extracted model.
set -e
cd "$(dirname "$0")"
mkdir -p _build
cp ../coq/extracted/model.ml ../coq/extracted/model.mli conv.ml validate.ml execval.ml driver.ml _build/
cd _build
ocamlfind ocamlopt -O2 -package zarith -linkpkg -w -a model.mli model.ml conv.ml validate.ml execval.ml driver.ml -o driver 2>&1 || \
ocamlfind ocamlopt -package zarith -linkpkg -w -a model.mli model.ml conv.ml validate.ml execval.ml driver.ml -o driver
