(* Runs the extracted model on cases read from stdin (one per line, same format as the Rust
   harness) and prints one canonical result line per case. *)
open Model
open Conv

let words line = List.filter (fun s -> s <> "") (String.split_on_char ' ' (String.trim line))

let iter_lines f =
  try while true do
    let line = input_line stdin in
    if String.trim line <> "" then f line
  done with End_of_file -> ()

let render_piece i (p : piece) =
  let segs = List.map (fun s -> Printf.sprintf "%d,%s,%s,%s" (int_of_nat s.s_file) (string_of_n s.s_off) (string_of_n s.s_len) (string_of_n s.s_flen)) p.p_segs in
  Printf.sprintf "%d:%d:%s:%s" i i (string_of_n p.p_len) (String.concat ";" segs)

let layout_cmd () =
  iter_lines (fun line ->
    match words line with
    | id :: form :: l :: nh :: lens ->
      let lens = List.map n_of_string lens in
      let sh = if form = "S" then Single (List.hd lens) else Multi lens in
      let r = layout sh (n_of_string l) (nat_of_int (int_of_string nh)) in
      (match r with
       | Ok ps -> Printf.printf "%s ok %s\n" id (String.concat "|" (List.mapi render_piece ps))
       | Err -> Printf.printf "%s err\n" id
       | Panic -> Printf.printf "%s panic\n" id
       | OutOfFuel -> Printf.printf "%s fuel\n" id)
    | _ -> ())

let rec render_tok b (t : tok) =
  match t with
  | TStr (v, s, e) -> Buffer.add_string b (Printf.sprintf "s(%s,%s,%s)" (hex_of_bytes v) (string_of_n s) (string_of_n e))
  | TInt (z, s, e) -> Buffer.add_string b (Printf.sprintf "i(%s,%s,%s)" (string_of_coqz z) (string_of_n s) (string_of_n e))
  | TList (l, s, e) ->
    Buffer.add_string b (Printf.sprintf "l(%s,%s)[" (string_of_n s) (string_of_n e));
    List.iteri (fun i x -> if i > 0 then Buffer.add_char b ','; render_tok b x) l;
    Buffer.add_char b ']'
  | TDict (l, s, e) ->
    Buffer.add_string b (Printf.sprintf "d(%s,%s)[" (string_of_n s) (string_of_n e));
    List.iteri (fun i (k, v) -> if i > 0 then Buffer.add_char b ','; render_tok b k; Buffer.add_char b '='; render_tok b v) l;
    Buffer.add_char b ']'

let decode_cmd () =
  iter_lines (fun line ->
    match words line with
    | [id; h] ->
      (match decode (bytes_of_hex h) with
       | Ok t -> let b = Buffer.create 64 in render_tok b t; Printf.printf "%s ok %s\n" id (Buffer.contents b)
       | Err -> Printf.printf "%s err\n" id
       | Panic -> Printf.printf "%s panic\n" id
       | OutOfFuel -> Printf.printf "%s fuel\n" id)
    | _ -> ())

let render_torrent (t : torrent) =
  let files = match t.t_files with
    | None -> "-"
    | Some fs -> "[" ^ String.concat "," (List.map (fun f -> string_of_n f.f_length ^ ":" ^ String.concat "/" (List.map hex_of_bytes f.f_path)) fs) ^ "]" in
  let l = match t.t_length with None -> "-" | Some l -> string_of_n l in
  Printf.sprintf "ok name=%s len=%s files=%s pl=%s hashes=%s ih=%s" (hex_of_bytes t.t_name) l files (string_of_n t.t_piece_length)
    (String.concat "," (List.map hex_of_bytes t.t_pieces)) (hex_of_bytes t.t_info_hash)

let load_cmd () =
  iter_lines (fun line ->
    match words line with
    | [id; h] ->
      (match load sha1 (bytes_of_hex h) with
       | Ok t -> Printf.printf "%s %s\n" id (render_torrent t)
       | Err -> Printf.printf "%s err\n" id
       | Panic -> Printf.printf "%s panic\n" id
       | OutOfFuel -> Printf.printf "%s fuel\n" id)
    | _ -> ())

let doclayout_cmd () =
  iter_lines (fun line ->
    match words line with
    | [id; h] ->
      (match load sha1 (bytes_of_hex h) with
       | Ok t ->
         (match layout (shape_of t) t.t_piece_length (nat_of_int (List.length t.t_pieces)) with
          | Ok ps ->
            let render i (p : piece) =
              let segs = List.map (fun s -> Printf.sprintf "%d,%s,%s,%s" (int_of_nat s.s_file) (string_of_n s.s_off) (string_of_n s.s_len) (string_of_n s.s_flen)) p.p_segs in
              Printf.sprintf "%d:%s:%s:%s" i (hex_of_bytes (List.nth t.t_pieces i)) (string_of_n p.p_len) (String.concat ";" segs) in
            Printf.printf "%s ok %s\n" id (String.concat "|" (List.mapi render ps))
          | Err -> Printf.printf "%s layout-err\n" id
          | Panic -> Printf.printf "%s panic\n" id
          | OutOfFuel -> Printf.printf "%s fuel\n" id)
       | Err -> Printf.printf "%s err\n" id
       | Panic -> Printf.printf "%s panic\n" id
       | OutOfFuel -> Printf.printf "%s fuel\n" id)
    | _ -> ())

let cls = function Ok _ -> "ok" | Err -> "err" | Panic -> "panic" | OutOfFuel -> "fuel"

let total_cmd () =
  iter_lines (fun line ->
    match words line with
    | [id; h] ->
      let x = bytes_of_hex h in
      Printf.printf "%s decode=%s load=%s\n" id (cls (decode x)) (cls (load sha1 x))
    | _ -> ())

let bytes_cmd f () =
  iter_lines (fun line ->
    match words line with
    | [id; h] -> Printf.printf "%s %s\n" id (hex_of_bytes (f (bytes_of_hex h)))
    | _ -> ())

let () =
  match Sys.argv with
  | [| _; "validate" |] -> Validate.validate_cmd ()
  | [| _; "exec" |] -> Execval.exec_cmd ()
  | [| _; "load" |] -> load_cmd ()
  | [| _; "doclayout" |] -> doclayout_cmd ()
  | [| _; "total" |] -> total_cmd ()
  | [| _; "hex" |] -> bytes_cmd hexdigest ()
  | [| _; "sha1" |] -> bytes_cmd sha1 ()
  | [| _; "decode" |] -> decode_cmd ()
  | [| _; "layout" |] -> layout_cmd ()
  | _ -> prerr_endline "usage: driver <layout|...>"; exit 2
