(* Trace validator: replays the canonicalised log of one real run of start() against the
   extracted model (prelude program, index/ranking/pruning, work list, per-piece programs, file
   system) and reports the first thing the model does not allow. *)
open Model
open Conv

exception Bad of string

let bad fmt = Printf.ksprintf (fun s -> raise (Bad s)) fmt

let path_of_string (s : string) : path =
  if s = "-" then [] else List.map bytes_of_hex (String.split_on_char '/' s)

let string_of_path (p : path) : string =
  if p = [] then "-" else String.concat "/" (List.map hex_of_bytes p)

let show_path (p : path) : string =
  "/" ^ String.concat "/" (List.map (fun c -> String.escaped (String.init (List.length c) (fun i -> Char.chr (int_of_n (List.nth c i))))) p)

type case = {
  mutable id : string;
  mutable torrents : n list list;
  mutable scans : upath list;
  mutable export : upath;
  mutable resize : bool;
  mutable fs0 : fs;
  mutable pre : (int * event) list;
  mutable nodes : (n * (path * fileid) list) list;
  mutable searches : (int * path list option) list;
  mutable work : (int * string * (int * string * string) list) list;
  mutable pev : (string * (int * event)) list;       (* piece key, (seq, event) *)
  mutable pend : (string * string) list;
  mutable final : (path * string option) list;       (* None = dir, Some hex = file *)
  mutable result : string;
  mutable dev : n;
  mutable prog : (int * int * int * int) list;       (* the progress lines printed: success, failed, faulted, total (reversed) *)
  mutable links : path list;                         (* names that are symbolic links to a regular file: opened by path like any name, never listed by a directory walk *)
}

let new_case () = { id = ""; torrents = []; scans = []; export = URel; resize = false;
                    fs0 = { fs_nodes = []; fs_data = [] }; pre = []; nodes = []; searches = []; work = []; pev = []; pend = [];
                    final = []; result = ""; dev = N0; links = []; prog = [] }

let probe_of_string s =
  match String.split_on_char ':' s with
  | ["nf"] -> PNotFound | ["err"] -> PError | ["dir"] -> PDir
  | ["file"; l; d; i] -> PFile (n_of_string l, (n_of_string d, n_of_string i))
  | _ -> bad "unparsable probe result %s" s

let parse_event (w : string list) : event =
  match w with
  | ["probe"; p; wr; res] -> EProbe (path_of_string p, wr = "1", probe_of_string res)
  | ["read"; p; off; len; data] -> ERead (path_of_string p, n_of_string off, n_of_string len, (if data = "fail" then None else Some (bytes_of_hex data)))
  | ["mut"; "mkdir"; p; ok] -> EMut (MkdirAll (path_of_string p), ok = "1")
  | ["mut"; "mkdirp"; p; made] -> EMkPartial (path_of_string p, path_of_string made)
  | ["mut"; "openw"; p; c; tr; ok] -> EMut (OpenW (path_of_string p, c = "1", tr = "1"), ok = "1")
  | ["mut"; "setlen"; p; n; ok] -> EMut (SetLen (path_of_string p, n_of_string n), ok = "1")
  | ["mut"; "write"; p; off; data; ok] -> EMut (WriteAt (path_of_string p, n_of_string off, bytes_of_hex data), ok = "1")
  | _ -> bad "unparsable event: %s" (String.concat " " w)

let words line = List.filter (fun s -> s <> "") (String.split_on_char ' ' (String.trim line))

let outcome_string = function Success -> "success" | Failed -> "failed" | Fault -> "fault" | PanicO -> "panic"

let show_event = function
  | EProbe (p, _, _) -> "probe " ^ show_path p
  | ERead (p, off, len, r) -> Printf.sprintf "read %s @%s+%s%s" (show_path p) (string_of_n off) (string_of_n len) (match r with None -> " (failed)" | Some _ -> "")
  | EMut (MkdirAll p, ok) -> Printf.sprintf "mkdir_all %s ok=%b" (show_path p) ok
  | EMkPartial (p, made) -> Printf.sprintf "mkdir_all %s failed after creating up to %s" (show_path p) (show_path made)
  | EMut (OpenW (p, c, t), ok) -> Printf.sprintf "open-write %s create=%b truncate=%b ok=%b" (show_path p) c t ok
  | EMut (SetLen (p, n), ok) -> Printf.sprintf "set_len %s %s ok=%b" (show_path p) (string_of_n n) ok
  | EMut (WriteAt (p, off, d), ok) -> Printf.sprintf "write %s @%s %s ok=%b" (show_path p) (string_of_n off) (hex_of_bytes d) ok

(* what the program wants next, for messages *)
let rec next_of (pg : prog) (evs : event list) : string =
  match pg, evs with
  | Ret o, _ -> "return " ^ outcome_string o
  | (Lock (_, k) | Unlock (_, k)), _ -> next_of k evs
  | Probe (p, _, k), EProbe (p', w', r) :: rest when path_eqb p p' -> next_of (k r) rest
  | Probe (p, _, _), _ -> "probe " ^ show_path p
  | Read (p, off, len, k), ERead (p', off', len', r) :: rest when read_matches p off len p' off' r -> next_of (k r) rest
  | Read (p, off, len, _), _ -> Printf.sprintf "read %s @%s+%s" (show_path p) (string_of_n off) (string_of_n len)
  | Mut (o, k), EMut (o', ok) :: rest when (if ok then op_eqb o o' else op_same_target o o') -> next_of (k ok) rest
  | Mut (MkdirAll p, k), EMkPartial (p', _) :: rest when path_eqb p p' -> next_of (k false) rest
  | Mut (o, _), _ -> show_event (EMut (o, true))

let sort_uniq_nodes (l : (path * fileid) list) = List.sort_uniq compare (List.map (fun (p, (d, i)) -> (string_of_path p, string_of_n d, string_of_n i)) l)

let rec dedup_keys seen = function
  | [] -> []
  | (p, x) :: r -> let k = string_of_path p in if List.mem k seen then dedup_keys seen r else (p, x) :: dedup_keys (k :: seen) r

let starts_with (pre : path) (p : path) =
  let rec go a b = match a, b with [], _ -> true | x :: a', y :: b' -> x = y && go a' b' | _ -> false in go pre p

let validate (c : case) : string =
  try
    (* 1. torrents *)
    let loaded = List.filter_map (fun x -> match load sha1 x with Ok t -> Some t | _ -> None) (List.rev c.torrents) in
    let ts = distinct_torrents loaded in
    let export_path = match c.export with UAbs p -> p | URel -> [] in
    let es = metadata_table export_path ts O in
    let scans = List.rev c.scans in
    if loaded = [] then begin
      if c.pre <> [] || c.pev <> [] then bad "no loadable torrent, yet the run touched the file system";
      if c.result <> "ok" then bad "no loadable torrent: expected Ok, got %s" c.result;
      "ok (no torrents)"
    end else begin
    (* 2. prelude *)
    let registered = ref [] in
    let reached_end = ref false in
    let prel = prelude_prog scans c.export c.resize es (fun acc -> registered := acc; reached_end := true; Ret Success) in
    let pre_events = List.map snd (List.sort compare (List.rev c.pre)) in
    let fs = ref c.fs0 in
    let apply_events evs =
      List.iter (fun (_, e) -> match e with
        | EMut (o, true) -> let (f', ok) = apply_op !fs o in
            if not ok then bad "the model file system refuses an operation that succeeded: %s" (show_event e);
            fs := f'
        | EMut (o, false) -> ()
        | EMkPartial (p, made) -> let (f', ok) = apply_op !fs (MkdirAll made) in if ok then fs := f'
        | ERead (p, off, _, Some d) ->
            (match fs_file !fs p with
             | None -> bad "read of %s succeeded but the model file system has no such file" (show_path p)
             | Some content ->
               let off = int_of_n off in
               let want = List.filteri (fun i _ -> i >= off && i < off + List.length d) content in
               if want <> d then bad "read of %s @%d returned %s, the model file system holds %s there" (show_path p) off (hex_of_bytes d) (hex_of_bytes want))
        | _ -> ()) evs in
    (match walk prel pre_events O with
     | WDone Success -> if c.result = "err" then bad "prelude completes in the model but the run returned Err"
     | WDone Fault -> if c.result <> "err" then bad "the model's prelude fails (bad path / over-long export file) but the run returned %s" c.result
     | WDone o -> bad "prelude ended with %s" (outcome_string o)
     | WCut -> if c.result <> "crash" then bad "prelude events end early; the model would continue with: %s" (next_of prel pre_events)
     | WExtra n -> bad "prelude: %d events, the model's prelude ends after %d: extra %s" (List.length pre_events) (int_of_nat n) (show_event (List.nth pre_events (int_of_nat n)))
     | WMismatch n -> bad "prelude event %d is %s; the model does: %s" (int_of_nat n) (show_event (List.nth pre_events (int_of_nat n))) (next_of prel pre_events));
    apply_events (List.sort compare (List.rev c.pre));
    if not !reached_end then begin
      if c.pev <> [] then bad "the run returned before the work started, yet pieces were evaluated";
      "ok (prelude returned " ^ c.result ^ ")"
    end else begin
    (* 3. index: registered set, then ranking / pruning with the observed iteration order *)
    let lens = unique_lengths es in
    let abs_scans = List.filter_map (function UAbs sp -> Some sp | URel -> None) scans in
    let files_under = List.filter_map (fun (p, nd) -> match nd with
        | NFile i when under_of abs_scans p && not (List.mem p c.links) ->
            Some { l_path = p; l_id = (c.dev, i); l_len = n_of_int (List.length (fs_content !fs i)) }
        | _ -> None) (dedup_keys [] (!fs).fs_nodes) in
    let scan_regs = List.filter_map (scan_registers lens) files_under in
    let expected = !registered @ scan_regs in
    (* the index as the model's insertion procedure builds it (IndexModel.build_index; IndexBuild.v proves
       it holds exactly the registered set, in any insertion order) *)
    let built = build_index expected in
    List.iter (fun (l, ns) ->
        let exp = sort_uniq_nodes (List.filter_map (fun (n, x) -> if n = l then Some x else None) expected) in
        if List.length ns <> List.length exp || sort_uniq_nodes ns <> exp then
          bad "index for length %s: the model's insertion procedure and the registered set differ" (string_of_n l)) built;
    List.iter (fun l ->
        let exp = sort_uniq_nodes (match List.assoc_opt l built with Some x -> x | None -> []) in
        let obs = sort_uniq_nodes (match List.assoc_opt l c.nodes with Some x -> x | None -> []) in
        if exp <> obs then
          bad "index for length %s: registered {%s}, the model registers {%s}" (string_of_n l)
            (String.concat ", " (List.map (fun (p, _, i) -> show_path (path_of_string p) ^ "#" ^ i) obs))
            (String.concat ", " (List.map (fun (p, _, i) -> show_path (path_of_string p) ^ "#" ^ i) exp)))
      (List.sort_uniq compare (lens @ List.map fst c.nodes));
    let es' = match populate c.nodes es with Ok x -> x | _ -> bad "the model's candidate ranking panics" in
    List.iter (fun e ->
        let id = int_of_nat e.e_id in
        let obs = try List.assoc id c.searches with Not_found -> bad "no observed entry %d" id in
        if obs <> e.e_searches then
          bad "candidate list of entry %d (%s): observed [%s], the model computes [%s]" id (show_path e.e_target)
            (match obs with None -> "none" | Some l -> String.concat ", " (List.map show_path l))
            (match e.e_searches with None -> "none" | Some l -> String.concat ", " (List.map show_path l))) es';
    if List.length es' <> List.length c.searches then bad "%d metadata entries observed, the model has %d" (List.length c.searches) (List.length es');
    (* 4. work list *)
    let work = match work_of es' ts with Ok w -> w | _ -> bad "the model's work-list construction panics" in
    let obs_work = List.sort compare c.work in
    if List.length work <> List.length obs_work then bad "work list has %d pieces, the model has %d" (List.length obs_work) (List.length work);
    List.iter2 (fun (i, h, segs) (w : wpiece) ->
        let msegs = List.map (fun s -> (int_of_nat s.ps_entry.e_id, string_of_n s.ps_off, string_of_n s.ps_len)) w.w_segs in
        if msegs <> segs || hex_of_bytes w.w_hash <> h then
          bad "work piece %d: observed segments [%s] hash %s, the model has [%s] hash %s" i
            (String.concat "," (List.map (fun (a, b, c) -> Printf.sprintf "%d:%s:%s" a b c) segs)) h
            (String.concat "," (List.map (fun (a, b, c) -> Printf.sprintf "%d:%s:%s" a b c) msegs)) (hex_of_bytes w.w_hash)) obs_work work;
    let crashed = c.result = "crash" in
    (* 5a. the scanning phase as ONE path of the transition system of SystemModel.v: the pool holds
       the programs of all pieces; the events of all pieces, in global log order, are replayed with
       the extracted [sys_event] (every accepted event is an [sstep], SystemProofs.sys_event_sound) *)
    let key_of (w : wpiece) = match w.w_segs with s :: _ -> Printf.sprintf "%d:%s" (int_of_nat s.ps_entry.e_id) (string_of_n s.ps_off) | [] -> "?" in
    let wkeys = List.map key_of work in
    let index_of k = let rec go i = function [] -> -1 | x :: r -> if x = k then i else go (i + 1) r in go 0 wkeys in
    let sysr = ref { s_fs = !fs; s_pool = List.map (solve_prog sha1) work } in
    let all_ev = List.sort compare (List.map (fun (k, (seq, e)) -> (seq, k, e)) c.pev) in
    let nev = List.length all_ev in
    let fuel = nat_of_int 8 in
    List.iteri (fun j (seq, k, e) ->
        let i = index_of k in
        if i >= 0 then begin
          let s1 = sys_skip fuel !sysr (nat_of_int i) in
          (* in a killed run the last event of a piece may be a write cut short *)
          let last_of_piece = not (List.exists (fun (seq', k', _) -> k' = k && seq' > seq) all_ev) in
          match sys_event s1 (nat_of_int i) e (crashed && last_of_piece) with
          | Some s2 -> sysr := s2
          | None -> bad "system replay: event #%d (%s) of piece %s is not a step of the transition system from the state reached (program/event mismatch, operation refused by the model file system, or a read that differs from the shared file system)" seq (show_event e) k
        end) all_ev;
    if not crashed then
      List.iteri (fun i (w : wpiece) ->
          sysr := sys_skip fuel !sysr (nat_of_int i);
          match List.nth (!sysr).s_pool i, List.filter_map (fun (k, o) -> if k = key_of w then Some o else None) c.pend with
          | Ret o, [obs] -> if outcome_string o <> obs then bad "system replay: piece %s ends with %s, observed %s" (key_of w) (outcome_string o) obs
          | Ret _, _ -> ()
          | _, _ -> bad "system replay: the program of piece %s has not returned when the events end" (key_of w)) work;
    (* 5. file-system effects in global order, read consistency *)
    apply_events (List.sort compare (List.map snd c.pev));
    if not crashed && (!sysr).s_fs <> !fs then bad "system replay: final file system differs from the sequential application of the logged operations";
    (* 6. per piece: the observed events are a path of the piece's program *)
    let summary = ref [] in
    List.iter (fun (w : wpiece) ->
        let key = match w.w_segs with s :: _ -> Printf.sprintf "%d:%s" (int_of_nat s.ps_entry.e_id) (string_of_n s.ps_off) | [] -> "?" in
        let evs = List.map snd (List.sort compare (List.filter_map (fun (k, e) -> if k = key then Some e else None) c.pev)) in
        let ends = List.filter_map (fun (k, o) -> if k = key then Some o else None) c.pend in
        let pg = solve_prog sha1 w in
        (match walk pg evs O, ends with
         | WDone o, [obs] -> if outcome_string o <> obs then bad "piece %s: outcome %s, the model's program returns %s" key obs (outcome_string o);
             summary := obs :: !summary
         | WDone _, [] -> if not crashed then bad "piece %s was never evaluated" key
         | WDone _, _ -> bad "piece %s evaluated %d times" key (List.length ends)
         | WCut, [] -> if not crashed then (if evs = [] then bad "piece %s was never evaluated" key else bad "piece %s: events end early; the model would continue with: %s" key (next_of pg evs))
         | WCut, _ -> bad "piece %s reported an outcome but its events stop before the program returns; next: %s" key (next_of pg evs)
         | WExtra n, _ -> bad "piece %s: after the model's program returned there is an extra event: %s" key (show_event (List.nth evs (int_of_nat n)))
         | WMismatch n, _ -> bad "piece %s: event %d is %s; the model's program does: %s" key (int_of_nat n) (show_event (List.nth evs (int_of_nat n))) (next_of pg evs))) work;
    let keys = List.map (fun (w : wpiece) -> match w.w_segs with s :: _ -> Printf.sprintf "%d:%s" (int_of_nat s.ps_entry.e_id) (string_of_n s.ps_off) | [] -> "?") work in
    List.iter (fun (k, _) -> if not (List.mem k keys) then bad "events for a piece %s that is not in the model's work list" k) c.pev;
    (* 7. final tree *)
    let model_nodes = dedup_keys [] (!fs).fs_nodes in
    List.iter (fun (p, what) ->
        match fs_lookup !fs p, what with
        | Some NDir, None -> ()
        | Some (NFile i), Some h -> if hex_of_bytes (fs_content !fs i) <> h then bad "final content of %s is %s, the model file system holds %s" (show_path p) h (hex_of_bytes (fs_content !fs i))
        | None, _ -> bad "%s exists after the run but not in the model file system" (show_path p)
        | _ -> bad "%s: kind differs between the final tree and the model file system" (show_path p)) c.final;
    List.iter (fun (p, _) -> if not (List.exists (fun (q, _) -> q = p) c.final) && c.final <> [] && List.exists (fun (q, _) -> starts_with q p && q <> p) c.final then
                  bad "%s exists in the model file system but not after the run" (show_path p)) model_nodes;
    (* 8. the progress report: every printed line is [count] (RunModel) of the line before it for one outcome, starting
       from zero counters with the model's number of pieces as the total; the outcomes so counted are the pieces' outcomes *)
    if not crashed then begin
      let lines = List.rev c.prog in
      let c0 = { c_success = O; c_failed = O; c_fault = O; c_total = nat_of_int (List.length work) } in
      let same a (s, f, ft, t) = int_of_nat a.c_success = s && int_of_nat a.c_failed = f && int_of_nat a.c_fault = ft && int_of_nat a.c_total = t in
      let show (s, f, ft, t) = Printf.sprintf "Success: %d, Failed: %d, Faulted: %d, Total: %d" s f ft t in
      let rec go cur acc = function
        | [] -> List.rev acc
        | l :: r ->
          (match List.find_opt (fun o -> same (count cur o) l) [Success; Failed; Fault] with
           | Some o -> go (count cur o) (o :: acc) r
           | None -> bad "progress line %d (%s) is not the previous counters plus one piece (total %d pieces in the model)" (List.length acc + 1) (show l) (List.length work)) in
      let os = go c0 [] lines in
      if not (List.for_all2 same (progress c0 os) lines) then bad "progress lines are not [progress] of the counted outcomes";
      let counted = List.sort compare (List.map outcome_string os) and ends = List.sort compare (List.map snd c.pend) in
      if counted <> ends then
        bad "the progress lines count [%s], the pieces ended with [%s]" (String.concat "," counted) (String.concat "," ends)
    end;
    let count s = List.length (List.filter (fun x -> x = s) !summary) in
    Printf.sprintf "ok pieces=%d success=%d failed=%d fault=%d" (List.length work) (count "success") (count "failed") (count "fault")
    end end
  with Bad s -> "bad " ^ s

let validate_cmd () =
  let c = ref (new_case ()) in
  (try while true do
    let line = input_line stdin in
    try match words line with
    | ["case"; id] -> c := new_case (); !c.id <- id
    | ["torrent"; h] -> !c.torrents <- bytes_of_hex h :: !c.torrents
    | ["scan"; "rel"] -> !c.scans <- URel :: !c.scans
    | ["scan"; "abs"; p] -> !c.scans <- UAbs (path_of_string p) :: !c.scans
    | ["export"; "rel"] -> !c.export <- URel
    | ["export"; "abs"; p] -> !c.export <- UAbs (path_of_string p)
    | ["resize"; r] -> !c.resize <- (r = "1")
    | ["fsdir"; p] -> !c.fs0 <- set_node !c.fs0 (path_of_string p) NDir
    | ["fsfile"; p; dev; ino; data] ->
        !c.dev <- n_of_string dev;
        !c.fs0 <- set_data (set_node !c.fs0 (path_of_string p) (NFile (n_of_string ino))) (n_of_string ino) (bytes_of_hex data)
    | ["fslink"; p] -> !c.links <- path_of_string p :: !c.links
    | ["progress"; a; b; d; t] -> !c.prog <- (int_of_string a, int_of_string b, int_of_string d, int_of_string t) :: !c.prog
    | "pre" :: seq :: ev -> !c.pre <- (int_of_string seq, parse_event ev) :: !c.pre
    | "nodes" :: l :: rest ->
        let ns = List.map (fun s -> match String.split_on_char '=' s with
            | [p; di] -> (match String.split_on_char ':' di with [d; i] -> (path_of_string p, (n_of_string d, n_of_string i)) | _ -> bad "nodes")
            | _ -> raise (Bad "nodes")) rest in
        !c.nodes <- (n_of_string l, ns) :: !c.nodes
    | ["searches"; id; "none"] -> !c.searches <- (int_of_string id, None) :: !c.searches
    | "searches" :: id :: "some" :: ps -> !c.searches <- (int_of_string id, Some (List.map path_of_string ps)) :: !c.searches
    | "work" :: i :: h :: segs ->
        !c.work <- (int_of_string i, h, List.map (fun s -> match String.split_on_char ':' s with [a; b; d] -> (int_of_string a, b, d) | _ -> raise (Bad "work")) segs) :: !c.work
    | "pev" :: key :: seq :: ev -> !c.pev <- (key, (int_of_string seq, parse_event ev)) :: !c.pev
    | ["pend"; key; o] -> !c.pend <- (key, o) :: !c.pend
    | ["final"; "dir"; p] -> !c.final <- (path_of_string p, None) :: !c.final
    | ["final"; "file"; p; data] -> !c.final <- (path_of_string p, Some data) :: !c.final
    | ["result"; r] -> !c.result <- r
    | ["end"] -> Printf.printf "%s %s\n%!" !c.id (validate !c)
    | [] -> ()
    | _ -> Printf.printf "%s bad unparsable line: %s\n" !c.id line
    with Bad s -> Printf.printf "%s bad parse: %s\n" !c.id s
  done with End_of_file -> ())
