(** Extraction of the executable model for the correspondence check.
    Only the directives of ExtrOcamlBasic are used (bool, option, unit, prod, list, sumbool,
    sumor); N, Z, positive, nat stay the extracted Coq datatypes; no Extract Constant. *)
From TB Require Import Base LayoutModel Decimal BencodeModel Utf8 Sha1 TorrentModel.
From Coq Require Import Extraction ExtrOcamlBasic.
Extraction Language OCaml.
Extraction "extracted/model.ml" layout layout_single layout_multi hash_count_ok
  decode load sha1 hexdigest utf8_valid.
