(** Extraction of the executable model for the correspondence check.
    Only the directives of ExtrOcamlBasic are used (bool, option, unit, prod, list, sumbool,
    sumor); N, Z, positive, nat stay the extracted Coq datatypes; no Extract Constant. *)
From TB Require Import Base LayoutModel Decimal BencodeModel Utf8 Sha1 TorrentModel PathModel FsModel SolverModel FinderModel RunModel SystemModel ExecModel BalanceModel ExecRun IndexModel.
From Coq Require Import Extraction ExtrOcamlBasic.
Extraction Language OCaml.
Extraction "extracted/model.ml" layout layout_single layout_multi hash_count_ok
  decode load sha1 hexdigest utf8_valid
  distinct_torrents metadata_table prelude_prog populate work_of solve_prog walk apply_op
  fs_lookup fs_content fs_file set_node set_data unique_lengths scan_registers under_of path_eqb fileid_eqb
  rank sort_candidates prune searches_for write_prog resize_prog sys_do sys_event sys_skip sys_run count progress xrun xstep xinit xdone balanced_check build_index.
