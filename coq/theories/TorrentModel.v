(** Model of src/torrent/torrent.rs (Torrent::from_bytes) and src/torrent/info.rs on top of the
    decoder model.  Refusals are [Err]; the sites that would panic in Rust (slice of the info
    span, u128 sum) are [Panic]-capable and shown never to fire.  Key literals, the hash chunk
    size and the hex format come from Generated.v (re-extracted from the source on every run). *)
From TB Require Import Base Decimal BencodeModel Utf8 Generated LayoutModel.
Local Open Scope N_scope.

Fixpoint beq (a b : list N) : bool :=
  match a, b with [], [] => true | x :: a', y :: b' => (x =? y) && beq a' b' | _, _ => false end.

(** [Torrent::is_plain_path_component]: non-empty, not "." or "..", no '/'. *)
Definition is_plain (s : list N) : bool :=
  negb (beq s []) && negb (beq s [46]) && negb (beq s [46; 46]) && negb (existsb (fun b => b =? 47) s).

(** [BencodeDictionary::find_value]: linear scan, first key equal to the target. *)
Fixpoint find_value (d : list (tok * tok)) (key : list N) : option tok :=
  match d with
  | [] => None
  | (k, v) :: r => if beq key (match k with TStr kb _ _ => kb | _ => [] end) then Some v else find_value r key
  end.
(** The typed look-ups: a key bound to a value of another type counts as an error, like a missing key. *)
Definition find_str d key := match find_value d key with Some (TStr v s e) => Some v | _ => None end.
Definition find_int d key := match find_value d key with Some (TInt z s e) => Some z | _ => None end.
Definition find_list d key := match find_value d key with Some (TList l s e) => Some l | _ => None end.
Definition find_dict d key := match find_value d key with Some (TDict l s e) => Some (l, s, e) | _ => None end.

(** [u64::try_from(i128)] *)
Definition to_u64 (z : Z) : option N :=
  if ((0 <=? z) && (z <=? Z.of_N u64max))%Z then Some (Z.to_N z) else None.

Record tfile := { f_length : N; f_path : list (list N) }.
Record torrent := { t_name : list N; t_length : option N; t_files : option (list tfile);
                    t_piece_length : N; t_pieces : list (list N); t_info_hash : list N }.

(** [pieces.chunks(20)] *)
Fixpoint chunks (fuel : nat) (n : nat) (b : list N) : list (list N) :=
  match fuel with O => [] | S f => match b with [] => [] | _ => firstn n b :: chunks f n (skipn n b) end end.

Fixpoint eval_paths (l : list tok) : option (list (list N)) :=
  match l with
  | [] => Some []
  | TStr v _ _ :: r =>
      if utf8_valid v && is_plain v
      then match eval_paths r with Some ps => Some (v :: ps) | None => None end else None
  | _ => None
  end.

Definition first_some {A} (a b : option A) : option A := match a with Some x => Some x | None => b end.

Definition eval_file (d : list (tok * tok)) : option tfile :=
  match find_int d key_file_length with None => None | Some z =>
  match to_u64 z with None => None | Some flen =>
  match first_some (find_list d key_path_utf8) (find_list d key_path) with None => None | Some pl =>
  match eval_paths pl with None => None | Some ps =>
  match ps with [] => None | _ => Some {| f_length := flen; f_path := ps |} end end end end end.

Fixpoint eval_files (l : list tok) : option (list tfile) :=
  match l with
  | [] => Some []
  | TDict d _ _ :: r =>
      match eval_file d with
      | Some f => match eval_files r with Some fs => Some (f :: fs) | None => None end
      | None => None end
  | _ => None
  end.

Definition u128max : N := 340282366920938463463374607431768211455.
(** [files.iter().map(|f| f.length as u128).sum()]: panics if it leaves the u128 range. *)
Fixpoint sum128 (l : list N) (acc : N) : res N :=
  match l with [] => Ok acc | x :: r => if acc + x <=? u128max then sum128 r (acc + x) else Panic end.

(** What is known of the info dictionary besides the hash. *)
Definition eval_info (d : list (tok * tok)) (info_hash : list N) : res torrent :=
  match first_some (find_str d key_name_utf8) (find_str d key_name) with None => Err | Some name =>
  if negb (utf8_valid name) then Err else
  if negb (is_plain name) then Err else
  match find_str d key_pieces with None => Err | Some pcs =>
  if negb (len pcs mod hash_len =? 0) then Err else
  let hashes := chunks (length pcs) (N.to_nat hash_len) pcs in
  match find_int d key_piece_length with None => Err | Some plz =>
  match to_u64 plz with None => Err | Some pl =>
  match find_int d key_length, find_list d key_files with
  | Some _, Some _ => Err
  | None, None => Err
  | Some z, None =>
      match to_u64 z with None => Err | Some flen =>
      if hash_count_ok flen pl (len hashes) then
        Ok {| t_name := name; t_length := Some flen; t_files := None; t_piece_length := pl;
              t_pieces := hashes; t_info_hash := info_hash |}
      else Err end
  | None, Some l =>
      match eval_files l with None => Err | Some fs =>
      match fs with [] => Err | _ =>
      do tot <- sum128 (map f_length fs) 0;
      if hash_count_ok tot pl (len hashes) then
        Ok {| t_name := name; t_length := None; t_files := Some fs; t_piece_length := pl;
              t_pieces := hashes; t_info_hash := info_hash |}
      else Err end end
  end end end end end.

(** [&bytes[start..continuation]]: panics unless start <= continuation <= len. *)
Definition slice_chk (x : list N) (s e : N) : res (list N) :=
  if (s <=? e) && (e <=? len x)
  then Ok (firstn (N.to_nat (e - s)) (skipn (N.to_nat s) x)) else Panic.

Section Load.
  (** SHA-1, abstract in the theorems; the executable runs use Sha1.sha1. *)
  Variable H : list N -> list N.

  Definition load (x : list N) : res torrent :=
    match decode x with
    | Ok (TDict root _ _) =>
        match find_dict root key_info with
        | Some (d, s, e) => do span <- slice_chk x s e; eval_info d (H span)
        | None => Err end
    | Ok _ => Err
    | Err => Err | Panic => Panic | OutOfFuel => OutOfFuel
    end.
End Load.

(** [get_sha1_hexdigest]: two lowercase hexadecimal digits per byte ("{:02x?}"). *)
Definition hex_digit (n : N) : N := if n <? 10 then 48 + n else 87 + n.
Definition hex_byte (b : N) : list N := [hex_digit (b / 16); hex_digit (b mod 16)].
Definition hexdigest (bs : list N) : list N := flat_map hex_byte bs.
