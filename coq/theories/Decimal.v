(** Decimal numerals: Horner evaluation (what the digit loops of parser.rs compute) and
    printing, with the round-trip lemmas used by the bencode theorems. *)
From TB Require Import Base.
From Coq Require Import ZifyN ZifyNat ZifyBool.
Local Open Scope N_scope.
Arguments N.pow : simpl never.
Ltac Zify.zify_post_hook ::= Z.div_mod_to_equations.

(* ASCII digits *)
Definition is_digit (b : N) : bool := (48 <=? b) && (b <=? 57).
Definition dval (b : N) : N := b - 48.

(* Horner evaluation, most significant digit first *)
Fixpoint horner (acc : N) (ds : list N) : N :=
  match ds with [] => acc | d :: r => horner (acc * 10 + dval d) r end.

(* printing: least significant digit is produced first and consed in front *)
Fixpoint digs (fuel : nat) (n : N) (acc : list N) : list N :=
  match fuel with
  | O => acc
  | S f => let acc' := (48 + n mod 10) :: acc in
           if n / 10 =? 0 then acc' else digs f (n / 10) acc'
  end.
Definition dec_of_N (n : N) : list N := digs (S (N.to_nat (N.log2 n))) n [].


(* canonical decimal numeral: non-empty, digits only, no leading zero unless it is "0" *)
Definition canon (ds : list N) : Prop :=
  ds <> [] /\ Forall (fun d => is_digit d = true) ds /\ (forall r, ds = 48 :: r -> r = []).

Lemma horner_app a x y : horner a (x ++ y) = horner (horner a x) y.
Proof. revert a; induction x; cbn; auto. Qed.

Lemma horner_shift a ds : horner a ds = a * 10 ^ N.of_nat (length ds) + horner 0 ds.
Proof.
  revert a; induction ds as [|d r IH]; intros a; cbn [horner length].
  - cbn. lia.
  - rewrite IH. rewrite (IH (0 * 10 + dval d)). rewrite Nat2N.inj_succ, N.pow_succ_r'. lia.
Qed.

(* value of the printed numeral *)
Lemma digs_val : forall fuel n acc, n < 2 ^ N.of_nat fuel ->
  horner 0 (digs fuel n acc) = n * 10 ^ N.of_nat (length acc) + horner 0 acc.
Proof.
  induction fuel as [|f IH]; intros n acc Hn.
  - cbn in Hn. assert (n = 0) by lia. subst. cbn. lia.
  - cbn [digs]. destruct (N.eqb_spec (n / 10) 0) as [Hz|Hz].
    + cbn [horner]. rewrite (horner_shift (0 * 10 + dval _)). unfold dval.
      assert (n mod 10 = n) by lia. rewrite H. replace (0 * 10 + (48 + n - 48)) with n by lia. reflexivity.
    + rewrite IH.
      * cbn [length horner]. rewrite Nat2N.inj_succ, N.pow_succ_r'.
        rewrite (horner_shift (0 * 10 + dval _)). unfold dval.
        replace (0 * 10 + (48 + n mod 10 - 48)) with (n mod 10) by lia.
        set (P := 10 ^ N.of_nat (length acc)).
        assert (n = 10 * (n / 10) + n mod 10) by lia. nia.
      * rewrite Nat2N.inj_succ, N.pow_succ_r' in Hn. lia.
Qed.

Lemma log2_fuel n : n < 2 ^ N.of_nat (S (N.to_nat (N.log2 n))).
Proof.
  destruct (N.eq_dec n 0) as [->|Hn]; [cbn; lia|].
  rewrite Nat2N.inj_succ, N2Nat.id. apply N.log2_spec. lia.
Qed.

Theorem dec_of_N_val n : horner 0 (dec_of_N n) = n.
Proof. unfold dec_of_N. rewrite digs_val by apply log2_fuel. cbn. lia. Qed.

Definition all_digits (ds : list N) : Prop := Forall (fun d => is_digit d = true) ds.

Lemma is_digit_range d : is_digit d = true <-> 48 <= d <= 57.
Proof. unfold is_digit. rewrite andb_true_iff, !N.leb_le. tauto. Qed.

Lemma digs_spec : forall f n acc, n < 2 ^ N.of_nat f -> n <> 0 ->
  exists pre, digs f n acc = pre ++ acc /\ all_digits pre /\ (exists d r, pre = d :: r /\ d <> 48).
Proof.
  induction f as [|f IH]; intros n acc Hn Hz.
  - cbn in Hn. lia.
  - cbn [digs]. destruct (N.eqb_spec (n / 10) 0) as [Hq|Hq].
    + exists [48 + n mod 10]. split; [reflexivity|]. split.
      * constructor; [|constructor]. apply is_digit_range. lia.
      * exists (48 + n mod 10), []. split; [reflexivity|]. lia.
    + destruct (IH (n / 10) ((48 + n mod 10) :: acc)) as (pre & Hd & Hall & (d & r & Hp & Hne)); [|exact Hq|].
      * rewrite Nat2N.inj_succ, N.pow_succ_r' in Hn. lia.
      * exists (pre ++ [48 + n mod 10]). split; [rewrite Hd, <- app_assoc; reflexivity|]. split.
        -- apply Forall_app. split; [exact Hall|]. constructor; [|constructor]. apply is_digit_range. lia.
        -- subst pre. exists d, (r ++ [48 + n mod 10]). split; [reflexivity|exact Hne].
Qed.

Lemma canon_dec_of_N n : canon (dec_of_N n).
Proof.
  destruct (N.eq_dec n 0) as [->|Hn].
  - vm_compute. split; [discriminate|]. split; [repeat constructor|]. intros r H. now inversion H.
  - unfold dec_of_N. destruct (digs_spec _ n [] (log2_fuel n) Hn) as (pre & Hd & Hall & (d & r & Hp & Hne)).
    rewrite Hd, app_nil_r. subst pre. split; [discriminate|]. split; [exact Hall|].
    intros r' H. inversion H. congruence.
Qed.

Lemma horner_lt ds : all_digits ds -> horner 0 ds < 10 ^ N.of_nat (length ds).
Proof.
  induction ds as [|d r IH]; intros H; [cbn; lia|]. inversion H; subst.
  cbn [horner length]. rewrite horner_shift, Nat2N.inj_succ, N.pow_succ_r'.
  specialize (IH H3). apply is_digit_range in H2. unfold dval.
  replace (0 * 10 + (d - 48)) with (d - 48) by lia.
  set (P := 10 ^ N.of_nat (length r)) in *. nia.
Qed.

Lemma horner_cons d r : horner 0 (d :: r) = dval d * 10 ^ N.of_nat (length r) + horner 0 r.
Proof. cbn [horner]. rewrite horner_shift. f_equal; lia. Qed.

Lemma same_len_inj : forall a b, length a = length b -> all_digits a -> all_digits b ->
  horner 0 a = horner 0 b -> a = b.
Proof.
  induction a as [|d r IH]; intros [|e s] Hl Ha Hb Hv; try discriminate; [reflexivity|].
  inversion Ha; inversion Hb; subst. injection Hl as Hl.
  rewrite !horner_cons in Hv. rewrite <- Hl in Hv.
  pose proof (horner_lt r H2). pose proof (horner_lt s H6). rewrite <- Hl in H0.
  apply is_digit_range in H1, H5. unfold dval in Hv.
  set (P := 10 ^ N.of_nat (length r)) in *.
  assert (exists A, d = A + 48) as [A ->] by (exists (d - 48); lia).
  assert (exists B, e = B + 48) as [B ->] by (exists (e - 48); lia).
  replace (A + 48 - 48) with A in Hv by lia. replace (B + 48 - 48) with B in Hv by lia.
  set (x := horner 0 r) in *. set (y := horner 0 s) in *.
  assert (A = B /\ x = y) as [Hd Hr].
  { destruct (N.lt_trichotomy A B) as [L|[E|G]].
    - assert ((A + 1) * P <= B * P) by (apply N.mul_le_mono_r; lia). lia.
    - subst. split; [reflexivity|lia].
    - assert ((B + 1) * P <= A * P) by (apply N.mul_le_mono_r; lia). lia. }
  subst. f_equal. apply IH; auto.
Qed.

Lemma canon_lower d r : all_digits (d :: r) -> d <> 48 -> 10 ^ N.of_nat (length r) <= horner 0 (d :: r).
Proof.
  intros H Hne. inversion H; subst. apply is_digit_range in H2. rewrite horner_cons. unfold dval.
  set (P := 10 ^ N.of_nat (length r)). nia.
Qed.

Lemma pow10_mono a b : (a <= b)%nat -> 10 ^ N.of_nat a <= 10 ^ N.of_nat b.
Proof. intros. apply N.pow_le_mono_r; lia. Qed.

Lemma canon_len_le a b : canon a -> canon b -> horner 0 a = horner 0 b -> (length a <= length b)%nat.
Proof.
  intros (Hane & Hda & Hza) (Hbne & Hdb & Hzb) Hv.
  destruct (le_lt_dec (length a) (length b)) as [|Hlt]; [assumption|exfalso].
  (* a is longer: its leading digit is non-zero, so its value is >= 10^(|a|-1) >= 10^|b| > value b *)
  destruct a as [|d r]; [congruence|].
  destruct (N.eq_dec d 48) as [->|Hd].
  - specialize (Hza r eq_refl). subst r. cbn in Hlt. destruct b; [congruence|cbn in Hlt; lia].
  - pose proof (canon_lower d r Hda Hd). pose proof (horner_lt b Hdb).
    cbn [length] in Hlt. pose proof (pow10_mono (length b) (length r) ltac:(lia)). lia.
Qed.

Theorem canon_inj a b : canon a -> canon b -> horner 0 a = horner 0 b -> a = b.
Proof.
  intros Ha Hb Hv. apply same_len_inj; auto; try apply Ha; try apply Hb.
  apply Nat.le_antisymm; apply canon_len_le; auto.
Qed.

Theorem dec_of_N_horner ds : canon ds -> dec_of_N (horner 0 ds) = ds.
Proof. intros H. apply canon_inj; auto using canon_dec_of_N. apply dec_of_N_val. Qed.
