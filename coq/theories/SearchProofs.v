(** Completeness of the per-piece search and the "already verified => nothing written" fact
    (C02, C04, C15), by evaluating a piece program against a read oracle. *)
From TB Require Import Base Decimal BencodeModel TorrentModel TorrentProofs PathModel FsModel SolverModel FinderModel RunModel RunProofs
                       SolverProofs Generated GeneratedObligations.
From Coq Require Import ZifyN ZifyNat ZifyBool.
Local Open Scope N_scope.

(** Evaluation against a read oracle; every mutating operation succeeds (a fault-free run). *)
Fixpoint eval (ans : path -> N -> N -> option (list N)) (pg : prog) : list op * outcome :=
  match pg with
  | Ret o => ([], o)
  | Read p off len k => eval ans (k (ans p off len))
  | Mut o k => let r := eval ans (k true) in (o :: fst r, snd r)
  | Probe _ _ _ => ([], PanicO)
  | Lock _ k | Unlock _ k => eval ans k
  end.

Lemma Forall2_length {A B} (R : A -> B -> Prop) l1 l2 : Forall2 R l1 l2 -> length l1 = length l2.
Proof. induction 1; cbn; congruence. Qed.

Section Search.
Variable H : list N -> list N.
Variable content : entry -> list N.
Variable ans : path -> N -> N -> option (list N).
Notation seg_bytes := (seg_bytes content).
Notation piece_bytes := (piece_bytes content).

(** ** The combination search is exhaustive *)
Definition picks (combo : list (option path * list N)) (c : cache) : Prop := Forall2 (fun x row => In x row) combo c.

Lemma find_combo_complete hash : forall c pre combo, picks combo c ->
  beq (H (concat (map snd (pre ++ combo)))) hash = true -> find_combo H hash c pre <> None.
Proof.
  induction c as [|row rest IH]; intros pre combo Hp Hh; inversion Hp as [|x ? xs ? Hin Hrest]; subst; cbn [find_combo].
  - rewrite app_nil_r in Hh. now rewrite Hh.
  - clear Hp. revert Hin. induction row as [|y ys IHr]; intros Hin; [contradiction|].
    destruct (find_combo H hash rest (pre ++ [y])) eqn:E; [discriminate|].
    destruct Hin as [->|Hin].
    + exfalso. apply (IH (pre ++ [x]) xs Hrest); [|exact E]. rewrite <- app_assoc. exact Hh.
    + apply IHr. exact Hin.
Qed.

(** The all-first combination is tried first. *)
Lemma find_combo_first hash : forall c pre firsts,
  Forall2 (fun x row => exists r, row = x :: r) firsts c ->
  beq (H (concat (map snd (pre ++ firsts)))) hash = true -> find_combo H hash c pre = Some (pre ++ firsts).
Proof.
  induction c as [|row rest IH]; intros pre firsts Hf Hh; inversion Hf as [|x ? xs ? [r ->] Hrest]; subst; cbn [find_combo].
  - rewrite app_nil_r in *. now rewrite Hh.
  - rewrite (IH (pre ++ [x]) xs Hrest); [now rewrite <- app_assoc|]. now rewrite <- app_assoc.
Qed.

(** ** Preloading under the oracle *)
Fixpoint row_of (cands : list path) (off len : N) (acc : list (option path * list N)) : option (list (option path * list N)) :=
  match cands with
  | [] => Some acc
  | c :: cs => match ans c off len with
               | None => None
               | Some v => if existsb (fun e => beq (snd e) v) acc then row_of cs off len acc else row_of cs off len (acc ++ [(Some c, v)])
               end
  end.

Lemma preload_seg_eval : forall cands off len acc k row, row_of cands off len acc = Some row ->
  eval ans (preload_seg cands off len acc k) = eval ans (k row).
Proof.
  induction cands as [|c cs IH]; intros off len acc k row Hr; cbn [row_of preload_seg] in *.
  - now inversion Hr.
  - cbn [eval]. destruct (ans c off len) as [v|]; [|discriminate].
    destruct (existsb (fun e => beq (snd e) v) acc); now apply IH.
Qed.

(** Content de-duplication keeps a representative of every distinct byte string read, and keeps
    what was already there in place (first occurrence wins). *)
Lemma row_of_keeps : forall cands off len acc row, row_of cands off len acc = Some row -> exists more, row = acc ++ more.
Proof.
  induction cands as [|c cs IH]; intros off len acc row Hr; cbn [row_of] in Hr.
  - inversion Hr; subst. exists []. now rewrite app_nil_r.
  - destruct (ans c off len) as [v|]; [|discriminate].
    destruct (existsb (fun e => beq (snd e) v) acc).
    + now apply IH in Hr.
    + apply IH in Hr. destruct Hr as [more ->]. exists ((Some c, v) :: more). now rewrite <- app_assoc.
Qed.

Lemma row_of_represents : forall cands off len acc row c v, row_of cands off len acc = Some row ->
  In c cands -> ans c off len = Some v -> exists src, In (src, v) row.
Proof.
  induction cands as [|c0 cs IH]; intros off len acc row c v Hr Hin Ha; [contradiction|]. cbn [row_of] in Hr.
  destruct (ans c0 off len) as [v0|] eqn:E0; [|discriminate].
  destruct Hin as [->|Hin].
  - rewrite E0 in Ha. inversion Ha; subst v0.
    destruct (existsb (fun e => beq (snd e) v) acc) eqn:Ex.
    + apply existsb_exists in Ex. destruct Ex as ([src b] & Hi & Hb). cbn in Hb. apply beq_eq in Hb. subst b.
      destruct (row_of_keeps _ _ _ _ _ Hr) as [more ->]. exists src. apply in_or_app. now left.
    + destruct (row_of_keeps _ _ _ _ _ Hr) as [more ->]. exists (Some c). apply in_or_app. left. apply in_or_app. right. now left.
  - destruct (existsb (fun e => beq (snd e) v0) acc); eapply IH; eauto.
Qed.

Fixpoint cache_of (segs : list pseg) : option cache :=
  match segs with
  | [] => Some []
  | s :: r =>
      match cache_of r with None => None | Some c =>
      if e_pad (ps_entry s) then Some ([(None, repeat 0 (N.to_nat (ps_len s)))] :: c)
      else if ps_len s =? 0 then Some ([(match e_searches (ps_entry s) with Some (p :: _) => Some p | _ => None end, [])] :: c)
      else match e_searches (ps_entry s) with
           | None => None
           | Some cands => match row_of cands (ps_off s) (ps_len s) [] with Some row => Some (row :: c) | None => None end
           end
      end
  end.

Lemma preload_eval : forall segs k c, cache_of segs = Some c -> eval ans (preload segs k) = eval ans (k c).
Proof.
  induction segs as [|s r IH]; intros k c Hc; cbn [cache_of preload] in *.
  - now inversion Hc.
  - destruct (cache_of r) as [c'|] eqn:Er; [|discriminate].
    destruct (e_pad (ps_entry s)).
    + inversion Hc; subst. now rewrite (IH _ c' eq_refl).
    + destruct (ps_len s =? 0).
      * inversion Hc; subst. now rewrite (IH _ c' eq_refl).
      * destruct (e_searches (ps_entry s)) as [cands|]; [|discriminate].
        destruct (row_of cands (ps_off s) (ps_len s) []) as [row|] eqn:Erow; [|discriminate].
        inversion Hc; subst. rewrite (preload_seg_eval _ _ _ _ _ _ Erow). now rewrite (IH _ c' eq_refl).
Qed.

(** ** The writer under the oracle: what is written, and that it succeeds *)
Definition seg_ops (s : pseg) (src : option path) : list op :=
  if e_pad (ps_entry s) then []
  else if match src with Some sp => path_eqb (e_target (ps_entry s)) sp | None => false end then []
  else [MkdirAll (parent (e_target (ps_entry s))); OpenW (e_target (ps_entry s)) (of_create writer_open) (of_truncate writer_open);
        SetLen (e_target (ps_entry s)) (e_len (ps_entry s)); WriteAt (e_target (ps_entry s)) (ps_off s) (seg_bytes s)].

Lemma write_prog_eval : forall segs srcs pre, length srcs = length segs ->
  Forall (fun s => ps_off s + ps_len s <= N.of_nat (length (content (ps_entry s)))) segs ->
  eval ans (write_prog segs srcs (pre ++ concat (map seg_bytes segs)) (N.of_nat (length pre))) =
  (concat (map (fun ss => seg_ops (fst ss) (snd ss)) (combine segs srcs)), Success).
Proof.
  induction segs as [|s segs IH]; intros srcs pre Hl Hwf; cbn [write_prog]; [reflexivity|].
  destruct srcs as [|src srcs]; [discriminate|]. cbn [combine map concat fst snd].
  inversion Hwf as [|? ? Hs Hwf']; subst.
  pose proof (seg_bytes_len content s Hs) as Hlen.
  assert (Hnext : eval ans (write_prog segs srcs (pre ++ concat (map seg_bytes (s :: segs))) (N.of_nat (length pre) + ps_len s)) =
                  (concat (map (fun ss => seg_ops (fst ss) (snd ss)) (combine segs srcs)), Success)).
  { cbn [map concat]. rewrite app_assoc.
    replace (N.of_nat (length pre) + ps_len s) with (N.of_nat (length (pre ++ seg_bytes s))) by (rewrite app_length; lia).
    apply IH; [cbn in Hl; lia|assumption]. }
  set (tail := concat (map (fun ss => seg_ops (fst ss) (snd ss)) (combine segs srcs))) in *.
  unfold seg_ops. destruct (e_pad (ps_entry s)); [exact Hnext|].
  destruct (match src with Some sp => path_eqb (e_target (ps_entry s)) sp | None => false end); [exact Hnext|].
  cbn [map concat].
  replace (N.of_nat (length pre) + ps_len s) with (N.of_nat (length pre) + N.of_nat (length (seg_bytes s))) by lia.
  rewrite (slice_concat_head H (seg_bytes s) (map seg_bytes segs) pre). cbn [eval negb fst snd app].
  replace (N.of_nat (length pre) + N.of_nat (length (seg_bytes s))) with (N.of_nat (length pre) + ps_len s) by lia.
  cbn [map concat] in Hnext. rewrite Hnext. reflexivity.
Qed.

(** ** Already verified in the export tree => success without a single mutating operation (C04) *)
Definition target_first (s : pseg) : Prop :=
  e_pad (ps_entry s) = false -> exists rest, e_searches (ps_entry s) = Some (e_target (ps_entry s) :: rest).
Definition target_holds (s : pseg) : Prop :=
  e_pad (ps_entry s) = false -> ps_len s <> 0 -> ans (e_target (ps_entry s)) (ps_off s) (ps_len s) = Some (seg_bytes s).
Definition pad_zero (s : pseg) : Prop := e_pad (ps_entry s) = true -> seg_bytes s = repeat 0 (N.to_nat (ps_len s)).

Lemma no_ops_when_sourced_from_target : forall segs (firsts : list (option path * list N)),
  Forall2 (fun s x => e_pad (ps_entry s) = false -> fst x = Some (e_target (ps_entry s))) segs firsts ->
  concat (map (fun ss => seg_ops (fst ss) (snd ss)) (combine segs (map fst firsts))) = [].
Proof.
  induction 1 as [|s x segs firsts Hx _ IH]; [reflexivity|]. cbn [map combine concat fst snd].
  rewrite IH, app_nil_r. unfold seg_ops. destruct (e_pad (ps_entry s)) eqn:Hp; [reflexivity|].
  rewrite (Hx eq_refl). assert (Hpe : path_eqb (e_target (ps_entry s)) (e_target (ps_entry s)) = true) by now apply path_eqb_eq.
  now rewrite Hpe.
Qed.

Lemma cache_of_target_first : forall segs c, cache_of segs = Some c ->
  Forall target_first segs -> Forall target_holds segs -> Forall pad_zero segs ->
  exists firsts, Forall2 (fun x row => exists r, row = x :: r) firsts c /\
    map snd firsts = map seg_bytes segs /\
    Forall2 (fun s x => e_pad (ps_entry s) = false -> fst x = Some (e_target (ps_entry s))) segs firsts.
Proof.
  induction segs as [|s r IH]; intros c Hc Hf Hh Hz; cbn [cache_of] in Hc.
  - inversion Hc; subst. exists []. repeat split; constructor.
  - inversion Hf as [|? ? Hfs Hfr]; inversion Hh as [|? ? Hhs Hhr]; inversion Hz as [|? ? Hzs Hzr]; subst.
    destruct (cache_of r) as [c'|] eqn:Er; [|discriminate].
    destruct (IH c' eq_refl Hfr Hhr Hzr) as (firsts & Hrows & Hbytes & Hsrc).
    destruct (e_pad (ps_entry s)) eqn:Hp.
    + inversion Hc; subst. exists ((None, repeat 0 (N.to_nat (ps_len s))) :: firsts).
      split; [constructor; [eauto|exact Hrows]|]. split; [cbn [map snd]; rewrite (Hzs Hp), Hbytes; reflexivity|].
      constructor; [intros; congruence|exact Hsrc].
    + destruct (Hfs Hp) as [rest Hse]. rewrite Hse in Hc. destruct (N.eqb_spec (ps_len s) 0) as [Hl0|Hl0].
      * inversion Hc; subst. exists ((Some (e_target (ps_entry s)), []) :: firsts).
        split; [constructor; [eauto|exact Hrows]|]. split.
        -- cbn [map snd]. rewrite Hbytes. f_equal. unfold SolverProofs.seg_bytes. rewrite Hl0. reflexivity.
        -- constructor; [reflexivity|exact Hsrc].
      * cbn [row_of] in Hc. rewrite (Hhs Hp Hl0) in Hc. cbn [existsb app] in Hc.
        destruct (row_of rest (ps_off s) (ps_len s) [(Some (e_target (ps_entry s)), seg_bytes s)]) as [row|] eqn:Erow; [|discriminate].
        inversion Hc; subst. destruct (row_of_keeps _ _ _ _ _ Erow) as [more ->]. cbn [app].
        exists ((Some (e_target (ps_entry s)), seg_bytes s) :: firsts).
        split; [constructor; [eauto|exact Hrows]|]. split; [cbn [map snd]; now rewrite Hbytes|].
        constructor; [reflexivity|exact Hsrc].
Qed.

Definition wf_segs (segs : list pseg) : Prop :=
  Forall (fun s => ps_off s + ps_len s <= N.of_nat (length (content (ps_entry s)))) segs.

(** Multi-file pieces: if every non-padding segment's first candidate is its own export file and
    that file holds the torrent's bytes (all candidate reads succeeding), the piece succeeds and
    NO mutating operation is issued. *)
Theorem multi_verified_not_written pc c : cache_of (w_segs pc) = Some c -> w_segs pc <> [] -> wf_segs (w_segs pc) ->
  Forall target_first (w_segs pc) -> Forall target_holds (w_segs pc) -> Forall pad_zero (w_segs pc) ->
  H (piece_bytes pc) = w_hash pc ->
  eval ans (multi_prog H pc) = ([], Success).
Proof.
  intros Hc Hne Hwf Hf Hh Hz Hhash. unfold multi_prog. rewrite (preload_eval _ _ c Hc).
  destruct (cache_of_target_first _ _ Hc Hf Hh Hz) as (firsts & Hrows & Hbytes & Hsrc).
  assert (Hfc : find_combo H (w_hash pc) c [] = Some firsts).
  { apply (find_combo_first (w_hash pc) c [] firsts Hrows). cbn [app]. rewrite Hbytes. fold (piece_bytes pc). rewrite Hhash. now apply beq_eq. }
  destruct c as [|row rest].
  - inversion Hrows; subst. destruct (w_segs pc); [congruence|discriminate].
  - rewrite Hfc. rewrite Hbytes.
    pose proof (write_prog_eval (w_segs pc) (map fst firsts) [] ) as Hw. cbn [app length N.of_nat] in Hw.
    rewrite Hw; [|rewrite map_length; apply Forall2_length in Hsrc; lia|exact Hwf].
    now rewrite no_ops_when_sourced_from_target.
Qed.

(** Single-file pieces: the export file is read first, matches, and is its own source. *)
Theorem single_verified_not_written pc s rest : w_segs pc = [s] -> e_pad (ps_entry s) = false ->
  ps_off s + ps_len s <= N.of_nat (length (content (ps_entry s))) ->
  ans (e_target (ps_entry s)) (ps_off s) (ps_len s) = Some (seg_bytes s) ->
  H (piece_bytes pc) = w_hash pc ->
  eval ans (single_prog H pc s (e_target (ps_entry s) :: rest)) = ([], Success).
Proof.
  intros Hs Hp Hwf Ha Hhash. cbn [single_prog eval]. rewrite Ha.
  assert (Hpb : piece_bytes pc = seg_bytes s) by (unfold SolverProofs.piece_bytes; rewrite Hs; cbn; now rewrite app_nil_r).
  rewrite <- Hpb, Hhash. assert (Hb : beq (w_hash pc) (w_hash pc) = true) by now apply beq_eq. rewrite Hb.
  rewrite Hs. pose proof (write_prog_eval [s] [Some (e_target (ps_entry s))] []) as Hw. cbn [app length map concat N.of_nat] in Hw.
  rewrite app_nil_r in Hw. rewrite Hpb. rewrite Hw; [|reflexivity|constructor; [exact Hwf|constructor]].
  cbn [combine map concat fst snd]. unfold seg_ops. rewrite Hp.
  assert (Hpe : path_eqb (e_target (ps_entry s)) (e_target (ps_entry s)) = true) by now apply path_eqb_eq.
  now rewrite Hpe.
Qed.

(** ** Available => recovered (C02), program level: if some combination of candidates yields the
    piece's bytes, the piece succeeds and every non-padding segment not sourced from its own export
    file is written with the torrent's bytes at its offset. *)
Theorem multi_available_success pc c combo : cache_of (w_segs pc) = Some c -> w_segs pc <> [] -> wf_segs (w_segs pc) ->
  cr H content pc -> picks combo c -> map snd combo = map seg_bytes (w_segs pc) -> H (piece_bytes pc) = w_hash pc ->
  exists srcs, length srcs = length (w_segs pc) /\
    eval ans (multi_prog H pc) = (concat (map (fun ss => seg_ops (fst ss) (snd ss)) (combine (w_segs pc) srcs)), Success).
Proof.
  intros Hc Hne Hwf Hcr Hp Hb Hhash. unfold multi_prog. rewrite (preload_eval _ _ c Hc).
  destruct (find_combo H (w_hash pc) c []) as [found|] eqn:Ef.
  - pose proof (find_combo_hash H _ _ _ _ Ef) as Hh. apply Hcr in Hh.
    destruct c as [|row rest].
    + inversion Hp; subst. destruct (w_segs pc); [congruence|discriminate].
    + rewrite Hh. unfold SolverProofs.piece_bytes. exists (map fst found). 
      assert (Hlen : length found = length (w_segs pc)).
      { (* the combination found has one element per row, the cache one row per segment *)
        assert (G : forall c0 pre r0, find_combo H (w_hash pc) c0 pre = Some r0 -> length r0 = (length pre + length c0)%nat).
        { clear. induction c0 as [|row0 rest0 IHc]; intros pre r0 Hf0; cbn [find_combo] in Hf0.
          - destruct (beq _ _); [|discriminate]. inversion Hf0; subst. cbn. lia.
          - induction row0 as [|x xs IHr]; [discriminate|].
            destruct (find_combo H (w_hash pc) rest0 (pre ++ [x])) eqn:E0.
            + inversion Hf0; subst. rewrite (IHc _ _ E0), app_length. cbn. lia.
            + now apply IHr. }
        rewrite (G _ _ _ Ef). apply Forall2_length in Hp. cbn [length Nat.add]. cbn [length] in Hp. rewrite <- Hp.
        apply (f_equal (@length _)) in Hb. now rewrite !map_length in Hb. }
      split; [now rewrite map_length|].
      pose proof (write_prog_eval (w_segs pc) (map fst found) []) as Hw. cbn [app length N.of_nat] in Hw.
      apply Hw; [rewrite map_length; lia|exact Hwf].
  - exfalso. apply (find_combo_complete (w_hash pc) c [] combo Hp); [|exact Ef].
    cbn [app]. rewrite Hb. fold (piece_bytes pc). rewrite Hhash. now apply beq_eq.
Qed.

(** A combination yielding the piece's bytes exists as soon as every segment has a readable
    candidate holding the torrent's bytes (content de-duplication keeps a representative). *)
Theorem witnesses_give_combo : forall segs c, cache_of segs = Some c ->
  Forall (fun s => e_pad (ps_entry s) = false -> ps_len s <> 0 ->
            exists cands w, e_searches (ps_entry s) = Some cands /\ In w cands /\ ans w (ps_off s) (ps_len s) = Some (seg_bytes s)) segs ->
  Forall pad_zero segs ->
  exists combo, picks combo c /\ map snd combo = map seg_bytes segs.
Proof.
  induction segs as [|s r IH]; intros c Hc Hw Hz; cbn [cache_of] in Hc.
  - inversion Hc; subst. exists []. split; constructor.
  - inversion Hw as [|? ? Hws Hwr]; inversion Hz as [|? ? Hzs Hzr]; subst.
    destruct (cache_of r) as [c'|] eqn:Er; [|discriminate].
    destruct (IH c' eq_refl Hwr Hzr) as (combo & Hp & Hb).
    destruct (e_pad (ps_entry s)) eqn:Hpad.
    + inversion Hc; subst. exists ((None, repeat 0 (N.to_nat (ps_len s))) :: combo).
      split; [constructor; [now left|exact Hp]|]. cbn [map snd]. now rewrite (Hzs Hpad), Hb.
    + destruct (N.eqb_spec (ps_len s) 0) as [Hl0|Hl0].
      * inversion Hc; subst. eexists ((_, []) :: combo). split; [constructor; [now left|exact Hp]|].
        cbn [map snd]. rewrite Hb. f_equal. unfold SolverProofs.seg_bytes. rewrite Hl0. reflexivity.
      * destruct (Hws eq_refl Hl0) as (cands & w & Hse & Hin & Ha). rewrite Hse in Hc.
        destruct (row_of cands (ps_off s) (ps_len s) []) as [row|] eqn:Erow; [|discriminate]. inversion Hc; subst.
        destruct (row_of_represents _ _ _ _ _ _ _ Erow Hin Ha) as (src & Hsrc).
        exists ((src, seg_bytes s) :: combo). split; [constructor; [exact Hsrc|exact Hp]|]. cbn [map snd]. now rewrite Hb.
Qed.
End Search.
