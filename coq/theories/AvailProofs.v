(** From C02's own hypothesis to [avail_stable]: the index.

    C02 speaks of a segment being "present at its torrent offset in some regular file of exactly
    the declared file length that is reachable through a scan directory or sits at the export
    location of any loaded torrent".  The theorems of CompleteProofs / RerunProofs speak of the
    candidate lists [e_searches] of the table.  This file connects the two:

    - [ix_of_fs f dev under es0 ix]: the index holds exactly what FinderModel says gets registered
      in file system [f] - [scan_registers] of the files under a scan directory ([under]) and
      [export_registers] of the table entries (the trace validator compares exactly this set with
      the index the implementation built, ocaml/validate.ml step 3);
    - [present f under es0 s c i]: file [c] (inode [i]) is such a file for segment [s];
    - [present_means_stably_available]: if the table was populated from such an index, every
      non-padding positive-length segment of the piece is present in a file the run cannot damage,
      and nothing obstructs the export paths, then there are witnesses for which the piece is
      [avail_stable] - whatever the hash map's iteration order, whichever hard link of a file was
      kept by the pruning, whatever other candidates there are.  With
      RerunProofs.stable_available_means_recovered: the piece is recovered. *)
From TB Require Import Base Decimal BencodeModel TorrentModel TorrentProofs PathModel FsModel SolverModel FinderModel RunModel
                       SolverProofs RunProofs FsProofs SearchProofs FinderProofs SystemModel SystemProofs EstablishProofs CompleteProofs RerunProofs PreludeProofs Generated GeneratedObligations.
From Coq Require Import ZifyN ZifyNat ZifyBool.
Local Open Scope N_scope.

Lemma pseg_eq_dec (a b : pseg) : {a = b} + {a <> b}.
Proof. repeat decide equality. Defined.

(** Choice over a finite list (decidable equality; no axiom). *)
Lemma finite_choice {A B} (dec : forall a b : A, {a = b} + {a <> b}) (R : A -> B -> Prop) (d : B) :
  forall l : list A, (forall a, In a l -> exists b, R a b) -> exists g : A -> B, forall a, In a l -> R a (g a).
Proof.
  induction l as [|x l IH]; intros Hex.
  - exists (fun _ => d). intros a [].
  - destruct (Hex x (or_introl eq_refl)) as [bx Hx]. destruct (IH (fun a Ha => Hex a (or_intror Ha))) as [g Hg].
    exists (fun a => if dec a x then bx else g a). intros a Ha. destruct (dec a x) as [->|Hn]; [exact Hx|].
    destruct Ha as [<-|Ha]; [congruence|]. exact (Hg a Ha).
Qed.

(** The searches of a populated table are [searches_for] of the index. *)
Lemma searches_for_with ix e s : searches_for ix (with_searches e s) = searches_for ix e.
Proof. reflexivity. Qed.

Lemma populate_searches ix : forall es0 es e, populate ix es0 = Ok es -> In e es ->
  searches_for ix e = Ok (e_searches e) /\ exists e0, In e0 es0 /\ e = with_searches e0 (e_searches e).
Proof.
  induction es0 as [|e0 r IH]; intros es e Hp Hin; cbn [populate] in Hp.
  - inversion Hp; subst. contradiction.
  - destruct (searches_for ix e0) as [s| | |] eqn:Es; cbn [bind] in Hp; try discriminate.
    destruct (populate ix r) as [rs| | |] eqn:Er; cbn [bind] in Hp; try discriminate. inversion Hp; subst.
    destruct Hin as [<-|Hin].
    + split; [rewrite searches_for_with; exact Es|]. exists e0. split; [now left|reflexivity].
    + destruct (IH rs e eq_refl Hin) as (H1 & e1 & H2 & H3). split; [exact H1|]. exists e1. split; [now right|exact H3].
Qed.

Section Avail.
Variable content : entry -> list N.
Variable f : fs.
Variable dev : N.
Variable under : path -> bool.               (* lies under one of the scan directories *)
Variable es0 : list entry.                   (* the table before the candidates are filled in *)
Variable ix : index.
Variable es : list entry.
Hypothesis Hpop : populate ix es0 = Ok es.

Definition listed_of (p : path) : option listed :=
  match fs_lookup f p with
  | Some (NFile i) => Some {| l_path := p; l_id := (dev, i); l_len := N.of_nat (length (fs_content f i)) |}
  | _ => None
  end.

(** The index is exactly the registered set. *)
Definition ix_of_fs : Prop :=
  forall n p id, (exists ns, nodes_of ix n = Some ns /\ In (p, id) ns) <->
    ((exists l, listed_of p = Some l /\ under p = true /\ scan_registers (unique_lengths es0) l = Some (n, (p, id))) \/
     (exists e, In e es0 /\ export_registers listed_of e = Some (n, (p, id)))).
Hypothesis Hix : ix_of_fs.

Lemma registered_is_file n ns p id : nodes_of ix n = Some ns -> In (p, id) ns ->
  fst id = dev /\ fs_lookup f p = Some (NFile (snd id)) /\ N.of_nat (length (fs_content f (snd id))) = n.
Proof.
  intros Hn Hin. destruct (proj1 (Hix n p id) (ex_intro _ ns (conj Hn Hin))) as [(l & Hl & _ & Hr)|(e & _ & Hr)].
  - unfold listed_of in Hl. destruct (fs_lookup f p) as [[|i]|] eqn:El; try discriminate. inversion Hl; subst l. clear Hl.
    unfold scan_registers in Hr. cbn [l_len l_path l_id] in Hr. destruct (existsb _ _); [|discriminate]. inversion Hr; subst. auto.
  - unfold export_registers in Hr. destruct (e_pad e); [discriminate|]. unfold listed_of in Hr.
    destruct (fs_lookup f (e_target e)) as [[|i]|] eqn:El; try discriminate. cbn [l_len l_id] in Hr.
    destruct (N.eqb_spec (N.of_nat (length (fs_content f i))) (e_len e)) as [He|]; [|discriminate]. inversion Hr; subst. rewrite El. auto.
Qed.

(** File [c] (inode [i]) is a regular file of exactly the declared length of [s]'s file, reachable
    through a scan directory or sitting at the export location of a table entry (of that length),
    and it holds the torrent's bytes of [s] at [s]'s offset. *)
Definition present (s : pseg) (c : path) (i : N) : Prop :=
  fs_lookup f c = Some (NFile i) /\ N.of_nat (length (fs_content f i)) = e_len (ps_entry s) /\
  (under c = true \/ exists e, In e es0 /\ e_pad e = false /\ e_target e = c /\ e_len e = e_len (ps_entry s)) /\
  firstn (N.to_nat (ps_len s)) (skipn (N.to_nat (ps_off s)) (fs_content f i)) = seg_bytes content s.

Lemma in_unique_lengths e : In e es0 -> e_pad e = false -> existsb (N.eqb (e_len e)) (unique_lengths es0) = true.
Proof.
  intros Hin Hp. apply existsb_exists. exists (e_len e). split; [|apply N.eqb_refl].
  unfold unique_lengths. apply nodup_In. apply in_map. apply filter_In. split; [exact Hin|now rewrite Hp].
Qed.

Lemma present_registered s c i : In (ps_entry s) es -> e_pad (ps_entry s) = false -> present s c i ->
  exists ns, nodes_of ix (e_len (ps_entry s)) = Some ns /\ In (c, (dev, i)) ns.
Proof.
  intros Hin Hpad (Hl & Hlen & Hwhere & _). apply (proj2 (Hix _ _ _)).
  destruct Hwhere as [Hu|(e & He & Hp & Ht & Hle)].
  - left. exists {| l_path := c; l_id := (dev, i); l_len := N.of_nat (length (fs_content f i)) |}.
    split; [unfold listed_of; now rewrite Hl|]. split; [exact Hu|].
    unfold scan_registers. cbn [l_len l_path l_id]. rewrite Hlen.
    destruct (populate_searches ix es0 es _ Hpop Hin) as (_ & e0 & H0 & He0).
    assert (Hlen0 : e_len (ps_entry s) = e_len e0) by (rewrite He0; reflexivity).
    assert (Hpad0 : e_pad e0 = false) by (rewrite He0 in Hpad; exact Hpad).
    rewrite Hlen0, (in_unique_lengths e0 H0 Hpad0). reflexivity.
  - right. exists e. split; [exact He|]. unfold export_registers. rewrite Hp. unfold listed_of. rewrite Ht, Hl. cbn [l_len l_id].
    rewrite Hlen, <- Hle, N.eqb_refl. reflexivity.
Qed.

Variable pc : wpiece.
Hypothesis Hall : Forall (fun s => In (ps_entry s) es) (w_segs pc).

(** Per segment: present in an undamageable file, and unobstructed. *)
Definition seg_present_stable (s : pseg) : Prop :=
  e_pad (ps_entry s) = false ->
  (forall q, In q (prefixes (parent (e_target (ps_entry s)))) -> is_file f q = false) /\
  is_dir f (e_target (ps_entry s)) = false /\ e_target (ps_entry s) <> [] /\ unobstructed es s /\
  (ps_len s <> 0 -> exists c i, present s c i /\
     src_stable content es f i (N.to_nat (ps_off s)) (N.to_nat (ps_off s) + N.to_nat (ps_len s))).

Lemma seg_present_gives s : In s (w_segs pc) -> seg_present_stable s ->
  exists w : path, forall wit : pseg -> path, wit s = w -> seg_stable content es wit f s.
Proof.
  intros Hs Hps. rewrite Forall_forall in Hall. pose proof (Hall s Hs) as Hin.
  destruct (e_pad (ps_entry s)) eqn:Hpad.
  - exists []. intros wit _. split; intros Hc; rewrite Hpad in Hc; discriminate.
  - destruct (Hps Hpad) as (Hnf & Hnd & Hne & Hun & Hpr).
    destruct (N.eq_dec (ps_len s) 0) as [Hz|Hnz].
    + exists []. intros wit _. split.
      * intros _. repeat (split; [assumption|]). intros Hc. contradiction.
      * intros _. split; [exact Hun|]. intros Hc. contradiction.
    + destruct (Hpr Hnz) as (c & i & Hp & Hst).
      destruct (present_registered s c i Hin Hpad Hp) as (ns & Hn & Hcin).
      destruct (populate_searches ix es0 es _ Hpop Hin) as (Hsf & _).
      assert (Hsome : exists l, e_searches (ps_entry s) = Some l).
      { unfold searches_for in Hsf. rewrite Hpad, Hn in Hsf.
        destruct (sort_candidates _ _ ns) as [sorted| | |]; cbn [bind] in Hsf; try discriminate. inversion Hsf. eauto. }
      destruct Hsome as [l Hl]. rewrite Hl in Hsf.
      destruct (searches_complete ix (ps_entry s) ns c (dev, i) l Hpad Hn Hcin Hsf) as (w & Hwl & Hwn).
      destruct (registered_is_file _ _ _ _ Hn Hwn) as (_ & Hwf & _). cbn [snd] in Hwf.
      exists w. intros wit Hw. destruct Hp as (_ & _ & _ & Hbytes). split.
      * intros _. split; [exact Hnf|]. split; [exact Hnd|]. split; [exact Hne|]. intros _.
        exists l. split; [exact Hl|]. split; [|split].
        -- intros c' Hc'. destruct (searches_sound ix (ps_entry s) ns l c' Hpad Hn Hsf Hc') as (id' & Hin').
           destruct (registered_is_file _ _ _ _ Hn Hin') as (_ & Hf' & _). unfold fs_read, fs_file. rewrite Hf'. discriminate.
        -- rewrite Hw. exact Hwl.
        -- rewrite Hw. unfold fs_read, fs_file. rewrite Hwf. now rewrite Hbytes.
      * intros _. split; [exact Hun|]. intros _. exists i. rewrite Hw. split; [exact Hwf|exact Hst].
Qed.

Theorem present_means_stably_available :
  Forall seg_present_stable (w_segs pc) -> exists wit, avail_stable content es pc wit f.
Proof.
  intros Hps. rewrite Forall_forall in Hps.
  destruct (finite_choice pseg_eq_dec (fun s (w : path) => forall wit : pseg -> path, wit s = w -> seg_stable content es wit f s) [] (w_segs pc)) as [g Hg].
  { intros s Hs. exact (seg_present_gives s Hs (Hps s Hs)). }
  exists g. unfold avail_stable. rewrite Forall_forall. intros s Hs. exact (Hg s Hs g eq_refl).
Qed.

End Avail.

(** C02 as stated: present (in files the run cannot damage) and unobstructed at the start of a
    fault-free run => the piece's evaluation returns [Success] and every segment is in place. *)
Theorem present_means_recovered H content es0 ix es dev under pc s s' i o :
  table_functional content es -> wf_piece content pc -> Forall (fun sg => In (ps_entry sg) es) (w_segs pc) ->
  cr H content pc -> H (piece_bytes content pc) = w_hash pc -> Forall (pad_zero content) (w_segs pc) ->
  w_segs pc <> [] -> (forall sg, w_segs pc = [sg] -> ps_len sg <> 0) ->
  populate ix es0 = Ok es -> ix_of_fs (s_fs s) dev under es0 ix ->
  Forall (seg_present_stable content (s_fs s) under es0 es) (w_segs pc) ->
  alias_free content es (s_fs s) -> Forall (pgood content es) (s_pool s) ->
  nth_error (s_pool s) i = Some (solve_prog H pc) -> freach s s' -> nth_error (s_pool s') i = Some (Ret o) ->
  o = Success /\ forall sg, In sg (w_segs pc) -> e_pad (ps_entry sg) = false -> holds_seg content (s_fs s') sg.
Proof.
  intros Hfun Hwf Hall Hcr Hhash Hpadz Hne Hone Hpop Hix Hps Ha Hp Hn Hr Hn'.
  destruct (present_means_stably_available content (s_fs s) dev under es0 ix es Hpop Hix pc Hall Hps) as [wit Hv].
  exact (stable_available_means_recovered H content es Hfun pc Hwf Hall Hcr Hhash Hpadz Hne Hone wit s s' i o Ha Hp Hv Hn Hr Hn').
Qed.

(** ... also when every other program may fault (C13). *)
Theorem present_means_recovered_despite_faults H content es0 ix es dev under pc s s' i o :
  table_functional content es -> wf_piece content pc -> Forall (fun sg => In (ps_entry sg) es) (w_segs pc) ->
  cr H content pc -> H (piece_bytes content pc) = w_hash pc -> Forall (pad_zero content) (w_segs pc) ->
  w_segs pc <> [] -> (forall sg, w_segs pc = [sg] -> ps_len sg <> 0) ->
  populate ix es0 = Ok es -> ix_of_fs (s_fs s) dev under es0 ix ->
  Forall (seg_present_stable content (s_fs s) under es0 es) (w_segs pc) ->
  alias_free content es (s_fs s) -> Forall (pgood content es) (s_pool s) ->
  nth_error (s_pool s) i = Some (solve_prog H pc) -> mreach i s s' -> nth_error (s_pool s') i = Some (Ret o) ->
  o = Success /\ forall sg, In sg (w_segs pc) -> e_pad (ps_entry sg) = false -> holds_seg content (s_fs s') sg.
Proof.
  intros Hfun Hwf Hall Hcr Hhash Hpadz Hne Hone Hpop Hix Hps Ha Hp Hn Hr Hn'.
  destruct (present_means_stably_available content (s_fs s) dev under es0 ix es Hpop Hix pc Hall Hps) as [wit Hv].
  exact (stable_available_despite_faults H content es Hfun pc Hwf Hall Hcr Hhash Hpadz Hne Hone wit s s' i o Ha Hp Hv Hn Hr Hn').
Qed.

(** The pre-flight of --resize-export-files makes a short export file a source (C14): after
    [SetLen target declared] on a shorter file the segment's bytes that were there are still there
    and the file now has exactly the declared length, so it is [present] at its own export
    location in the state the scanning starts from. *)
Lemma content_set_data_same f i b : fs_content (set_data f i b) i = b.
Proof. unfold fs_content, set_data. cbn [fs_data assoc_n]. now rewrite N.eqb_refl. Qed.

Theorem extended_export_file_is_present content f under es0 e s i f' :
  In e es0 -> e_pad e = false -> e_len e = e_len (ps_entry s) ->
  fs_lookup f (e_target e) = Some (NFile i) -> (length (fs_content f i) <= N.to_nat (e_len e))%nat ->
  (N.to_nat (ps_off s) + N.to_nat (ps_len s) <= length (fs_content f i))%nat ->
  firstn (N.to_nat (ps_len s)) (skipn (N.to_nat (ps_off s)) (fs_content f i)) = seg_bytes content s ->
  apply_op f (SetLen (e_target e) (e_len e)) = (f', true) ->
  present content f' under es0 s (e_target e) i.
Proof.
  intros Hin Hpad Hle Hl Hshort Hfit Hb Happ. cbn [apply_op] in Happ. rewrite Hl in Happ. inversion Happ; subst f'. clear Happ.
  unfold present. rewrite lookup_set_data, content_set_data_same. split; [exact Hl|]. split.
  - rewrite length_resize. lia.
  - split; [right; exists e; auto|].
    rewrite <- Hb. unfold resize. rewrite (firstn_all2 (n := N.to_nat (e_len e)) (fs_content f i)) by exact Hshort.
    rewrite skipn_app. rewrite firstn_app. rewrite skipn_length.
    replace (N.to_nat (ps_len s) - (length (fs_content f i) - N.to_nat (ps_off s)))%nat with 0%nat by lia.
    cbn [firstn]. now rewrite app_nil_r.
Qed.

(** The export part of [ix_of_fs] is what the prelude's export probes hand to the index: when every
    probe is answered by the file system ([stat]), the continuation receives exactly
    [export_registers stat] of the table entries, in table order. *)
Lemma export_probes_registers ans mutok (stat : path -> option listed) k : forall es acc,
  (forall e, In e es -> e_pad e = false ->
     match ans (e_target e) (of_write index_open) with
     | PFile n id => exists l, stat (e_target e) = Some l /\ l_len l = n /\ l_id l = id
     | _ => stat (e_target e) = None
     end) ->
  PreludeProofs.run_prelude ans mutok (export_probes es acc k) =
  PreludeProofs.run_prelude ans mutok (k (acc ++ flat_map (fun e => match export_registers stat e with Some x => [x] | None => [] end) es)).
Proof.
  induction es as [|e r IH]; intros acc Hans; cbn [export_probes flat_map]; [now rewrite app_nil_r|].
  assert (Hr : forall e', In e' r -> e_pad e' = false -> _) by (intros e' He'; apply Hans; now right).
  unfold export_registers at 1. destruct (e_pad e) eqn:Hp; [cbn [app]; exact (IH acc Hr)|].
  cbn [PreludeProofs.run_prelude]. pose proof (Hans e (or_introl eq_refl) Hp) as Ha.
  destruct (ans (e_target e) (of_write index_open)) as [| | |n id].
  - rewrite Ha. cbn [app]. exact (IH acc Hr).
  - rewrite Ha. cbn [app]. exact (IH acc Hr).
  - rewrite Ha. cbn [app]. exact (IH acc Hr).
  - destruct Ha as (l & Hs & Hn & Hid). rewrite Hs, Hn, Hid. destruct (n =? e_len e).
    + rewrite (IH _ Hr). now rewrite <- app_assoc.
    + cbn [app]. exact (IH acc Hr).
Qed.
