(** A small file-system model: a finite map from paths to directories / regular files (by inode,
    so that hard links share content) and the mutating operations the tool performs.
    Assumed semantics (trusted base): [set_len] extends with zeros and truncates exactly; a
    positional write changes exactly [off, off+len) (zero-filling a gap); [create_dir_all]
    creates exactly the missing ancestors; opening with create makes an empty file when the
    parent directory exists. *)
From TB Require Import Base TorrentModel PathModel.
Local Open Scope N_scope.

Inductive node := NDir | NFile (ino : N).
Record fs := { fs_nodes : list (path * node); fs_data : list (N * list N) }.

Fixpoint assoc_path {A} (l : list (path * A)) (p : path) : option A :=
  match l with [] => None | (q, a) :: r => if path_eqb p q then Some a else assoc_path r p end.
Fixpoint assoc_n {A} (l : list (N * A)) (k : N) : option A :=
  match l with [] => None | (q, a) :: r => if k =? q then Some a else assoc_n r k end.

Definition fs_lookup (f : fs) (p : path) : option node :=
  match p with [] => Some NDir | _ => assoc_path (fs_nodes f) p end.
Definition fs_content (f : fs) (ino : N) : list N := match assoc_n (fs_data f) ino with Some b => b | None => [] end.
Definition fs_file (f : fs) (p : path) : option (list N) :=
  match fs_lookup f p with Some (NFile i) => Some (fs_content f i) | _ => None end.

Definition set_node (f : fs) (p : path) (n : node) : fs := {| fs_nodes := (p, n) :: fs_nodes f; fs_data := fs_data f |}.
Definition set_data (f : fs) (i : N) (b : list N) : fs := {| fs_nodes := fs_nodes f; fs_data := (i, b) :: fs_data f |}.
Definition fresh_ino (f : fs) : N := 1 + fold_right N.max 0 (map fst (fs_data f) ++ flat_map (fun pn => match snd pn with NFile i => [i] | NDir => [] end) (fs_nodes f)).

(** Byte-level operations on a file's content. *)
Definition resize (b : list N) (n : nat) : list N := firstn n b ++ repeat 0 (n - length b).
Definition pad_to (b : list N) (off : nat) : list N := b ++ repeat 0 (off - length b).
Definition write_at (b : list N) (off : nat) (d : list N) : list N :=
  firstn off (pad_to b off) ++ d ++ skipn (off + length d) (pad_to b off).

Inductive op :=
| MkdirAll (p : path)
| OpenW (p : path) (create trunc : bool)
| SetLen (p : path) (n : N)
| WriteAt (p : path) (off : N) (data : list N).

(** All proper non-empty prefixes of [p] and [p] itself, shortest first. *)
Fixpoint prefixes (p : path) : list path :=
  match p with [] => [] | c :: r => [c] :: map (cons c) (prefixes r) end.

Definition is_file (f : fs) (p : path) : bool := match fs_lookup f p with Some (NFile _) => true | _ => false end.
Definition is_dir (f : fs) (p : path) : bool := match fs_lookup f p with Some NDir => true | _ => false end.

(** Applying an operation: new state and whether the call succeeded. *)
Definition apply_op (f : fs) (o : op) : fs * bool :=
  match o with
  | MkdirAll p =>
      if existsb (is_file f) (prefixes p) then (f, false)
      else (fold_left (fun g q => if is_dir g q then g else set_node g q NDir) (prefixes p) f, true)
  | OpenW p create trunc =>
      match fs_lookup f p with
      | Some NDir => (f, false)
      | Some (NFile i) => (if trunc then set_data f i [] else f, true)
      | None => if create && is_dir f (parent p)
                then let i := fresh_ino f in (set_data (set_node f p (NFile i)) i [], true)
                else (f, false)
      end
  | SetLen p n =>
      match fs_lookup f p with
      | Some (NFile i) => (set_data f i (resize (fs_content f i) (N.to_nat n)), true)
      | _ => (f, false)
      end
  | WriteAt p off d =>
      match fs_lookup f p with
      | Some (NFile i) => (set_data f i (write_at (fs_content f i) (N.to_nat off) d), true)
      | _ => (f, false)
      end
  end.
