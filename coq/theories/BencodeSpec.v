(** Specification side of the decoder: abstract bencode values, the canonical encoder,
    canonicity, and [annot p v] = the token tree of value [v] placed at offset [p] with exact spans. *)
From TB Require Import Base Decimal BencodeModel.
Local Open Scope N_scope.

Inductive bval := BStr (s : list N) | BInt (z : Z) | BList (l : list bval) | BDict (kvs : list (list N * bval)).


Definition enc_str (s : list N) : list N := dec_of_N (len s) ++ 58 :: s.
Definition enc_z (z : Z) : list N := (if (z <? 0)%Z then [45] else []) ++ dec_of_N (Z.abs_N z).
Fixpoint enc (v : bval) : list N :=
  match v with
  | BStr s => enc_str s
  | BInt z => 105 :: enc_z z ++ [101]
  | BList l => 108 :: flat_map enc l ++ [101]
  | BDict kvs => 100 :: flat_map (fun kv => enc_str (fst kv) ++ enc (snd kv)) kvs ++ [101]
  end.

Fixpoint annot (p : N) (v : bval) : tok :=
  match v with
  | BStr s => TStr s p (p + len (enc_str s))
  | BInt z => TInt z p (p + len (enc v))
  | BList l => TList ((fix go (p : N) (l : list bval) : list tok :=
                         match l with [] => [] | a :: r => annot p a :: go (p + len (enc a)) r end) (p + 1) l)
                     p (p + len (enc v))
  | BDict kvs => TDict ((fix go (p : N) (l : list (list N * bval)) : list (tok * tok) :=
                           match l with [] => [] | (k, a) :: r =>
                             (TStr k p (p + len (enc_str k)), annot (p + len (enc_str k)) a)
                             :: go (p + len (enc_str k) + len (enc a)) r end) (p + 1) kvs)
                        p (p + len (enc v))
  end.

Fixpoint annot_list (p : N) (l : list bval) : list tok :=
  match l with [] => [] | a :: r => annot p a :: annot_list (p + len (enc a)) r end.
Fixpoint annot_kvs (p : N) (l : list (list N * bval)) : list (tok * tok) :=
  match l with [] => [] | (k, a) :: r =>
    (TStr k p (p + len (enc_str k)), annot (p + len (enc_str k)) a) :: annot_kvs (p + len (enc_str k) + len (enc a)) r end.
Lemma annot_list_eq p l : annot p (BList l) = TList (annot_list (p + 1) l) p (p + len (enc (BList l))).
Proof. reflexivity. Qed.
Lemma annot_dict_eq p l : annot p (BDict l) = TDict (annot_kvs (p + 1) l) p (p + len (enc (BDict l))).
Proof. reflexivity. Qed.



Fixpoint keys_sorted (prev : option (list N)) (kvs : list (list N * bval)) : Prop :=
  match kvs with [] => True | (k, _) :: r =>
    (match prev with None => True | Some p => blt p k = true end) /\ len k <= usize_max /\ keys_sorted (Some k) r end.

Fixpoint canonical (v : bval) : Prop :=
  match v with
  | BStr s => len s <= usize_max
  | BInt z => (i128_min <= z <= i128_max)%Z
  | BList l => (fix all l := match l with [] => True | a :: r => canonical a /\ all r end) l
  | BDict kvs => keys_sorted None kvs /\
                 (fix all l := match l with [] => True | (_, a) :: r => canonical a /\ all r end) kvs
  end.

Fixpoint all_canonical (l : list bval) : Prop := match l with [] => True | a :: r => canonical a /\ all_canonical r end.
Fixpoint all_canonical_kv (l : list (list N * bval)) : Prop := match l with [] => True | (_, a) :: r => canonical a /\ all_canonical_kv r end.
Lemma canonical_list_eq l : canonical (BList l) = all_canonical l. Proof. reflexivity. Qed.
Lemma canonical_dict_eq l : canonical (BDict l) = (keys_sorted None l /\ all_canonical_kv l). Proof. reflexivity. Qed.


(** * Reading a token tree back: the value it denotes, its nodes, its extents *)

Definition tok_start (t : tok) : N := match t with TStr _ s _ | TInt _ s _ | TList _ s _ | TDict _ s _ => s end.
Definition tok_end (t : tok) : N := match t with TStr _ _ e | TInt _ _ e | TList _ _ e | TDict _ _ e => e end.
Definition key_bytes (t : tok) : list N := match t with TStr k _ _ => k | _ => [] end.

Fixpoint erase (t : tok) : bval :=
  match t with
  | TStr v _ _ => BStr v
  | TInt z _ _ => BInt z
  | TList l _ _ => BList (map erase l)
  | TDict l _ _ => BDict (map (fun kv => (key_bytes (fst kv), erase (snd kv))) l)
  end.

(** Every node of the tree (dictionary keys included). *)
Fixpoint subtoks (t : tok) : list tok :=
  t :: match t with
       | TStr _ _ _ | TInt _ _ _ => []
       | TList l _ _ => flat_map subtoks l
       | TDict l _ _ => flat_map (fun kv => fst kv :: subtoks (snd kv)) l
       end.

Definition slice (x : list N) (s e : N) : list N := firstn (N.to_nat (e - s)) (skipn (N.to_nat s) x).
