(** Machine-checked witness (n = 2, concrete [balanced]) that, with the
    one-at-a-time release, a worker can pass through the state lock without balancing and with [pend] false:
    S1 ->* S2 differ only in pc 1 (PWantState vs PTry), while [s_try_fail] changes only the pc the other way.
    Hence no measure of the shape  g(state without pc) + sum_i dist (pc i)  decreases on every step, and the old
    invariant fields i_J / i_rel fail in S1.   *)
From Coq Require Import List Arith Lia Bool Permutation.
Import ListNotations.
From TB Require Import ExecModel BalanceModel BalanceProofs.

Definition nf (_ : nat) := 2.
Definition gd (_ : nat) := 0.
Notation B := (balanced nf gd).
Definition q0 (i : nat) : list nat := match i with 1 => [10; 11; 12] | _ => [] end.
Notation reach := (reach nat 2 B).
Definition s0 := init nat 2 q0.

Lemma bal_ok a f : B a f (balance nat nf gd [] a f).
Proof. exists []. split; [split; [constructor|intros p _ H; discriminate]|reflexivity]. Qed.

Ltac adv R t tac :=
  match type of R with ExecModel.reach _ _ _ _ ?S =>
    let S' := fresh "S'" in let HS := fresh "HS" in let R' := fresh "R" in
    evar (S' : st nat);
    assert (HS : step nat B t S S') by (subst S'; tac);
    subst S';
    assert (Hlt : t < 2) by lia;
    pose proof (r_step nat 2 B _ _ _ R (ex_intro _ t (conj Hlt HS))) as R'; clear R HS Hlt; rename R' into R;
    cbn [active slock qlock q pc solved pend set_pc] in R
  end.
Ltac fin := try reflexivity; try (cbn; lia); try (cbn; discriminate).
Ltac k c := eapply c; fin.

Definition same_but_pc (a b : st nat) : Prop :=
  active a = active b /\ slock a = slock b /\ (forall i, qlock a i = qlock b i) /\ (forall i, q a i = q b i) /\
  solved a = solved b /\ (forall i, pend a i = pend b i) /\ (forall i, i <> 1 -> pc a i = pc b i).

Theorem wasted_pass :
  exists S1 S2, reach s0 S1 /\ reach s0 S2 /\ ExecModel.reach nat 2 B S1 S2 /\
    same_but_pc S1 S2 /\ pc S1 1 = PWantState /\ pc S2 1 = PTry /\
    (* in S1 the old invariant field i_J fails for thread 1 *)
    pend S1 1 = false /\ q S1 1 <> [] /\ qlock S1 1 = None.
Proof.
  pose proof (r_refl nat 2 B s0) as R. unfold s0, init in R.
  adv R 1 ltac:(k s_try_ok).
  adv R 1 ltac:(eapply s_pop_some with (w:=12) (rest:=[10;11]); fin).
  adv R 0 ltac:(k s_try_ok).
  adv R 0 ltac:(k s_pop_none).
  adv R 0 ltac:(k s_want).
  adv R 0 ltac:(k s_chk_stay).
  adv R 0 ltac:(k s_lock_own).
  adv R 0 ltac:(k s_len_none).
  adv R 0 ltac:(k s_gather_skip).
  adv R 0 ltac:(eapply s_gather_lock with (i:=1); fin).
  adv R 0 ltac:(eapply s_gather_done with (i:=2); fin).
  adv R 0 ltac:(eapply s_balance; [reflexivity|apply bal_ok]).
  adv R 1 ltac:(k s_solve).
  adv R 1 ltac:(k s_try_fail).
  adv R 0 ltac:(eapply s_release with (j:=0) (hi:=2); fin).
  adv R 0 ltac:(eapply s_release with (j:=1) (hi:=2); fin).
  adv R 0 ltac:(eapply s_release_done with (j:=2) (hi:=2); fin).
  adv R 0 ltac:(k s_rel_state).
  match type of R with ExecModel.reach _ _ _ _ ?S => set (S1 := S) in * end.
  pose proof R as R1.
  pose proof (r_refl nat 2 B S1) as R2.
  assert (Q1 : q S1 1 = [10]) by reflexivity.
  assert (Q0 : q S1 0 = [11]) by reflexivity.
  unfold S1 in R, R2 at 2.
  Ltac adv2 R R2 t tac := adv R t tac; adv R2 t tac.
  adv2 R R2 1 ltac:(k s_want).
  adv2 R R2 1 ltac:(k s_chk_stay).
  adv2 R R2 1 ltac:(k s_lock_own).
  adv2 R R2 1 ltac:(k s_len_some).
  adv2 R R2 1 ltac:(k s_rel_own).
  adv2 R R2 1 ltac:(k s_rel_state).
  match type of R with ExecModel.reach _ _ _ _ ?S => set (S2 := S) in * end.
  exists S1, S2. split; [exact R1|]. split; [exact R|]. split; [exact R2|].
  split.
  - unfold same_but_pc. repeat split; try reflexivity.
    + intros [|[|i]]; reflexivity.
    + intros [|[|i]]; reflexivity.
    + intros [|[|i]] H; [reflexivity|congruence|reflexivity].
  - repeat split; try reflexivity. cbn. discriminate.
Qed.
Print Assumptions wasted_pass.
