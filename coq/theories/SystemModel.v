(** The whole scanning phase of a run as a transition system: a pool of piece programs (one per
    piece being evaluated; which worker runs which program is the executor's business, C05) over
    ONE shared file system.  A step picks any program of the pool that is not finished and performs
    its next action, so every interleaving of the workers is a path of [sstep]; a mutating
    operation either takes effect on the shared file system or fails without effect (an injected
    or real I/O error); a read may return anything (what the file system holds at that moment, a
    short read, an error).  A crash is "no further step" - every reachable state is a possible
    post-crash state - plus [ss_cut]: a worker is killed in the middle of a write, of which only a
    prefix reaches the file ([ss_mkdir_partial]: a [create_dir_all] that fails - e.g. on a component
    that is too long - may already have created some of the missing ancestors); that worker's program never continues (the other workers may still
    perform a few operations before the process is gone, as observed in killed multi-threaded runs). *)
From TB Require Import Base TorrentModel PathModel FsModel SolverModel RunModel.
Local Open Scope N_scope.

Record sys := { s_fs : fs; s_pool : list prog }.

Fixpoint set_nth {A} (l : list A) (i : nat) (x : A) : list A :=
  match l, i with
  | [], _ => []
  | _ :: r, O => x :: r
  | y :: r, S i' => y :: set_nth r i' x
  end.

Inductive sstep : sys -> sys -> Prop :=
| ss_read f pool i p off len k r : nth_error pool i = Some (Read p off len k) ->
    sstep {| s_fs := f; s_pool := pool |} {| s_fs := f; s_pool := set_nth pool i (k r) |}
| ss_probe f pool i p w k r : nth_error pool i = Some (Probe p w k) ->
    sstep {| s_fs := f; s_pool := pool |} {| s_fs := f; s_pool := set_nth pool i (k r) |}
| ss_mut_ok f pool i o k f' : nth_error pool i = Some (Mut o k) -> apply_op f o = (f', true) ->
    sstep {| s_fs := f; s_pool := pool |} {| s_fs := f'; s_pool := set_nth pool i (k true) |}
| ss_mut_fail f pool i o k : nth_error pool i = Some (Mut o k) ->
    sstep {| s_fs := f; s_pool := pool |} {| s_fs := f; s_pool := set_nth pool i (k false) |}
| ss_cut f pool i p off d k n f' : nth_error pool i = Some (Mut (WriteAt p off d) k) ->
    apply_op f (WriteAt p off (firstn n d)) = (f', true) ->
    sstep {| s_fs := f; s_pool := pool |} {| s_fs := f'; s_pool := set_nth pool i (Ret Fault) |}
| ss_mkdir_partial f pool i p k made f' : nth_error pool i = Some (Mut (MkdirAll p) k) -> path_prefix made p = true ->
    apply_op f (MkdirAll made) = (f', true) ->
    sstep {| s_fs := f; s_pool := pool |} {| s_fs := f'; s_pool := set_nth pool i (k false) |}
| ss_lock f pool i id k : nth_error pool i = Some (Lock id k) ->
    sstep {| s_fs := f; s_pool := pool |} {| s_fs := f; s_pool := set_nth pool i k |}
| ss_unlock f pool i id k : nth_error pool i = Some (Unlock id k) ->
    sstep {| s_fs := f; s_pool := pool |} {| s_fs := f; s_pool := set_nth pool i k |}.

Inductive sreach : sys -> sys -> Prop :=
| sr_refl s : sreach s s
| sr_step s s' s'' : sstep s s' -> sreach s' s'' -> sreach s s''.

(** What the file system answers to a read of [len] bytes at [off] (fewer at the end of the file). *)
Definition fs_read (f : fs) (p : path) (off len : N) : option (list N) :=
  match fs_file f p with
  | Some b => Some (firstn (N.to_nat len) (skipn (N.to_nat off) b))
  | None => None
  end.

(** The fault-free, crash-free sub-system: reads are answered by the file system, operations fail
    only when the file system refuses them.  Every [fstep] is an [sstep]. *)
Inductive fstep : sys -> sys -> Prop :=
| fs_read_ f pool i p off len k : nth_error pool i = Some (Read p off len k) ->
    fstep {| s_fs := f; s_pool := pool |} {| s_fs := f; s_pool := set_nth pool i (k (fs_read f p off len)) |}
| fs_mut f pool i o k f' ok : nth_error pool i = Some (Mut o k) -> apply_op f o = (f', ok) ->
    fstep {| s_fs := f; s_pool := pool |} {| s_fs := f'; s_pool := set_nth pool i (k ok) |}
| fs_lock f pool i id k : nth_error pool i = Some (Lock id k) ->
    fstep {| s_fs := f; s_pool := pool |} {| s_fs := f; s_pool := set_nth pool i k |}
| fs_unlock f pool i id k : nth_error pool i = Some (Unlock id k) ->
    fstep {| s_fs := f; s_pool := pool |} {| s_fs := f; s_pool := set_nth pool i k |}.

(** Executable single-step function used by the trace validator: performs event [ev] of program
    number [i] on the shared state, or refuses. *)
Inductive sev := SRead (r : option (list N)) | SMutOk | SMutFail | SCut (n : nat) | SSkip | SMkPartial (made : path).

Definition sys_do (s : sys) (i : nat) (ev : sev) : option sys :=
  match nth_error (s_pool s) i with
  | Some (Read p off len k) =>
      match ev with SRead r => Some {| s_fs := s_fs s; s_pool := set_nth (s_pool s) i (k r) |} | _ => None end
  | Some (Mut o k) =>
      match ev with
      | SMutOk => match apply_op (s_fs s) o with
                  | (f', true) => Some {| s_fs := f'; s_pool := set_nth (s_pool s) i (k true) |}
                  | _ => None
                  end
      | SMutFail => Some {| s_fs := s_fs s; s_pool := set_nth (s_pool s) i (k false) |}
      | SCut n => match o with
                  | WriteAt p off d =>
                      match apply_op (s_fs s) (WriteAt p off (firstn n d)) with
                      | (f', true) => Some {| s_fs := f'; s_pool := set_nth (s_pool s) i (Ret Fault) |}
                      | _ => None
                      end
                  | _ => None
                  end
      | SMkPartial made =>
          match o with
          | MkdirAll p =>
              if path_prefix made p then
                match apply_op (s_fs s) (MkdirAll made) with
                | (f', true) => Some {| s_fs := f'; s_pool := set_nth (s_pool s) i (k false) |}
                | _ => None
                end
              else None
          | _ => None
          end
      | _ => None
      end
  | Some (Lock _ k) | Some (Unlock _ k) =>
      match ev with SSkip => Some {| s_fs := s_fs s; s_pool := set_nth (s_pool s) i k |} | _ => None end
  | _ => None
  end.

(** A whole schedule: which program moves, and how the environment answers. *)
Fixpoint sys_run (s : sys) (sched : list (nat * sev)) : option sys :=
  match sched with
  | [] => Some s
  | (i, ev) :: r => match sys_do s i ev with Some s' => sys_run s' r | None => None end
  end.

(** ** Replaying an observed event of program [i] on the shared state (used by the validator)
    The event must be what program [i] does next ([read_matches] / [op_eqb] as in [walk]); a
    successful read must return what the shared file system holds at that moment; [last] marks the
    final event of a killed run, which may be a write cut short. *)
Definition read_consistent (f : fs) (p : path) (off : N) (r : option (list N)) : bool :=
  match r with
  | None => true
  | Some d => match fs_file f p with
              | Some b => beq d (firstn (length d) (skipn (N.to_nat off) b))
              | None => false
              end
  end.

Definition sys_event (s : sys) (i : nat) (e : event) (last : bool) : option sys :=
  match nth_error (s_pool s) i with
  | Some (Read p off len k) =>
      match e with
      | ERead p' off' len' r =>
          if read_matches p off len p' off' r && read_consistent (s_fs s) p' off' r then sys_do s i (SRead r) else None
      | _ => None
      end
  | Some (Mut o k) =>
      match e with
      | EMut o' true =>
          if op_eqb o o' then sys_do s i SMutOk
          else if last && op_prefix o' o
               then match o' with WriteAt _ _ d' => sys_do s i (SCut (length d')) | _ => None end
               else None
      | EMut o' false => if op_same_target o o' then sys_do s i SMutFail else None
      | EMkPartial p' made =>
          match o with MkdirAll p => if path_eqb p p' then sys_do s i (SMkPartial made) else None | _ => None end
      | _ => None
      end
  | _ => None
  end.

(** Lock / unlock steps are not logged as file events: skip them. *)
Fixpoint sys_skip (fuel : nat) (s : sys) (i : nat) : sys :=
  match fuel with
  | O => s
  | S fuel' => match nth_error (s_pool s) i with
               | Some (Lock _ _) | Some (Unlock _ _) =>
                   match sys_do s i SSkip with Some s' => sys_skip fuel' s' i | None => s end
               | _ => s
               end
  end.
