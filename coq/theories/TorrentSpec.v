(** Specification of loading over the ABSTRACT bencode value (dictionary = association list
    looked up by exact key), independent of token trees and positions. *)
From TB Require Import Base Decimal BencodeModel BencodeSpec Utf8 Generated LayoutModel TorrentModel.
Local Open Scope N_scope.

(** Exact-key lookup in an abstract dictionary. *)
Fixpoint lookup (kvs : list (list N * bval)) (key : list N) : option bval :=
  match kvs with [] => None | (k, v) :: r => if beq key k then Some v else lookup r key end.

(** A key "is present as a string / integer / list / dictionary": bound to a value of that type
    (a key bound to a value of another type counts as absent). *)
Definition v_str (o : option bval) : option (list N) := match o with Some (BStr s) => Some s | _ => None end.
Definition v_int (o : option bval) : option Z := match o with Some (BInt z) => Some z | _ => None end.
Definition v_list (o : option bval) : option (list bval) := match o with Some (BList l) => Some l | _ => None end.
Definition v_dict (o : option bval) : option (list (list N * bval)) := match o with Some (BDict d) => Some d | _ => None end.

(** A path: non-empty list of strings, each valid UTF-8 and a plain component. *)
Fixpoint spec_paths (l : list bval) : option (list (list N)) :=
  match l with
  | [] => Some []
  | BStr s :: r => if utf8_valid s && is_plain s
                   then match spec_paths r with Some ps => Some (s :: ps) | None => None end else None
  | _ => None
  end.

(** One file: an unsigned 64-bit [length]; [path.utf-8] if it is a list, else [path], non-empty. *)
Definition spec_file (d : list (list N * bval)) : option tfile :=
  match v_int (lookup d key_file_length) with None => None | Some z =>
  match to_u64 z with None => None | Some flen =>
  match first_some (v_list (lookup d key_path_utf8)) (v_list (lookup d key_path)) with None => None | Some pl =>
  match spec_paths pl with None => None | Some ps =>
  match ps with [] => None | _ => Some {| f_length := flen; f_path := ps |} end end end end end.

Fixpoint spec_files (l : list bval) : option (list tfile) :=
  match l with
  | [] => Some []
  | BDict d :: r => match spec_file d with
                    | Some f => match spec_files r with Some fs => Some (f :: fs) | None => None end
                    | None => None end
  | _ => None
  end.

Definition sumN (l : list N) : N := fold_right N.add 0 l.

(** The info dictionary: name ([name.utf-8] if it is a string, else [name]) valid UTF-8 and plain;
    [pieces] a string of whole 20-byte hashes; [piece length] unsigned 64-bit; exactly one of
    [length] (an integer, then unsigned 64-bit) and [files] (a list, then non-empty and every
    element a file); as many hashes as ceil(total / piece length). *)
Definition spec_info (d : list (list N * bval)) (info_hash : list N) : option torrent :=
  match first_some (v_str (lookup d key_name_utf8)) (v_str (lookup d key_name)) with None => None | Some name =>
  if negb (utf8_valid name && is_plain name) then None else
  match v_str (lookup d key_pieces) with None => None | Some pcs =>
  if negb (len pcs mod hash_len =? 0) then None else
  let hashes := chunks (length pcs) (N.to_nat hash_len) pcs in
  match v_int (lookup d key_piece_length) with None => None | Some plz =>
  match to_u64 plz with None => None | Some pl =>
  match v_int (lookup d key_length), v_list (lookup d key_files) with
  | Some _, Some _ => None
  | None, None => None
  | Some z, None =>
      match to_u64 z with None => None | Some flen =>
      if hash_count_ok flen pl (len hashes) then
        Some {| t_name := name; t_length := Some flen; t_files := None; t_piece_length := pl;
                t_pieces := hashes; t_info_hash := info_hash |}
      else None end
  | None, Some l =>
      match spec_files l with None => None | Some fs =>
      match fs with [] => None | _ =>
      if hash_count_ok (sumN (map f_length fs)) pl (len hashes) then
        Some {| t_name := name; t_length := None; t_files := Some fs; t_piece_length := pl;
                t_pieces := hashes; t_info_hash := info_hash |}
      else None end end
  end end end end end.

Section Spec.
  Variable H : list N -> list N.
  (** The document: a dictionary whose [info] key is bound to a dictionary; the info-hash is the
      hash of the canonical encoding of that dictionary (= its exact bytes in the input). *)
  Definition spec_doc (v : bval) : option torrent :=
    match v with
    | BDict root => match v_dict (lookup root key_info) with
                    | Some info => spec_info info (H (enc (BDict info)))
                    | None => None end
    | _ => None
    end.
End Spec.
