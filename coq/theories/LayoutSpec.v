(** Closed-form specification of the piece layout: interval arithmetic over the
    concatenation of the files in torrent order. *)
From TB Require Import Base LayoutModel.
Local Open Scope N_scope.

Definition total (files : list N) : N := fold_right N.add 0 files.
Definition start_of (files : list N) (k : nat) : N := total (firstn k files).

(** Segments of files [k, k+1, ...] (the first starting at global offset [start]) that
    intersect the global interval [lo, hi). *)
Fixpoint segs_from (k : nat) (start : N) (files : list N) (lo hi : N) : list seg :=
  match files with [] => [] | len :: rest =>
    let a := N.max lo start in let b := N.min hi (start + len) in
    (if a <? b then [{| s_file := k; s_off := a - start; s_len := b - a; s_flen := len |}] else [])
    ++ segs_from (S k) (start + len) rest lo hi end.

(** Piece i covers [i*L, min((i+1)*L, total)). *)
Definition piece_lo (L : N) (i : nat) : N := N.of_nat i * L.
Definition piece_hi (files : list N) (L : N) (i : nat) : N := N.min ((N.of_nat i + 1) * L) (total files).
Definition spec_piece (files : list N) (L : N) (i : nat) : list seg :=
  segs_from 0 0 files (piece_lo L i) (piece_hi files L i).

Definition pos_segs (l : list seg) := filter (fun s => 0 <? s_len s) l.

(** A zero-length segment is only ever produced for an empty file, at offset 0. *)
Definition zero_ok (s : seg) : Prop := s_len s = 0 -> (s_flen s = 0 /\ s_off s = 0).

(** The loader's condition "as many hashes as ceil(total / piece length)", stated
    multiplicatively so that piece length 0 needs no convention. *)
Definition hashes_ok (files : list N) (L : N) (nh : nat) : Prop :=
  N.of_nat nh * L >= total files /\ (nh = 0%nat \/ (N.of_nat nh - 1) * L < total files).

Definition piece_ok (files : list N) (L : N) (i : nat) (p : piece) : Prop :=
  pos_segs (p_segs p) = spec_piece files L i /\ Forall zero_ok (p_segs p) /\
  p_len p = piece_hi files L i - piece_lo L i.

Definition in_u64 (files : list N) : Prop := Forall (fun x => x <= u64max) files.

(** Segment [s] contains byte [o] of file [k]. *)
Definition covers (s : seg) (k : nat) (o : N) : Prop := s_file s = k /\ s_off s <= o < s_off s + s_len s.
