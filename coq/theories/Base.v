(** Shared definitions: result type with explicit panic / fuel outcomes, machine-integer bounds. *)
From Coq Require Export List NArith ZArith Lia Bool Arith.
Export ListNotations.

Arguments N.add : simpl never. Arguments N.sub : simpl never. Arguments N.mul : simpl never.
Arguments N.ltb : simpl never. Arguments N.leb : simpl never. Arguments N.eqb : simpl never.
Arguments N.min : simpl never. Arguments N.max : simpl never.
Arguments N.div : simpl never. Arguments N.modulo : simpl never.

(** Outcome of a model function.  [Err] is a returned error value, [Panic] stands for
    any Rust panic (overflow in a debug build, index out of bounds, unwrap of None, ...),
    [OutOfFuel] for exhaustion of the explicit recursion fuel. *)
Inductive res (A : Type) := Ok (a : A) | Err | Panic | OutOfFuel.
Arguments Ok {A}. Arguments Err {A}. Arguments Panic {A}. Arguments OutOfFuel {A}.

Definition bind {A B} (r : res A) (f : A -> res B) : res B :=
  match r with Ok a => f a | Err => Err | Panic => Panic | OutOfFuel => OutOfFuel end.
Notation "'do' x <- r ; k" := (bind r (fun x => k)) (at level 200, x pattern, r at level 100, k at level 200).

Definition bytes := list N.

Definition u64max : N := 18446744073709551615.
Definition i128max : Z := 170141183460469231731687303715884105727.
Definition i128min : Z := (-170141183460469231731687303715884105728)%Z.

(** u64 addition as written in the Rust source without [checked_]: panics when it leaves the range
    (debug build; a release build wraps, which the theorems exclude by showing [Panic] is never produced). *)
Definition add64 (a b : N) : res N := if (a + b <=? u64max)%N then Ok (a + b)%N else Panic.
(** u64 subtraction: panics on underflow. *)
Definition sub64 (a b : N) : res N := if (b <=? a)%N then Ok (a - b)%N else Panic.

(** Flags of a [std::fs::OpenOptions] call site (filled in by Generated.v from the source). *)
Record open_flags := { of_read : bool; of_write : bool; of_create : bool; of_create_new : bool;
                       of_truncate : bool; of_append : bool }.
