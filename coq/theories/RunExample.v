(** A concrete instance of [run_setup] and two reachable states of its run (non-vacuity of the whole-run theorems). *)
From TB Require Import Base Decimal BencodeModel TorrentModel LayoutModel PathModel FsModel SolverModel FinderModel RunModel SolverProofs RunProofs FinderModel FsProofs SystemModel SystemProofs GlueProofs EstablishProofs CompleteProofs RerunProofs AvailProofs.
Local Open Scope N_scope.
Definition Hid (b : list N) : list N := b.
Definition ex_t : torrent := {| t_name := [97]; t_length := Some 2; t_files := None; t_piece_length := 2; t_pieces := [[7;8]]; t_info_hash := [1] |}.
Definition ex_export : path := [[101]].
Definition ex_ix : index := [(2, [([[115];[120]], (0, 5))])].
Definition ex_es := match populate ex_ix (metadata_table ex_export [ex_t] 0) with Ok es => es | _ => [] end.
Definition ex_ws := match work_of ex_es [ex_t] with Ok ws => ws | _ => [] end.
Definition ex_f0 : fs := {| fs_nodes := [([[101]], NDir); ([[115]], NDir); ([[115];[120]], NFile 5)]; fs_data := [(5, [7;8])] |}.
Definition ex_pool := map (solve_prog Hid) ex_ws.
Definition ex_content (e : entry) : list N := [7;8].
Definition ex_sched : list (nat * sev) := [(0%nat, SRead (Some [7;8])); (0%nat, SSkip); (0%nat, SMutOk); (0%nat, SMutOk); (0%nat, SMutOk); (0%nat, SMutOk); (0%nat, SSkip)].
Example ex_setup : run_setup Hid ex_content ex_export [ex_t] ex_ix ex_es ex_ws ex_f0 ex_pool.
Proof.
  unfold run_setup. split; [|split; [|split; [|split; [|split; [|split; [|split; [|split]]]]]]].
  - constructor; [|constructor]. split; [unfold u64max; cbn; lia|]. left. exists 2. repeat split; unfold u64max; try lia. 
  - constructor; [intros []|constructor].
  - reflexivity.
  - reflexivity.
  - intros e [<-|[]]. reflexivity.
  - constructor; [|constructor]. intros b Hb. exact Hb.
  - intros e1 e2 [[<-|[]] _] [[<-|[]] _] _. split; reflexivity.
  - intros e1 e2 i [[[<-|[]] _] _] [[[<-|[]] _] _]. split; reflexivity.
  - constructor; [|constructor]. eexists. split; [left; reflexivity|reflexivity].
Qed.

(** One complete schedule of that run (read the candidate, lock, create directories, open, set the
    length, write, unlock): a reachable state in which the export file holds the torrent's bytes. *)
Definition ex_target : path := [[101]; [48; 49]; [68; 97; 116; 97]; [97]].
Example ex_reach : exists s, sreach {| s_fs := ex_f0; s_pool := ex_pool |} s /\ s_pool s = [Ret Success] /\ fs_file (s_fs s) ex_target = Some [7; 8].
Proof.
  destruct (sys_run {| s_fs := ex_f0; s_pool := ex_pool |} ex_sched) as [s|] eqn:Er; [|vm_compute in Er; discriminate].
  exists s. split; [exact (sys_run_reach _ _ _ Er)|]. vm_compute in Er. inversion Er; subst. split; reflexivity.
Qed.
(** The same run cut in the middle of its write: one byte of two reached the file. *)
Definition ex_sched_cut : list (nat * sev) := [(0%nat, SRead (Some [7;8])); (0%nat, SSkip); (0%nat, SMutOk); (0%nat, SMutOk); (0%nat, SMutOk); (0%nat, SCut 1)].
Example ex_reach_cut : exists s, sreach {| s_fs := ex_f0; s_pool := ex_pool |} s /\ s_pool s = [Ret Fault] /\ fs_file (s_fs s) ex_target = Some [7; 0].
Proof.
  destruct (sys_run {| s_fs := ex_f0; s_pool := ex_pool |} ex_sched_cut) as [s|] eqn:Er; [|vm_compute in Er; discriminate].
  exists s. split; [exact (sys_run_reach _ _ _ Er)|]. vm_compute in Er. inversion Er; subst. split; reflexivity.
Qed.

(** The same complete run as a run of the fault-free sub-system (reads answered by the file system). *)
Example ex_freach : exists s, EstablishProofs.freach {| s_fs := ex_f0; s_pool := ex_pool |} s /\ nth_error (s_pool s) 0 = Some (Ret Success).
Proof.
  eexists. split.
  - unfold ex_pool, ex_ws, ex_es. vm_compute populate. vm_compute work_of. cbn [map].
    eapply EstablishProofs.fr_step. { eapply (fs_read_ _ _ 0%nat); vm_compute; reflexivity. }
    vm_compute. eapply EstablishProofs.fr_step. { eapply (fs_lock _ _ 0%nat); vm_compute; reflexivity. }
    vm_compute. eapply EstablishProofs.fr_step. { eapply (fs_mut _ _ 0%nat); vm_compute; reflexivity. }
    vm_compute. eapply EstablishProofs.fr_step. { eapply (fs_mut _ _ 0%nat); vm_compute; reflexivity. }
    vm_compute. eapply EstablishProofs.fr_step. { eapply (fs_mut _ _ 0%nat); vm_compute; reflexivity. }
    vm_compute. eapply EstablishProofs.fr_step. { eapply (fs_mut _ _ 0%nat); vm_compute; reflexivity. }
    vm_compute. eapply EstablishProofs.fr_step. { eapply (fs_unlock _ _ 0%nat); vm_compute; reflexivity. }
    vm_compute. apply EstablishProofs.fr_refl.
  - reflexivity.
Qed.

(** ... in which the piece stays available and unobstructed in every state (non-vacuity of C02's whole-run theorem). *)
Definition ex_pc : wpiece := match ex_ws with pc :: _ => pc | [] => {| w_segs := []; w_hash := [] |} end.
Definition ex_wit (s : pseg) : path := [[115];[120]].
Lemma ex_avail f : (forall q, In q (prefixes (parent ex_target)) -> is_file f q = false) -> is_dir f ex_target = false ->
  fs_read f [[115];[120]] 0 2 = Some [7;8] -> avail ex_content ex_pc ex_wit f.
Proof.
  intros H1 H2 H3. unfold avail. vm_compute w_segs. constructor; [|constructor]. intros _. cbn [ps_entry e_target ps_len ps_off].
  split; [exact H1|]. split; [exact H2|]. split; [discriminate|]. intros _. eexists. split; [reflexivity|]. split.
  - intros c [<-|[]]. rewrite H3. discriminate.
  - split; [now left|]. exact H3.
Qed.
Example ex_freachA : exists s, freachA ex_content ex_pc ex_wit {| s_fs := ex_f0; s_pool := ex_pool |} s /\ nth_error (s_pool s) 0 = Some (Ret Success).
Proof.
  assert (A : forall f, (forall q, In q (prefixes (parent ex_target)) -> is_file f q = false) -> is_dir f ex_target = false ->
              fs_read f [[115];[120]] 0 2 = Some [7;8] -> avail ex_content ex_pc ex_wit f) by exact ex_avail.
  eexists. split.
  - unfold ex_pool, ex_ws, ex_es. vm_compute populate. vm_compute work_of. cbn [map].
    eapply fa_step. { apply A; [intros q [<-|[<-|[<-|[]]]]; reflexivity|reflexivity|reflexivity]. } { eapply (fs_read_ _ _ 0%nat); vm_compute; reflexivity. }
    vm_compute. eapply fa_step. { apply A; [intros q [<-|[<-|[<-|[]]]]; reflexivity|reflexivity|reflexivity]. } { eapply (fs_lock _ _ 0%nat); vm_compute; reflexivity. }
    vm_compute. eapply fa_step. { apply A; [intros q [<-|[<-|[<-|[]]]]; reflexivity|reflexivity|reflexivity]. } { eapply (fs_mut _ _ 0%nat); vm_compute; reflexivity. }
    vm_compute. eapply fa_step. { apply A; [intros q [<-|[<-|[<-|[]]]]; reflexivity|reflexivity|reflexivity]. } { eapply (fs_mut _ _ 0%nat); vm_compute; reflexivity. }
    vm_compute. eapply fa_step. { apply A; [intros q [<-|[<-|[<-|[]]]]; reflexivity|reflexivity|reflexivity]. } { eapply (fs_mut _ _ 0%nat); vm_compute; reflexivity. }
    vm_compute. eapply fa_step. { apply A; [intros q [<-|[<-|[<-|[]]]]; reflexivity|reflexivity|reflexivity]. } { eapply (fs_mut _ _ 0%nat); vm_compute; reflexivity. }
    vm_compute. eapply fa_step. { apply A; [intros q [<-|[<-|[<-|[]]]]; reflexivity|reflexivity|reflexivity]. } { eapply (fs_unlock _ _ 0%nat); vm_compute; reflexivity. }
    vm_compute. apply fa_refl. apply A; [intros q [<-|[<-|[<-|[]]]]; reflexivity|reflexivity|reflexivity].
  - reflexivity.
Qed.

(** ... and the piece is STABLY available (its witness [s/x] is no export path of the table): the premises of
    RerunProofs.stable_available_means_recovered and rerun_recovers hold here, the first run being e.g. [ex_reach_cut]. *)
Example ex_stable : avail_stable ex_content ex_es ex_pc ex_wit ex_f0.
Proof.
  unfold avail_stable. vm_compute w_segs. constructor; [|constructor]. split.
  - assert (Hv : avail ex_content ex_pc ex_wit ex_f0) by (apply ex_avail; [intros q [<-|[<-|[<-|[]]]]; reflexivity|reflexivity|reflexivity]).
    unfold avail in Hv. vm_compute w_segs in Hv. inversion Hv; subst. assumption.
  - intros _. cbn [ps_entry e_target ps_len ps_off]. split.
    + split; intros e [Hin _]; vm_compute in Hin; destruct Hin as [<-|[]]; vm_compute; intuition discriminate.
    + intros _. exists 5. split; [reflexivity|]. left. intros e [[Hin _] Hl]. vm_compute in Hin. destruct Hin as [<-|[]]. vm_compute in Hl. discriminate.
Qed.

(** ... because its data is PRESENT in the sense of C02's statement (AvailProofs): the index [ex_ix] is exactly what
    gets registered in [ex_f0] when [s] is the scan directory, and [s/x] is a file of the declared length under it
    that holds the piece's bytes. *)
Definition ex_es0 := metadata_table ex_export [ex_t] 0.
Definition ex_under (p : path) : bool := match p with c :: _ => beq c [115] | [] => false end.
Example ex_ix_of_fs : ix_of_fs ex_f0 0 ex_under ex_es0 ex_ix.
Proof.
  intros n p id. split.
  - intros (ns & Hn & Hin). unfold nodes_of, ex_ix in Hn. cbn [assoc_n] in Hn. destruct (N.eqb_spec n 2) as [->|]; [|discriminate].
    inversion Hn; subst ns. destruct Hin as [Heq|[]]. inversion Heq; subst. left. eexists. split; [reflexivity|]. split; reflexivity.
  - intros [(l & Hl & Hu & Hr)|(e & He & Hr)].
    + unfold listed_of in Hl. destruct (fs_lookup ex_f0 p) as [[|i]|] eqn:El; try discriminate. inversion Hl; subst l. clear Hl.
      unfold fs_lookup in El. destruct p as [|c p]; [discriminate|]. cbn [ex_f0 fs_nodes assoc_path] in El.
      destruct (path_eqb (c :: p) [[101]]); [discriminate|]. destruct (path_eqb (c :: p) [[115]]); [discriminate|].
      destruct (path_eqb (c :: p) [[115]; [120]]) eqn:Ep; [|discriminate]. apply path_eqb_eq in Ep. rewrite Ep in *. inversion El; subst i.
      vm_compute in Hr. inversion Hr; subst. exists [([[115]; [120]], (0, 5))]. split; [reflexivity|now left].
    + vm_compute in He. destruct He as [<-|[]]. vm_compute in Hr. discriminate.
Qed.
Example ex_present : Forall (seg_present_stable ex_content ex_f0 ex_under ex_es0 ex_es) (w_segs ex_pc).
Proof.
  vm_compute w_segs. constructor; [|constructor]. intros _. cbn [ps_entry e_target ps_len ps_off].
  split; [intros q [<-|[<-|[<-|[]]]]; reflexivity|]. split; [reflexivity|]. split; [discriminate|]. split.
  - split; intros e [Hin _]; vm_compute in Hin; destruct Hin as [<-|[]]; vm_compute; intuition discriminate.
  - intros _. exists [[115]; [120]], 5. split.
    + split; [reflexivity|]. split; [reflexivity|]. split; [now left|reflexivity].
    + left. intros e [[Hin _] Hl]. vm_compute in Hin. destruct Hin as [<-|[]]. vm_compute in Hl. discriminate.
Qed.
