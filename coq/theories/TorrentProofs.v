(** Proofs about the loader model (C07, C09, C10). *)
From TB Require Import Base Decimal BencodeModel BencodeSpec BencodeProofs Utf8 Generated LayoutModel TorrentModel TorrentSpec.
From Coq Require Import ZifyN ZifyNat ZifyBool.
Local Open Scope N_scope.

Lemma beq_eq a : forall b, beq a b = true <-> a = b.
Proof.
  induction a as [|x a IH]; intros [|y b]; cbn [beq]; split; intros Hh; try discriminate; try reflexivity.
  - apply andb_true_iff in Hh. destruct Hh as [H1 H2]. apply N.eqb_eq in H1. apply IH in H2. congruence.
  - inversion Hh; subst. rewrite N.eqb_refl. cbn. now apply IH.
Qed.

(** ** Token-tree look-ups versus abstract look-ups *)

Lemma find_value_annot kvs : forall q key,
  match find_value (annot_kvs q kvs) key with
  | None => lookup kvs key = None
  | Some t => exists v p, lookup kvs key = Some v /\ t = annot p v /\
                          In t (flat_map (fun kv => fst kv :: subtoks (snd kv)) (annot_kvs q kvs))
  end.
Proof.
  induction kvs as [|[k a] r IH]; intros q key; cbn [annot_kvs find_value lookup]; [reflexivity|].
  destruct (beq key k) eqn:E.
  - exists a, (q + len (enc_str k)). split; [reflexivity|]. split; [reflexivity|].
    cbn [flat_map fst snd]. right. apply in_or_app. left. destruct (annot (q + len (enc_str k)) a); cbn; auto.
  - specialize (IH (q + len (enc_str k) + len (enc a)) key).
    destruct (find_value (annot_kvs (q + len (enc_str k) + len (enc a)) r) key) as [t|]; [|exact IH].
    destruct IH as (v & p & Hl & Ht & Hin). exists v, p. split; [exact Hl|]. split; [exact Ht|].
    cbn [flat_map fst snd]. right. apply in_or_app. right. exact Hin.
Qed.

Lemma find_str_annot kvs q key : find_str (annot_kvs q kvs) key = v_str (lookup kvs key).
Proof.
  unfold find_str. pose proof (find_value_annot kvs q key) as Hf.
  destruct (find_value (annot_kvs q kvs) key) as [t|]; [|now rewrite Hf].
  destruct Hf as (v & p & -> & -> & _). destruct v; reflexivity.
Qed.

Lemma find_int_annot kvs q key : find_int (annot_kvs q kvs) key = v_int (lookup kvs key).
Proof.
  unfold find_int. pose proof (find_value_annot kvs q key) as Hf.
  destruct (find_value (annot_kvs q kvs) key) as [t|]; [|now rewrite Hf].
  destruct Hf as (v & p & -> & -> & _). destruct v; reflexivity.
Qed.

Lemma find_list_annot kvs q key :
  match find_list (annot_kvs q kvs) key with
  | Some l => exists vs p, v_list (lookup kvs key) = Some vs /\ l = annot_list p vs
  | None => v_list (lookup kvs key) = None
  end.
Proof.
  unfold find_list. pose proof (find_value_annot kvs q key) as Hf.
  destruct (find_value (annot_kvs q kvs) key) as [t|]; [|now rewrite Hf].
  destruct Hf as (v & p & -> & -> & _). destruct v; try reflexivity.
  rewrite annot_list_eq. eexists _, _. split; reflexivity.
Qed.

Lemma find_dict_annot kvs q key :
  match find_dict (annot_kvs q kvs) key with
  | Some (l, s, e) => exists d, v_dict (lookup kvs key) = Some d /\ l = annot_kvs (s + 1) d /\
        In (annot s (BDict d)) (flat_map (fun kv => fst kv :: subtoks (snd kv)) (annot_kvs q kvs)) /\
        e = s + len (enc (BDict d))
  | None => v_dict (lookup kvs key) = None
  end.
Proof.
  unfold find_dict. pose proof (find_value_annot kvs q key) as Hf.
  destruct (find_value (annot_kvs q kvs) key) as [t|]; [|now rewrite Hf].
  destruct Hf as (v & p & -> & -> & Hin). destruct v; try reflexivity.
  rewrite annot_dict_eq in *. eexists. repeat split. exact Hin.
Qed.

(** ** Paths, files, info *)

Lemma eval_paths_annot l : forall p, eval_paths (annot_list p l) = spec_paths l.
Proof.
  induction l as [|a r IH]; intros p; cbn [annot_list eval_paths spec_paths]; [reflexivity|].
  destruct a; try reflexivity. cbn [annot]. rewrite IH. reflexivity.
Qed.

Lemma eval_file_annot d q : eval_file (annot_kvs q d) = spec_file d.
Proof.
  unfold eval_file, spec_file. rewrite find_int_annot.
  destruct (v_int (lookup d key_file_length)) as [z|]; [|reflexivity].
  destruct (to_u64 z) as [flen|]; [|reflexivity].
  pose proof (find_list_annot d q key_path_utf8) as H1. pose proof (find_list_annot d q key_path) as H2.
  destruct (find_list (annot_kvs q d) key_path_utf8) as [l1|].
  - destruct H1 as (vs & p & -> & ->). cbn [first_some]. rewrite eval_paths_annot. reflexivity.
  - rewrite H1. cbn [first_some].
    destruct (find_list (annot_kvs q d) key_path) as [l2|].
    + destruct H2 as (vs & p & -> & ->). rewrite eval_paths_annot. reflexivity.
    + rewrite H2. reflexivity.
Qed.

Lemma eval_files_annot l : forall p, eval_files (annot_list p l) = spec_files l.
Proof.
  induction l as [|a r IH]; intros p; cbn [annot_list eval_files spec_files]; [reflexivity|].
  destruct a; try reflexivity. rewrite annot_dict_eq. rewrite eval_file_annot, IH. reflexivity.
Qed.

Lemma sum128_ok l : forall acc, acc + sumN l <= u128max -> sum128 l acc = Ok (acc + sumN l).
Proof.
  induction l as [|x l IH]; intros acc Hb; cbn [sum128 sumN fold_right] in *.
  - f_equal. lia.
  - destruct (N.leb_spec (acc + x) u128max) as [_|]; [|lia].
    rewrite IH by (unfold sumN; lia). f_equal. unfold sumN. lia.
Qed.

(** The u128 sum cannot overflow: at most 2^64 files, each below 2^64. *)
Definition files_bounded (fs : list tfile) : Prop :=
  N.of_nat (length fs) <= u64max /\ Forall (fun f => f_length f <= u64max) fs.

Lemma sum_bounded fs : files_bounded fs -> sumN (map f_length fs) <= u128max.
Proof.
  intros [Hn Hf]. assert (Hs : sumN (map f_length fs) <= N.of_nat (length fs) * u64max).
  { clear Hn. induction Hf as [|f r Hf _ IH]; cbn [map sumN fold_right length]; [lia|].
    unfold sumN in *. lia. }
  unfold u128max, u64max in *. nia.
Qed.

Lemma to_u64_bound z n : to_u64 z = Some n -> n <= u64max.
Proof.
  unfold to_u64. destruct ((0 <=? z)%Z && (z <=? Z.of_N u64max)%Z) eqn:E; [|discriminate].
  intros Hh; inversion Hh; subst. apply andb_true_iff in E. lia.
Qed.

Lemma spec_file_bound d f : spec_file d = Some f -> f_length f <= u64max.
Proof.
  unfold spec_file. destruct (v_int _) as [z|]; [|discriminate].
  destruct (to_u64 z) as [flen|] eqn:E; [|discriminate].
  destruct (first_some _ _) as [pl|]; [|discriminate]. destruct (spec_paths pl) as [ps|]; [|discriminate].
  destruct ps; [discriminate|]. intros Hh; inversion Hh; subst. cbn. eapply to_u64_bound; eauto.
Qed.

Lemma spec_files_bound l : forall fs, spec_files l = Some fs ->
  Forall (fun f => f_length f <= u64max) fs /\ length fs = length l.
Proof.
  induction l as [|a r IH]; intros fs Hs; cbn [spec_files] in Hs.
  - inversion Hs; subst. split; [constructor|reflexivity].
  - destruct a; try discriminate. destruct (spec_file kvs) as [f|] eqn:Ef; [|discriminate].
    destruct (spec_files r) as [fs'|] eqn:Er; [|discriminate]. inversion Hs; subst.
    destruct (IH _ eq_refl) as [Hf Hl]. split; [constructor; [eapply spec_file_bound; eauto|exact Hf]|cbn; lia].
Qed.

Lemma eval_info_spec d q ih : N.of_nat (length d) <= u64max ->
  (forall l, v_list (lookup d key_files) = Some l -> N.of_nat (length l) <= u64max) ->
  eval_info (annot_kvs q d) ih = match spec_info d ih with Some t => Ok t | None => Err end.
Proof.
  intros _ Hfl. unfold eval_info, spec_info. rewrite !find_str_annot, !find_int_annot.
  destruct (first_some (v_str (lookup d key_name_utf8)) (v_str (lookup d key_name))) as [name|]; [|reflexivity].
  destruct (utf8_valid name); cbn [negb andb]; [|reflexivity].
  destruct (is_plain name); cbn [negb]; [|reflexivity].
  destruct (v_str (lookup d key_pieces)) as [pcs|]; [|reflexivity].
  destruct (negb (len pcs mod hash_len =? 0)); [reflexivity|].
  destruct (v_int (lookup d key_piece_length)) as [plz|]; [|reflexivity].
  destruct (to_u64 plz) as [pl|]; [|reflexivity].
  pose proof (find_list_annot d q key_files) as HF.
  destruct (v_int (lookup d key_length)) as [z|].
  - destruct (find_list (annot_kvs q d) key_files) as [l|].
    + destruct HF as (vs & p & -> & _). reflexivity.
    + rewrite HF. destruct (to_u64 z); [|reflexivity]. destruct (hash_count_ok _ _ _); reflexivity.
  - destruct (find_list (annot_kvs q d) key_files) as [l|].
    + destruct HF as (vs & p & Hv & ->). rewrite Hv. rewrite eval_files_annot.
      destruct (spec_files vs) as [fs|] eqn:Es; [|reflexivity]. destruct fs as [|f fs]; [reflexivity|].
      destruct (spec_files_bound _ _ Es) as [Hb Hl].
      rewrite sum128_ok.
      * cbn [bind]. rewrite N.add_0_l. destruct (hash_count_ok _ _ _); reflexivity.
      * rewrite N.add_0_l. apply sum_bounded. split; [rewrite Hl; auto|exact Hb].
    + rewrite HF. reflexivity.
Qed.

(** ** The whole loader *)

Lemma slice_chk_mid (pre m post : list N) :
  slice_chk (pre ++ m ++ post) (len pre) (len pre + len m) = Ok m.
Proof.
  unfold slice_chk. rewrite !len_app.
  destruct (N.leb_spec (len pre) (len pre + len m)); [|lia].
  destruct (N.leb_spec (len pre + len m) (len pre + (len m + len post))); [|lia].
  cbn [andb]. f_equal. apply (slice_mid pre m post).
Qed.

Lemma lookup_in kvs key v : lookup kvs key = Some v -> In (key, v) kvs.
Proof.
  induction kvs as [|[k a] r IH]; cbn [lookup]; [discriminate|].
  destruct (beq key k) eqn:E.
  - intros Hh; inversion Hh; subst. apply beq_eq in E. subst. now left.
  - intros Hh. right. now apply IH.
Qed.

Lemma enc_dict_len_ge kvs k v : In (k, v) kvs -> (length (enc v) <= length (enc (BDict kvs)))%nat.
Proof.
  intros Hin. cbn [enc length]. rewrite app_length.
  pose proof (in_flat_map_len (fun kv => enc_str (fst kv) ++ enc (snd kv)) (k, v) kvs Hin) as Hl.
  cbn [fst snd] in Hl. rewrite app_length in Hl. lia.
Qed.

Lemma enc_list_len_ge l : (length l <= length (enc (BList l)))%nat.
Proof.
  cbn [enc length]. rewrite app_length.
  pose proof (flat_map_len_ge enc l (fun a _ => enc_len_pos a)). lia.
Qed.

(** On encodings of canonical values the loader computes exactly the specification. *)
Lemma load_enc H v : canonical v -> len (enc v) <= u64max ->
  load H (enc v) = match spec_doc H v with Some t => Ok t | None => Err end.
Proof.
  intros Hc Hlen. unfold load.
  assert (Hd : decode (enc v) = Ok (annot 0 v)) by (apply decode_spec; eauto).
  rewrite Hd. destruct v as [s|z|l|root]; try reflexivity.
  rewrite annot_dict_eq. cbn [spec_doc].
  pose proof (find_dict_annot root (0 + 1) key_info) as Hf.
  destruct (find_dict (annot_kvs (0 + 1) root) key_info) as [[[l s] e]|]; [|now rewrite Hf].
  destruct Hf as (d & Hv & -> & Hin & ->). rewrite Hv.
  assert (Hsub : In (annot s (BDict d)) (subtoks (annot 0 (BDict root)))).
  { rewrite (annot_dict_eq 0 root). cbn [subtoks]. right. exact Hin. }
  destruct (annot_placed (BDict root) 0 [] [] eq_refl _ Hsub) as (pre & post & Hdoc & Hs & _).
  rewrite erase_annot in Hdoc. cbn [app] in Hdoc. rewrite app_nil_r in Hdoc.
  assert (Hst : tok_start (annot s (BDict d)) = s) by (rewrite annot_dict_eq; reflexivity).
  rewrite Hst in Hs. rewrite Hdoc, <- Hs, slice_chk_mid. cbn [bind].
  assert (Hlk : lookup root key_info = Some (BDict d)).
  { destruct (lookup root key_info) as [[| | |d']|]; cbn in Hv; try discriminate. now inversion Hv. }
  pose proof (enc_dict_len_ge _ _ _ (lookup_in _ _ _ Hlk)) as Hld.
  apply eval_info_spec.
  - unfold len in Hlen. pose proof (flat_map_len_ge (fun kv : list N * bval => enc_str (fst kv) ++ enc (snd kv)) d) as Hq.
    assert (length d <= length (enc (BDict d)))%nat.
    { cbn [enc length]. rewrite app_length. 
      assert (length d <= length (flat_map (fun kv : list N * bval => enc_str (fst kv) ++ enc (snd kv)) d))%nat.
      { apply Hq. intros a _. rewrite app_length. pose proof (enc_len_pos (snd a)). lia. }
      lia. }
    lia.
  - intros fl Hfl.
    assert (Hlk2 : lookup d key_files = Some (BList fl)).
    { destruct (lookup d key_files) as [[| | |]|]; cbn in Hfl; try discriminate. now inversion Hfl. }
    pose proof (enc_dict_len_ge _ _ _ (lookup_in _ _ _ Hlk2)) as Hl2.
    pose proof (enc_list_len_ge fl). unfold len in Hlen. lia.
Qed.

(** A byte string loads iff it is the canonical encoding of a value that meets the specification,
    and then the loaded torrent is the one the specification computes from that value. *)
Theorem load_iff_spec H x t : len x <= u64max ->
  (load H x = Ok t <-> exists v, canonical v /\ x = enc v /\ spec_doc H v = Some t).
Proof.
  intros Hlen. split.
  - intros Hl. unfold load in Hl.
    destruct (decode x) as [tk| | |] eqn:Hd; try discriminate.
    apply decode_spec in Hd. destruct Hd as (v & Hc & -> & ->).
    exists v. split; [exact Hc|]. split; [reflexivity|].
    pose proof (load_enc H v Hc Hlen) as He. unfold load in He.
    assert (Hd : decode (enc v) = Ok (annot 0 v)) by (apply decode_spec; eauto).
    rewrite Hd in He. rewrite He in Hl. destruct (spec_doc H v); [now inversion Hl|discriminate].
  - intros (v & Hc & -> & Hs). rewrite (load_enc H v Hc Hlen), Hs. reflexivity.
Qed.

(** Loading never panics and never runs out of fuel (C09, loader part). *)
Theorem load_total H x : len x <= u64max -> load H x <> Panic /\ load H x <> OutOfFuel.
Proof.
  intros Hlen. unfold load. destruct (decode x) as [tk| | |] eqn:Hd.
  - apply decode_spec in Hd. destruct Hd as (v & Hc & -> & ->).
    pose proof (load_enc H v Hc Hlen) as He. unfold load in He.
    assert (Hd : decode (enc v) = Ok (annot 0 v)) by (apply decode_spec; eauto).
    rewrite Hd in He. rewrite He. destruct (spec_doc H v); split; discriminate.
  - split; discriminate.
  - exfalso. revert Hd. apply decode_no_panic.
  - exfalso. revert Hd. apply decode_total.
Qed.

(** ** Consequences: info-hash (C07), exact keys and faithful fields (C10) *)

Lemma spec_info_fields d ih t : spec_info d ih = Some t ->
  t_info_hash t = ih /\
  first_some (v_str (lookup d key_name_utf8)) (v_str (lookup d key_name)) = Some (t_name t) /\
  utf8_valid (t_name t) = true /\ is_plain (t_name t) = true /\
  (exists pcs, v_str (lookup d key_pieces) = Some pcs /\ len pcs mod hash_len = 0 /\
               t_pieces t = chunks (length pcs) (N.to_nat hash_len) pcs) /\
  (exists plz, v_int (lookup d key_piece_length) = Some plz /\ to_u64 plz = Some (t_piece_length t)) /\
  ((exists z flen, v_int (lookup d key_length) = Some z /\ v_list (lookup d key_files) = None /\
      to_u64 z = Some flen /\ t_length t = Some flen /\ t_files t = None /\
      hash_count_ok flen (t_piece_length t) (len (t_pieces t)) = true) \/
   (exists l fs, v_int (lookup d key_length) = None /\ v_list (lookup d key_files) = Some l /\
      spec_files l = Some fs /\ fs <> [] /\ t_length t = None /\ t_files t = Some fs /\
      hash_count_ok (sumN (map f_length fs)) (t_piece_length t) (len (t_pieces t)) = true)).
Proof.
  unfold spec_info.
  destruct (first_some _ _) as [name|]; [|discriminate].
  destruct (utf8_valid name) eqn:Eu; cbn [andb negb]; [|discriminate].
  destruct (is_plain name) eqn:Ep; cbn [negb]; [|discriminate].
  destruct (v_str (lookup d key_pieces)) as [pcs|]; [|discriminate].
  destruct (len pcs mod hash_len =? 0) eqn:Em; cbn [negb]; [|discriminate]. apply N.eqb_eq in Em.
  destruct (v_int (lookup d key_piece_length)) as [plz|]; [|discriminate].
  destruct (to_u64 plz) as [pl|] eqn:Epl; [|discriminate].
  destruct (v_int (lookup d key_length)) as [z|]; destruct (v_list (lookup d key_files)) as [l|]; try discriminate.
  - destruct (to_u64 z) as [flen|] eqn:Ez; [|discriminate].
    destruct (hash_count_ok _ _ _) eqn:Eh; [|discriminate]. intros Hh; inversion Hh; subst; cbn.
    repeat split; auto. { eexists; repeat split; eauto. } { eexists; split; eauto. }
    left. exists z, flen. repeat split; auto.
  - destruct (spec_files l) as [fs|] eqn:Ef; [|discriminate]. destruct fs as [|f fs]; [discriminate|].
    destruct (hash_count_ok _ _ _) eqn:Eh; [|discriminate]. intros Hh; inversion Hh; subst; cbn.
    repeat split; auto. { eexists; repeat split; eauto. } { eexists; split; eauto. }
    right. exists l, (f :: fs). repeat split; auto. discriminate.
Qed.

(** The info-hash of a loaded torrent is H of exactly the bytes that encode the value bound to
    the top-level key "info", wherever they sit in the file. *)
Theorem info_hash_is_H_of_info_value H x t : len x <= u64max -> load H x = Ok t ->
  exists root info pre post,
    x = enc (BDict root) /\ canonical (BDict root) /\ lookup root key_info = Some (BDict info) /\
    x = pre ++ enc (BDict info) ++ post /\ t_info_hash t = H (enc (BDict info)).
Proof.
  intros Hlen Hl. apply (load_iff_spec H x t Hlen) in Hl. destruct Hl as (v & Hc & Hx & Hs).
  destruct v as [| | |root]; cbn [spec_doc] in Hs; try discriminate.
  destruct (lookup root key_info) as [[| | |info]|] eqn:Hk; cbn [v_dict] in Hs; try discriminate.
  apply spec_info_fields in Hs. destruct Hs as [Hih _].
  (* locate the info value inside the document *)
  assert (Hd : decode (enc (BDict root)) = Ok (annot 0 (BDict root))) by (apply decode_spec; eauto).
  pose proof (find_dict_annot root (0 + 1) key_info) as Hf. rewrite Hk in Hf. cbn [v_dict] in Hf.
  destruct (find_dict (annot_kvs (0 + 1) root) key_info) as [[[l s] e]|]; [|discriminate].
  destruct Hf as (d & Hv & _ & Hin & _). inversion Hv; subst d.
  assert (Hsub : In (annot s (BDict info)) (subtoks (annot 0 (BDict root)))).
  { rewrite (annot_dict_eq 0 root). cbn [subtoks]. right. exact Hin. }
  destruct (annot_placed (BDict root) 0 [] [] eq_refl _ Hsub) as (pre & post & Hdoc & _ & _).
  rewrite erase_annot in Hdoc. cbn [app] in Hdoc. rewrite app_nil_r in Hdoc.
  exists root, info, pre, post.
  split; [exact Hx|]. split; [exact Hc|]. split; [exact Hk|]. split; [rewrite Hx; exact Hdoc|exact Hih].
Qed.

(** Hence the info-hash depends only on the info value: other top-level keys, their order or size
    are irrelevant, and keys inside info that the loader ignores are hashed as they stand. *)
Theorem info_hash_indep_outer H x1 x2 t1 t2 root1 root2 info :
  len x1 <= u64max -> len x2 <= u64max ->
  load H x1 = Ok t1 -> load H x2 = Ok t2 ->
  x1 = enc (BDict root1) -> canonical (BDict root1) -> x2 = enc (BDict root2) -> canonical (BDict root2) ->
  lookup root1 key_info = Some info -> lookup root2 key_info = Some info ->
  t_info_hash t1 = t_info_hash t2.
Proof.
  intros L1 L2 H1 H2 E1 C1 E2 C2 K1 K2.
  destruct (info_hash_is_H_of_info_value H x1 t1 L1 H1) as (r1 & i1 & _ & _ & Ex1 & Cr1 & Kk1 & _ & Hh1).
  destruct (info_hash_is_H_of_info_value H x2 t2 L2 H2) as (r2 & i2 & _ & _ & Ex2 & Cr2 & Kk2 & _ & Hh2).
  assert (r1 = root1).
  { assert (BDict r1 = BDict root1) by (apply canonical_enc_inj; auto; congruence). congruence. }
  assert (r2 = root2).
  { assert (BDict r2 = BDict root2) by (apply canonical_enc_inj; auto; congruence). congruence. }
  subst. rewrite K1 in Kk1. rewrite K2 in Kk2. congruence.
Qed.

(** Exact-key lookup: in a canonical dictionary (keys strictly ascending) the scan returns the value
    of the unique key equal to the target. *)
Lemma blt_irrefl a : blt a a = false.
Proof. induction a as [|x a IH]; cbn [blt]; [reflexivity|]. rewrite N.ltb_irrefl. exact IH. Qed.

Lemma blt_trans a : forall b c, blt a b = true -> blt b c = true -> blt a c = true.
Proof.
  induction a as [|x a IH]; intros [|y b] [|z c]; cbn [blt]; try discriminate; try reflexivity.
  destruct (N.ltb_spec x y), (N.ltb_spec y x), (N.ltb_spec y z), (N.ltb_spec z y), (N.ltb_spec x z), (N.ltb_spec z x);
    try lia; try discriminate; try reflexivity. apply IH.
Qed.

Lemma keys_sorted_lt kvs : forall p, keys_sorted (Some p) kvs -> forall k v, In (k, v) kvs -> blt p k = true.
Proof.
  induction kvs as [|[k0 a] r IH]; intros p Hs k v Hin; [contradiction|].
  cbn [keys_sorted] in Hs. destruct Hs as (Hlt & _ & Hr). destruct Hin as [Hin|Hin].
  - inversion Hin; subst. exact Hlt.
  - eapply blt_trans; [exact Hlt|]. eapply IH; eauto.
Qed.

Theorem lookup_exact kvs : forall prev, keys_sorted prev kvs ->
  forall key v, lookup kvs key = Some v <-> In (key, v) kvs.
Proof.
  induction kvs as [|[k0 a] r IH]; intros prev Hs key v; cbn [lookup]; [split; [discriminate|contradiction]|].
  cbn [keys_sorted] in Hs. destruct Hs as (_ & _ & Hr).
  destruct (beq key k0) eqn:E.
  - apply beq_eq in E. subst k0. split.
    + intros Hh; inversion Hh; subst. now left.
    + intros [Hin|Hin]; [now inversion Hin|].
      pose proof (keys_sorted_lt r key Hr key v Hin) as Hlt. rewrite blt_irrefl in Hlt. discriminate.
  - split.
    + intros Hh. right. eapply IH; eauto.
    + intros [Hin|Hin].
      * inversion Hin; subst. assert (beq key key = true) by now apply beq_eq. congruence.
      * eapply IH; eauto.
Qed.

(** The hashes are the consecutive 20-byte blocks of the [pieces] string. *)
Lemma chunks_concat n : (0 < n)%nat -> forall fuel b, (length b <= fuel)%nat -> concat (chunks fuel n b) = b.
Proof.
  intros Hn. induction fuel as [|f IH]; intros b Hl; cbn [chunks].
  - destruct b; [reflexivity|cbn in Hl; lia].
  - destruct b as [|x b]; [reflexivity|]. cbn [concat]. rewrite IH.
    + apply firstn_skipn.
    + rewrite skipn_length. cbn [length] in *. lia.
Qed.

(** ** Hexadecimal rendering (directory name) *)

Definition unhex_digit (c : N) : N := if c <? 58 then c - 48 else c - 87.
Fixpoint unhex (l : list N) : list N :=
  match l with a :: b :: r => (unhex_digit a * 16 + unhex_digit b) :: unhex r | _ => [] end.
Definition is_lower_hex (c : N) : bool := ((48 <=? c) && (c <=? 57)) || ((97 <=? c) && (c <=? 102)).

Ltac Zify.zify_post_hook ::= Z.div_mod_to_equations.

Lemma hex_byte_props b : b < 256 ->
  Forall (fun c => is_lower_hex c = true) (hex_byte b) /\ unhex (hex_byte b) = [b].
Proof.
  intros Hb. unfold hex_byte, hex_digit, is_lower_hex, unhex, unhex_digit.
  assert (b / 16 < 16) by lia. assert (b mod 16 < 16) by lia.
  destruct (N.ltb_spec (b / 16) 10), (N.ltb_spec (b mod 16) 10); split;
    repeat constructor; try lia;
    repeat match goal with |- context [?a <? ?c] => destruct (N.ltb_spec a c); try lia end; f_equal; try lia.
Qed.

Theorem hex_length bs : length (hexdigest bs) = (2 * length bs)%nat.
Proof. unfold hexdigest. induction bs as [|b r IH]; cbn [flat_map length app hex_byte]; [reflexivity|]. cbn. lia. Qed.

Theorem hex_lowercase bs : Forall (fun b => b < 256) bs -> Forall (fun c => is_lower_hex c = true) (hexdigest bs).
Proof.
  unfold hexdigest. induction 1 as [|b r Hb _ IH]; cbn [flat_map]; [constructor|].
  apply Forall_app. split; [apply (hex_byte_props b Hb)|exact IH].
Qed.

Theorem hex_decodes bs : Forall (fun b => b < 256) bs -> unhex (hexdigest bs) = bs.
Proof.
  unfold hexdigest. induction 1 as [|b r Hb _ IH]; cbn [flat_map]; [reflexivity|].
  destruct (hex_byte_props b Hb) as [_ Hu]. unfold hex_byte in *. cbn [app unhex] in *.
  injection Hu as Hu'. f_equal; [exact Hu'|exact IH].
Qed.

Theorem hex_injective a b : Forall (fun x => x < 256) a -> Forall (fun x => x < 256) b ->
  hexdigest a = hexdigest b -> a = b.
Proof. intros Ha Hb He. rewrite <- (hex_decodes a Ha), <- (hex_decodes b Hb). now rewrite He. Qed.
