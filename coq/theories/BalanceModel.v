(** Model of [balance] (src/solver/solver.rs): drain every queue, order the work (multi-file pieces
    most complex first, then single-file pieces round-robin over their files, in the hash map's
    iteration order [order]), and deal it back to the queues one item at a time. *)
From Coq Require Import List Arith Lia Bool Permutation.
Import ListNotations.
From TB Require Import ExecModel.

Section Balance.
Variable piece : Type.
Variable nfiles : piece -> nat.        (* piece.files.len() *)
Variable gid : piece -> nat.           (* piece.files[0].metadata.id *)

(** Stable sort ascending by number of files ([sort_by]: equal elements keep their order - [x] is
    inserted from the right, before the first element that is not smaller), then [reverse]. *)
Fixpoint ins (x : piece) (l : list piece) : list piece :=
  match l with [] => [x] | y :: r => if nfiles y <? nfiles x then y :: ins x r else x :: l end.
Fixpoint sort_asc (l : list piece) : list piece := match l with [] => [] | x :: r => ins x (sort_asc r) end.

(** One round over the groups: the last element of every non-empty group. *)
Fixpoint take_lasts (gs : list (list piece)) : list piece * list (list piece) :=
  match gs with
  | [] => ([], [])
  | g :: r => let '(out, r') := take_lasts r in
              match rev g with [] => (out, g :: r') | x :: g' => (x :: out, rev g' :: r') end
  end.
Fixpoint rr (fuel : nat) (gs : list (list piece)) : list piece :=
  match fuel with O => [] | S f => let '(out, gs') := take_lasts gs in match out with [] => [] | _ => out ++ rr f gs' end end.

(** [order]: the group ids in the hash map's iteration order. *)
Definition arrange (order : list nat) (entries : list piece) : list piece :=
  let multis := filter (fun p => negb (nfiles p =? 1)) entries in
  let singles := filter (fun p => nfiles p =? 1) entries in
  let groups := map (fun g => filter (fun p => gid p =? g) singles) order in
  rev (sort_asc multis) ++ rr (S (length singles)) groups.

(** Dealing: item after item to queue 0, 1, ..., a-1, 0, ... each pushed at the end. *)
Fixpoint deal (a : nat) (l : list piece) (start : nat) (f : nat -> list piece) : nat -> list piece :=
  match l with [] => f | x :: r => deal a r (if S start <? a then S start else 0) (upd f start (f start ++ [x])) end.

Definition balance (order : list nat) (a : nat) (f : nat -> list piece) : nat -> list piece :=
  match a with
  | O => f
  | _ => deal a (arrange order (flat piece a f)) 0 (fun i => if i <? a then [] else f i)
  end.
End Balance.

(** The rebalancing relation used by the executor model: the result for SOME admissible
    iteration order of the hash map (each group id of a single-file piece listed exactly once). *)
Definition order_ok {piece} (nfiles gid : piece -> nat) (order : list nat) (entries : list piece) : Prop :=
  NoDup order /\ forall p, In p entries -> nfiles p = 1 -> In (gid p) order.

Definition balanced {piece} (nfiles gid : piece -> nat) (a : nat) (f f' : nat -> list piece) : Prop :=
  exists order, order_ok nfiles gid order (flat piece a f) /\ forall i, f' i = balance piece nfiles gid order a f i.
