(** Model of src/bencode/parser.rs (Parser::decode) as a fuelled function on the remaining
    input suffix; every token carries (start, continuation) positions.
    The per-digit checked_mul / checked_add accumulation of the Rust automata is written as
    "take the digit run, evaluate, range-check": equal as a function, since an overflow at digit k
    and a range failure at the end both yield Err. *)
From TB Require Import Base Decimal.
Local Open Scope N_scope.

Inductive tok :=
| TStr (v : list N) (s e : N) | TInt (z : Z) (s e : N)
| TList (l : list tok) (s e : N) | TDict (l : list (tok * tok)) (s e : N).

Definition len {A} (l : list A) : N := N.of_nat (length l).

(* lexicographic order on byte strings: Vec<u8>::cmp *)
Fixpoint blt (a b : list N) : bool :=
  match a, b with
  | [], [] => false | [], _ :: _ => true | _ :: _, [] => false
  | x :: a', y :: b' => if x <? y then true else if y <? x then false else blt a' b'
  end.

Definition i128_min : Z := (- 2 ^ 127)%Z.
Definition i128_max : Z := (2 ^ 127 - 1)%Z.
Definition usize_max : N := 2 ^ 64 - 1.

(* ------------ decoder ------------- *)
Fixpoint take_digits (rest : list N) : list N * list N :=
  match rest with
  | d :: r => if is_digit d then let '(ds, r') := take_digits r in (d :: ds, r') else ([], rest)
  | [] => ([], [])
  end.

Definition canon_b (ds : list N) : bool :=
  match ds with [] => false | d :: r => if d =? 48 then (match r with [] => true | _ => false end) else true end.

(* string at position p; rest starts with a digit *)
Definition dec_str (p : N) (rest : list N) : res (list N * N * list N) :=
  let '(ds, r1) := take_digits rest in
  if negb (canon_b ds) then Err else
  let n := horner 0 ds in
  if usize_max <? n then Err else
  match r1 with
  | c :: r2 =>
      if negb (c =? 58) then Err else
      if len r2 <? n then Err
      else Ok (firstn (N.to_nat n) r2, p + len ds + 1 + n, skipn (N.to_nat n) r2)
  | [] => Err
  end.

(* integer at position p; rest starts with 'i' *)
Definition dec_int (p : N) (rest : list N) : res (Z * N * list N) :=
  match rest with
  | c0 :: r0 =>
      if negb (c0 =? 105) then Err else
      let '(neg, r1) := match r0 with c :: r => if c =? 45 then (true, r) else (false, r0) | [] => (false, r0) end in
      let '(ds, r2) := take_digits r1 in
      if negb (canon_b ds) then Err else
      let m := horner 0 ds in
      if neg && (m =? 0) then Err else
      let z := if neg then (- Z.of_N m)%Z else Z.of_N m in
      if ((z <? i128_min) || (i128_max <? z))%Z then Err else
      match r2 with
      | c :: r3 => if c =? 101 then Ok (z, p + 1 + (if neg then 1 else 0) + len ds + 1, r3) else Err
      | [] => Err
      end
  | [] => Err
  end.

Section Loops.
Variable dec : N -> list N -> res (tok * N * list N).
Fixpoint elems (g : nat) (p0 q : N) (rs : list N) (acc : list tok) {struct g} : res (tok * N * list N) :=
  match g with O => OutOfFuel | S g' =>
  match rs with
  | [] => Err
  | c :: r' => if c =? 101 then Ok (TList (rev acc) p0 (q + 1), q + 1, r')
               else match dec q rs with
                    | Ok (t, q', rs') => elems g' p0 q' rs' (t :: acc)
                    | Err => Err | Panic => Panic | OutOfFuel => OutOfFuel end
  end end.
Fixpoint pairs (g : nat) (p0 : N) (prev : option (list N)) (q : N) (rs : list N) (acc : list (tok * tok)) {struct g}
  : res (tok * N * list N) :=
  match g with O => OutOfFuel | S g' =>
  match rs with
  | [] => Err
  | c :: r' =>
    if c =? 101 then Ok (TDict (rev acc) p0 (q + 1), q + 1, r')
    else if is_digit c then
      match dec_str q rs with
      | Ok (k, q1, rs1) =>
          if match prev with None => true | Some pk => blt pk k end then
            match dec q1 rs1 with
            | Ok (t, q2, rs2) => pairs g' p0 (Some k) q2 rs2 ((TStr k q q1, t) :: acc)
            | Err => Err | Panic => Panic | OutOfFuel => OutOfFuel end
          else Err
      | Err => Err | Panic => Panic | OutOfFuel => OutOfFuel end
    else Err
  end end.
End Loops.

Fixpoint dec_any (fuel : nat) (p : N) (rest : list N) {struct fuel} : res (tok * N * list N) :=
  match fuel with O => OutOfFuel | S f =>
  match rest with
  | [] => Err
  | b :: r =>
    if is_digit b then
      match dec_str p rest with Ok (s, p', r') => Ok (TStr s p p', p', r') | Err => Err | Panic => Panic | OutOfFuel => OutOfFuel end
    else if b =? 105 then
      match dec_int p rest with Ok (z, p', r') => Ok (TInt z p p', p', r') | Err => Err | Panic => Panic | OutOfFuel => OutOfFuel end
    else if b =? 108 then elems (dec_any f) f p (p + 1) r []
    else if b =? 100 then pairs (dec_any f) f p None (p + 1) r []
    else Err
  end end.

Definition decode (x : list N) : res tok :=
  match dec_any (S (length x)) 0 x with
  | Ok (t, _, []) => Ok t
  | Ok (_, _, _ :: _) => Err
  | Err => Err | Panic => Panic | OutOfFuel => OutOfFuel end.

