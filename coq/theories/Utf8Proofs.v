(** What [utf8_valid] means (C10: "a UTF-8 name", "UTF-8 path strings"): it accepts exactly the
    byte strings that are the UTF-8 encoding (RFC 3629) of a sequence of Unicode scalar values -
    code points 0..0x10FFFF without the surrogates 0xD800..0xDFFF, each in its shortest form. *)
From TB Require Import Base Decimal Utf8.
From Coq Require Import ZifyN ZifyNat ZifyBool.
Local Open Scope N_scope.

Definition scalar (c : N) : Prop := c < 55296 \/ (57343 < c /\ c <= 1114111).

Definition enc_cp (c : N) : list N :=
  if c <=? 127 then [c]
  else if c <=? 2047 then [192 + c / 64; 128 + c mod 64]
  else if c <=? 65535 then [224 + c / 4096; 128 + (c / 64) mod 64; 128 + c mod 64]
  else [240 + c / 262144; 128 + (c / 4096) mod 64; 128 + (c / 64) mod 64; 128 + c mod 64].

Definition encode (cps : list N) : list N := flat_map enc_cp cps.

Lemma inr_spec lo hi b : inr lo hi b = true <-> lo <= b <= hi.
Proof. unfold inr. lia. Qed.

(** One step of the validator, as a specification: the first code point and the rest. *)
Lemma valid_f_mono : forall f bs, (length bs < f)%nat -> utf8_valid_f f bs = utf8_valid_f (S (length bs)) bs.
Proof.
  assert (G : forall n f1 f2 bs, (length bs <= n)%nat -> (length bs < f1)%nat -> (length bs < f2)%nat -> utf8_valid_f f1 bs = utf8_valid_f f2 bs).
  { induction n as [|n IH]; intros f1 f2 bs Hn H1 H2.
    - destruct bs; [|cbn in Hn; lia]. destruct f1, f2; reflexivity.
    - destruct f1 as [|f1]; [lia|]. destruct f2 as [|f2]; [lia|]. destruct bs as [|b0 r]; [reflexivity|].
      cbn [utf8_valid_f]. cbn [length] in *.
      assert (R0 : utf8_valid_f f1 r = utf8_valid_f f2 r) by (apply IH; lia).
      destruct (b0 <=? 127); [exact R0|].
      destruct (inr 194 223 b0). { destruct r as [|b1 r']; [reflexivity|]. f_equal. apply IH; cbn [length] in *; lia. }
      destruct (b0 =? 224). { destruct r as [|b1 [|b2 r']]; try reflexivity. f_equal. apply IH; cbn [length] in *; lia. }
      destruct (inr 225 236 b0 || inr 238 239 b0). { destruct r as [|b1 [|b2 r']]; try reflexivity. f_equal. apply IH; cbn [length] in *; lia. }
      destruct (b0 =? 237). { destruct r as [|b1 [|b2 r']]; try reflexivity. f_equal. apply IH; cbn [length] in *; lia. }
      destruct (b0 =? 240). { destruct r as [|b1 [|b2 [|b3 r']]]; try reflexivity. f_equal. apply IH; cbn [length] in *; lia. }
      destruct (inr 241 243 b0). { destruct r as [|b1 [|b2 [|b3 r']]]; try reflexivity. f_equal. apply IH; cbn [length] in *; lia. }
      destruct (b0 =? 244). { destruct r as [|b1 [|b2 [|b3 r']]]; try reflexivity. f_equal. apply IH; cbn [length] in *; lia. }
      reflexivity. }
  intros f bs Hf. apply (G (length bs)); lia.
Qed.

Lemma valid_f_S f b0 r :
  utf8_valid_f (S f) (b0 :: r) =
    if b0 <=? 127 then utf8_valid_f f r
    else if inr 194 223 b0 then match r with b1 :: r' => inr 128 191 b1 && utf8_valid_f f r' | _ => false end
    else if b0 =? 224 then match r with b1 :: b2 :: r' => inr 160 191 b1 && inr 128 191 b2 && utf8_valid_f f r' | _ => false end
    else if inr 225 236 b0 || inr 238 239 b0 then match r with b1 :: b2 :: r' => inr 128 191 b1 && inr 128 191 b2 && utf8_valid_f f r' | _ => false end
    else if b0 =? 237 then match r with b1 :: b2 :: r' => inr 128 159 b1 && inr 128 191 b2 && utf8_valid_f f r' | _ => false end
    else if b0 =? 240 then match r with b1 :: b2 :: b3 :: r' => inr 144 191 b1 && inr 128 191 b2 && inr 128 191 b3 && utf8_valid_f f r' | _ => false end
    else if inr 241 243 b0 then match r with b1 :: b2 :: b3 :: r' => inr 128 191 b1 && inr 128 191 b2 && inr 128 191 b3 && utf8_valid_f f r' | _ => false end
    else if b0 =? 244 then match r with b1 :: b2 :: b3 :: r' => inr 128 143 b1 && inr 128 191 b2 && inr 128 191 b3 && utf8_valid_f f r' | _ => false end
    else false.
Proof. reflexivity. Qed.

Lemma valid_cons_unfold b0 r :
  utf8_valid (b0 :: r) =
    if b0 <=? 127 then utf8_valid r
    else if inr 194 223 b0 then match r with b1 :: r' => inr 128 191 b1 && utf8_valid r' | _ => false end
    else if b0 =? 224 then match r with b1 :: b2 :: r' => inr 160 191 b1 && inr 128 191 b2 && utf8_valid r' | _ => false end
    else if inr 225 236 b0 || inr 238 239 b0 then match r with b1 :: b2 :: r' => inr 128 191 b1 && inr 128 191 b2 && utf8_valid r' | _ => false end
    else if b0 =? 237 then match r with b1 :: b2 :: r' => inr 128 159 b1 && inr 128 191 b2 && utf8_valid r' | _ => false end
    else if b0 =? 240 then match r with b1 :: b2 :: b3 :: r' => inr 144 191 b1 && inr 128 191 b2 && inr 128 191 b3 && utf8_valid r' | _ => false end
    else if inr 241 243 b0 then match r with b1 :: b2 :: b3 :: r' => inr 128 191 b1 && inr 128 191 b2 && inr 128 191 b3 && utf8_valid r' | _ => false end
    else if b0 =? 244 then match r with b1 :: b2 :: b3 :: r' => inr 128 143 b1 && inr 128 191 b2 && inr 128 191 b3 && utf8_valid r' | _ => false end
    else false.
Proof.
  unfold utf8_valid at 1. cbn [length]. rewrite valid_f_S.
  assert (M : forall r', (length r' <= length r)%nat -> utf8_valid_f (S (length r)) r' = utf8_valid r')
    by (intros r' Hl; apply valid_f_mono; lia).
  destruct (b0 <=? 127); [reflexivity|].
  destruct (inr 194 223 b0). { destruct r as [|b1 r']; [reflexivity|]. rewrite M by (cbn [length]; lia). reflexivity. }
  destruct (b0 =? 224). { destruct r as [|b1 [|b2 r']]; try reflexivity. rewrite M by (cbn [length]; lia). reflexivity. }
  destruct (inr 225 236 b0 || inr 238 239 b0). { destruct r as [|b1 [|b2 r']]; try reflexivity. rewrite M by (cbn [length]; lia). reflexivity. }
  destruct (b0 =? 237). { destruct r as [|b1 [|b2 r']]; try reflexivity. rewrite M by (cbn [length]; lia). reflexivity. }
  destruct (b0 =? 240). { destruct r as [|b1 [|b2 [|b3 r']]]; try reflexivity. rewrite M by (cbn [length]; lia). reflexivity. }
  destruct (inr 241 243 b0). { destruct r as [|b1 [|b2 [|b3 r']]]; try reflexivity. rewrite M by (cbn [length]; lia). reflexivity. }
  destruct (b0 =? 244). { destruct r as [|b1 [|b2 [|b3 r']]]; try reflexivity. rewrite M by (cbn [length]; lia). reflexivity. }
  reflexivity.
Qed.

(** ** Encodings of scalar values are accepted *)
Ltac branch_false := match goal with |- context [if ?b then _ else _] => let E := fresh in destruct b eqn:E; [exfalso; unfold inr in *; lia|] end.
Ltac branch_true := match goal with |- context [if ?b then _ else _] => let E := fresh in destruct b eqn:E; [|exfalso; unfold inr in *; lia] end.

Lemma valid_enc_cp c rest : scalar c -> utf8_valid (enc_cp c ++ rest) = utf8_valid rest.
Proof.
  intros Hs. unfold scalar in Hs. unfold enc_cp.
  destruct (N.leb_spec c 127) as [H1|H1].
  - cbn [app]. rewrite valid_cons_unfold. branch_true. reflexivity.
  - destruct (N.leb_spec c 2047) as [H2|H2].
    + cbn [app]. rewrite valid_cons_unfold. branch_false. branch_true.
      assert (Hb : inr 128 191 (128 + c mod 64) = true) by (unfold inr; lia). rewrite Hb. reflexivity.
    + destruct (N.leb_spec c 65535) as [H3|H3].
      * cbn [app]. rewrite valid_cons_unfold. branch_false. branch_false.
        assert (Hb2 : inr 128 191 (128 + c mod 64) = true) by (unfold inr; lia).
        destruct (224 + c / 4096 =? 224) eqn:E0.
        -- assert (Hb1 : inr 160 191 (128 + (c / 64) mod 64) = true) by (unfold inr; lia). rewrite Hb1, Hb2. reflexivity.
        -- destruct (inr 225 236 (224 + c / 4096) || inr 238 239 (224 + c / 4096)) eqn:E1.
           ++ assert (Hb1 : inr 128 191 (128 + (c / 64) mod 64) = true) by (unfold inr; lia). rewrite Hb1, Hb2. reflexivity.
           ++ branch_true. assert (Hb1 : inr 128 159 (128 + (c / 64) mod 64) = true) by (unfold inr in *; lia). rewrite Hb1, Hb2. reflexivity.
      * cbn [app]. rewrite valid_cons_unfold. branch_false. branch_false. branch_false. branch_false. branch_false.
        assert (Hb2 : inr 128 191 (128 + (c / 64) mod 64) = true) by (unfold inr; lia).
        assert (Hb3 : inr 128 191 (128 + c mod 64) = true) by (unfold inr; lia).
        destruct (240 + c / 262144 =? 240) eqn:E0.
        -- assert (Hb1 : inr 144 191 (128 + (c / 4096) mod 64) = true) by (unfold inr; lia). rewrite Hb1, Hb2, Hb3. reflexivity.
        -- destruct (inr 241 243 (240 + c / 262144)) eqn:E1.
           ++ assert (Hb1 : inr 128 191 (128 + (c / 4096) mod 64) = true) by (unfold inr; lia). rewrite Hb1, Hb2, Hb3. reflexivity.
           ++ branch_true. assert (Hb1 : inr 128 143 (128 + (c / 4096) mod 64) = true) by (unfold inr in *; lia). rewrite Hb1, Hb2, Hb3. reflexivity.
Qed.

Theorem encode_valid cps : Forall scalar cps -> utf8_valid (encode cps) = true.
Proof.
  induction 1 as [|c r Hc _ IH]; [reflexivity|]. unfold encode. cbn [flat_map]. rewrite valid_enc_cp by exact Hc. exact IH.
Qed.

(** ** Accepted strings are encodings of scalar values *)
Lemma valid_decode_aux : forall n bs, (length bs <= n)%nat -> utf8_valid bs = true -> exists cps, Forall scalar cps /\ bs = encode cps.
Proof.
  induction n as [|n IH]; intros bs Hn Hv.
  - destruct bs; [exists []; split; [constructor|reflexivity]|cbn in Hn; lia].
  - destruct bs as [|b0 r]; [exists []; split; [constructor|reflexivity]|].
    rewrite valid_cons_unfold in Hv. cbn [length] in Hn.
    assert (K : forall c r', (length r' <= n)%nat -> utf8_valid r' = true -> scalar c -> b0 :: r = enc_cp c ++ r' ->
                exists cps, Forall scalar cps /\ b0 :: r = encode cps).
    { intros c r' Hl Hv' Hs He. destruct (IH r' Hl Hv') as (cps & Hc & ->). exists (c :: cps). split; [constructor; assumption|exact He]. }
    destruct (N.leb_spec b0 127) as [H0|H0].
    + apply (K b0 r); [lia|exact Hv|unfold scalar; lia|]. unfold enc_cp. destruct (N.leb_spec b0 127); [reflexivity|lia].
    + destruct (inr 194 223 b0) eqn:E1.
      { destruct r as [|b1 r']; [discriminate|]. apply andb_true_iff in Hv. destruct Hv as [V1 Hv]. unfold inr in *.
        apply (K ((b0 - 192) * 64 + (b1 - 128)) r'); [cbn [length] in Hn; lia|exact Hv|unfold scalar; lia|].
        unfold enc_cp. destruct (N.leb_spec ((b0 - 192) * 64 + (b1 - 128)) 127); [lia|].
        destruct (N.leb_spec ((b0 - 192) * 64 + (b1 - 128)) 2047); [|lia]. cbn [app]. f_equal; [lia|f_equal; lia]. }
      destruct (b0 =? 224) eqn:E2.
      { destruct r as [|b1 [|b2 r']]; try discriminate. apply andb_true_iff in Hv. destruct Hv as [V Hv]. apply andb_true_iff in V. destruct V as [V1 V2]. unfold inr in *.
        apply (K ((b0 - 224) * 4096 + (b1 - 128) * 64 + (b2 - 128)) r'); [cbn [length] in Hn; lia|exact Hv|unfold scalar; lia|].
        unfold enc_cp. set (c := (b0 - 224) * 4096 + (b1 - 128) * 64 + (b2 - 128)).
        destruct (N.leb_spec c 127); [subst c; lia|]. destruct (N.leb_spec c 2047); [subst c; lia|]. destruct (N.leb_spec c 65535); [|subst c; lia].
        cbn [app]. subst c. f_equal; [lia|f_equal; [lia|f_equal; lia]]. }
      destruct (inr 225 236 b0 || inr 238 239 b0) eqn:E3.
      { destruct r as [|b1 [|b2 r']]; try discriminate. apply andb_true_iff in Hv. destruct Hv as [V Hv]. apply andb_true_iff in V. destruct V as [V1 V2]. unfold inr in *.
        apply (K ((b0 - 224) * 4096 + (b1 - 128) * 64 + (b2 - 128)) r'); [cbn [length] in Hn; lia|exact Hv|unfold scalar; lia|].
        unfold enc_cp. set (c := (b0 - 224) * 4096 + (b1 - 128) * 64 + (b2 - 128)).
        destruct (N.leb_spec c 127); [subst c; lia|]. destruct (N.leb_spec c 2047); [subst c; lia|]. destruct (N.leb_spec c 65535); [|subst c; lia].
        cbn [app]. subst c. f_equal; [lia|f_equal; [lia|f_equal; lia]]. }
      destruct (b0 =? 237) eqn:E4.
      { destruct r as [|b1 [|b2 r']]; try discriminate. apply andb_true_iff in Hv. destruct Hv as [V Hv]. apply andb_true_iff in V. destruct V as [V1 V2]. unfold inr in *.
        apply (K ((b0 - 224) * 4096 + (b1 - 128) * 64 + (b2 - 128)) r'); [cbn [length] in Hn; lia|exact Hv|unfold scalar; lia|].
        unfold enc_cp. set (c := (b0 - 224) * 4096 + (b1 - 128) * 64 + (b2 - 128)).
        destruct (N.leb_spec c 127); [subst c; lia|]. destruct (N.leb_spec c 2047); [subst c; lia|]. destruct (N.leb_spec c 65535); [|subst c; lia].
        cbn [app]. subst c. f_equal; [lia|f_equal; [lia|f_equal; lia]]. }
      assert (K4 : forall b1 b2 b3 r', r = b1 :: b2 :: b3 :: r' -> 128 <= b1 <= 191 -> 128 <= b2 <= 191 -> 128 <= b3 <= 191 -> 240 <= b0 <= 244 ->
                   (b0 = 240 -> 144 <= b1) -> (b0 = 244 -> b1 <= 143) -> utf8_valid r' = true ->
                   exists cps, Forall scalar cps /\ b0 :: r = encode cps).
      { intros b1 b2 b3 r' -> R1 R2 R3 R0 Rlo Rhi Hv'.
        apply (K ((b0 - 240) * 262144 + (b1 - 128) * 4096 + (b2 - 128) * 64 + (b3 - 128)) r'); [cbn [length] in Hn; lia|exact Hv'|unfold scalar; lia|].
        unfold enc_cp. set (c := (b0 - 240) * 262144 + (b1 - 128) * 4096 + (b2 - 128) * 64 + (b3 - 128)).
        destruct (N.leb_spec c 127); [subst c; lia|]. destruct (N.leb_spec c 2047); [subst c; lia|]. destruct (N.leb_spec c 65535); [subst c; lia|].
        cbn [app]. subst c. f_equal; [lia|f_equal; [lia|f_equal; [lia|f_equal; lia]]]. }
      destruct (b0 =? 240) eqn:E5.
      { destruct r as [|b1 [|b2 [|b3 r']]]; try discriminate. apply andb_true_iff in Hv. destruct Hv as [V Hv]. apply andb_true_iff in V. destruct V as [V V3]. apply andb_true_iff in V. destruct V as [V1 V2].
        unfold inr in *. apply (K4 b1 b2 b3 r' eq_refl); try lia; try exact Hv. }
      destruct (inr 241 243 b0) eqn:E6.
      { destruct r as [|b1 [|b2 [|b3 r']]]; try discriminate. apply andb_true_iff in Hv. destruct Hv as [V Hv]. apply andb_true_iff in V. destruct V as [V V3]. apply andb_true_iff in V. destruct V as [V1 V2].
        unfold inr in *. apply (K4 b1 b2 b3 r' eq_refl); try lia; try exact Hv. }
      destruct (b0 =? 244) eqn:E7; [|discriminate].
      destruct r as [|b1 [|b2 [|b3 r']]]; try discriminate. apply andb_true_iff in Hv. destruct Hv as [V Hv]. apply andb_true_iff in V. destruct V as [V V3]. apply andb_true_iff in V. destruct V as [V1 V2].
      unfold inr in *. apply (K4 b1 b2 b3 r' eq_refl); try lia; try exact Hv.
Qed.

(** [utf8_valid] accepts exactly the UTF-8 encodings of sequences of Unicode scalar values. *)
Theorem utf8_valid_iff bs : utf8_valid bs = true <-> exists cps, Forall scalar cps /\ bs = encode cps.
Proof.
  split; [apply (valid_decode_aux (length bs)); lia|]. intros (cps & Hc & ->). now apply encode_valid.
Qed.
