(** Whole-run safety: an invariant of the transition system of SystemModel.v that holds in every
    reachable state - hence for every interleaving of the workers, every position and combination
    of I/O faults, and every crash point including a write cut short (C01, C03, C04, C11, C12, C13). *)
From TB Require Import Base Decimal BencodeModel TorrentModel TorrentProofs PathModel FsModel SolverModel FinderModel RunModel
                       SolverProofs RunProofs FsProofs SystemModel.
From Coq Require Import ZifyN ZifyNat ZifyBool.
Local Open Scope N_scope.

(** ** Structure of the file-system model under one operation *)

Lemma path_eqb_refl p : path_eqb p p = true.
Proof. now apply path_eqb_eq. Qed.

Lemma lookup_set_node f q n p :
  fs_lookup (set_node f q n) p = match p with [] => Some NDir | _ => if path_eqb p q then Some n else fs_lookup f p end.
Proof. destruct p; reflexivity. Qed.

Lemma lookup_set_data f i b p : fs_lookup (set_data f i b) p = fs_lookup f p.
Proof. reflexivity. Qed.

Lemma assoc_path_in {A} (l : list (path * A)) p a : assoc_path l p = Some a -> exists q, In (q, a) l.
Proof.
  induction l as [|[q b] r IH]; cbn [assoc_path]; [discriminate|].
  destruct (path_eqb p q); intros Hh.
  - inversion Hh; subst. exists q. now left.
  - destruct (IH Hh) as [q' Hq]. exists q'. now right.
Qed.

Lemma lookup_lt_fresh f p i : fs_lookup f p = Some (NFile i) -> i < fresh_ino f.
Proof.
  destruct p as [|c p]; [discriminate|]. cbn [fs_lookup]. intros Hh.
  destruct (assoc_path_in _ _ _ Hh) as [q Hq]. unfold fresh_ino.
  assert (Hle : i <= fold_right N.max 0 (map fst (fs_data f) ++ flat_map (fun pn => match snd pn with NFile i => [i] | NDir => [] end) (fs_nodes f))).
  { apply max_ge. apply in_or_app. right. apply in_flat_map. exists (q, NFile i). split; [assumption|now left]. }
  lia.
Qed.

Lemma content_ge_fresh f i : fresh_ino f <= i -> fs_content f i = [].
Proof.
  intros Hge. unfold fs_content. rewrite assoc_n_not_in; [reflexivity|]. intros Hin.
  unfold fresh_ino in Hge.
  assert (Hle : i <= fold_right N.max 0 (map fst (fs_data f) ++ flat_map (fun pn => match snd pn with NFile i => [i] | NDir => [] end) (fs_nodes f))).
  { apply max_ge. apply in_or_app. now left. }
  lia.
Qed.

Lemma max_incl l l' : (forall x, In x l -> In x l') -> fold_right N.max 0 l <= fold_right N.max 0 l'.
Proof.
  induction l as [|x r IH]; cbn [fold_right]; intros Hi; [lia|].
  assert (H1 : x <= fold_right N.max 0 l') by (apply max_ge, Hi; now left).
  assert (H2 : fold_right N.max 0 r <= fold_right N.max 0 l') by (apply IH; intros y Hy; apply Hi; now right).
  lia.
Qed.

Lemma fresh_set_node f p n : fresh_ino f <= fresh_ino (set_node f p n).
Proof.
  unfold fresh_ino, set_node. cbn [fs_data fs_nodes flat_map].
  match goal with |- 1 + fold_right N.max 0 ?a <= 1 + fold_right N.max 0 ?b => assert (fold_right N.max 0 a <= fold_right N.max 0 b) end; [|lia].
  apply max_incl. intros x Hx. apply in_app_or in Hx. apply in_or_app. destruct Hx as [Hx|Hx]; [now left|right].
  apply in_or_app. now right.
Qed.

Lemma fresh_set_data f i b : fresh_ino f <= fresh_ino (set_data f i b).
Proof.
  unfold fresh_ino, set_data. cbn [fs_data fs_nodes map fst].
  match goal with |- 1 + fold_right N.max 0 ?a <= 1 + fold_right N.max 0 ?b => assert (fold_right N.max 0 a <= fold_right N.max 0 b) end; [|lia].
  apply max_incl. intros x Hx. apply in_app_or in Hx. destruct Hx as [Hx|Hx]; [right; apply in_or_app; now left|].
  right. apply in_or_app. now right.
Qed.

Definition mkstep (g : fs) (q : path) : fs := if is_dir g q then g else set_node g q NDir.

Lemma mkdir_fold_fresh l : forall f, fresh_ino f <= fresh_ino (fold_left mkstep l f).
Proof.
  induction l as [|q r IH]; intros f; cbn [fold_left]; [lia|].
  specialize (IH (mkstep f q)). unfold mkstep in *. destruct (is_dir f q); [exact IH|].
  pose proof (fresh_set_node f q NDir). lia.
Qed.

Lemma mkdir_fold_lookup l : forall f, (forall q, In q l -> is_file f q = false) -> forall p,
  fs_lookup (fold_left mkstep l f) p = fs_lookup f p \/
  (fs_lookup f p = None /\ In p l /\ fs_lookup (fold_left mkstep l f) p = Some NDir).
Proof.
  induction l as [|q r IH]; intros f Hnf p; cbn [fold_left]; [now left|].
  assert (Hq : is_file f q = false) by (apply Hnf; now left).
  assert (Hstep : fs_lookup (mkstep f q) p = fs_lookup f p \/ (fs_lookup f p = None /\ p = q /\ fs_lookup (mkstep f q) p = Some NDir)).
  { unfold mkstep. destruct (is_dir f q) eqn:Ed; [now left|]. rewrite lookup_set_node.
    destruct p as [|c p]; [now left|]. destruct (path_eqb (c :: p) q) eqn:Ep; [|now left].
    apply path_eqb_eq in Ep. subst q. unfold is_dir, is_file in *.
    destruct (fs_lookup f (c :: p)) as [[|i]|]; try discriminate. right. auto. }
  assert (Hnf' : forall q', In q' r -> is_file (mkstep f q) q' = false).
  { intros q' Hq'. unfold mkstep. destruct (is_dir f q); [apply Hnf; now right|].
    unfold is_file. rewrite lookup_set_node. destruct q' as [|c q']; [reflexivity|].
    destruct (path_eqb (c :: q') q); [reflexivity|]. apply (Hnf (c :: q')). now right. }
  destruct (IH (mkstep f q) Hnf' p) as [He|(Hn & Hin & Hd)].
  - rewrite He. destruct Hstep as [Hs|(Hn & -> & Hd)]; [now left|]. right. repeat split; auto. now left.
  - right. destruct Hstep as [Hs|(Hn' & _ & Hd')]; [|congruence]. rewrite <- Hs. repeat split; auto. now right.
Qed.

Lemma existsb_false_all {A} (g : A -> bool) l : existsb g l = false -> forall x, In x l -> g x = false.
Proof.
  intros He x Hx. destruct (g x) eqn:E; [|reflexivity].
  assert (existsb g l = true) by (apply existsb_exists; eauto). congruence.
Qed.

(** Paths: an operation never removes or retypes a node; it adds directories (MkdirAll: missing
    ancestors) or one regular file with a fresh inode (open with create). *)
Theorem apply_op_lookup f o f' ok p : apply_op f o = (f', ok) ->
  fs_lookup f' p = fs_lookup f p \/
  (fs_lookup f p = None /\
   match o with
   | MkdirAll q => In p (prefixes q) /\ fs_lookup f' p = Some NDir
   | OpenW q c _ => p = q /\ c = true /\ fs_lookup f' p = Some (NFile (fresh_ino f))
   | _ => False
   end).
Proof.
  destruct o as [q|q c t|q n|q off d]; cbn [apply_op]; intros Ha.
  - destruct (existsb (is_file f) (prefixes q)) eqn:Ee; inversion Ha; subst; [now left|].
    destruct (mkdir_fold_lookup (prefixes q) f (existsb_false_all _ _ Ee) p) as [He|(Hn & Hin & Hd)]; [now left|right; auto].
  - destruct (fs_lookup f q) as [[|i]|] eqn:El.
    + inversion Ha; subst. now left.
    + inversion Ha; subst. destruct t; now left.
    + destruct (c && is_dir f (parent q)) eqn:Ec; inversion Ha; subst; [|now left].
      rewrite lookup_set_data, lookup_set_node. destruct p as [|x p]; [now left|].
      destruct (path_eqb (x :: p) q) eqn:Ep; [|now left]. apply path_eqb_eq in Ep. subst q.
      right. apply andb_true_iff in Ec. destruct Ec as [-> _]. auto.
  - destruct (fs_lookup f q) as [[|i]|]; inversion Ha; subst; now left.
  - destruct (fs_lookup f q) as [[|i]|]; inversion Ha; subst; now left.
Qed.

Lemma apply_op_fresh f o f' ok : apply_op f o = (f', ok) -> fresh_ino f <= fresh_ino f'.
Proof.
  destruct o as [q|q c t|q n|q off d]; cbn [apply_op]; intros Ha.
  - destruct (existsb (is_file f) (prefixes q)); inversion Ha; subst; [lia|]. apply mkdir_fold_fresh.
  - destruct (fs_lookup f q) as [[|i]|].
    + inversion Ha; subst; lia.
    + inversion Ha; subst. destruct t; [apply fresh_set_data|lia].
    + destruct (c && is_dir f (parent q)); inversion Ha; subst; [|lia].
      pose proof (fresh_set_node f q (NFile (fresh_ino f))).
      pose proof (fresh_set_data (set_node f q (NFile (fresh_ino f))) (fresh_ino f) []). lia.
  - destruct (fs_lookup f q) as [[|i]|]; inversion Ha; subst; try lia. apply fresh_set_data.
  - destruct (fs_lookup f q) as [[|i]|]; inversion Ha; subst; try lia. apply fresh_set_data.
Qed.

Lemma Forall_set_nth {A} (P : A -> Prop) l : forall i x, Forall P l -> P x -> Forall P (set_nth l i x).
Proof.
  induction l as [|y r IH]; intros i x Hl Hx; cbn [set_nth]; [constructor|].
  inversion Hl; subst. destruct i; constructor; auto.
Qed.

Lemma Forall_nth_error {A} (P : A -> Prop) l i x : Forall P l -> nth_error l i = Some x -> P x.
Proof. intros Hl Hn. apply nth_error_In in Hn. rewrite Forall_forall in Hl. auto. Qed.

(** ** The invariant *)

Section Sys.
Variable content : entry -> list N.     (* the torrent's real content of each file *)
Variable es : list entry.               (* the metadata table *)
Variable f0 : fs.                       (* the file system when scanning starts *)

Definition nonpad (e : entry) : Prop := In e es /\ e_pad e = false.
(** Inode [i] is the export image of table entry [e] in state [f]. *)
Definition owner (f : fs) (i : N) (e : entry) : Prop := nonpad e /\ fs_lookup f (e_target e) = Some (NFile i).

(** Table entries with the same export path denote the same file (distinct files of a torrent have
    distinct paths; distinct torrents have disjoint subtrees - TableProofs.subtrees_disjoint). *)
Definition table_functional : Prop :=
  forall e1 e2, nonpad e1 -> nonpad e2 -> e_target e1 = e_target e2 -> content e1 = content e2 /\ e_len e1 = e_len e2.
(** Initially no two export paths of different files are hard links of one inode. *)
Definition alias_free (f : fs) : Prop :=
  forall e1 e2 i, owner f i e1 -> owner f i e2 -> content e1 = content e2 /\ e_len e1 = e_len e2.

(** A pool program: the evaluation of some piece of the table, good for every environment answer. *)
Definition pgood (pg : prog) : Prop :=
  exists pc, wf_piece content pc /\ Forall (fun s => In (ps_entry s) es) (w_segs pc) /\ good content pc pg.

Record SI (f : fs) : Prop := {
  si_mono : forall p n, fs_lookup f0 p = Some n -> fs_lookup f p = Some n;
  si_fresh : fresh_ino f0 <= fresh_ino f;
  si_new : forall p n, fs_lookup f0 p = None -> fs_lookup f p = Some n ->
      (n = NDir /\ exists e, nonpad e /\ In p (prefixes (parent (e_target e)))) \/
      (exists e i, nonpad e /\ p = e_target e /\ n = NFile i /\ fresh_ino f0 <= i);
  si_alias : alias_free f;
  si_inv : forall e i, owner f i e -> Inv (fs_content f0 i) (content e) (N.to_nat (e_len e)) (fs_content f i);
  si_same : forall i, (forall e, ~ owner f i e) -> fs_content f i = fs_content f0 i;
  si_ver : forall e i lo hi, owner f i e -> (hi <= N.to_nat (e_len e))%nat ->
      holds (content e) (fs_content f0 i) lo hi -> holds (content e) (fs_content f i) lo hi
}.

Lemma SI_init : alias_free f0 -> SI f0.
Proof.
  intros Ha. constructor; auto.
  - lia.
  - intros p n H1 H2. congruence.
  - intros e i _. apply inv_init.
Qed.

(** What a pool program may apply: a good operation of a well-formed piece of the table, or a
    prefix of such a write. *)
Definition sys_op (o : op) : Prop :=
  exists pc, wf_piece content pc /\ Forall (fun s => In (ps_entry s) es) (w_segs pc) /\
             (good_op content pc o \/ good_cut content pc o).

Lemma seg_nonpad pc s : Forall (fun s => In (ps_entry s) es) (w_segs pc) -> In s (w_segs pc) ->
  e_pad (ps_entry s) = false -> nonpad (ps_entry s).
Proof. intros Hall Hin Hp. split; [|assumption]. rewrite Forall_forall in Hall. auto. Qed.

(** If lookups of regular files are the same in [f] and [f'] and contents are the same, the
    invariant carries over. *)
Lemma SI_transfer f f' :
  SI f -> fresh_ino f <= fresh_ino f' ->
  (forall p, fs_lookup f' p = fs_lookup f p \/ (fs_lookup f p = None /\ fs_lookup f' p = Some NDir /\ exists e, nonpad e /\ In p (prefixes (parent (e_target e))))) ->
  (forall j, fs_content f' j = fs_content f j) -> SI f'.
Proof.
  intros HS Hfr Hl Hc.
  assert (Hown : forall i e, owner f' i e <-> owner f i e).
  { intros i e. unfold owner. split; intros [Hn Ho]; (split; [assumption|]);
    destruct (Hl (e_target e)) as [He|(Hn0 & Hd & _)]; congruence. }
  constructor.
  - intros p n H0. pose proof (si_mono f HS p n H0) as H1. destruct (Hl p) as [He|(Hn0 & _)]; congruence.
  - pose proof (si_fresh f HS). lia.
  - intros p n H0 H1. destruct (Hl p) as [He|(Hn0 & Hd & e & Hne & Hin)].
    + rewrite He in H1. exact (si_new f HS p n H0 H1).
    + left. split; [congruence|]. eauto.
  - intros e1 e2 i H1 H2. apply Hown in H1, H2. exact (si_alias f HS e1 e2 i H1 H2).
  - intros e i Ho. apply Hown in Ho. rewrite Hc. exact (si_inv f HS e i Ho).
  - intros i Hno. rewrite Hc. apply (si_same f HS). intros e Ho. apply (Hno e). now apply Hown.
  - intros e i lo hi Ho Hhi Hh. apply Hown in Ho. rewrite Hc. exact (si_ver f HS e i lo hi Ho Hhi Hh).
Qed.

(** Content changes of a [SetLen] / [WriteAt] on the export image of [e]. *)
Lemma SI_content_step f f' e (upd : list N -> list N) :
  SI f -> nonpad e -> fresh_ino f <= fresh_ino f' ->
  (forall p, fs_lookup f' p = fs_lookup f p) ->
  (forall j, fs_content f' j = fs_content f j \/ (fs_lookup f (e_target e) = Some (NFile j) /\ fs_content f' j = upd (fs_content f j))) ->
  (forall old cur, Inv old (content e) (N.to_nat (e_len e)) cur -> Inv old (content e) (N.to_nat (e_len e)) (upd cur)) ->
  (forall cur lo hi, (hi <= N.to_nat (e_len e))%nat -> holds (content e) cur lo hi -> holds (content e) (upd cur) lo hi) ->
  SI f'.
Proof.
  intros HS Hne Hfr Hl Hc Hinv Hver.
  assert (Hown : forall i e', owner f' i e' <-> owner f i e').
  { intros i e'. unfold owner. now rewrite Hl. }
  constructor.
  - intros p n H0. rewrite Hl. exact (si_mono f HS p n H0).
  - pose proof (si_fresh f HS). lia.
  - intros p n H0 H1. rewrite Hl in H1. exact (si_new f HS p n H0 H1).
  - intros e1 e2 i H1 H2. apply Hown in H1, H2. exact (si_alias f HS e1 e2 i H1 H2).
  - intros e' i Ho. apply Hown in Ho. destruct (Hc i) as [->|[Hlk ->]]; [exact (si_inv f HS e' i Ho)|].
    destruct (si_alias f HS e e' i (conj Hne Hlk) Ho) as [Hce Hle]. rewrite <- Hce, <- Hle.
    apply Hinv. rewrite Hce, Hle. exact (si_inv f HS e' i Ho).
  - intros i Hno. destruct (Hc i) as [->|[Hlk _]].
    + apply (si_same f HS). intros e' Ho. apply (Hno e'). now apply Hown.
    + exfalso. apply (Hno e). apply Hown. split; assumption.
  - intros e' i lo hi Ho Hhi Hh. apply Hown in Ho. destruct (Hc i) as [->|[Hlk ->]]; [exact (si_ver f HS e' i lo hi Ho Hhi Hh)|].
    destruct (si_alias f HS e e' i (conj Hne Hlk) Ho) as [Hce Hle]. rewrite <- Hce. apply Hver; [lia|].
    rewrite Hce. exact (si_ver f HS e' i lo hi Ho Hhi Hh).
Qed.

Lemma write_data_ok pc s n : wf_piece content pc -> In s (w_segs pc) ->
  (N.to_nat (ps_off s) + length (firstn n (seg_bytes content s)) <= N.to_nat (e_len (ps_entry s)))%nat /\
  forall j x, nth_error (firstn n (seg_bytes content s)) j = Some x -> nth_error (content (ps_entry s)) (N.to_nat (ps_off s) + j) = Some x.
Proof.
  intros Hwf Hin. unfold wf_piece in Hwf. rewrite Forall_forall in Hwf. destruct (Hwf s Hin) as [H1 H2]. split.
  - rewrite firstn_length.
    assert (length (seg_bytes content s) <= N.to_nat (ps_len s))%nat by (unfold seg_bytes; apply firstn_le_length). lia.
  - intros j x Hj. unfold seg_bytes in Hj. now apply slice_is_content in Hj.
Qed.

Hypothesis Hfun : table_functional.

Theorem SI_step f o f' ok : SI f -> sys_op o -> apply_op f o = (f', ok) -> SI f'.
Proof.
  intros HS (pc & Hwf & Hall & Hg) Ha.
  pose proof (apply_op_fresh f o f' ok Ha) as Hfr.
  destruct o as [q|q c t|q n|q off d].
  - (* MkdirAll *)
    destruct Hg as [(s & Hin & Hp & ->)|[]].
    apply (SI_transfer f f' HS Hfr).
    + intros p. destruct (apply_op_lookup f _ f' ok p Ha) as [He|(Hn & Hi & Hd)]; [now left|right].
      repeat split; auto. exists (ps_entry s). split; [now apply (seg_nonpad pc)|assumption].
    + intros j. destruct (apply_op_content f _ f' ok j Ha) as [He|[_ []]]. exact He.
  - (* OpenW, never truncating *)
    destruct Hg as [(-> & s & Hin & Hp & ->)|[]].
    pose proof (seg_nonpad pc s Hall Hin Hp) as Hne. set (e := ps_entry s) in *.
    assert (Hc : forall j, fs_content f' j = fs_content f j).
    { intros j. destruct (apply_op_content f _ f' ok j Ha) as [He|[_ [Ht _]]]; [exact He|discriminate]. }
    assert (Hl : forall p, fs_lookup f' p = fs_lookup f p \/
                           (fs_lookup f p = None /\ p = e_target e /\ fs_lookup f' p = Some (NFile (fresh_ino f)))).
    { intros p. destruct (apply_op_lookup f _ f' ok p Ha) as [He|(Hn & Hi & _ & Hd)]; [now left|right; auto]. }
    assert (Hfwd : forall i e', owner f i e' -> owner f' i e').
    { intros i e' [Hn Ho]. split; [assumption|]. destruct (Hl (e_target e')) as [He|(Hn0 & _)]; congruence. }
    assert (Hback : forall i e', owner f' i e' -> owner f i e' \/ (i = fresh_ino f /\ e_target e' = e_target e /\ fs_lookup f (e_target e) = None)).
    { intros i e' [Hn Ho]. destruct (Hl (e_target e')) as [He|(Hn0 & Hp' & Hd)].
      - left. split; [assumption|congruence].
      - right. rewrite Hd in Ho. inversion Ho. repeat split; congruence. }
    assert (Hnofresh : forall e', ~ owner f (fresh_ino f) e').
    { intros e' [_ Ho]. apply lookup_lt_fresh in Ho. lia. }
    constructor.
    + intros p n H0. pose proof (si_mono f HS p n H0) as H1. destruct (Hl p) as [He|(Hn0 & _)]; congruence.
    + pose proof (si_fresh f HS). lia.
    + intros p n H0 H1. destruct (Hl p) as [He|(Hn0 & Hp' & Hd)].
      * rewrite He in H1. exact (si_new f HS p n H0 H1).
      * right. exists e, (fresh_ino f). rewrite Hd in H1. inversion H1. split; [exact Hne|]. split; [exact Hp'|]. split; [reflexivity|]. exact (si_fresh f HS).
    + intros e1 e2 i H1 H2. destruct (Hback i e1 H1) as [O1|(E1 & T1 & _)], (Hback i e2 H2) as [O2|(E2 & T2 & _)].
      * exact (si_alias f HS e1 e2 i O1 O2).
      * subst i. exfalso. exact (Hnofresh e1 O1).
      * subst i. exfalso. exact (Hnofresh e2 O2).
      * apply Hfun; [apply H1|apply H2|congruence].
    + intros e' i Ho. rewrite Hc. destruct (Hback i e' Ho) as [O|(-> & _ & _)]; [exact (si_inv f HS e' i O)|].
      rewrite fresh_content. rewrite (content_ge_fresh f0) by exact (si_fresh f HS). apply inv_init.
    + intros i Hno. rewrite Hc. apply (si_same f HS). intros e' Ho. exact (Hno e' (Hfwd i e' Ho)).
    + intros e' i lo hi Ho Hhi Hh. rewrite Hc. destruct (Hback i e' Ho) as [O|(-> & _ & _)]; [exact (si_ver f HS e' i lo hi O Hhi Hh)|].
      rewrite fresh_content. rewrite (content_ge_fresh f0) in Hh by exact (si_fresh f HS). exact Hh.
  - (* SetLen to the declared length *)
    destruct Hg as [(s & Hin & Hp & -> & ->)|[]].
    pose proof (seg_nonpad pc s Hall Hin Hp) as Hne.
    apply (SI_content_step f f' (ps_entry s) (fun cur => resize cur (N.to_nat (e_len (ps_entry s)))) HS Hne Hfr).
    + intros p. destruct (apply_op_lookup f _ f' ok p Ha) as [He|[_ []]]. exact He.
    + intros j. destruct (apply_op_content f _ f' ok j Ha) as [He|[Hl Hc]]; [now left|right; auto].
    + intros old cur. apply inv_resize.
    + intros cur lo hi Hhi. now apply holds_resize.
  - (* WriteAt: the torrent's bytes of a segment at the segment's offset, or a prefix *)
    assert (Hd : exists s n, In s (w_segs pc) /\ e_pad (ps_entry s) = false /\ q = e_target (ps_entry s) /\ off = ps_off s /\ d = firstn n (seg_bytes content s)).
    { destruct Hg as [(s & Hin & Hp & Hq & Ho & Hd)|(s & Hin & Hp & Hq & Ho & n & Hd)].
      - exists s, (length (seg_bytes content s)). rewrite firstn_all. auto.
      - exists s, n. auto. }
    destruct Hd as (s & n & Hin & Hp & -> & -> & ->).
    pose proof (seg_nonpad pc s Hall Hin Hp) as Hne.
    destruct (write_data_ok pc s n Hwf Hin) as [Hlen Hdat].
    apply (SI_content_step f f' (ps_entry s) (fun cur => write_at cur (N.to_nat (ps_off s)) (firstn n (seg_bytes content s))) HS Hne Hfr).
    + intros p. destruct (apply_op_lookup f _ f' ok p Ha) as [He|[_ []]]. exact He.
    + intros j. destruct (apply_op_content f _ f' ok j Ha) as [He|[Hl Hc]]; [now left|right; auto].
    + intros old cur Hi. now apply inv_write.
    + intros cur lo hi Hhi. now apply holds_write.
Qed.

(** The resize pre-flight's operation: [set_len] of an export image to its declared length. *)
Definition entry_setlen (o : op) : Prop := exists e, nonpad e /\ o = SetLen (e_target e) (e_len e).

Lemma SI_setlen f o f' ok : SI f -> entry_setlen o -> apply_op f o = (f', ok) -> SI f'.
Proof.
  intros HS (e & Hne & ->) Ha. pose proof (apply_op_fresh f _ f' ok Ha) as Hfr.
  apply (SI_content_step f f' e (fun cur => resize cur (N.to_nat (e_len e))) HS Hne Hfr).
  - intros p. destruct (apply_op_lookup f _ f' ok p Ha) as [He|[_ []]]. exact He.
  - intros j. destruct (apply_op_content f _ f' ok j Ha) as [He|[Hl Hc]]; [now left|right; auto].
  - intros old cur. apply inv_resize.
  - intros cur lo hi Hhi. now apply holds_resize.
Qed.

(** Applying a list of operations one after the other (whether each succeeds or not). *)
Fixpoint apply_ops (f : fs) (ops : list op) : fs :=
  match ops with [] => f | o :: r => apply_ops (fst (apply_op f o)) r end.

Lemma SI_apply_setlens ops : Forall entry_setlen ops -> forall f, SI f -> SI (apply_ops f ops).
Proof.
  induction 1 as [|o r Ho _ IH]; intros f HS; cbn [apply_ops]; [exact HS|].
  apply IH. destruct (apply_op f o) as [f' ok] eqn:Ea. cbn [fst]. exact (SI_setlen f o f' ok HS Ho Ea).
Qed.

(** A [create_dir_all] that failed after creating some of the missing ancestors. *)
Lemma path_prefix_prefixes : forall (a b : path) x, path_prefix a b = true -> In x (prefixes a) -> In x (prefixes b).
Proof.
  induction a as [|c a IH]; intros b x Hp Hin; [contradiction|]. destruct b as [|d b]; [discriminate|].
  cbn [path_prefix] in Hp. apply andb_true_iff in Hp. destruct Hp as [H1 H2]. apply beq_eq in H1. subst d.
  cbn [prefixes] in *. destruct Hin as [<-|Hin]; [now left|right].
  apply in_map_iff in Hin. destruct Hin as (y & <- & Hy). apply in_map. now apply (IH b).
Qed.

Lemma SI_mkdir_prefix f e made f' ok : SI f -> nonpad e -> path_prefix made (parent (e_target e)) = true ->
  apply_op f (MkdirAll made) = (f', ok) -> SI f'.
Proof.
  intros HS Hne Hp Ha. pose proof (apply_op_fresh f _ f' ok Ha) as Hfr.
  apply (SI_transfer f f' HS Hfr).
  - intros p. destruct (apply_op_lookup f _ f' ok p Ha) as [He|(Hn & Hi & Hd)]; [now left|right].
    repeat split; auto. exists e. split; [exact Hne|]. now apply (path_prefix_prefixes made).
  - intros j. destruct (apply_op_content f _ f' ok j Ha) as [He|[_ []]]. exact He.
Qed.

(** ** Every reachable state *)

Lemma good_cut_of_good_write pc p off d n : good_op content pc (WriteAt p off d) -> good_cut content pc (WriteAt p off (firstn n d)).
Proof. intros (s & Hin & Hp & Hq & Ho & Hd). exists s. repeat split; auto. exists n. now rewrite Hd. Qed.

Theorem sys_step_invariant s s' : sstep s s' -> SI (s_fs s) -> Forall pgood (s_pool s) ->
  SI (s_fs s') /\ Forall pgood (s_pool s').
Proof.
  intros Hst HS Hp. destruct Hst as [f pool i p off len k r Hn|f pool i p w k r Hn|f pool i o k f' Hn Ha|f pool i o k Hn
                                    |f pool i p off d k n f' Hn Ha|f pool i p k made f' Hn Hpre Ha|f pool i id k Hn|f pool i id k Hn]; cbn [s_fs s_pool] in *;
    destruct (Forall_nth_error _ _ _ _ Hp Hn) as (pc & Hwf & Hall & Hg); inversion Hg; subst.
  - split; [assumption|]. apply Forall_set_nth; [assumption|]. exists pc. auto.
  - split.
    + apply (SI_step f o f' true HS); [|assumption]. exists pc. auto.
    + apply Forall_set_nth; [assumption|]. exists pc. auto.
  - split; [assumption|]. apply Forall_set_nth; [assumption|]. exists pc. auto.
  - split.
    + apply (SI_step f (WriteAt p off (firstn n d)) f' true HS); [|exact Ha]. exists pc. repeat split; auto.
      right. now apply good_cut_of_good_write.
    + apply Forall_set_nth; [assumption|]. exists pc. repeat split; auto. constructor. discriminate.
  - (* create_dir_all failed after creating some ancestors *)
    match goal with Hop : good_op content pc (MkdirAll p) |- _ => destruct Hop as (sg & Hin & Hpad & Hq) end. subst p.
    split.
    + apply (SI_mkdir_prefix f (ps_entry sg) made f' true HS); auto. now apply (seg_nonpad pc).
    + apply Forall_set_nth; [assumption|]. exists pc. auto.
  - split; [assumption|]. apply Forall_set_nth; [assumption|]. exists pc. auto.
  - split; [assumption|]. apply Forall_set_nth; [assumption|]. exists pc. auto.
Qed.

Theorem sys_invariant s s' : sreach s s' -> SI (s_fs s) -> Forall pgood (s_pool s) ->
  SI (s_fs s') /\ Forall pgood (s_pool s').
Proof.
  induction 1 as [s|s s1 s2 Hst _ IH]; intros HS Hp; [auto|].
  destruct (sys_step_invariant s s1 Hst HS Hp) as [HS1 Hp1]. auto.
Qed.

(** No program of the pool is ever at a panic. *)
Lemma pgood_not_panic pg : pgood pg -> pg <> Ret PanicO.
Proof. intros (pc & _ & _ & Hg) ->. inversion Hg. congruence. Qed.

End Sys.

(** The executable stepper used by the trace validator performs only steps of the system. *)
Theorem sys_do_sound s i ev s' : sys_do s i ev = Some s' -> sstep s s'.
Proof.
  destruct s as [f pool]. unfold sys_do. cbn [s_fs s_pool].
  destruct (nth_error pool i) as [pg|] eqn:En; [|discriminate].
  destruct pg as [o|p w k|p off len k|o k|id k|id k]; destruct ev as [r| | |n| |made]; try discriminate.
  - intros Hh; inversion Hh; subst. now apply (ss_read f pool i p off len k r).
  - destruct (apply_op f o) as [f' [|]] eqn:Ea; [|discriminate]. intros Hh; inversion Hh; subst. now apply (ss_mut_ok f pool i o k f').
  - intros Hh; inversion Hh; subst. now apply (ss_mut_fail f pool i o k).
  - destruct o as [q|q c t|q m|q off d]; try discriminate.
    destruct (apply_op f (WriteAt q off (firstn n d))) as [f' [|]] eqn:Ea; [|discriminate].
    intros Hh; inversion Hh; subst. now apply (ss_cut f pool i q off d k n f').
  - destruct o as [q|q c t|q m|q off d]; try discriminate. destruct (path_prefix made q) eqn:Ep; [|discriminate].
    destruct (apply_op f (MkdirAll made)) as [f' [|]] eqn:Ea; [|discriminate].
    intros Hh; inversion Hh; subst. now apply (ss_mkdir_partial f pool i q k made f').
  - intros Hh; inversion Hh; subst. now apply (ss_lock f pool i id k).
  - intros Hh; inversion Hh; subst. now apply (ss_unlock f pool i id k).
Qed.

Theorem sys_run_reach sched : forall s s', sys_run s sched = Some s' -> sreach s s'.
Proof.
  induction sched as [|[i ev] r IH]; intros s s' Hr; cbn [sys_run] in Hr.
  - inversion Hr; subst. constructor.
  - destruct (sys_do s i ev) as [s1|] eqn:Ed; [|discriminate]. apply (sr_step s s1 s'); [now apply (sys_do_sound s i ev)|now apply IH].
Qed.

Theorem sys_event_sound s i e last s' : sys_event s i e last = Some s' -> sstep s s'.
Proof.
  unfold sys_event. destruct (nth_error (s_pool s) i) as [pg|]; [|discriminate].
  destruct pg as [o|p w k|p off len k|o k|id k|id k]; try discriminate.
  - destruct e as [p' w' r|p' off' len' r|o' ok|p' made]; try discriminate.
    destruct (read_matches p off len p' off' r && read_consistent (s_fs s) p' off' r); [|discriminate]. apply sys_do_sound.
  - destruct e as [p' w' r|p' off' len' r|o' ok|p' made]; try discriminate.
    + destruct ok.
      * destruct (op_eqb o o'); [apply sys_do_sound|]. destruct (last && op_prefix o' o); [|discriminate].
        destruct o' as [q|q c t|q m|q off d]; try discriminate. apply sys_do_sound.
      * destruct (op_same_target o o'); [apply sys_do_sound|discriminate].
    + destruct o as [q|q c t|q m|q off d]; try discriminate. destruct (path_eqb q p'); [apply sys_do_sound|discriminate].
Qed.

Theorem sys_skip_reach fuel : forall s i, sreach s (sys_skip fuel s i).
Proof.
  induction fuel as [|fuel IH]; intros s i; cbn [sys_skip]; [constructor|].
  destruct (nth_error (s_pool s) i) as [pg|] eqn:En; [|constructor].
  destruct pg; try constructor; (destruct (sys_do s i SSkip) as [s1|] eqn:Ed; [|constructor]);
    (apply (sr_step s s1); [now apply (sys_do_sound s i SSkip)|apply IH]).
Qed.

(** ** The whole-run statements *)

Theorem run_safe content es f0 pool0 s :
  table_functional content es -> alias_free content es f0 -> Forall (pgood content es) pool0 ->
  sreach {| s_fs := f0; s_pool := pool0 |} s ->
  SI content es f0 (s_fs s) /\ Forall (pgood content es) (s_pool s).
Proof.
  intros Hf Ha Hp Hr. apply (sys_invariant content es f0 Hf _ _ Hr); [now apply SI_init|exact Hp].
Qed.

(** C01 / C11: in every reachable state - after any interleaving, any I/O faults, cut anywhere
    including in the middle of a write - every byte of every export image is the byte it held when
    scanning started, a zero of extension, or the torrent's byte at that offset. *)
Theorem run_bytes_sound content es f0 pool0 s e i :
  table_functional content es -> alias_free content es f0 -> Forall (pgood content es) pool0 ->
  sreach {| s_fs := f0; s_pool := pool0 |} s -> owner es (s_fs s) i e ->
  Inv (fs_content f0 i) (content e) (N.to_nat (e_len e)) (fs_content (s_fs s) i).
Proof. intros Hf Ha Hp Hr Ho. destruct (run_safe _ _ _ _ _ Hf Ha Hp Hr) as [HS _]. exact (si_inv _ _ _ _ HS e i Ho). Qed.

(** C03: nothing is removed, renamed or retyped; an inode that is not the export image of a
    non-padding table entry keeps its exact content (every file reached through a scan directory,
    every bystander, unless it is a hard link of an export file); whatever appears is a directory
    on the way to an export file, or an export file itself (a fresh inode). *)
Theorem run_outside_untouched content es f0 pool0 s :
  table_functional content es -> alias_free content es f0 -> Forall (pgood content es) pool0 ->
  sreach {| s_fs := f0; s_pool := pool0 |} s ->
  (forall p n, fs_lookup f0 p = Some n -> fs_lookup (s_fs s) p = Some n) /\
  (forall i, (forall e, ~ owner es (s_fs s) i e) -> fs_content (s_fs s) i = fs_content f0 i) /\
  (forall p n, fs_lookup f0 p = None -> fs_lookup (s_fs s) p = Some n ->
     (n = NDir /\ exists e, nonpad es e /\ In p (prefixes (parent (e_target e)))) \/
     (exists e i, nonpad es e /\ p = e_target e /\ n = NFile i /\ fresh_ino f0 <= i)).
Proof.
  intros Hf Ha Hp Hr. destruct (run_safe _ _ _ _ _ Hf Ha Hp Hr) as [HS _].
  split; [exact (si_mono _ _ _ _ HS)|]. split; [exact (si_same _ _ _ _ HS)|exact (si_new _ _ _ _ HS)].
Qed.

(** C04: a byte range of an export image that held the torrent's bytes when scanning started
    (inside the declared length) holds them in every reachable state. *)
Theorem run_verified_preserved content es f0 pool0 s e i lo hi :
  table_functional content es -> alias_free content es f0 -> Forall (pgood content es) pool0 ->
  sreach {| s_fs := f0; s_pool := pool0 |} s -> owner es (s_fs s) i e -> (hi <= N.to_nat (e_len e))%nat ->
  holds (content e) (fs_content f0 i) lo hi -> holds (content e) (fs_content (s_fs s) i) lo hi.
Proof. intros Hf Ha Hp Hr Ho Hhi Hh. destruct (run_safe _ _ _ _ _ Hf Ha Hp Hr) as [HS _]. exact (si_ver _ _ _ _ HS e i lo hi Ho Hhi Hh). Qed.

(** C13 / C16: whatever failed so far, every program still in the pool is good - it will issue only
    good operations and cannot reach a panic. *)
Theorem run_pool_stays_good content es f0 pool0 s pg :
  table_functional content es -> alias_free content es f0 -> Forall (pgood content es) pool0 ->
  sreach {| s_fs := f0; s_pool := pool0 |} s -> In pg (s_pool s) -> pgood content es pg /\ pg <> Ret PanicO.
Proof.
  intros Hf Ha Hp Hr Hin. destruct (run_safe _ _ _ _ _ Hf Ha Hp Hr) as [_ Hg]. rewrite Forall_forall in Hg.
  split; [auto|]. apply (pgood_not_panic content es). auto.
Qed.

(** Every fault-free step is a step: the theorems above cover the runs in which reads are
    answered by the file system and operations fail only when it refuses them. *)
Theorem fstep_is_sstep s s' : fstep s s' -> sstep s s'.
Proof.
  intros Hf. destruct Hf as [f pool i p off len k Hn|f pool i o k f' ok Hn Ha|f pool i id k Hn|f pool i id k Hn].
  - now apply (ss_read f pool i p off len k).
  - destruct ok.
    + now apply (ss_mut_ok f pool i o k f').
    + assert (f' = f).
      { destruct o as [q|q c t|q n|q off d]; cbn [apply_op] in Ha.
        - destruct (existsb (is_file f) (prefixes q)); inversion Ha; auto.
        - destruct (fs_lookup f q) as [[|j]|]; try (inversion Ha; auto; fail).
          destruct (c && is_dir f (parent q)); inversion Ha; auto.
        - destruct (fs_lookup f q) as [[|j]|]; inversion Ha; auto.
        - destruct (fs_lookup f q) as [[|j]|]; inversion Ha; auto. }
      subst f'. now apply (ss_mut_fail f pool i o k).
  - now apply (ss_lock f pool i id k).
  - now apply (ss_unlock f pool i id k).
Qed.

(** ** Declared length (C12): an export image that has its declared length keeps it *)
Lemma length_resize b k : length (resize b k) = k.
Proof. unfold resize. rewrite app_length, firstn_length, repeat_length. lia. Qed.

Lemma length_write_at b off d : length (write_at b off d) = Nat.max (length b) (off + length d).
Proof.
  unfold write_at, pad_to. rewrite !app_length, firstn_length, skipn_length, !app_length, repeat_length. lia.
Qed.

Theorem sized_step content es f0 f o f' ok e i :
  table_functional content es -> SI content es f0 f -> sys_op content es o -> apply_op f o = (f', ok) ->
  owner es f i e -> length (fs_content f i) = N.to_nat (e_len e) -> length (fs_content f' i) = N.to_nat (e_len e).
Proof.
  intros Hfun HS (pc & Hwf & Hall & Hg) Ha Ho Hlen.
  destruct (apply_op_content f o f' ok i Ha) as [->|[Hl Hc]]; [exact Hlen|].
  destruct o as [q|q c t|q n|q off d]; cbn [op_path] in *.
  - contradiction.
  - destruct Hc as [Ht _]. destruct Hg as [(Hf & _)|[]]. congruence.
  - rewrite Hc, length_resize. destruct Hg as [(s & Hin & Hp & -> & ->)|[]].
    pose proof (seg_nonpad es pc s Hall Hin Hp) as Hne.
    destruct (si_alias _ _ _ _ HS (ps_entry s) e i (conj Hne Hl) Ho) as [_ Hle]. now rewrite Hle.
  - rewrite Hc, length_write_at.
    assert (Hd : exists s n, In s (w_segs pc) /\ e_pad (ps_entry s) = false /\ q = e_target (ps_entry s) /\ off = ps_off s /\ d = firstn n (seg_bytes content s)).
    { destruct Hg as [(s & Hin & Hp & Hq & Hof & Hd)|(s & Hin & Hp & Hq & Hof & n & Hd)].
      - exists s, (length (seg_bytes content s)). rewrite firstn_all. auto.
      - exists s, n. auto. }
    destruct Hd as (s & n & Hin & Hp & -> & -> & ->).
    pose proof (seg_nonpad es pc s Hall Hin Hp) as Hne.
    destruct (write_data_ok content pc s n Hwf Hin) as [Hb _].
    destruct (si_alias _ _ _ _ HS (ps_entry s) e i (conj Hne Hl) Ho) as [_ Hle]. rewrite Hle in Hb. lia.
Qed.

Lemma owner_step es f o f' ok i e : apply_op f o = (f', ok) -> owner es f i e -> owner es f' i e.
Proof.
  intros Ha [Hn Hl]. split; [exact Hn|]. destruct (apply_op_lookup f o f' ok (e_target e) Ha) as [He|[Hnone _]]; congruence.
Qed.

(** In every continuation of a run: an export image that has the declared length keeps it (every
    [set_len] sets the declared length, every write stays inside it, nothing truncates). *)
Theorem sized_stable content es f0 s s' e i :
  table_functional content es -> sreach s s' -> SI content es f0 (s_fs s) -> Forall (pgood content es) (s_pool s) ->
  owner es (s_fs s) i e -> length (fs_content (s_fs s) i) = N.to_nat (e_len e) ->
  owner es (s_fs s') i e /\ length (fs_content (s_fs s') i) = N.to_nat (e_len e).
Proof.
  intros Hfun Hr. induction Hr as [s|s s1 s2 Hst _ IH]; intros HS Hp Ho Hlen; [auto|].
  destruct (sys_step_invariant content es f0 Hfun s s1 Hst HS Hp) as [HS1 Hp1].
  apply IH; auto.
  - destruct Hst as [f pool k p off len kk r Hn|f pool k p w kk r Hn|f pool k o kk f' Hn Ha|f pool k o kk Hn
                    |f pool k p off d kk n f' Hn Ha|f pool k p kk made f' Hn Hpre Ha|f pool k id kk Hn|f pool k id kk Hn]; cbn [s_fs] in *; auto.
    + eapply owner_step; eauto.
    + eapply owner_step; eauto.
    + eapply owner_step; eauto.
  - destruct Hst as [f pool k p off len kk r Hn|f pool k p w kk r Hn|f pool k o kk f' Hn Ha|f pool k o kk Hn
                    |f pool k p off d kk n f' Hn Ha|f pool k p kk made f' Hn Hpre Ha|f pool k id kk Hn|f pool k id kk Hn]; cbn [s_fs s_pool] in *; auto.
    + destruct (Forall_nth_error _ _ _ _ Hp Hn) as (pc & Hwf & Hall & Hg). inversion Hg; subst.
      apply (sized_step content es f0 f o f' true e i Hfun HS); auto. exists pc. auto.
    + destruct (Forall_nth_error _ _ _ _ Hp Hn) as (pc & Hwf & Hall & Hg). inversion Hg; subst.
      apply (sized_step content es f0 f (WriteAt p off (firstn n d)) f' true e i Hfun HS); auto. exists pc. repeat split; auto.
      right. now apply good_cut_of_good_write.
    + destruct (apply_op_content f (MkdirAll made) f' true i Ha) as [->|[_ []]]. exact Hlen.
Qed.
