(** What a piece evaluation may do, for every answer of the environment (C01, C03, C11, C12, C13, C16). *)
From TB Require Import Base Decimal BencodeModel TorrentModel PathModel FsModel SolverModel Generated GeneratedObligations TorrentProofs.
From Coq Require Import ZifyN ZifyNat ZifyBool.
Local Open Scope N_scope.

Section Solver.
Variable H : list N -> list N.             (* SHA-1, abstract *)
Variable content : entry -> list N.        (* the torrent's real content of each file *)

Definition seg_bytes (s : pseg) : list N :=
  firstn (N.to_nat (ps_len s)) (skipn (N.to_nat (ps_off s)) (content (ps_entry s))).
Definition piece_bytes (pc : wpiece) : list N := concat (map seg_bytes (w_segs pc)).

(** Every segment lies inside its file and the content has the declared length. *)
Definition wf_piece (pc : wpiece) : Prop :=
  Forall (fun s => ps_off s + ps_len s <= e_len (ps_entry s) /\
                   N.of_nat (length (content (ps_entry s))) = e_len (ps_entry s)) (w_segs pc).

(** Collision-freeness at this piece: anything that hashes to the piece hash IS the piece's content
    (existence of the content + second-preimage resistance at the points the run touches). *)
Definition cr (pc : wpiece) : Prop := forall b, H b = w_hash pc -> b = piece_bytes pc.

(** The only mutating operations a piece may issue: on the export target of one of its own
    non-padding segments - create the parent directories, open it (create, never truncate),
    set it to the declared length, write the torrent's bytes of that segment at the segment's offset. *)
Definition good_op (pc : wpiece) (o : op) : Prop :=
  match o with
  | MkdirAll p => exists s, In s (w_segs pc) /\ e_pad (ps_entry s) = false /\ p = parent (e_target (ps_entry s))
  | OpenW p create trunc => trunc = false /\ exists s, In s (w_segs pc) /\ e_pad (ps_entry s) = false /\ p = e_target (ps_entry s)
  | SetLen p n => exists s, In s (w_segs pc) /\ e_pad (ps_entry s) = false /\ p = e_target (ps_entry s) /\ n = e_len (ps_entry s)
  | WriteAt p off data => exists s, In s (w_segs pc) /\ e_pad (ps_entry s) = false /\ p = e_target (ps_entry s)
                                    /\ off = ps_off s /\ data = seg_bytes s
  end.

(** A program is good if, whatever answers it receives, it issues only good operations, never
    probes, and never reaches a panic; an I/O error answer (None / false) is allowed anywhere. *)
Inductive good (pc : wpiece) : prog -> Prop :=
| g_ret o : o <> PanicO -> good pc (Ret o)
| g_read p off len k : (forall r, good pc (k r)) -> good pc (Read p off len k)
| g_mut o k : good_op pc o -> (forall b, good pc (k b)) -> good pc (Mut o k)
| g_lock i k : good pc k -> good pc (Lock i k)
| g_unlock i k : good pc k -> good pc (Unlock i k).

Lemma seg_bytes_len s : ps_off s + ps_len s <= N.of_nat (length (content (ps_entry s))) ->
  length (seg_bytes s) = N.to_nat (ps_len s).
Proof. intros. unfold seg_bytes. rewrite firstn_length, skipn_length. lia. Qed.

Lemma slice_concat_head (x : list N) (rest : list (list N)) pre :
  slice_opt (pre ++ x ++ concat rest) (N.of_nat (length pre)) (N.of_nat (length pre) + N.of_nat (length x)) = Some x.
Proof.
  unfold slice_opt. rewrite !app_length.
  replace ((N.of_nat (length pre) <=? N.of_nat (length pre) + N.of_nat (length x)) &&
           (N.of_nat (length pre) + N.of_nat (length x) <=? N.of_nat (length pre + (length x + length (concat rest))))) with true
    by (symmetry; apply andb_true_iff; split; apply N.leb_le; lia).
  f_equal. replace (N.to_nat (N.of_nat (length pre))) with (length pre) by lia.
  rewrite skipn_app, skipn_all, Nat.sub_diag. cbn [app skipn].
  replace (N.to_nat (N.of_nat (length pre) + N.of_nat (length x) - N.of_nat (length pre))) with (length x) by lia.
  rewrite firstn_app, firstn_all, Nat.sub_diag. cbn. now rewrite app_nil_r.
Qed.

(** The writer, started mid-piece on the verified buffer, only emits good operations. *)
Lemma write_prog_good pc : forall segs srcs pre,
  (forall s, In s segs -> In s (w_segs pc)) ->
  Forall (fun s => ps_off s + ps_len s <= N.of_nat (length (content (ps_entry s)))) segs ->
  good pc (write_prog segs srcs (pre ++ concat (map seg_bytes segs)) (N.of_nat (length pre))).
Proof.
  induction segs as [|s segs IH]; intros srcs pre Hin Hwf; cbn [write_prog].
  - constructor; discriminate.
  - destruct srcs as [|src srcs]; [constructor; discriminate|].
    inversion Hwf as [|? ? Hs Hwf']; subst.
    pose proof (seg_bytes_len s Hs) as Hlen.
    assert (Hnext : forall srcs', good pc (write_prog segs srcs' (pre ++ concat (map seg_bytes (s :: segs)))
                                   (N.of_nat (length pre) + ps_len s))).
    { intros srcs'. cbn [map concat]. rewrite app_assoc.
      replace (N.of_nat (length pre) + ps_len s) with (N.of_nat (length (pre ++ seg_bytes s)))
        by (rewrite app_length; lia).
      apply IH; [intros; apply Hin; now right|assumption]. }
    destruct (e_pad (ps_entry s)) eqn:Hpad; [apply Hnext|].
    destruct (match src with Some sp => path_eqb (e_target (ps_entry s)) sp | None => false end); [apply Hnext|].
    cbn [map concat].
    replace (N.of_nat (length pre) + ps_len s) with (N.of_nat (length pre) + N.of_nat (length (seg_bytes s))) by lia.
    rewrite slice_concat_head.
    assert (Hs_in : In s (w_segs pc)) by (apply Hin; now left).
    destruct writer_open_flags as (_ & _ & _ & Htr & _).
    constructor. constructor; [exists s; auto|]. intros [|]; cbn [negb]; [|repeat constructor; discriminate].
    constructor; [split; [exact Htr|exists s; auto]|]. intros [|]; cbn [negb]; [|repeat constructor; discriminate].
    constructor; [exists s; auto|]. intros [|]; cbn [negb]; [|repeat constructor; discriminate].
    constructor; [exists s; repeat split; auto|]. intros [|]; cbn [negb]; [|repeat constructor; discriminate].
    constructor.
    replace (N.of_nat (length pre) + N.of_nat (length (seg_bytes s))) with (N.of_nat (length pre) + ps_len s) by lia.
    specialize (Hnext srcs). cbn [map concat] in Hnext. exact Hnext.
Qed.

Lemma find_combo_hash hash : forall c pre r, find_combo H hash c pre = Some r -> H (concat (map snd r)) = hash.
Proof.
  induction c as [|row rest IH]; intros pre r Hf; cbn [find_combo] in Hf.
  - destruct (beq (H (concat (map snd pre))) hash) eqn:E; [|discriminate].
    inversion Hf; subst. now apply beq_eq.
  - induction row as [|x xs IHr]; [discriminate|].
    destruct (find_combo H hash rest (pre ++ [x])) eqn:E.
    + inversion Hf; subst. eapply IH; eauto.
    + apply IHr. exact Hf.
Qed.

Lemma preload_seg_good pc : forall cands off len acc k,
  (forall l, good pc (k l)) -> good pc (preload_seg cands off len acc k).
Proof.
  induction cands as [|c cs IH]; intros off len acc k Hk; cbn [preload_seg]; [apply Hk|].
  constructor. intros [v|]; [|constructor; discriminate].
  destruct (existsb _ acc); apply IH; assumption.
Qed.

Definition has_candidates (s : pseg) : Prop :=
  e_pad (ps_entry s) = false -> ps_len s <> 0 -> e_searches (ps_entry s) <> None.

Lemma preload_good pc : forall segs k, Forall has_candidates segs ->
  (forall c, length c = length segs -> good pc (k c)) -> good pc (preload segs k).
Proof.
  induction segs as [|s r IH]; intros k Hc Hk; cbn [preload]; [apply Hk; reflexivity|].
  inversion Hc as [|? ? Hs Hr]; subst.
  destruct (e_pad (ps_entry s)) eqn:Hp; [apply IH; auto; intros; apply Hk; cbn; congruence|].
  destruct (N.eqb_spec (ps_len s) 0) as [Hz|Hz]; [apply IH; auto; intros; apply Hk; cbn; congruence|].
  destruct (e_searches (ps_entry s)) as [cands|] eqn:Hsr; [|exfalso; now apply (Hs Hp Hz)].
  apply preload_seg_good. intros l. apply IH; auto. intros; apply Hk; cbn; congruence.
Qed.

Lemma rejected_false pc : rejected pc = false -> Forall has_candidates (w_segs pc).
Proof.
  unfold rejected. intros Hr. apply Forall_forall. intros s Hin Hp Hz Hn.
  assert (existsb (fun s => negb (e_pad (ps_entry s)) && negb (ps_len s =? 0) &&
            match e_searches (ps_entry s) with None => true | Some _ => false end) (w_segs pc) = true); [|congruence].
  apply existsb_exists. exists s. split; [assumption|]. rewrite Hp, Hn.
  destruct (N.eqb_spec (ps_len s) 0); [contradiction|reflexivity].
Qed.

Lemma write_prog_good0 pc srcs : wf_piece pc -> good pc (write_prog (w_segs pc) srcs (piece_bytes pc) 0).
Proof.
  intros Hwf. apply (write_prog_good pc (w_segs pc) srcs []); [auto|].
  unfold wf_piece in Hwf. eapply Forall_impl; [|exact Hwf]. cbn. intros a [H1 H2]. rewrite H2. exact H1.
Qed.

Lemma multi_prog_good pc : wf_piece pc -> cr pc -> w_segs pc <> [] -> rejected pc = false -> good pc (multi_prog H pc).
Proof.
  intros Hwf Hcr Hne Hrej. unfold multi_prog. apply preload_good; [now apply rejected_false|].
  intros c Hlen. destruct c as [|row rest].
  - destruct (w_segs pc); [congruence|discriminate].
  - destruct (find_combo H (w_hash pc) (row :: rest) []) as [combo|] eqn:F; [|constructor; discriminate].
    pose proof (find_combo_hash _ _ _ _ F) as Hh. apply Hcr in Hh. rewrite Hh. now apply write_prog_good0.
Qed.

Lemma single_prog_good pc s : wf_piece pc -> cr pc -> forall cands, good pc (single_prog H pc s cands).
Proof.
  intros Hwf Hcr. induction cands as [|c cs IH]; cbn [single_prog]; [constructor; discriminate|].
  constructor. intros [bs|]; [|constructor; discriminate].
  destruct (beq (H bs) (w_hash pc)) eqn:E; [|exact IH].
  apply beq_eq in E. apply Hcr in E. subst bs. now apply write_prog_good0.
Qed.

(** For every piece of a loaded torrent: whatever the reads return and whichever operations
    fail, the evaluation issues only good operations and never panics.  The side conditions come
    from the layout (C06): a piece has a segment, and a one-segment piece covers at least one byte. *)
Theorem solve_prog_good pc : wf_piece pc -> cr pc -> w_segs pc <> [] ->
  (forall s, w_segs pc = [s] -> ps_len s <> 0) ->
  good pc (solve_prog H pc).
Proof.
  intros Hwf Hcr Hne Hpos. unfold solve_prog. destruct (rejected pc) eqn:R; [constructor; discriminate|].
  destruct (w_segs pc) as [|s [|s2 r]] eqn:E; [congruence| |].
  - destruct (e_pad (ps_entry s)) eqn:Hp; [apply multi_prog_good; auto; congruence|].
    destruct (e_searches (ps_entry s)) as [cands|] eqn:Hs; [apply single_prog_good; auto|].
    exfalso. pose proof (rejected_false pc R) as Hc. rewrite E in Hc. inversion Hc as [|? ? Hs1 _]; subst.
    apply (Hs1 Hp (Hpos s eq_refl) Hs).
  - apply multi_prog_good; auto; congruence.
Qed.

(** A write cut off by a crash: a prefix of a good write. *)
Definition good_cut (pc : wpiece) (o : op) : Prop :=
  match o with
  | WriteAt p off data => exists s, In s (w_segs pc) /\ e_pad (ps_entry s) = false /\ p = e_target (ps_entry s)
                                    /\ off = ps_off s /\ exists n, data = firstn n (seg_bytes s)
  | _ => False
  end.
End Solver.
