(** Model of src/solver/{solver,single,multiple}.rs and src/writer.rs as an interaction tree:
    what a piece evaluation does is a [prog] whose reads and mutating operations are answered by
    the environment.  Theorems about a piece are proved for EVERY answer, which covers every
    interleaving with other threads, every I/O fault position and every crash point. *)
From TB Require Import Base TorrentModel PathModel FsModel Generated.
Local Open Scope N_scope.

Record entry := { e_id : nat; e_ih : list N; e_findex : nat; e_len : N; e_target : path; e_partial : path;
                  e_pad : bool; e_searches : option (list path) }.
Record pseg := { ps_entry : entry; ps_off : N; ps_len : N }.
Record wpiece := { w_segs : list pseg; w_hash : list N }.

Inductive outcome := Success | Failed | Fault | PanicO.

(** Result of opening a path read-only and looking at what is there ([fs::metadata] for the
    argument validation, open + fstat for the index and the resize pre-flight). *)
Definition fileid := (N * N)%type.
Inductive probe_result := PNotFound | PError | PDir | PFile (len : N) (id : fileid).

Inductive prog :=
| Ret (o : outcome)
| Probe (p : path) (write : bool) (k : probe_result -> prog)         (* open (read-only, or read-write without create) + metadata *)
| Read (p : path) (off len : N) (k : option (list N) -> prog)       (* None = I/O error *)
| Mut (o : op) (k : bool -> prog)                                   (* false = I/O error *)
| Lock (id : nat) (k : prog)
| Unlock (id : nat) (k : prog).

Definition slice_opt (b : list N) (s e : N) : option (list N) :=
  if (s <=? e) && (e <=? N.of_nat (length b)) then Some (firstn (N.to_nat (e - s)) (skipn (N.to_nat s) b)) else None.

Section Solver.
Variable H : list N -> list N.

(** writer.rs [FileWriter::write] (after the cursor fix): the verified buffer is split back into
    per-file segments; padding and segments whose source is the export file itself are skipped. *)
Fixpoint write_prog (segs : list pseg) (srcs : list (option path)) (buf : list N) (start : N) : prog :=
  match segs, srcs with
  | s :: segs', src :: srcs' =>
      let e := ps_entry s in
      let stop := start + ps_len s in
      if e_pad e then write_prog segs' srcs' buf stop
      else if match src with Some sp => path_eqb (e_target e) sp | None => false end
           then write_prog segs' srcs' buf stop
      else match slice_opt buf start stop with
           | None => Ret PanicO
           | Some data =>
             Lock (e_id e)
              (Mut (MkdirAll (parent (e_target e))) (fun ok1 => if negb ok1 then Unlock (e_id e) (Ret Fault) else
               Mut (OpenW (e_target e) (of_create writer_open) (of_truncate writer_open)) (fun ok2 => if negb ok2 then Unlock (e_id e) (Ret Fault) else
               Mut (SetLen (e_target e) (e_len e)) (fun ok3 => if negb ok3 then Unlock (e_id e) (Ret Fault) else
               Mut (WriteAt (e_target e) (ps_off s) data) (fun ok4 => if negb ok4 then Unlock (e_id e) (Ret Fault) else
               Unlock (e_id e) (write_prog segs' srcs' buf stop))))))
           end
  | _, _ => Ret Success
  end.

(** single.rs [scan]: first candidate whose bytes hash to the wpiece hash. *)
Fixpoint single_prog (pc : wpiece) (s : pseg) (cands : list path) : prog :=
  match cands with
  | [] => Ret Failed
  | c :: cs => Read c (ps_off s) (ps_len s) (fun r =>
      match r with
      | None => Ret Fault
      | Some bs => if beq (H bs) (w_hash pc) then write_prog (w_segs pc) [Some c] bs 0
                   else single_prog pc s cs
      end)
  end.

Definition cache := list (list (option path * list N)).

(** multiple.rs [preload], one segment: read every candidate, keep the first of each distinct content. *)
Fixpoint preload_seg (cands : list path) (off len : N) (acc : list (option path * list N))
         (k : list (option path * list N) -> prog) : prog :=
  match cands with
  | [] => k acc
  | c :: cs => Read c off len (fun r =>
      match r with
      | None => Ret Fault
      | Some v => if existsb (fun e => beq (snd e) v) acc then preload_seg cs off len acc k
                  else preload_seg cs off len (acc ++ [(Some c, v)]) k
      end)
  end.

Fixpoint preload (segs : list pseg) (k : cache -> prog) : prog :=
  match segs with
  | [] => k []
  | s :: r =>
    if e_pad (ps_entry s) then preload r (fun c => k ([(None, repeat 0 (N.to_nat (ps_len s)))] :: c))
    else if ps_len s =? 0 then
      preload r (fun c => k ([(match e_searches (ps_entry s) with Some (p :: _) => Some p | _ => None end, [])] :: c))
    else match e_searches (ps_entry s) with
         | None => Ret PanicO           (* unwrap on None *)
         | Some cands => preload_seg cands (ps_off s) (ps_len s) [] (fun l => preload r (fun c => k (l :: c)))
         end
  end.

(** [scan_internal]: lexicographic enumeration, first matching combination. *)
Fixpoint find_combo (hash : list N) (c : cache) (pre : list (option path * list N)) : option (list (option path * list N)) :=
  match c with
  | [] => if beq (H (concat (map snd pre))) hash then Some pre else None
  | row :: rest =>
      (fix try (row : list (option path * list N)) :=
         match row with
         | [] => None
         | x :: xs => match find_combo hash rest (pre ++ [x]) with Some r => Some r | None => try xs end
         end) row
  end.

Definition multi_prog (pc : wpiece) : prog :=
  preload (w_segs pc) (fun c =>
    match c with
    | [] => Ret PanicO      (* finder[0]: index out of bounds for a piece without files *)
    | _ => match find_combo (w_hash pc) c [] with
           | None => Ret Failed
           | Some combo => write_prog (w_segs pc) (map fst combo) (concat (map snd combo)) 0
           end
    end).

(** The rejection gate of [solve_internal]. *)
Definition rejected (pc : wpiece) : bool :=
  existsb (fun s => negb (e_pad (ps_entry s)) && negb (ps_len s =? 0) &&
                    match e_searches (ps_entry s) with None => true | Some _ => false end) (w_segs pc).

Definition solve_prog (pc : wpiece) : prog :=
  if rejected pc then Ret Failed
  else match w_segs pc with
       | [s] => if e_pad (ps_entry s) then multi_prog pc
                else match e_searches (ps_entry s) with None => Ret PanicO | Some cands => single_prog pc s cands end
       | _ => multi_prog pc
       end.
End Solver.
