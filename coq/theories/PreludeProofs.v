(** The prelude of a run: argument validation, the resize pre-flight, the export probes
    (C14, C16).  The prelude is evaluated against an arbitrary answer function for probes and an
    arbitrary success function for mutating operations. *)
From TB Require Import Base Decimal BencodeModel TorrentModel PathModel FsModel SolverModel FinderModel RunModel Generated GeneratedObligations.
Local Open Scope N_scope.

(** Running a probe/mutate program: the mutating operations it issues, in order, and how it ends
    ([None] if it would read file data, which no prelude does). *)
Fixpoint run_prelude (ans : path -> bool -> probe_result) (mutok : op -> bool) (pg : prog) : list op * option outcome :=
  match pg with
  | Ret o => ([], Some o)
  | Probe p w k => run_prelude ans mutok (k (ans p w))
  | Mut o k => let r := run_prelude ans mutok (k (mutok o)) in (o :: fst r, snd r)
  | Read _ _ _ _ => ([], None)
  | Lock _ k | Unlock _ k => run_prelude ans mutok k
  end.

Section Prelude.
Variable ans : path -> bool -> probe_result.
Variable mutok : op -> bool.
Notation run := (run_prelude ans mutok).

Definition bad_dir (u : upath) : Prop :=
  match u with URel => True | UAbs p => ans p false <> PDir end.

(** C16: a scan or export path that is relative, missing or not a directory - in whichever
    position - makes the run fail having issued no mutating operation (only [stat] probes). *)
Lemma validate_bad ps k : Exists bad_dir ps -> run (validate_prog ps k) = ([], Some Fault).
Proof.
  induction ps as [|u r IH]; intros Hex; [inversion Hex|].
  destruct u as [|p]; cbn [validate_prog run_prelude]; [reflexivity|].
  destruct (ans p false) eqn:E; try reflexivity.
  apply IH. inversion Hex as [? ? Hb|? ? Hr]; subst; [cbn in Hb; congruence|exact Hr].
Qed.

Lemma validate_good ps k : Forall (fun u => ~ bad_dir u) ps -> run (validate_prog ps k) = run k.
Proof.
  induction 1 as [|u r Hu _ IH]; [reflexivity|].
  destruct u as [|p]; cbn [validate_prog run_prelude]; [exfalso; apply Hu; exact I|].
  destruct (ans p false) eqn:E; try (exfalso; apply Hu; cbn; congruence). exact IH.
Qed.

Theorem bad_path_no_effect scans export rz es k :
  Exists bad_dir (scans ++ [export]) -> run (prelude_prog scans export rz es k) = ([], Some Fault).
Proof. intros Hb. unfold prelude_prog. now apply validate_bad. Qed.

(** ** Resize pre-flight *)
Definition w1 := of_write resize_probe_open.
Definition w2 := of_write resize_fix_open.

(** Pass 1 issues no mutating operation, whatever it finds. *)
Lemma pass1_no_ops es k : fst (run (resize_pass1 es k)) = fst (run k) \/ run (resize_pass1 es k) = ([], Some Fault).
Proof.
  induction es as [|e r IH]; cbn [resize_pass1]; [now left|].
  destruct (e_pad e); [exact IH|]. cbn [run_prelude]. fold w1.
  destruct (ans (e_target e) w1) as [| | |n id]; try (right; reflexivity); try exact IH.
  destruct (e_len e <? n); [right; reflexivity|exact IH].
Qed.

(** If any existing non-padding export file is longer than declared - wherever it sits in the
    list - the pre-flight fails and nothing at all has been modified. *)
Theorem resize_abort_no_mutation es k e n id :
  In e es -> e_pad e = false -> ans (e_target e) w1 = PFile n id -> e_len e < n ->
  run (resize_prog es k) = ([], Some Fault).
Proof.
  intros Hin Hp Ha Hlt. unfold resize_prog. generalize (resize_pass2 es k) as k2. intros k2.
  induction es as [|e0 r IH]; [contradiction|]. cbn [resize_pass1].
  destruct Hin as [->|Hin].
  - rewrite Hp. cbn [run_prelude]. fold w1. rewrite Ha.
    destruct (N.ltb_spec (e_len e) n); [reflexivity|lia].
  - destruct (e_pad e0); [now apply IH|]. cbn [run_prelude]. fold w1.
    destruct (ans (e_target e0) w1) as [| | |n0 id0]; try reflexivity; try (now apply IH).
    destruct (e_len e0 <? n0); [reflexivity|now apply IH].
Qed.

(** The extensions pass 2 performs: exactly the existing non-padding export files shorter than
    declared, each set to exactly its declared length, in list order. *)
Fixpoint expected_extensions (es : list entry) : list op :=
  match es with
  | [] => []
  | e :: r => if e_pad e then expected_extensions r
              else match ans (e_target e) w2 with
                   | PFile n _ => if n <? e_len e then SetLen (e_target e) (e_len e) :: expected_extensions r else expected_extensions r
                   | _ => expected_extensions r
                   end
  end.

Definition pass2_clean (es : list entry) : Prop :=
  Forall (fun e => e_pad e = false -> match ans (e_target e) w2 with PNotFound | PFile _ _ => True | _ => False end) es.

Theorem resize_extends_exactly es k : (forall o, mutok o = true) -> pass2_clean es ->
  fst (run (resize_pass2 es k)) = expected_extensions es ++ fst (run k) /\ snd (run (resize_pass2 es k)) = snd (run k).
Proof.
  intros Hok. induction 1 as [|e r He _ IH]; cbn [resize_pass2 expected_extensions]; [split; reflexivity|].
  destruct (e_pad e) eqn:Hp; [exact IH|]. cbn [run_prelude]. fold w2. specialize (He eq_refl).
  destruct (ans (e_target e) w2) as [| | |n id]; try contradiction; [exact IH|].
  destruct (n <? e_len e); [|exact IH]. cbn [run_prelude]. rewrite Hok. cbn [fst snd app].
  destruct IH as [IH1 IH2]. split; [now rewrite IH1|exact IH2].
Qed.

(** Pass 2 only ever issues [SetLen target declared] operations on non-padding entries. *)
Lemma pass2_ops_shape es k o : In o (fst (run (resize_pass2 es k))) ->
  In o (fst (run k)) \/ exists e, In e es /\ e_pad e = false /\ o = SetLen (e_target e) (e_len e).
Proof.
  induction es as [|e r IH]; cbn [resize_pass2]; [now left|].
  destruct (e_pad e) eqn:Hp.
  - intros Hi. destruct (IH Hi) as [|(e' & H1 & H2 & H3)]; [now left|right; exists e'; auto using in_cons].
  - cbn [run_prelude]. destruct (ans (e_target e) (of_write resize_fix_open)) as [| | |n id]; cbn [run_prelude fst In]; try tauto.
    + intros Hi. destruct (IH Hi) as [|(e' & H1 & H2 & H3)]; [now left|right; exists e'; auto using in_cons].
    + destruct (n <? e_len e).
      * cbn [run_prelude fst In]. intros [<-|Hi]; [right; exists e; auto using in_eq|].
        destruct (mutok (SetLen (e_target e) (e_len e))); [|cbn in Hi; contradiction].
        destruct (IH Hi) as [|(e' & H1 & H2 & H3)]; [now left|right; exists e'; auto using in_cons].
      * intros Hi. destruct (IH Hi) as [|(e' & H1 & H2 & H3)]; [now left|right; exists e'; auto using in_cons].
Qed.

(** The export probes never mutate. *)
Lemma export_probes_no_ops es : forall acc k, (forall a, fst (run (k a)) = []) -> fst (run (export_probes es acc k)) = [].
Proof.
  induction es as [|e r IH]; intros acc k Hk; cbn [export_probes]; [apply Hk|].
  destruct (e_pad e); [now apply IH|]. cbn [run_prelude].
  destruct (ans (e_target e) (of_write index_open)) as [| | |n id]; try (now apply IH).
  destruct (n =? e_len e); now apply IH.
Qed.

(** Without --resize-export-files the prelude issues no mutating operation at all. *)
Theorem noresize_prelude_no_ops scans export es k : (forall a, fst (run (k a)) = []) ->
  fst (run (prelude_prog scans export false es k)) = [].
Proof.
  intros Hk. unfold prelude_prog.
  destruct (Exists_dec bad_dir (scans ++ [export])) as [Hb|Hg].
  - intros [|p]; [left; exact I|]. cbn [bad_dir]. destruct (ans p false); [left|left|right|left]; try discriminate.
    intros Hh. now apply Hh.
  - rewrite validate_bad by exact Hb. reflexivity.
  - rewrite validate_good; [now apply export_probes_no_ops|].
    apply Forall_forall. intros u Hu Hbad. apply Hg. apply Exists_exists. eauto.
Qed.
(** Every mutating operation the whole prelude issues - argument validation, pre-flight, export
    probes - is [SetLen target declared] on a non-padding entry. *)
Lemma validate_ops ps k o : In o (fst (run (validate_prog ps k))) -> In o (fst (run k)).
Proof.
  induction ps as [|u r IH]; [auto|]. destruct u as [|p]; cbn [validate_prog run_prelude]; [intros []|].
  destruct (ans p false); cbn [run_prelude fst]; try (intros []). exact IH.
Qed.

Lemma pass1_ops es k o : In o (fst (run (resize_pass1 es k))) -> In o (fst (run k)).
Proof. destruct (pass1_no_ops es k) as [->| ->]; [auto|intros []]. Qed.

Theorem prelude_ops_shape scans export rz es k o : (forall a, fst (run (k a)) = []) ->
  In o (fst (run (prelude_prog scans export rz es k))) ->
  exists e, In e es /\ e_pad e = false /\ o = SetLen (e_target e) (e_len e).
Proof.
  intros Hk Hin. unfold prelude_prog in Hin. apply validate_ops in Hin.
  assert (Hnone : fst (run (export_probes es [] k)) = []) by now apply export_probes_no_ops.
  destruct rz.
  - unfold resize_prog in Hin. apply pass1_ops in Hin. destruct (pass2_ops_shape _ _ _ Hin) as [Hi|He]; [|exact He].
    rewrite Hnone in Hi. contradiction.
  - rewrite Hnone in Hin. contradiction.
Qed.
End Prelude.

(** No torrents: [start] returns Ok before validating anything (the model: no program is run). *)
