(** The set-up of a run never panics (C16: "for every set of loadable torrents and any directory
    contents the run returns a result rather than panicking"), as a theorem about the model's
    own functions: for torrents the loader returned and ANY index whose paths have a last
    component, [populate] (candidate ranking with its [file_name().unwrap()]) and [work_of] (the
    [find_entry(..).unwrap()] of convert_pieces_to_work, the layout) return [Ok].  With this, the
    hypotheses "[populate .. = Ok es]" and "[work_of es ts = Ok ws]" of [run_setup] are theorems. *)
From TB Require Import Base Decimal BencodeModel BencodeSpec TorrentModel TorrentSpec TorrentProofs LayoutModel LayoutSpec LayoutProofs
                       PathModel FsModel SolverModel FinderModel RunModel SolverProofs SystemProofs PresentProofs GlueProofs Generated GeneratedObligations.
From Coq Require Import ZifyN ZifyNat ZifyBool.
Local Open Scope N_scope.

(** ** Every segment the layout emits names an existing file *)
Lemma fill_files_lt files L : forall fuel fi rem counted acc out fi' rem',
  fill fuel files L fi rem counted acc = Ok (out, fi', rem') ->
  Forall (fun sg => (s_file sg < length files)%nat) acc -> Forall (fun sg => (s_file sg < length files)%nat) out.
Proof.
  induction fuel as [|fuel IH]; intros fi rem counted acc out fi' rem' Hf Hacc; cbn [fill] in Hf.
  - destruct (counted <? L); [discriminate|]. inversion Hf; subst. apply Forall_rev. exact Hacc.
  - destruct (counted <? L); [|inversion Hf; subst; apply Forall_rev; exact Hacc].
    destruct (nth_error files fi) as [cur|] eqn:En; [|discriminate].
    assert (Hlt : (fi < length files)%nat) by (apply nth_error_Some; congruence).
    destruct (sub64 L counted) as [remainder| | |]; cbn [bind] in Hf; try discriminate.
    destruct (if remainder <=? rem then sub64 rem remainder else Ok 0) as [cur_rem| | |]; cbn [bind] in Hf; try discriminate.
    destruct (if remainder <=? rem then Ok L else add64 counted rem) as [counted'| | |]; cbn [bind] in Hf; try discriminate.
    destruct (sub64 cur rem) as [off| | |]; cbn [bind] in Hf; try discriminate.
    destruct (sub64 rem cur_rem) as [len0| | |]; cbn [bind] in Hf; try discriminate.
    set (sg := {| s_file := fi; s_off := off; s_len := len0; s_flen := cur |}) in *.
    assert (Hacc' : Forall (fun s => (s_file s < length files)%nat) (sg :: acc)) by (constructor; [exact Hlt|exact Hacc]).
    destruct (cur_rem =? 0).
    + destruct (Nat.eqb (S fi) (length files)).
      * inversion Hf; subst. change (rev acc ++ [sg]) with (rev (sg :: acc)). apply Forall_rev. exact Hacc'.
      * destruct (nth_error files (S fi)) as [nl|]; [|discriminate]. exact (IH _ _ _ _ _ _ _ Hf Hacc').
    + exact (IH _ _ _ _ _ _ _ Hf Hacc').
Qed.

Lemma pieces_multi_files_lt files L : forall nh fi rem ps, pieces_multi files L nh fi rem = Ok ps ->
  forall p sg, In p ps -> In sg (p_segs p) -> (s_file sg < length files)%nat.
Proof.
  induction nh as [|nh IH]; intros fi rem ps Hp p sg Hin Hsg; cbn [pieces_multi] in Hp.
  - inversion Hp; subst. contradiction.
  - destruct (fill (S (length files)) files L fi rem 0 []) as [[[out fi'] rem']| | |] eqn:Ef; cbn [bind] in Hp; try discriminate.
    destruct (sum64 (map s_len out) 0) as [ln| | |]; cbn [bind] in Hp; try discriminate.
    destruct (pieces_multi files L nh fi' rem') as [r| | |] eqn:Er; cbn [bind] in Hp; try discriminate.
    inversion Hp; subst. destruct Hin as [<-|Hin].
    + cbn [p_segs] in Hsg. pose proof (fill_files_lt files L _ _ _ _ _ _ _ _ Ef (Forall_nil _)) as Hall.
      rewrite Forall_forall in Hall. auto.
    + exact (IH _ _ _ Er p sg Hin Hsg).
Qed.

Lemma pieces_single_files flen L : forall nh start rem ps, pieces_single flen L nh start rem = Ok ps ->
  forall p sg, In p ps -> In sg (p_segs p) -> s_file sg = 0%nat.
Proof.
  induction nh as [|nh IH]; intros start rem ps Hp p sg Hin Hsg; cbn [pieces_single] in Hp.
  - inversion Hp; subst. contradiction.
  - destruct (sub64 rem _) as [rem'| | |]; cbn [bind] in Hp; try discriminate.
    destruct (add64 start _) as [start'| | |]; cbn [bind] in Hp; try discriminate.
    destruct (pieces_single flen L nh start' rem') as [r| | |] eqn:Er; cbn [bind] in Hp; try discriminate.
    inversion Hp; subst. destruct Hin as [<-|Hin].
    + cbn [p_segs] in Hsg. destruct Hsg as [<-|[]]. reflexivity.
    + exact (IH _ _ _ Er p sg Hin Hsg).
Qed.

Definition nfiles_of (t : torrent) : nat := match t_length t with Some _ => 1%nat | None => length (files_of t) end.

Lemma layout_files_lt t ps : layout (shape_of t) (t_piece_length t) (length (t_pieces t)) = Ok ps ->
  forall p sg, In p ps -> In sg (p_segs p) -> (s_file sg < nfiles_of t)%nat.
Proof.
  unfold shape_of, nfiles_of, files_of. intros Hl p sg Hin Hsg. destruct (t_length t) as [n|]; cbn [layout] in Hl.
  - unfold layout_single in Hl. rewrite (pieces_single_files _ _ _ _ _ _ Hl p sg Hin Hsg). lia.
  - unfold layout_multi in Hl. destruct (t_files t) as [fs|]; cbn [map] in Hl; [|discriminate].
    destruct (map f_length fs) as [|f0 r] eqn:Em; [discriminate|].
    pose proof (pieces_multi_files_lt _ _ _ _ _ _ Hl p sg Hin Hsg) as Hlt. rewrite <- Em, map_length in Hlt. exact Hlt.
Qed.

(** ** The table has an entry for every file of every torrent *)
Lemma entries_multi_has export t : forall fs findex id k, (k < length fs)%nat ->
  exists e, In e (entries_multi export t fs findex id) /\ e_ih e = t_info_hash t /\ e_findex e = (findex + k)%nat.
Proof.
  induction fs as [|f r IH]; intros findex id k Hk; [cbn in Hk; lia|]. cbn [entries_multi].
  destruct k as [|k].
  - eexists. split; [now left|]. cbn. split; [reflexivity|lia].
  - destruct (IH (S findex) (S id) k ltac:(cbn in Hk; lia)) as (e & Hin & Hih & Hfi). exists e. split; [now right|]. split; [exact Hih|lia].
Qed.

Lemma entries_of_has export t id k : torrent_ok t -> (k < nfiles_of t)%nat ->
  exists e, In e (entries_of export t id) /\ e_ih e = t_info_hash t /\ e_findex e = k.
Proof.
  intros [_ [(flen & Hl & Hf & _)|(fs & Hl & Hf & _)]] Hk; unfold nfiles_of, files_of, entries_of in *; rewrite Hl, Hf in *.
  - assert (k = 0%nat) by lia. subst k. eexists. split; [now left|]. cbn. auto.
  - destruct (entries_multi_has export t fs 0 id k Hk) as (e & Hin & Hih & Hfi). exists e. auto.
Qed.

Lemma metadata_table_has export : forall ts id t k, In t ts -> Forall torrent_ok ts -> (k < nfiles_of t)%nat ->
  exists e, In e (metadata_table export ts id) /\ e_ih e = t_info_hash t /\ e_findex e = k.
Proof.
  induction ts as [|u r IH]; intros id t k Hin Hok Hk; [contradiction|]. cbn [metadata_table]. inversion Hok as [|? ? Hu Hr]; subst.
  destruct Hin as [->|Hin].
  - destruct (entries_of_has export t id k Hu Hk) as (e & He & H1 & H2). exists e. split; [apply in_or_app; now left|auto].
  - destruct (IH (id + length (entries_of export u id))%nat t k Hin Hr Hk) as (e & He & H1 & H2). exists e. split; [apply in_or_app; now right|auto].
Qed.

Lemma find_exists {A} (g : A -> bool) l x : In x l -> g x = true -> exists y, find g l = Some y.
Proof.
  induction l as [|a r IH]; intros Hin Hg; [contradiction|]. cbn [find]. destruct (g a) eqn:Ea; [eauto|].
  destruct Hin as [->|Hin]; [congruence|exact (IH Hin Hg)].
Qed.

Section Total.
Variable export : path.
Variable ts : list torrent.
Variable ix : index.
Hypothesis Hts : Forall torrent_ok ts.

Lemma find_entry_total es t k : populate ix (metadata_table export ts 0) = Ok es -> In t ts -> (k < nfiles_of t)%nat ->
  exists e, find_entry es (t_info_hash t) k = Some e.
Proof.
  intros Hpop Hin Hk. destruct (metadata_table_has export ts 0 t k Hin Hts Hk) as (e0 & He0 & Hih & Hfi).
  destruct (populate_entry ix _ es e0 Hpop He0) as [s Hs].
  unfold find_entry. apply (find_exists _ es (with_searches e0 s) Hs). cbn. rewrite Hih, Hfi.
  apply andb_true_iff. split; [now apply beq_eq|apply Nat.eqb_refl].
Qed.

Lemma segs_of_total es t : populate ix (metadata_table export ts 0) = Ok es -> In t ts ->
  forall sgs, Forall (fun sg => (s_file sg < nfiles_of t)%nat) sgs -> exists out, segs_of es (t_info_hash t) sgs = Ok out.
Proof.
  intros Hpop Hin. induction sgs as [|sg r IH]; intros Hall; [eexists; reflexivity|]. inversion Hall as [|? ? Hsg Hr]; subst.
  cbn [segs_of]. destruct (find_entry_total es t (s_file sg) Hpop Hin Hsg) as [e ->].
  destruct (IH Hr) as [out ->]. cbn [bind]. eauto.
Qed.

Lemma work_of_pieces_total es t : populate ix (metadata_table export ts 0) = Ok es -> In t ts ->
  forall ps hashes, (forall p sg, In p ps -> In sg (p_segs p) -> (s_file sg < nfiles_of t)%nat) ->
  exists w, work_of_pieces es (t_info_hash t) ps hashes = Ok w.
Proof.
  intros Hpop Hin. induction ps as [|p pr IH]; intros hashes Hall; [eexists; reflexivity|].
  destruct hashes as [|h hr]; [eexists; reflexivity|]. cbn [work_of_pieces].
  destruct (segs_of_total es t Hpop Hin (p_segs p)) as [sg ->].
  { apply Forall_forall. intros x Hx. apply (Hall p x); [now left|exact Hx]. }
  destruct (IH hr) as [w ->]. { intros q x Hq Hx. apply (Hall q x); [now right|exact Hx]. }
  cbn [bind]. eauto.
Qed.

Theorem work_of_total es : populate ix (metadata_table export ts 0) = Ok es -> exists ws, work_of es ts = Ok ws.
Proof.
  intros Hpop.
  assert (G : forall ts', incl ts' ts -> exists ws, work_of es ts' = Ok ws).
  { induction ts' as [|t r IH]; intros Hi; [eexists; reflexivity|]. cbn [work_of].
    assert (Ht : In t ts) by (apply Hi; now left).
    pose proof (proj1 (Forall_forall _ _) Hts t Ht) as Hok.
    destruct (torrent_layout t Hok) as (ps & Hl & _ & _). rewrite Hl. cbn [bind].
    destruct (work_of_pieces_total es t Hpop Ht ps (t_pieces t) (layout_files_lt t ps Hl)) as [w ->]. cbn [bind].
    destruct (IH (fun x Hx => Hi x (or_intror Hx))) as [rest ->]. cbn [bind]. eauto. }
  apply G. apply incl_refl.
Qed.

End Total.

(** ** The candidate ranking never panics *)
Definition paths_ok (t : torrent) : Prop := forall fs, t_files t = Some fs -> Forall (fun f => f_path f <> []) fs.
Definition index_paths_ok (ix : index) : Prop := forall n ns p id, nodes_of ix n = Some ns -> In (p, id) ns -> p <> [].

Lemma file_name_some (p : path) : p <> [] -> exists x, file_name p = Some x.
Proof.
  intros Hp. unfold file_name. destruct (rev p) as [|x r] eqn:Er; [|eauto].
  exfalso. apply Hp. rewrite <- (rev_involutive p), Er. reflexivity.
Qed.

Lemma rank_total entry partial full : entry <> [] -> partial <> [] -> exists k, rank entry partial full = Ok k.
Proof.
  intros He Hp. unfold rank. destruct (path_eqb entry full); [eauto|]. destruct (ends_with_rel entry partial); [eauto|].
  destruct (file_name_some entry He) as [a ->]. destruct (file_name_some partial Hp) as [b ->]. destruct (beq a b); eauto.
Qed.

Lemma rank_all_total partial full : partial <> [] -> forall l, Forall (fun x : path * fileid => fst x <> []) l ->
  exists rs, rank_all partial full l = Ok rs.
Proof.
  intros Hp. induction l as [|x r IH]; intros Hall; [eexists; reflexivity|]. inversion Hall as [|? ? Hx Hr]; subst.
  cbn [rank_all]. destruct (rank_total (fst x) partial full Hx Hp) as [k ->]. cbn [bind].
  destruct (IH Hr) as [rs ->]. cbn [bind]. eauto.
Qed.

Lemma searches_for_total ix e : index_paths_ok ix -> e_partial e <> [] -> exists s, searches_for ix e = Ok s.
Proof.
  intros Hix Hp. unfold searches_for. destruct (e_pad e); [eauto|]. destruct (nodes_of ix (e_len e)) as [ns|] eqn:En; [|eauto].
  assert (Hall : Forall (fun x : path * fileid => fst x <> []) ns).
  { apply Forall_forall. intros [p id] Hin. exact (Hix _ _ _ _ En Hin). }
  unfold sort_candidates. destruct ns as [|x [|y r]]; cbn [bind]; try (eexists; reflexivity).
  destruct (rank_all_total (e_partial e) (e_target e) Hp _ Hall) as [rs ->]. cbn [bind]. eauto.
Qed.

Lemma populate_total ix : index_paths_ok ix -> forall es0, Forall (fun e => e_partial e <> []) es0 -> exists es, populate ix es0 = Ok es.
Proof.
  intros Hix. induction es0 as [|e r IH]; intros Hall; [eexists; reflexivity|]. inversion Hall as [|? ? He Hr]; subst.
  cbn [populate]. destruct (searches_for_total ix e Hix He) as [s ->]. cbn [bind]. destruct (IH Hr) as [rs ->]. cbn [bind]. eauto.
Qed.

Lemma entries_multi_partial export t : forall fs findex id, Forall (fun f => f_path f <> []) fs ->
  Forall (fun e => e_partial e <> []) (entries_multi export t fs findex id).
Proof.
  induction fs as [|f r IH]; intros findex id Hall; [constructor|]. inversion Hall; subst. cbn [entries_multi]. constructor; [cbn; assumption|auto].
Qed.

Lemma metadata_table_partial export : forall ts id, Forall paths_ok ts -> Forall (fun e => e_partial e <> []) (metadata_table export ts id).
Proof.
  induction ts as [|t r IH]; intros id Hall; [constructor|]. inversion Hall as [|? ? Ht Hr]; subst. cbn [metadata_table].
  apply Forall_app. split; [|auto]. unfold entries_of. destruct (t_files t) as [fs|] eqn:Ef.
  - apply entries_multi_partial. exact (Ht fs Ef).
  - destruct (t_length t); [|constructor]. constructor; [cbn; discriminate|constructor].
Qed.

(** ** The loader only returns torrents whose files have a path *)
Lemma spec_files_paths : forall l fs, spec_files l = Some fs -> Forall (fun f => f_path f <> []) fs.
Proof.
  induction l as [|v r IH]; intros fs Hs; cbn [spec_files] in Hs; [inversion Hs; constructor|].
  destruct v as [| | |d]; try discriminate. destruct (spec_file d) as [f|] eqn:Ef; [|discriminate].
  destruct (spec_files r) as [fs'|]; [|discriminate]. inversion Hs; subst. constructor; [|auto].
  unfold spec_file in Ef. destruct (v_int _); [|discriminate]. destruct (to_u64 _); [|discriminate].
  destruct (first_some _ _); [|discriminate]. destruct (spec_paths _) as [ps|]; [|discriminate].
  destruct ps; [discriminate|]. inversion Ef; subst. cbn. discriminate.
Qed.

Theorem load_paths_ok H x t : len x <= u64max -> load H x = Ok t -> paths_ok t.
Proof.
  intros Hlen Hl. apply (load_iff_spec H x t Hlen) in Hl. destruct Hl as (v & Hc & Hx & Hs).
  destruct v as [| | |root]; cbn [spec_doc] in Hs; try discriminate.
  destruct (v_dict (lookup root key_info)) as [info|]; [|discriminate].
  apply spec_info_fields in Hs. destruct Hs as (_ & _ & _ & _ & _ & _ & Hshape).
  intros fs Hfs. destruct Hshape as [(z & flen & _ & _ & _ & _ & Hf & _)|(l & fs' & _ & _ & Hsf & _ & _ & Hf & _)]; rewrite Hf in Hfs; [discriminate|].
  inversion Hfs; subst. exact (spec_files_paths l fs Hsf).
Qed.

(** ** The set-up is total *)
Theorem setup_total export ts ix : Forall torrent_ok ts -> Forall paths_ok ts -> index_paths_ok ix ->
  exists es ws, populate ix (metadata_table export ts 0) = Ok es /\ work_of es ts = Ok ws.
Proof.
  intros Hts Hps Hix. destruct (populate_total ix Hix _ (metadata_table_partial export ts 0 Hps)) as [es Hes].
  destruct (work_of_total export ts ix Hts es Hes) as [ws Hws]. eauto.
Qed.

(** ** From the bytes on the command line to [run_setup] *)
Lemma loaded_in H xs t : In t (loaded H xs) -> exists x, In x xs /\ load H x = Ok t.
Proof.
  unfold loaded. intros Hin. apply in_flat_map in Hin. destruct Hin as (x & Hx & Ht).
  destruct (load H x) as [u| | |] eqn:El; try contradiction. destruct Ht as [<-|[]]. eauto.
Qed.

Lemma presented_paths_ok H xs : Forall (fun x => len x <= u64max) xs -> Forall paths_ok (RunModel.distinct_torrents (loaded H xs)).
Proof.
  intros Hlen. apply Forall_forall. intros t Ht.
  destruct (PresentProofs.distinct_spec (loaded H xs)) as (_ & Hsub & _).
  destruct (loaded_in H xs t (Hsub t Ht)) as (x & Hx & Hl). rewrite Forall_forall in Hlen. exact (load_paths_ok H x t (Hlen x Hx) Hl).
Qed.

(** For ANY list of byte strings given as torrents and any index: the torrents that load, de-duplicated, with the table
    and the work list the model builds from them, form a [run_setup] - provided the world is as the theorems need it
    (the content has the declared lengths, SHA-1 is collision-free at the pieces, distinct files have distinct paths, no
    two export paths are initially hard links of one another). *)
Theorem run_setup_from_bytes H content export xs ix f0 :
  Forall (fun x => len x <= u64max) xs -> index_paths_ok ix ->
  let ts := RunModel.distinct_torrents (loaded H xs) in
  (forall es, populate ix (metadata_table export ts 0) = Ok es ->
     (forall e, In e es -> N.of_nat (length (content e)) = e_len e) /\ SystemProofs.table_functional content es /\
     SystemProofs.alias_free content es f0 /\ forall ws, work_of es ts = Ok ws -> Forall (SolverProofs.cr H content) ws) ->
  exists es ws, run_setup H content export ts ix es ws f0 (map (solve_prog H) ws).
Proof.
  intros Hlen Hix ts Hworld. destruct (presented_list_ok H xs Hlen) as [Hok Hnd].
  destruct (setup_total export ts ix Hok (presented_paths_ok H xs Hlen) Hix) as (es & ws & Hpop & Hw).
  destruct (Hworld es Hpop) as (Hc & Hf & Ha & Hcr). exists es, ws. unfold run_setup.
  repeat (split; [assumption|]). split; [exact (Hcr ws Hw)|]. split; [exact Hf|]. split; [exact Ha|].
  apply Forall_forall. intros pg Hin. apply in_map_iff in Hin. destruct Hin as (pc & <- & Hpc). eauto.
Qed.
