(** Model of src/orchestrator.rs: argument validation, de-duplication of the torrent list, the
    prelude (resize pre-flight, export probes), construction of the work list from the piece
    layout, and the replay of observed event sequences against the programs. *)
From TB Require Import Base Decimal BencodeModel TorrentModel LayoutModel PathModel FsModel SolverModel FinderModel Generated.
Local Open Scope N_scope.

(** A directory argument as the user spelled it. *)
Inductive upath := URel | UAbs (p : path).

(** [validate_input_paths]: every scan directory, then the export directory; a relative path is
    refused before the file system is consulted. *)
Fixpoint validate_prog (ps : list upath) (k : prog) : prog :=
  match ps with
  | [] => k
  | URel :: _ => Ret Fault
  | UAbs p :: r => Probe p false (fun pr => match pr with PDir => validate_prog r k | _ => Ret Fault end)
  end.

(** [sort_by] info-hash then [dedup_by]: insertion sort, then drop consecutive equal hashes. *)
Fixpoint insert_torrent (t : torrent) (l : list torrent) : list torrent :=
  match l with
  | [] => [t]
  | u :: r => if blt (t_info_hash u) (t_info_hash t) then u :: insert_torrent t r else t :: l
  end.
Fixpoint sort_torrents (l : list torrent) : list torrent :=
  match l with [] => [] | t :: r => insert_torrent t (sort_torrents r) end.
Fixpoint dedup_from (prev : list N) (l : list torrent) : list torrent :=
  match l with
  | [] => []
  | u :: r => if beq prev (t_info_hash u) then dedup_from prev r else u :: dedup_from (t_info_hash u) r
  end.
Definition dedup_torrents (l : list torrent) : list torrent :=
  match l with [] => [] | t :: r => t :: dedup_from (t_info_hash t) r end.
Definition distinct_torrents (l : list torrent) : list torrent := dedup_torrents (sort_torrents l).

(** [convert_pieces_to_work]: the pieces of every torrent in order, each segment tied to its entry. *)
Definition shape_of (t : torrent) : shape :=
  match t_length t with Some n => Single n | None => Multi (map f_length (match t_files t with Some fs => fs | None => [] end)) end.

Definition find_entry (es : list entry) (ih : list N) (findex : nat) : option entry :=
  find (fun e => beq (e_ih e) ih && Nat.eqb (e_findex e) findex) es.

Fixpoint segs_of (es : list entry) (ih : list N) (sg : list seg) : res (list pseg) :=
  match sg with
  | [] => Ok []
  | s :: r => match find_entry es ih (s_file s) with
              | None => Panic
              | Some e => do rs <- segs_of es ih r; Ok ({| ps_entry := e; ps_off := s_off s; ps_len := s_len s |} :: rs)
              end
  end.

Fixpoint work_of_pieces (es : list entry) (ih : list N) (ps : list LayoutModel.piece) (hashes : list (list N)) : res (list wpiece) :=
  match ps, hashes with
  | p :: pr, h :: hr => do sg <- segs_of es ih (LayoutModel.p_segs p); do rest <- work_of_pieces es ih pr hr;
                        Ok ({| w_segs := sg; w_hash := h |} :: rest)
  | _, _ => Ok []
  end.

Fixpoint work_of (es : list entry) (ts : list torrent) : res (list wpiece) :=
  match ts with
  | [] => Ok []
  | t :: r => do ps <- layout (shape_of t) (t_piece_length t) (length (t_pieces t));
              do w <- work_of_pieces es (t_info_hash t) ps (t_pieces t);
              do rest <- work_of es r; Ok (w ++ rest)
  end.

(** The prelude of [start] up to the scan walks. *)
Definition prelude_prog (scans : list upath) (export : upath) (resize_flag : bool) (es : list entry)
           (k : list (N * (path * fileid)) -> prog) : prog :=
  validate_prog (scans ++ [export])
    ((if resize_flag then resize_prog es else fun k => k) (export_probes es [] k)).

(** ** Replaying an observed event sequence against a program *)

Inductive event :=
| EProbe (p : path) (write : bool) (r : probe_result)
| ERead (p : path) (off len : N) (r : option (list N))
| EMut (o : op) (ok : bool)
| EMkPartial (p made : path).     (* a failed create_dir_all p that had already created the ancestors up to [made] *)

Definition op_eqb (a b : op) : bool :=
  match a, b with
  | MkdirAll p, MkdirAll q => path_eqb p q
  | OpenW p c t, OpenW q c' t' => path_eqb p q && Bool.eqb c c' && Bool.eqb t t'
  | SetLen p n, SetLen q m => path_eqb p q && (n =? m)
  | WriteAt p o d, WriteAt q o' d' => path_eqb p q && (o =? o') && beq d d'
  | _, _ => false
  end.

Inductive walk_result :=
| WDone (o : outcome)                 (* the program returned exactly when the events ended *)
| WCut                                (* the events are a proper prefix of a path: a cut-off run *)
| WExtra (n : nat)                    (* events left over after the program returned *)
| WMismatch (n : nat).                (* event n is not what the program does next *)

(** A write cut short by a crash: the logged data is a prefix of what the program writes. *)
Definition op_prefix (logged want : op) : bool :=
  match logged, want with
  | WriteAt p o d, WriteAt q o' d' => path_eqb p q && (o =? o') && beq d (firstn (length d) d')
  | _, _ => false
  end.

(** A failed operation is matched on its kind and path only (the shim fails a write at its seek,
    before the data is known). *)
Definition op_same_target (a b : op) : bool :=
  match a, b with
  | MkdirAll p, MkdirAll q | OpenW p _ _, OpenW q _ _ | SetLen p _, SetLen q _ | WriteAt p _ _, WriteAt q _ _ => path_eqb p q
  | _, _ => false
  end.

(** A read is matched on path and offset; it may return fewer bytes than asked for (end of file),
    never more; a failed read is matched on the path only. *)
Definition read_matches (p : path) (off len : N) (p' : path) (off' : N) (r : option (list N)) : bool :=
  path_eqb p p' && match r with None => true | Some d => (off =? off') && (N.of_nat (length d) <=? len) end.

Fixpoint walk (pg : prog) (evs : list event) (n : nat) : walk_result :=
  match pg with
  | Ret o => match evs with [] => WDone o | _ => WExtra n end
  | Lock _ k | Unlock _ k => walk k evs n
  | Probe p w k =>
      match evs with
      | [] => WCut
      | EProbe p' w' r :: rest => if path_eqb p p' && Bool.eqb w w' then walk (k r) rest (S n) else WMismatch n
      | _ => WMismatch n
      end
  | Read p off len k =>
      match evs with
      | [] => WCut
      | ERead p' off' len' r :: rest => if read_matches p off len p' off' r then walk (k r) rest (S n) else WMismatch n
      | _ => WMismatch n
      end
  | Mut o k =>
      match evs with
      | [] => WCut
      | [EMut o' true] => if op_eqb o o' then walk (k true) [] (S n) else if op_prefix o' o then WCut else WMismatch n
      | EMut o' ok :: rest => if (if ok then op_eqb o o' else op_same_target o o') then walk (k ok) rest (S n) else WMismatch n
      | EMkPartial p' made :: rest =>
          match o with
          | MkdirAll p => if path_eqb p p' && path_prefix made p then walk (k false) rest (S n) else WMismatch n
          | _ => WMismatch n
          end
      | _ => WMismatch n
      end
  end.

(** ** [PieceSolver::solve]: the shared counters, one update and one progress line per piece. *)
Record counters := { c_success : nat; c_failed : nat; c_fault : nat; c_total : nat }.
Definition count (c : counters) (o : outcome) : counters :=
  match o with
  | Success => {| c_success := S (c_success c); c_failed := c_failed c; c_fault := c_fault c; c_total := c_total c |}
  | Failed => {| c_success := c_success c; c_failed := S (c_failed c); c_fault := c_fault c; c_total := c_total c |}
  | Fault => {| c_success := c_success c; c_failed := c_failed c; c_fault := S (c_fault c); c_total := c_total c |}
  | PanicO => c
  end.
(** The progress lines printed: the counters after each piece. *)
Fixpoint progress (c : counters) (os : list outcome) : list counters :=
  match os with [] => [] | o :: r => count c o :: progress (count c o) r end.
