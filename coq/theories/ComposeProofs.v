(** The executor and the evaluations together (C05 as stated).

    ExecModel treats "solve piece w" as one step; SystemModel lets the programs of all pieces move
    in any order.  Here both are put together the way the code does it: a worker that has popped
    piece [w] (pc = [PSolve w]) performs the steps of [w]'s program - and only that worker, only
    that program - and takes the executor's "solved" step when the program has returned.  Pieces
    are numbered; piece [w] is program [w] of the pool.

    - [proj_exec], [proj_sys]: every run of the composition is a run of the executor model (the
      program steps stutter) and a path of the system of SystemModel - so every theorem about
      either applies to the composition.
    - [compose_terminates]: no infinite run (executor measure, then the well-founded pool order).
    - [compose_progress]: while some worker has not finished, some worker can move (no deadlock,
      no evaluation stuck half-way).
    - [compose_exactly_once]: when all workers have finished, the solved list is a permutation of
      the work and the program of every piece has returned - each was run to completion, by the
      one worker that popped it ([solver_unique]). *)
From TB Require Import Base TorrentModel PathModel FsModel SolverModel RunModel SystemModel SystemProofs EstablishProofs ExecModel ExecProofs TerminationProofs.
From Coq Require Import Wellfounded Permutation Lia List Arith.
Import ListNotations.

Lemma NoDup_app_l {A} (a b : list A) : NoDup (a ++ b) -> NoDup a.
Proof. induction a as [|x a IH]; intros Hn; [constructor|]. inversion Hn as [|? ? Hx Hr]; subst. constructor; [intros Hi; apply Hx; apply in_or_app; now left|exact (IH Hr)]. Qed.
Lemma NoDup_app_r {A} (a b : list A) : NoDup (a ++ b) -> NoDup b.
Proof. induction a as [|x a IH]; intros Hn; [exact Hn|]. inversion Hn; subst. auto. Qed.

Section Compose.
Variable n : nat.
Variable balanced : nat -> (nat -> list nat) -> (nat -> list nat) -> Prop.
Hypothesis Hperm : forall a f f', balanced a f f' -> Permutation (flat nat a f') (flat nat a f).
Hypothesis Hout : forall a f f' i, balanced a f f' -> a <= i -> f' i = f i.
Hypothesis Hmono : forall a f f' i j, balanced a f f' -> i <= j -> j < a -> length (f' j) <= length (f' i).
Hypothesis Htotal : forall a f, exists f', balanced a f f'.

Notation est := (st nat).
Notation estep := (step nat balanced).
Notation ereach := (reach nat n balanced).
Notation einit := (init nat n).

Record cst := { ce : est; cs : sys }.

(** The steps the programs may take: [pstep] is [sstep] (failures, arbitrary read answers, cut
    writes) or [fstep] (the fault-free system) - any sub-relation of [sstep] under which the
    programs of the pool ([okp], closed under continuation) can always move until they return. *)
Variable pstep : sys -> sys -> Prop.
Hypothesis pstep_sstep : forall s s', pstep s s' -> sstep s s'.

(** A step of the system that is a step of program [w] (and of no other). *)
Definition sstep_at (w : nat) (s s' : sys) : Prop :=
  pstep s s' /\ exists pg pg', nth_error (s_pool s) w = Some pg /\ psub pg' pg /\ s_pool s' = set_nth (s_pool s) w pg'.

Variable okp : prog -> Prop.
Hypothesis okp_sub : forall pg pg', okp pg -> psub pg' pg -> okp pg'.
Hypothesis okp_moves : forall f pool w pg, nth_error pool w = Some pg -> okp pg -> (forall o, pg <> Ret o) ->
  exists s', sstep_at w {| s_fs := f; s_pool := pool |} s'.

Inductive cstep (t : nat) : cst -> cst -> Prop :=
| c_exec c e' : (forall w, pc (ce c) t <> PSolve w) -> estep t (ce c) e' -> cstep t c {| ce := e'; cs := cs c |}
| c_prog c w s' : pc (ce c) t = PSolve w -> sstep_at w (cs c) s' -> cstep t c {| ce := ce c; cs := s' |}
| c_done c w o e' : pc (ce c) t = PSolve w -> nth_error (s_pool (cs c)) w = Some (Ret o) -> estep t (ce c) e' ->
    cstep t c {| ce := e'; cs := cs c |}.

Definition cany (c c' : cst) : Prop := exists t, t < n /\ cstep t c c'.

Inductive creach (c0 : cst) : cst -> Prop :=
| cr_refl : creach c0 c0
| cr_step c c' : creach c0 c -> cany c c' -> creach c0 c'.

(** ** Projections *)
Lemma proj_exec c0 c : creach c0 c -> ereach (ce c0) (ce c).
Proof.
  induction 1 as [|c c' _ IH (t & Ht & Hst)]; [constructor|].
  destruct Hst as [c e' _ He|c w s' _ _|c w o e' _ _ He]; cbn [ce]; [|exact IH|].
  - eapply r_step; [exact IH|]. exists t. auto.
  - eapply r_step; [exact IH|]. exists t. auto.
Qed.

Lemma sreach_snoc s s' s'' : sreach s s' -> sstep s' s'' -> sreach s s''.
Proof. induction 1 as [s|s s1 s2 Hst _ IH]; intros H2; [eapply sr_step; [exact H2|apply sr_refl]|eapply sr_step; [exact Hst|exact (IH H2)]]. Qed.

Lemma proj_sys c0 c : creach c0 c -> sreach (cs c0) (cs c).
Proof.
  induction 1 as [|c c' _ IH (t & Ht & Hst)]; [apply sr_refl|].
  destruct Hst as [c e' _ _|c w s' _ [Hs _]|c w o e' _ _ _]; cbn [cs]; [exact IH| |exact IH].
  exact (sreach_snoc _ _ _ IH (pstep_sstep _ _ Hs)).
Qed.

(** ** Termination *)
Definition lt2 (a b : nat * list prog) : Prop := fst a < fst b \/ (fst a = fst b /\ pool_lt (snd a) (snd b)).

Lemma lt2_wf : well_founded lt2.
Proof.
  intros [m p]. revert p. induction (lt_wf m) as [m _ IHm]. intros p. induction (pool_lt_wf p) as [p _ IHp].
  constructor. intros [m' p'] [Hlt|[Heq Hp]]; cbn [fst snd] in *.
  - exact (IHm m' Hlt p').
  - subst m'. exact (IHp p' Hp).
Qed.

Variable q0 : nat -> list nat.
Hypothesis Hq0 : forall i, n <= i -> q0 i = [].

Lemma cstep_decreases c c' : ereach (einit q0) (ce c) -> cany c c' ->
  lt2 (measure nat n (ce c'), s_pool (cs c')) (measure nat n (ce c), s_pool (cs c)).
Proof.
  intros Hr (t & Ht & Hst). destruct Hst as [c e' _ He|c w s' _ (Hs & pg & pg' & Hn & Hsub & Hp)|c w o e' _ _ He]; cbn [ce cs].
  - left. cbn [fst]. apply (exec_terminates nat n balanced Hperm Hout Hmono Htotal q0 Hq0 (ce c) e' Hr). exists t. auto.
  - right. cbn [fst snd]. split; [reflexivity|]. exists w, pg, pg'. auto.
  - left. cbn [fst]. apply (exec_terminates nat n balanced Hperm Hout Hmono Htotal q0 Hq0 (ce c) e' Hr). exists t. auto.
Qed.

Lemma cany_exec_reach c c' : ereach (einit q0) (ce c) -> cany c c' -> ereach (einit q0) (ce c').
Proof.
  intros Hr (t & Ht & Hst). destruct Hst as [c e' _ He|c w s' _ _|c w o e' _ _ He]; cbn [ce]; [|exact Hr|]; (eapply r_step; [exact Hr|exists t; auto]).
Qed.

Theorem compose_terminates c : ereach (einit q0) (ce c) -> Acc (fun c'' c' => cany c' c'') c.
Proof.
  remember (measure nat n (ce c), s_pool (cs c)) as mp eqn:E. revert c E.
  induction (lt2_wf mp) as [mp _ IH]. intros c -> Hr. constructor. intros c' Hst.
  apply (IH _ (cstep_decreases c c' Hr Hst) c' eq_refl). exact (cany_exec_reach c c' Hr Hst).
Qed.

(** ** What has been solved has returned; who solves what *)
Definition solved_returned (c : cst) : Prop :=
  forall w, In w (solved (ce c)) -> exists o, nth_error (s_pool (cs c)) w = Some (Ret o).

Lemma psub_ret pg o : ~ psub pg (Ret o).
Proof. intros Hs. inversion Hs. Qed.

Lemma nth_set_nth_other {A} (l : list A) : forall i j x, i <> j -> nth_error (set_nth l j x) i = nth_error l i.
Proof. induction l as [|y r IH]; intros [|i] [|j] x Hij; cbn; auto; try congruence. Qed.

Lemma solved_step t e e' : estep t e e' -> forall w, In w (solved e') -> In w (solved e) \/ pc e t = PSolve w.
Proof. intros Hst w Hin. destruct Hst; cbn [solved set_pc] in Hin; auto. destruct Hin as [<-|Hin]; auto. Qed.

Lemma solved_returned_step c c' : solved_returned c -> cany c c' -> solved_returned c'.
Proof.
  intros HI (t & Ht & Hst) w Hw. destruct Hst as [c e' Hns He|c x s' Hpc (Hs & pg & pg' & Hn & Hsub & Hp)|c x o e' Hpc Hret He]; cbn [ce cs] in *.
  - destruct (solved_step t _ _ He w Hw) as [Hin|Hpc]; [exact (HI w Hin)|exfalso; exact (Hns w Hpc)].
  - destruct (HI w Hw) as [o Ho]. destruct (Nat.eq_dec w x) as [->|Hne].
    + rewrite Ho in Hn. inversion Hn; subst pg. exfalso. exact (psub_ret pg' o Hsub).
    + exists o. rewrite Hp, nth_set_nth_other by exact Hne. exact Ho.
  - destruct (solved_step t _ _ He w Hw) as [Hin|Hpc']; [exact (HI w Hin)|]. rewrite Hpc in Hpc'. inversion Hpc'; subst. eauto.
Qed.

Definition cinit (f : fs) (pool : list prog) : cst := {| ce := einit q0; cs := {| s_fs := f; s_pool := pool |} |}.

Lemma solved_returned_reach f pool c : creach (cinit f pool) c -> solved_returned c.
Proof.
  induction 1 as [|c c' _ IH Hst]; [intros w []|exact (solved_returned_step c c' IH Hst)].
Qed.

Lemma pool_len_reach f pool c : creach (cinit f pool) c -> length (s_pool (cs c)) = length pool.
Proof.
  induction 1 as [|c c' _ IH (t & Ht & Hst)]; [reflexivity|].
  destruct Hst as [c e' _ _|c w s' _ (_ & pg & pg' & _ & _ & Hp)|c w o e' _ _ _]; cbn [cs]; try exact IH.
  rewrite Hp, set_nth_len. exact IH.
Qed.

(** The work is a list of distinct piece numbers: no two workers ever evaluate the same piece. *)
Hypothesis Hnodup : NoDup (flat nat n q0).

Lemma flat_Fin_in e t w : t < n -> pc e t = PSolve w -> In w (flat nat n (Fin nat e)).
Proof.
  intros Ht Hpc. unfold flat. apply in_concat. exists (Fin nat e t). split.
  - apply in_map. apply in_seq. lia.
  - unfold Fin. rewrite Hpc. now left.
Qed.

Lemma in_flight_in_work e t w : ereach (einit q0) e -> t < n -> pc e t = PSolve w -> In w (flat nat n q0).
Proof.
  intros Hr Ht Hpc. pose proof (exec_conservation nat n balanced Hperm Hout Hmono Htotal q0 e Hq0 Hr) as Hp.
  apply (Permutation_in w Hp). apply in_or_app. right. apply in_or_app. left. exact (flat_Fin_in e t w Ht Hpc).
Qed.

Theorem solver_unique e t t' w : ereach (einit q0) e -> t < n -> t' < n -> pc e t = PSolve w -> pc e t' = PSolve w -> t = t'.
Proof.
  intros Hr Ht Ht' H1 H2. destruct (Nat.eq_dec t t') as [|Hne]; [assumption|exfalso].
  pose proof (exec_conservation nat n balanced Hperm Hout Hmono Htotal q0 e Hq0 Hr) as Hp.
  assert (Hnd : NoDup (flat nat n (Fin nat e))).
  { apply Permutation_sym in Hp. pose proof (Permutation_NoDup Hp Hnodup) as Hnd.
    apply NoDup_app_r in Hnd. now apply NoDup_app_l in Hnd. }
  (* two positions of [flat] hold w *)
  unfold flat in Hnd.
  assert (G : forall l, NoDup l -> In t l -> In t' l -> NoDup (concat (map (Fin nat e) l)) -> False).
  { induction l as [|x l IHl]; intros Hl Hi Hi' Hc; [contradiction|]. cbn [map concat] in Hc.
    inversion Hl as [|? ? Hx Hl']; subst.
    assert (Hin : forall u, In u l -> pc e u = PSolve w -> In w (concat (map (Fin nat e) l))).
    { intros u Hu Hpu. apply in_concat. exists (Fin nat e u). split; [now apply in_map|unfold Fin; rewrite Hpu; now left]. }
    destruct Hi as [->|Hi]; destruct Hi' as [->|Hi'].
    - congruence.
    - unfold Fin at 1 in Hc. rewrite H1 in Hc. cbn [app] in Hc. inversion Hc as [|? ? Hnin _]; subst. apply Hnin. exact (Hin t' Hi' H2).
    - unfold Fin at 1 in Hc. rewrite H2 in Hc. cbn [app] in Hc. inversion Hc as [|? ? Hnin _]; subst. apply Hnin. exact (Hin t Hi H1).
    - apply (IHl Hl' Hi Hi'). now apply NoDup_app_r in Hc. }
  apply (G (seq 0 n)); [apply seq_NoDup|apply in_seq; lia|apply in_seq; lia|exact Hnd].
Qed.

(** ** Progress *)
Lemma Forall_set_nth' {A} (P : A -> Prop) (l : list A) : forall i x, Forall P l -> P x -> Forall P (set_nth l i x).
Proof. induction l as [|y r IH]; intros [|i] x Hl Hx; cbn; auto; inversion Hl; subst; constructor; auto. Qed.

Lemma pool_ok_reach f pool c : Forall okp pool -> creach (cinit f pool) c -> Forall okp (s_pool (cs c)).
Proof.
  intros Hok. induction 1 as [|c c' _ IH (t & Ht & Hst)]; [exact Hok|].
  destruct Hst as [c e' _ _|c w s' _ (_ & pg & pg' & Hn & Hsub & Hp)|c w o e' _ _ _]; cbn [cs]; try exact IH.
  rewrite Hp. apply Forall_set_nth'; [exact IH|]. apply (okp_sub pg pg'); [|exact Hsub].
  rewrite Forall_forall in IH. exact (IH pg (nth_error_In _ _ Hn)).
Qed.

Theorem compose_progress f pool c : (forall w, In w (flat nat n q0) -> w < length pool) -> Forall okp pool ->
  creach (cinit f pool) c -> (exists t, t < n /\ pc (ce c) t <> PDone) -> exists c', cany c c'.
Proof.
  intros Hidx Hok Hr Hnd. pose proof (proj_exec _ _ Hr) as Her. cbn [cinit ce] in Her.
  destruct (exec_deadlock_free nat n balanced Hperm Hout Hmono Htotal q0 (ce c) Hq0 Her Hnd) as (e' & t & Ht & Hst).
  destruct (pc (ce c) t) as [| |w| | | | | | | | | |] eqn:Hpc;
    try (eexists; exists t; split; [exact Ht|]; apply (c_exec t c e'); [intros w Hw; congruence|exact Hst]).
  assert (Hlt : w < length (s_pool (cs c))).
  { rewrite (pool_len_reach f pool c Hr). apply Hidx. exact (in_flight_in_work (ce c) t w Her Ht Hpc). }
  destruct (nth_error (s_pool (cs c)) w) as [pg|] eqn:En; [|apply nth_error_None in En; lia].
  destruct (is_ret_dec pg) as [[o ->]|Hnr].
  - eexists. exists t. split; [exact Ht|]. exact (c_done t c w o e' Hpc En Hst).
  - destruct (cs c) as [fc poolc] eqn:Ecs. cbn [s_pool] in *.
    assert (Hokc : Forall okp poolc) by (pose proof (pool_ok_reach f pool c Hok Hr) as Hx; rewrite Ecs in Hx; exact Hx).
    rewrite Forall_forall in Hokc.
    destruct (okp_moves fc poolc w pg En (Hokc pg (nth_error_In _ _ En))) as [s' Hs']. { intros o Ho. apply Hnr. eauto. }
    eexists. exists t. split; [exact Ht|]. apply (c_prog t c w s' Hpc). rewrite Ecs. exact Hs'.
Qed.

(** ** Exactly once *)
Theorem compose_exactly_once f pool c : creach (cinit f pool) c -> (forall t, t < n -> pc (ce c) t = PDone) ->
  Permutation (solved (ce c)) (flat nat n q0) /\
  forall w, In w (flat nat n q0) -> exists o, nth_error (s_pool (cs c)) w = Some (Ret o).
Proof.
  intros Hr Hdone. pose proof (proj_exec _ _ Hr) as Her. cbn [cinit ce] in Her.
  pose proof (exec_exactly_once nat n balanced Hperm Hout Hmono Htotal q0 (ce c) Hq0 Her Hdone) as Hp.
  split; [exact Hp|]. intros w Hw. apply (solved_returned_reach f pool c Hr). exact (Permutation_in w (Permutation_sym Hp) Hw).
Qed.

(** ** Complete runs exist (from termination and progress) *)
Lemma pc_done_dec (e : est) t : {pc e t = PDone} + {pc e t <> PDone}.
Proof. destruct (pc e t); try (right; discriminate). now left. Qed.

Lemma all_done_dec (e : est) : forall k, {forall t, t < k -> pc e t = PDone} + {exists t, t < k /\ pc e t <> PDone}.
Proof.
  induction k as [|k [IH|IH]].
  - left. intros t Ht. lia.
  - destruct (pc_done_dec e k) as [Hd|Hd].
    + left. intros t Ht. destruct (Nat.eq_dec t k) as [->|]; [exact Hd|apply IH; lia].
    + right. exists k. split; [lia|exact Hd].
  - right. destruct IH as (t & Ht & Hd). exists t. split; [lia|exact Hd].
Qed.

Lemma creach_trans c0 c1 c2 : creach c0 c1 -> creach c1 c2 -> creach c0 c2.
Proof. intros H1 H2. induction H2 as [|c c' _ IH Hst]; [exact H1|exact (cr_step c0 c c' IH Hst)]. Qed.

Theorem compose_completes f pool : (forall w, In w (flat nat n q0) -> w < length pool) -> Forall okp pool ->
  exists c, creach (cinit f pool) c /\ forall t, t < n -> pc (ce c) t = PDone.
Proof.
  intros Hidx Hok.
  assert (G : forall c, Acc (fun c'' c' => cany c' c'') c -> creach (cinit f pool) c ->
              exists c', creach (cinit f pool) c' /\ forall t, t < n -> pc (ce c') t = PDone).
  { induction 1 as [c _ IH]. intros Hr. destruct (all_done_dec (ce c) n) as [Hd|Hnd]; [exists c; auto|].
    destruct (compose_progress f pool c Hidx Hok Hr Hnd) as [c' Hst].
    exact (IH c' Hst (cr_step _ c c' Hr Hst)). }
  apply (G (cinit f pool)); [|constructor]. apply compose_terminates. cbn [cinit ce]. constructor.
Qed.

End Compose.

(** ** The two instances *)
(** Full system: every program can always move (a failing operation, an arbitrary read answer). *)
Lemma sstep_moves f pool w pg : nth_error pool w = Some pg -> True -> (forall o, pg <> Ret o) ->
  exists s', sstep_at sstep w {| s_fs := f; s_pool := pool |} s'.
Proof.
  intros Hn _ Hnr. destruct pg as [o|p wr k|p off len k|o k|id k|id k].
  - exfalso. exact (Hnr o eq_refl).
  - eexists. split; [exact (ss_probe f pool w p wr k PNotFound Hn)|]. eexists _, _. split; [exact Hn|]. split; [constructor|reflexivity].
  - eexists. split; [exact (ss_read f pool w p off len k None Hn)|]. eexists _, _. split; [exact Hn|]. split; [constructor|reflexivity].
  - eexists. split; [exact (ss_mut_fail f pool w o k Hn)|]. eexists _, _. split; [exact Hn|]. split; [constructor|reflexivity].
  - eexists. split; [exact (ss_lock f pool w id k Hn)|]. eexists _, _. split; [exact Hn|]. split; [constructor|reflexivity].
  - eexists. split; [exact (ss_unlock f pool w id k Hn)|]. eexists _, _. split; [exact Hn|]. split; [constructor|reflexivity].
Qed.

(** Fault-free system: programs without [Probe] (every piece evaluation: SolverProofs.good) can always move. *)
Inductive noprobe : prog -> Prop :=
| np_ret o : noprobe (Ret o)
| np_read p off len k : (forall r, noprobe (k r)) -> noprobe (Read p off len k)
| np_mut o k : (forall b, noprobe (k b)) -> noprobe (Mut o k)
| np_lock i k : noprobe k -> noprobe (Lock i k)
| np_unlock i k : noprobe k -> noprobe (Unlock i k).

Lemma noprobe_sub pg pg' : noprobe pg -> psub pg' pg -> noprobe pg'.
Proof. intros Hn Hs. destruct Hs; inversion Hn; subst; auto. constructor. Qed.

Lemma fstep_moves f pool w pg : nth_error pool w = Some pg -> noprobe pg -> (forall o, pg <> Ret o) ->
  exists s', sstep_at fstep w {| s_fs := f; s_pool := pool |} s'.
Proof.
  intros Hn Hnp Hnr. destruct pg as [o|p wr k|p off len k|o k|id k|id k].
  - exfalso. exact (Hnr o eq_refl).
  - inversion Hnp.
  - eexists. split; [exact (fs_read_ f pool w p off len k Hn)|]. eexists _, _. split; [exact Hn|]. split; [constructor|reflexivity].
  - destruct (apply_op f o) as [f1 ok] eqn:Ea. eexists. split; [exact (fs_mut f pool w o k f1 ok Hn Ea)|]. eexists _, _. split; [exact Hn|]. split; [constructor|reflexivity].
  - eexists. split; [exact (fs_lock f pool w id k Hn)|]. eexists _, _. split; [exact Hn|]. split; [constructor|reflexivity].
  - eexists. split; [exact (fs_unlock f pool w id k Hn)|]. eexists _, _. split; [exact Hn|]. split; [constructor|reflexivity].
Qed.

Lemma freach_snoc s s' s'' : EstablishProofs.freach s s' -> fstep s' s'' -> EstablishProofs.freach s s''.
Proof.
  induction 1 as [s|s s1 s2 Hst _ IH]; intros H2; [eapply EstablishProofs.fr_step; [exact H2|apply EstablishProofs.fr_refl]|eapply EstablishProofs.fr_step; [exact Hst|exact (IH H2)]].
Qed.

(** A run of the fault-free composition is a fault-free run of the system. *)
Lemma proj_fsys n balanced c0 c : creach n balanced fstep c0 c -> EstablishProofs.freach (cs c0) (cs c).
Proof.
  induction 1 as [|c c' _ IH (t & Ht & Hst)]; [apply EstablishProofs.fr_refl|].
  destruct Hst as [c e' _ _|c w s' _ [Hs _]|c w o e' _ _ _]; cbn [cs]; [exact IH| |exact IH].
  exact (freach_snoc _ _ _ IH Hs).
Qed.

(** Program [i] fault-free, every other program free to fail ([mreach i], C13). *)
Definition pstep_but (i : nat) (s s' : sys) : Prop := fstep s s' \/ ostep i s s'.

Lemma pstep_but_sstep i s s' : pstep_but i s s' -> sstep s s'.
Proof. intros [Hf|[Hs _]]; [exact (fstep_is_sstep _ _ Hf)|exact Hs]. Qed.

Lemma nth_set_nth_other' {A} (l : list A) : forall i j x, i <> j -> nth_error (set_nth l j x) i = nth_error l i.
Proof. induction l as [|y r IH]; intros [|i] [|j] x Hij; cbn; auto; try congruence. Qed.

Lemma pstep_but_moves i f pool w pg : nth_error pool w = Some pg -> noprobe pg -> (forall o, pg <> Ret o) ->
  exists s', sstep_at (pstep_but i) w {| s_fs := f; s_pool := pool |} s'.
Proof.
  intros Hn Hnp Hnr. destruct (fstep_moves f pool w pg Hn Hnp Hnr) as (s' & Hf & Hrest). exists s'. split; [now left|exact Hrest].
Qed.

Lemma mreach_snoc_own i s s' s'' : mreach i s s' -> fstep s' s'' -> mreach i s s''.
Proof.
  induction 1 as [s|s s1 s2 Hst _ IH|s s1 s2 Hst _ IH]; intros H2.
  - eapply mr_own; [exact H2|apply mr_refl].
  - eapply mr_own; [exact Hst|exact (IH H2)].
  - eapply mr_other; [exact Hst|exact (IH H2)].
Qed.
Lemma mreach_snoc_other i s s' s'' : mreach i s s' -> ostep i s' s'' -> mreach i s s''.
Proof.
  induction 1 as [s|s s1 s2 Hst _ IH|s s1 s2 Hst _ IH]; intros H2.
  - eapply mr_other; [exact H2|apply mr_refl].
  - eapply mr_own; [exact Hst|exact (IH H2)].
  - eapply mr_other; [exact Hst|exact (IH H2)].
Qed.

Lemma proj_msys n balanced i c0 c : creach n balanced (pstep_but i) c0 c -> mreach i (cs c0) (cs c).
Proof.
  induction 1 as [|c c' _ IH (t & Ht & Hst)]; [apply mr_refl|].
  destruct Hst as [c e' _ _|c w s' _ [[Hf|Ho] _]|c w o e' _ _ _]; cbn [cs]; try exact IH.
  - exact (mreach_snoc_own i _ _ _ IH Hf).
  - exact (mreach_snoc_other i _ _ _ IH Ho).
Qed.

(** ** The composition over the full system, stated without the generic parameters *)
Section Full.
Variable n : nat.
Variable balanced : nat -> (nat -> list nat) -> (nat -> list nat) -> Prop.
Hypothesis Hperm : forall a f f', balanced a f f' -> Permutation (flat nat a f') (flat nat a f).
Hypothesis Hout : forall a f f' i, balanced a f f' -> a <= i -> f' i = f i.
Hypothesis Hmono : forall a f f' i j, balanced a f f' -> i <= j -> j < a -> length (f' j) <= length (f' i).
Hypothesis Htotal : forall a f, exists f', balanced a f f'.
Variable q0 : nat -> list nat.
Hypothesis Hq0 : forall i, n <= i -> q0 i = [].

Lemma all_true (pool : list prog) : Forall (fun _ => True) pool.
Proof. apply Forall_forall. intros; exact I. Qed.

Theorem full_proj_sys c0 c : creach n balanced sstep c0 c -> sreach (cs c0) (cs c).
Proof. exact (proj_sys n balanced sstep (fun s s' Hs => Hs) c0 c). Qed.

Theorem full_progress f pool c : (forall w, In w (flat nat n q0) -> w < length pool) ->
  creach n balanced sstep (cinit n q0 f pool) c -> (exists t, t < n /\ pc (ce c) t <> PDone) -> exists c', cany n balanced sstep c c'.
Proof.
  intros Hidx. exact (compose_progress n balanced Hperm Hout Hmono Htotal sstep (fun _ => True) (fun _ _ _ _ => I) sstep_moves q0 Hq0 f pool c Hidx (all_true pool)).
Qed.

Theorem full_completes f pool : (forall w, In w (flat nat n q0) -> w < length pool) ->
  exists c, creach n balanced sstep (cinit n q0 f pool) c /\ forall t, t < n -> pc (ce c) t = PDone.
Proof.
  intros Hidx. exact (compose_completes n balanced Hperm Hout Hmono Htotal sstep (fun _ => True) (fun _ _ _ _ => I) sstep_moves q0 Hq0 f pool Hidx (all_true pool)).
Qed.

(** ... and over the fault-free system, for pools of Probe-free programs. *)
Theorem ff_progress f pool c : (forall w, In w (flat nat n q0) -> w < length pool) -> Forall noprobe pool ->
  creach n balanced fstep (cinit n q0 f pool) c -> (exists t, t < n /\ pc (ce c) t <> PDone) -> exists c', cany n balanced fstep c c'.
Proof. exact (compose_progress n balanced Hperm Hout Hmono Htotal fstep noprobe noprobe_sub fstep_moves q0 Hq0 f pool c). Qed.

Theorem ff_completes f pool : (forall w, In w (flat nat n q0) -> w < length pool) -> Forall noprobe pool ->
  exists c, creach n balanced fstep (cinit n q0 f pool) c /\ forall t, t < n -> pc (ce c) t = PDone.
Proof. exact (compose_completes n balanced Hperm Hout Hmono Htotal fstep noprobe noprobe_sub fstep_moves q0 Hq0 f pool). Qed.

(** ... and with every program but [i] free to fail. *)
Theorem but_completes i f pool : (forall w, In w (flat nat n q0) -> w < length pool) -> Forall noprobe pool ->
  exists c, creach n balanced (pstep_but i) (cinit n q0 f pool) c /\ forall t, t < n -> pc (ce c) t = PDone.
Proof. exact (compose_completes n balanced Hperm Hout Hmono Htotal (pstep_but i) noprobe noprobe_sub (pstep_but_moves i) q0 Hq0 f pool). Qed.

End Full.
