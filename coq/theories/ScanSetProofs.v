(** How the scan directories are presented (C17), and more data (C17, last sentence).

    Everything the completeness theorems say about the scan directories they say through
    [under : path -> bool], "the file lies under one of the scan directories" (AvailProofs.ix_of_fs,
    [present]).  [under_of scans] is that predicate for a list of scan directories.  It is the same
    function when the list is permuted, when a directory is repeated, when a directory nested in
    another one is added, and it only grows when a directory (e.g. the export directory) is added.
    [present] is monotone in the file system (more files, nothing removed or changed), in [under]
    and in the table - so what is guaranteed to be recovered never shrinks. *)
From TB Require Import Base Decimal BencodeModel TorrentModel TorrentProofs PathModel FsModel SolverModel FinderModel RunModel
                       SolverProofs RunProofs FsProofs SearchProofs FinderProofs SystemModel SystemProofs EstablishProofs CompleteProofs RerunProofs AvailProofs Generated GeneratedObligations.
From Coq Require Import ZifyN ZifyNat ZifyBool Permutation.
Local Open Scope N_scope.

Lemma under_of_in scans p : under_of scans p = true <-> exists s, In s scans /\ path_prefix s p = true.
Proof. unfold under_of. apply existsb_exists. Qed.

Lemma under_of_ext scans scans' : (forall s, In s scans <-> In s scans') -> forall p, under_of scans p = under_of scans' p.
Proof.
  intros Hi p. apply Bool.eq_true_iff_eq. rewrite !under_of_in. split; intros (s & Hs & Hp); exists s; (split; [now apply Hi|exact Hp]).
Qed.

(** Permuting the scan directories. *)
Theorem under_of_perm scans scans' : Permutation scans scans' -> forall p, under_of scans p = under_of scans' p.
Proof.
  intros Hp. apply under_of_ext. intros s. split; intros Hs; [exact (Permutation_in s Hp Hs)|exact (Permutation_in s (Permutation_sym Hp) Hs)].
Qed.

(** Repeating a scan directory. *)
Theorem under_of_repeat s scans : In s scans -> forall p, under_of (s :: scans) p = under_of scans p.
Proof. intros Hs. apply under_of_ext. intros x. split; [intros [<-|Hx]; assumption|intros Hx; now right]. Qed.

Lemma path_prefix_trans : forall a b c : path, path_prefix a b = true -> path_prefix b c = true -> path_prefix a c = true.
Proof.
  induction a as [|x a IH]; intros [|y b] [|z c] H1 H2; cbn [path_prefix] in *; try discriminate; auto.
  apply andb_true_iff in H1. apply andb_true_iff in H2. destruct H1 as [E1 P1]. destruct H2 as [E2 P2].
  apply beq_eq in E1. apply beq_eq in E2. subst. apply andb_true_iff. split; [now apply beq_eq|]. exact (IH b c P1 P2).
Qed.

(** Adding a directory that lies inside a scan directory. *)
Theorem under_of_nested s s' scans : In s scans -> path_prefix s s' = true -> forall p, under_of (s' :: scans) p = under_of scans p.
Proof.
  intros Hs Hn p. apply Bool.eq_true_iff_eq. rewrite !under_of_in. split.
  - intros (x & [<-|Hx] & Hp); [exists s; split; [exact Hs|exact (path_prefix_trans s s' p Hn Hp)]|exists x; auto].
  - intros (x & Hx & Hp). exists x. split; [now right|exact Hp].
Qed.

(** Adding any directory (the export directory, say) only adds. *)
Theorem under_of_more s scans p : under_of scans p = true -> under_of (s :: scans) p = true.
Proof. rewrite !under_of_in. intros (x & Hx & Hp). exists x. split; [now right|exact Hp]. Qed.

(** More data never hurts: [f'] has every name of [f] with the same inode and the same bytes. *)
Definition fs_extends (f f' : fs) : Prop :=
  forall p i, fs_lookup f p = Some (NFile i) -> fs_lookup f' p = Some (NFile i) /\ fs_content f' i = fs_content f i.

Theorem present_mono content f f' under under' es0 es0' s c i :
  fs_extends f f' -> (forall p, under p = true -> under' p = true) -> (forall e, In e es0 -> In e es0') ->
  present content f under es0 s c i -> present content f' under' es0' s c i.
Proof.
  intros Hf Hu He (Hl & Hlen & Hwhere & Hb). destruct (Hf c i Hl) as [Hl' Hc]. unfold present. rewrite Hc.
  split; [exact Hl'|]. split; [exact Hlen|]. split; [|exact Hb].
  destruct Hwhere as [Hin|(e & Hin & Hp & Ht & Hle)]; [left; now apply Hu|right; exists e; auto].
Qed.
