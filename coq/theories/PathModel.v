(** Paths as lists of plain components below the root, and the parts of std::path the finder
    uses: equality, [ends_with], [file_name], [parent]; export-path construction and the padding
    test of src/finder.rs. *)
From TB Require Import Base Decimal BencodeModel TorrentModel Generated.
Local Open Scope N_scope.

Definition path := list (list N).

Fixpoint path_eqb (a b : path) : bool :=
  match a, b with [], [] => true | x :: a', y :: b' => beq x y && path_eqb a' b' | _, _ => false end.

(** [pre] is a component-wise prefix of [p]. *)
Fixpoint path_prefix (pre p : path) : bool :=
  match pre, p with [], _ => true | x :: a, y :: b => beq x y && path_prefix a b | _, _ => false end.

Definition parent (p : path) : path := removelast p.
Definition file_name (p : path) : option (list N) := match rev p with [] => None | x :: _ => Some x end.

(** [Path::ends_with(child)] for a relative child: component-wise suffix. *)
Definition ends_with_rel (p child : path) : bool :=
  (length child <=? length p)%nat && path_eqb (skipn (length p - length child) p) child.

(** [find_file_similarity]: both the entry and [full] are absolute, so [entry.ends_with(full)]
    is equality; [file_name().unwrap()] panics when there is no final component. *)
Definition rank (entry partial full : path) : res nat :=
  if path_eqb entry full then Ok 0%nat
  else if ends_with_rel entry partial then Ok 1%nat
  else match file_name entry, file_name partial with
       | Some a, Some b => if beq a b then Ok 2%nat else Ok 3%nat
       | _, _ => Panic
       end.

(** [is_padding_file]: exactly two components, ".pad" then digits ([char::is_numeric] is modelled
    on ASCII digits; other numeric code points are outside the modelled fragment). *)
Definition is_padding (p : list (list N)) : bool :=
  match p with
  | [a; b] => Nat.eqb pad_components 2 && beq a pad_dir && forallb is_digit b
  | _ => false
  end.

(** [format_path_single] / [format_path_multiple]. *)
Definition target_single (export : path) (ih name : list N) : path :=
  export ++ [hexdigest ih; data_dir_single; name].
Definition target_multi (export : path) (ih name : list N) (fpath : list (list N)) : path :=
  export ++ [hexdigest ih; data_dir_multi; name] ++ fpath.
