(** Small lemmas used by the property files (which contain statements closed by [exact] only). *)
From TB Require Import Base Decimal BencodeModel BencodeSpec TorrentModel TorrentSpec TorrentProofs PathModel FsModel SolverModel FinderModel RunModel
                       RunProofs FsProofs Generated GeneratedObligations.
From Coq Require Import ZifyN ZifyNat ZifyBool.
Local Open Scope N_scope.

Lemma loaded_name_plain d ih t : spec_info d ih = Some t -> is_plain (t_name t) = true.
Proof. intros Hs. apply spec_info_fields in Hs. tauto. Qed.

Lemma unnamed_inodes_unchanged f o f' ok j : apply_op f o = (f', ok) ->
  fs_lookup f (op_path o) <> Some (NFile j) -> fs_content f' j = fs_content f j.
Proof. intros Ha Hn. destruct (apply_op_content f o f' ok j Ha) as [He|[Hl _]]; [exact He|contradiction]. Qed.

Lemma dir_name_length ih : length ih = 20%nat -> length (hexdigest ih) = 40%nat.
Proof. intros Hl. rewrite hex_length, Hl. reflexivity. Qed.

Lemma resize_length b n : length (resize b n) = n.
Proof. unfold resize. rewrite app_length, firstn_length, repeat_length. lia. Qed.

Lemma extension_keeps_bytes b n : (length b <= n)%nat -> resize b n = b ++ repeat 0 (n - length b).
Proof. intros Hl. unfold resize. now rewrite firstn_all2. Qed.
