(** The insertion procedure of [FileCache] (finder.rs): [nodes.entry(len).or_default().insert(path, info)].
    Definitions only (extracted; the validator builds the expected index with [build_index]);
    the theorems are in IndexBuild.v. *)
From TB Require Import Base PathModel FsModel SolverModel FinderModel.
Local Open Scope N_scope.

Definition reg := (N * (path * fileid))%type.

Fixpoint put_node (x : path * fileid) (l : nodes) : nodes :=
  match l with
  | [] => [x]
  | y :: r => if path_eqb (fst y) (fst x) then x :: r else y :: put_node x r
  end.

Fixpoint ix_insert (ix : index) (n : N) (x : path * fileid) : index :=
  match ix with
  | [] => [(n, [x])]
  | (m, ns) :: r => if n =? m then (m, put_node x ns) :: r else (m, ns) :: ix_insert r n x
  end.

Definition build_index (regs : list reg) : index :=
  fold_left (fun ix r => ix_insert ix (fst r) (snd r)) regs [].

