(** UTF-8 well-formedness (Unicode table 3-7), what std::str::from_utf8 accepts. *)
From TB Require Import Base.
Local Open Scope N_scope.

Definition inr (lo hi b : N) : bool := (lo <=? b) && (b <=? hi).
Fixpoint utf8_valid_f (fuel : nat) (bs : list N) : bool :=
  match fuel with O => match bs with [] => true | _ => false end | S f =>
  match bs with
  | [] => true
  | b0 :: r =>
    if b0 <=? 127 then utf8_valid_f f r
    else if inr 194 223 b0 then match r with b1 :: r' => inr 128 191 b1 && utf8_valid_f f r' | _ => false end
    else if b0 =? 224 then match r with b1 :: b2 :: r' => inr 160 191 b1 && inr 128 191 b2 && utf8_valid_f f r' | _ => false end
    else if inr 225 236 b0 || inr 238 239 b0 then match r with b1 :: b2 :: r' => inr 128 191 b1 && inr 128 191 b2 && utf8_valid_f f r' | _ => false end
    else if b0 =? 237 then match r with b1 :: b2 :: r' => inr 128 159 b1 && inr 128 191 b2 && utf8_valid_f f r' | _ => false end
    else if b0 =? 240 then match r with b1 :: b2 :: b3 :: r' => inr 144 191 b1 && inr 128 191 b2 && inr 128 191 b3 && utf8_valid_f f r' | _ => false end
    else if inr 241 243 b0 then match r with b1 :: b2 :: b3 :: r' => inr 128 191 b1 && inr 128 191 b2 && inr 128 191 b3 && utf8_valid_f f r' | _ => false end
    else if b0 =? 244 then match r with b1 :: b2 :: b3 :: r' => inr 128 143 b1 && inr 128 191 b2 && inr 128 191 b3 && utf8_valid_f f r' | _ => false end
    else false
  end end.
Definition utf8_valid (bs : list N) : bool := utf8_valid_f (S (length bs)) bs.
