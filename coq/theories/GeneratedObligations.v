(** Proof obligations about the constants re-extracted from /repo's source on every run
    (Generated.v).  A source change such as [.truncate(true)] at the writer's open, or a typo in a
    dictionary key, makes one of these fail to compile. *)
From TB Require Import Base Generated.

(** Dictionary keys are the BEP-3 names (and the BiglyBT '.utf-8' variants). *)
Lemma key_info_ok : key_info = [105;110;102;111]%N. Proof. reflexivity. Qed.
Lemma key_name_ok : key_name = [110;97;109;101]%N. Proof. reflexivity. Qed.
Lemma key_name_utf8_ok : key_name_utf8 = [110;97;109;101;46;117;116;102;45;56]%N. Proof. reflexivity. Qed.
Lemma key_pieces_ok : key_pieces = [112;105;101;99;101;115]%N. Proof. reflexivity. Qed.
Lemma key_piece_length_ok : key_piece_length = [112;105;101;99;101;32;108;101;110;103;116;104]%N. Proof. reflexivity. Qed.
Lemma key_length_ok : key_length = [108;101;110;103;116;104]%N. Proof. reflexivity. Qed.
Lemma key_files_ok : key_files = [102;105;108;101;115]%N. Proof. reflexivity. Qed.
Lemma key_file_length_ok : key_file_length = [108;101;110;103;116;104]%N. Proof. reflexivity. Qed.
Lemma key_path_ok : key_path = [112;97;116;104]%N. Proof. reflexivity. Qed.
Lemma key_path_utf8_ok : key_path_utf8 = [112;97;116;104;46;117;116;102;45;56]%N. Proof. reflexivity. Qed.
Lemma hash_len_ok : hash_len = 20%N. Proof. reflexivity. Qed.
(** "{:02x?}": two lowercase hexadecimal digits per byte. *)
Lemma hex_format_ok : hex_format = [123;58;48;50;120;63;125]%N. Proof. reflexivity. Qed.
(** "Data" and ".pad"; a padding path has exactly two components. *)
Lemma data_dir_ok : data_dir_multi = [68;97;116;97]%N /\ data_dir_single = [68;97;116;97]%N. Proof. split; reflexivity. Qed.
Lemma pad_ok : pad_dir = [46;112;97;100]%N /\ pad_components = 2%nat. Proof. split; reflexivity. Qed.

(** Open modes.  Candidates and the index are opened read-only; the only write-mode opens are the
    writer's (create, never truncate) and the resize second pass (no create, never truncate). *)
Lemma index_open_ro : of_write index_open = false /\ of_create index_open = false /\ of_truncate index_open = false /\ of_append index_open = false /\ of_create_new index_open = false.
Proof. repeat split; reflexivity. Qed.
Lemma candidate_open_ro : of_write candidate_open = false /\ of_create candidate_open = false /\ of_truncate candidate_open = false.
Proof. repeat split; reflexivity. Qed.
Lemma resize_probe_ro : of_write resize_probe_open = false /\ of_create resize_probe_open = false /\ of_truncate resize_probe_open = false /\ of_append resize_probe_open = false /\ of_create_new resize_probe_open = false.
Proof. repeat split; reflexivity. Qed.
Lemma resize_fix_flags : of_write resize_fix_open = true /\ of_create resize_fix_open = false /\ of_create_new resize_fix_open = false /\ of_truncate resize_fix_open = false /\ of_append resize_fix_open = false.
Proof. repeat split; reflexivity. Qed.
Lemma writer_open_flags : of_write writer_open = true /\ of_create writer_open = true /\ of_create_new writer_open = false /\ of_truncate writer_open = false /\ of_append writer_open = false.
Proof. repeat split; reflexivity. Qed.
