(** The glue between the layers: a loaded torrent satisfies the premises of the layout theorems
    (C06); every piece of the work list built from the layout and the metadata table satisfies the
    side conditions of the piece theorems (C01, C12, C13, C16); hence the pool of piece programs of
    a run satisfies the premises of the whole-run invariant of SystemProofs.v. *)
From TB Require Import Base Decimal BencodeModel BencodeSpec TorrentModel TorrentSpec TorrentProofs LayoutModel LayoutSpec LayoutProofs
                       PathModel FsModel SolverModel FinderModel RunModel SolverProofs RunProofs FsProofs TableProofs PreludeProofs PresentProofs
                       SystemModel SystemProofs Generated GeneratedObligations.
From Coq Require Import ZifyN ZifyNat ZifyBool.
Local Open Scope N_scope.

(** ** What the loader guarantees about a torrent it returns *)
Definition files_of (t : torrent) : list tfile := match t_files t with Some fs => fs | None => [] end.

Definition torrent_ok (t : torrent) : Prop :=
  t_piece_length t <= u64max /\
  ((exists flen, t_length t = Some flen /\ t_files t = None /\ flen <= u64max /\
                 hash_count_ok flen (t_piece_length t) (len (t_pieces t)) = true) \/
   (exists fs, t_length t = None /\ t_files t = Some fs /\ fs <> [] /\
               hash_count_ok (sumN (map f_length fs)) (t_piece_length t) (len (t_pieces t)) = true)).

Theorem load_torrent_ok H x t : len x <= u64max -> load H x = Ok t -> torrent_ok t.
Proof.
  intros Hlen Hl. apply (load_iff_spec H x t Hlen) in Hl. destruct Hl as (v & Hc & Hx & Hs).
  destruct v as [| | |root]; cbn [spec_doc] in Hs; try discriminate.
  destruct (v_dict (lookup root key_info)) as [info|]; [|discriminate].
  apply spec_info_fields in Hs. destruct Hs as (_ & _ & _ & _ & _ & (plz & _ & Hpl) & Hshape).
  split; [exact (to_u64_bound _ _ Hpl)|].
  destruct Hshape as [(z & flen & _ & _ & Hz & Hl & Hf & Hh)|(l & fs & _ & _ & Hsf & Hne & Hl & Hf & Hh)].
  - left. exists flen. repeat split; auto. exact (to_u64_bound _ _ Hz).
  - right. exists fs. repeat split; auto.
Qed.

(** ** The layout of a loaded torrent *)
Definition lens_of (t : torrent) : list N :=
  match t_length t with Some n => [n] | None => map f_length (files_of t) end.

Definition seg_fits (lens : list N) (sg : seg) : Prop :=
  s_off sg + s_len sg <= s_flen sg /\ (s_len sg = 0 -> s_off sg = 0) /\
  (s_len sg <> 0 -> nth_error lens (s_file sg) = Some (s_flen sg)).

Lemma hashes_pos files L nh i : hashes_ok files L nh -> (i < nh)%nat -> piece_lo L i < piece_hi files L i.
Proof.
  unfold hashes_ok, piece_lo, piece_hi. intros [H1 [H2|H2]] Hi; [lia|].
  assert (0 < L) by (destruct (N.eq_dec L 0); [subst; lia|lia]). nia.
Qed.

Lemma spec_piece_sum files L i : piece_hi files L i <= total files ->
  LayoutProofs.sumN (map s_len (spec_piece files L i)) = piece_hi files L i - piece_lo L i.
Proof. intros Hh. unfold spec_piece. rewrite segs_from_sum. lia. Qed.

Lemma spec_piece_nonempty files L nh i : hashes_ok files L nh -> (i < nh)%nat -> spec_piece files L i <> [].
Proof.
  intros Hh Hi He. pose proof (hashes_pos files L nh i Hh Hi) as Hp.
  assert (Hle : piece_hi files L i <= total files) by (unfold piece_hi; lia).
  pose proof (spec_piece_sum files L i Hle) as Hs. rewrite He in Hs. cbn in Hs. lia.
Qed.

(** For a loaded torrent the layout model returns one piece per hash, and every segment of every
    piece names a file of the torrent, carries that file's declared length, and lies inside it. *)
Theorem torrent_layout t : torrent_ok t ->
  exists ps, layout (shape_of t) (t_piece_length t) (length (t_pieces t)) = Ok ps /\ length ps = length (t_pieces t) /\
    forall p, In p ps ->
      p_segs p <> [] /\ (forall sg, p_segs p = [sg] -> s_len sg <> 0) /\
      Forall (seg_fits (lens_of t)) (p_segs p).
Proof.
  intros [HL [(flen & Hl & Hf & Hb & Hh)|(fs & Hl & Hf & Hne & Hh)]]; unfold shape_of, lens_of, files_of; rewrite Hl, ?Hf.
  - assert (Hk : hashes_ok [flen] (t_piece_length t) (length (t_pieces t))).
    { apply hash_count_ok_iff. unfold total; cbn [fold_right]. rewrite N.add_0_r. exact Hh. }
    destruct (layout_single_spec flen _ _ Hb Hk) as (ps & Hlay & Hlen & Hall). exists ps. cbn [layout]. split; [exact Hlay|]. split; [exact Hlen|]. intros p H. split; [|split].
    + intros He. apply In_nth_error in H. destruct H as [i Hi]. destruct (Hall i p Hi) as [Hsp _].
      rewrite Hsp in He. revert He. apply (spec_piece_nonempty _ _ _ i Hk).
      rewrite <- Hlen. apply nth_error_Some. congruence.
    + intros sg Hsg He. apply In_nth_error in H. destruct H as [i Hi]. destruct (Hall i p Hi) as [Hsp _].
      assert (Hin : In sg (spec_piece [flen] (t_piece_length t) i)) by (rewrite <- Hsp, Hsg; now left).
      apply spec_piece_inside in Hin. lia.
    + apply In_nth_error in H. destruct H as [i Hi]. destruct (Hall i p Hi) as [Hsp _]. rewrite Hsp.
      apply Forall_forall. intros sg Hin. apply spec_piece_inside in Hin. destruct Hin as (Hn & Hp & Hb'). split; [exact Hb'|]. split; [lia|auto].
  - assert (Hk : hashes_ok (map f_length fs) (t_piece_length t) (length (t_pieces t))) by (apply hash_count_ok_iff; exact Hh).
    assert (Hne' : map f_length fs <> []) by (destruct fs; [congruence|discriminate]).
    destruct (layout_multi_spec _ _ _ Hne' HL Hk) as (ps & Hlay & Hlen & Hall). exists ps. cbn [layout]. split; [exact Hlay|]. split; [exact Hlen|]. intros p H. split; [|split].
    + intros He. apply In_nth_error in H. destruct H as [i Hi]. destruct (Hall i p Hi) as [Hsp _].
      rewrite He in Hsp. cbn in Hsp. symmetry in Hsp. revert Hsp. apply (spec_piece_nonempty _ _ _ i Hk).
      rewrite <- Hlen. apply nth_error_Some. congruence.
    + intros sg Hsg He. apply In_nth_error in H. destruct H as [i Hi]. destruct (Hall i p Hi) as [Hsp _].
      rewrite Hsg in Hsp. unfold pos_segs in Hsp. cbn [filter] in Hsp. rewrite He in Hsp. cbn in Hsp.
      symmetry in Hsp. revert Hsp. apply (spec_piece_nonempty _ _ _ i Hk). rewrite <- Hlen. apply nth_error_Some. congruence.
    + apply In_nth_error in H. destruct H as [i Hi]. destruct (Hall i p Hi) as (Hsp & Hz & _).
      apply Forall_forall. intros sg Hin. destruct (N.eq_dec (s_len sg) 0) as [E0|E0].
      * rewrite Forall_forall in Hz. destruct (Hz sg Hin E0) as [H1 H2]. split; [lia|]. split; [auto|congruence].
      * assert (Hin' : In sg (spec_piece (map f_length fs) (t_piece_length t) i)).
        { rewrite <- Hsp. unfold pos_segs. apply filter_In. split; [exact Hin|]. apply N.ltb_lt. lia. }
        apply spec_piece_inside in Hin'. destruct Hin' as (Hn & Hp & Hb'). split; [exact Hb'|]. split; [lia|auto].
Qed.

(** ** The metadata table: which entry [find_entry] returns *)

Lemma entries_multi_nth export t : forall fs findex id e, In e (entries_multi export t fs findex id) ->
  e_ih e = t_info_hash t /\ exists k f, e_findex e = (findex + k)%nat /\ nth_error fs k = Some f /\ e_len e = f_length f /\
    e_target e = target_multi export (t_info_hash t) (t_name t) (f_path f) /\ e_pad e = is_padding (f_path f).
Proof.
  induction fs as [|f r IH]; intros findex id e Hin; [contradiction|]. cbn [entries_multi] in Hin.
  destruct Hin as [<-|Hin].
  - cbn. split; [reflexivity|]. exists 0%nat, f. repeat split; auto; lia.
  - destruct (IH _ _ _ Hin) as (H1 & k & f' & H2 & H3 & H4). split; [exact H1|]. exists (S k), f'. split; [lia|exact (conj H3 H4)].
Qed.

Lemma populate_in ix : forall es0 es e, populate ix es0 = Ok es -> In e es -> exists e0 s, In e0 es0 /\ e = with_searches e0 s.
Proof.
  induction es0 as [|e0 r IH]; intros es e Hp Hin; cbn [populate] in Hp.
  - inversion Hp; subst. contradiction.
  - destruct (searches_for ix e0) as [s| | |]; cbn [bind] in Hp; try discriminate.
    destruct (populate ix r) as [rs| | |]; cbn [bind] in Hp; try discriminate. inversion Hp; subst.
    destruct Hin as [<-|Hin]; [exists e0, s; split; [now left|reflexivity]|].
    destruct (IH rs e eq_refl Hin) as (e1 & s1 & H1 & H2). exists e1, s1. split; [now right|exact H2].
Qed.

Lemma NoDup_map_inj {A B} (g : A -> B) l a b : NoDup (map g l) -> In a l -> In b l -> g a = g b -> a = b.
Proof.
  induction l as [|x l IH]; cbn [map]; intros Hnd Ha Hb Hg; [contradiction|]. inversion Hnd as [|? ? Hx Hnd']; subst.
  destruct Ha as [->|Ha], Hb as [->|Hb]; auto.
  - exfalso. apply Hx. rewrite Hg. now apply in_map.
  - exfalso. apply Hx. rewrite <- Hg. now apply in_map.
Qed.

Section Glue.
Variable export : path.
Variable ts : list torrent.
Variable ix : index.
Variable es : list entry.
Hypothesis Hts : Forall torrent_ok ts.
Hypothesis Hnd : NoDup (map t_info_hash ts).
Hypothesis Hpop : populate ix (metadata_table export ts 0) = Ok es.

(** An entry of the table that carries torrent [t]'s info-hash is an entry of [t]: it has the
    declared length of the file its index names. *)
Lemma entry_of_torrent t e : In t ts -> In e es -> e_ih e = t_info_hash t ->
  nth_error (lens_of t) (e_findex e) = Some (e_len e).
Proof.
  intros Ht He Hih. destruct (populate_in _ _ _ _ Hpop He) as (e0 & s & H0 & ->). cbn in *.
  destruct (metadata_table_in _ _ _ _ H0) as (t' & id' & Ht' & He0).
  assert (Heq : e_ih e0 = t_info_hash t').
  { unfold entries_of in He0. destruct (t_files t') as [fs|].
    - now destruct (entries_multi_nth _ _ _ _ _ _ He0).
    - destruct (t_length t'); [|contradiction]. destruct He0 as [<-|[]]. reflexivity. }
  assert (t' = t) by (apply (NoDup_map_inj t_info_hash ts); auto; congruence). subst t'.
  pose proof (proj1 (Forall_forall _ _) Hts) as Hts'. destruct (Hts' t Ht) as [_ [(flen & Hl & Hf & _)|(fs & Hl & Hf & _)]];
    unfold entries_of in He0; unfold lens_of, files_of; rewrite Hl, ?Hf in *.
  - destruct He0 as [<-|[]]. reflexivity.
  - destruct (entries_multi_nth _ _ _ _ _ _ He0) as (_ & k & f & Hk & Hn & Hlen & _). cbn in Hk. subst k.
    rewrite Hlen. now apply map_nth_error.
Qed.

Lemma find_entry_some ih k e : find_entry es ih k = Some e -> In e es /\ e_ih e = ih /\ e_findex e = k.
Proof.
  unfold find_entry. intros Hf. apply find_some in Hf. destruct Hf as [Hin Hb].
  apply andb_true_iff in Hb. destruct Hb as [H1 H2]. apply beq_eq in H1. apply Nat.eqb_eq in H2. auto.
Qed.

Variable content : entry -> list N.
Hypothesis Hcontent : forall e, In e es -> N.of_nat (length (content e)) = e_len e.

(** The side conditions of the piece theorems. *)
Definition piece_side (pc : wpiece) : Prop :=
  wf_piece content pc /\ Forall (fun s => In (ps_entry s) es) (w_segs pc) /\ w_segs pc <> [] /\
  (forall s, w_segs pc = [s] -> ps_len s <> 0).

Lemma segs_of_props t : In t ts -> forall sgs out, segs_of es (t_info_hash t) sgs = Ok out ->
  Forall (seg_fits (lens_of t)) sgs ->
  length out = length sgs /\ map ps_len out = map s_len sgs /\
  Forall (fun s => In (ps_entry s) es /\ ps_off s + ps_len s <= e_len (ps_entry s)) out.
Proof.
  intros Ht. induction sgs as [|sg r IH]; intros out Hs Hall; cbn [segs_of] in Hs.
  - inversion Hs; subst. repeat split; constructor.
  - destruct (find_entry es (t_info_hash t) (s_file sg)) as [e|] eqn:Ef; [|discriminate].
    destruct (segs_of es (t_info_hash t) r) as [rs| | |] eqn:Er; cbn [bind] in Hs; try discriminate.
    inversion Hs; subst. inversion Hall as [|? ? (Hb & Hz & Hn) Hall']; subst.
    destruct (IH rs eq_refl Hall') as (I1 & I2 & I3). cbn [length map ps_len]. split; [congruence|]. split; [congruence|].
    constructor; [|exact I3]. cbn. destruct (find_entry_some _ _ _ Ef) as (He & Hih & Hfi). split; [exact He|].
    destruct (N.eq_dec (s_len sg) 0) as [E0|E0]; [specialize (Hz E0); lia|].
    pose proof (entry_of_torrent t e Ht He Hih) as Hlen. rewrite Hfi, (Hn E0) in Hlen. inversion Hlen. lia.
Qed.

Lemma work_of_pieces_side t : In t ts -> forall ps hashes ws,
  work_of_pieces es (t_info_hash t) ps hashes = Ok ws ->
  (forall p, In p ps -> p_segs p <> [] /\ (forall sg, p_segs p = [sg] -> s_len sg <> 0) /\
     Forall (seg_fits (lens_of t)) (p_segs p)) ->
  Forall piece_side ws.
Proof.
  intros Ht. induction ps as [|p pr IH]; intros hashes ws Hw Hall; cbn [work_of_pieces] in Hw.
  - inversion Hw; constructor.
  - destruct hashes as [|h hr]; [inversion Hw; constructor|].
    destruct (segs_of es (t_info_hash t) (p_segs p)) as [sg| | |] eqn:Es; cbn [bind] in Hw; try discriminate.
    destruct (work_of_pieces es (t_info_hash t) pr hr) as [rest| | |] eqn:Er; cbn [bind] in Hw; try discriminate.
    inversion Hw; subst. constructor; [|apply (IH hr rest Er); intros q Hq; apply Hall; now right].
    destruct (Hall p (or_introl eq_refl)) as (Hne & Hone & Hin).
    destruct (segs_of_props t Ht _ _ Es Hin) as (L1 & L2 & L3). unfold piece_side. cbn [w_segs].
    split; [|split; [|split]].
    + unfold wf_piece. cbn [w_segs]. eapply Forall_impl; [|exact L3]. intros s [Hi Hb]. split; [exact Hb|now apply Hcontent].
    + eapply Forall_impl; [|exact L3]. now intros s [Hi _].
    + intros ->. destruct (p_segs p); [congruence|discriminate].
    + intros s ->. destruct (p_segs p) as [|sg0 [|? ?]] eqn:Ep; try discriminate. cbn in L2. inversion L2.
      rewrite H0. now apply (Hone sg0).
Qed.

(** Every piece of the work list satisfies the side conditions. *)
Theorem work_of_side : forall ws, work_of es ts = Ok ws -> Forall piece_side ws.
Proof.
  assert (G : forall ts', incl ts' ts -> forall ws, work_of es ts' = Ok ws -> Forall piece_side ws).
  { induction ts' as [|t r IH]; intros Hi ws Hw; cbn [work_of] in Hw; [inversion Hw; constructor|].
    assert (Ht : In t ts) by (apply Hi; now left).
    destruct (layout (shape_of t) (t_piece_length t) (length (t_pieces t))) as [ps| | |] eqn:El; cbn [bind] in Hw; try discriminate.
    destruct (work_of_pieces es (t_info_hash t) ps (t_pieces t)) as [w| | |] eqn:Ew; cbn [bind] in Hw; try discriminate.
    destruct (work_of es r) as [rest| | |] eqn:Er; cbn [bind] in Hw; try discriminate. inversion Hw; subst.
    apply Forall_app. split; [|apply IH; [intros x Hx; apply Hi; now right|reflexivity]].
    pose proof (proj1 (Forall_forall _ _) Hts) as Hts'. destruct (torrent_layout t (Hts' t Ht)) as (ps' & El' & _ & Hall).
    rewrite El in El'. inversion El'; subst ps'. exact (work_of_pieces_side t Ht ps (t_pieces t) w Ew Hall). }
  apply G. apply incl_refl.
Qed.

(** Hence every piece program of the run is good (C01 for every piece of every loadable torrent,
    with collision-freeness as the only remaining premise) ... *)
Theorem work_programs_good H ws pc : work_of es ts = Ok ws -> In pc ws -> cr H content pc ->
  good content pc (solve_prog H pc).
Proof.
  intros Hw Hin Hcr. pose proof (work_of_side ws Hw) as Hs. rewrite Forall_forall in Hs.
  destruct (Hs pc Hin) as (H1 & _ & H3 & H4). now apply solve_prog_good.
Qed.

(** ... and the pool satisfies the premise of the whole-run invariant. *)
Theorem work_pool_good H ws pool : work_of es ts = Ok ws -> Forall (cr H content) ws ->
  Forall (fun pg => exists pc, In pc ws /\ pg = solve_prog H pc) pool -> Forall (pgood content es) pool.
Proof.
  intros Hw Hcr Hp. pose proof (work_of_side ws Hw) as Hs. rewrite Forall_forall in *. intros pg Hpg.
  destruct (Hp pg Hpg) as (pc & Hin & ->). destruct (Hs pc Hin) as (H1 & H2 & H3 & H4).
  exists pc. repeat split; auto. apply solve_prog_good; auto.
Qed.

(** ** The work list covers every byte (C06 lifted to the work list): every byte of every file of
    every loaded torrent lies in a segment of some piece of the work list, and that segment is
    tied to the table entry of that very file. *)
Lemma torrent_layout_spec t : torrent_ok t ->
  0 < t_piece_length t \/ total (lens_of t) = 0.
Proof.
  intros [HL [(flen & Hl & Hf & Hb & Hh)|(fs & Hl & Hf & Hne & Hh)]]; unfold lens_of, files_of; rewrite Hl, ?Hf;
    unfold hash_count_ok in Hh.
  - unfold total; cbn [fold_right]. rewrite N.add_0_r. destruct (N.eqb_spec flen 0); [now right|].
    destruct (N.eqb_spec (t_piece_length t) 0); [discriminate|left; lia].
  - change (sumN (map f_length fs)) with (total (map f_length fs)) in Hh.
    destruct (N.eqb_spec (total (map f_length fs)) 0); [now right|].
    destruct (N.eqb_spec (t_piece_length t) 0); [discriminate|left; lia].
Qed.

Lemma segs_of_in ih : forall sgs out sg, segs_of es ih sgs = Ok out -> In sg sgs ->
  exists s, In s out /\ ps_off s = s_off sg /\ ps_len s = s_len sg /\ find_entry es ih (s_file sg) = Some (ps_entry s).
Proof.
  induction sgs as [|x r IH]; intros out sg Hs Hin; [contradiction|]. cbn [segs_of] in Hs.
  destruct (find_entry es ih (s_file x)) as [e|] eqn:Ef; [|discriminate].
  destruct (segs_of es ih r) as [rs| | |] eqn:Er; cbn [bind] in Hs; try discriminate. inversion Hs; subst.
  destruct Hin as [->|Hin].
  - eexists. split; [now left|]. cbn. auto.
  - destruct (IH rs sg eq_refl Hin) as (s & H1 & H2). exists s. split; [now right|exact H2].
Qed.

Lemma work_of_pieces_nth ih : forall ps hashes w, work_of_pieces es ih ps hashes = Ok w -> length hashes = length ps ->
  forall i p, nth_error ps i = Some p -> exists pc, nth_error w i = Some pc /\ segs_of es ih (p_segs p) = Ok (w_segs pc).
Proof.
  induction ps as [|p0 pr IH]; intros hashes w Hw Hl i p Hn; [destruct i; discriminate|].
  destruct hashes as [|h hr]; [discriminate|]. cbn [work_of_pieces] in Hw.
  destruct (segs_of es ih (p_segs p0)) as [sg| | |] eqn:Es; cbn [bind] in Hw; try discriminate.
  destruct (work_of_pieces es ih pr hr) as [rest| | |] eqn:Er; cbn [bind] in Hw; try discriminate. inversion Hw; subst.
  destruct i as [|i]; cbn [nth_error] in *.
  - inversion Hn; subst. eexists. split; [reflexivity|]. exact Es.
  - apply (IH hr rest Er); [cbn [length] in Hl; lia|exact Hn].
Qed.

Theorem work_covers_every_byte ws t k flen o : work_of es ts = Ok ws -> In t ts ->
  nth_error (lens_of t) k = Some flen -> o < flen ->
  exists pc s, In pc ws /\ In s (w_segs pc) /\ e_ih (ps_entry s) = t_info_hash t /\ e_findex (ps_entry s) = k /\
               ps_off s <= o < ps_off s + ps_len s.
Proof.
  intros Hw Ht Hk Ho.
  assert (G : forall ts', incl ts' ts -> In t ts' -> forall ws', work_of es ts' = Ok ws' ->
              exists pc s, In pc ws' /\ In s (w_segs pc) /\ e_ih (ps_entry s) = t_info_hash t /\ e_findex (ps_entry s) = k /\ ps_off s <= o < ps_off s + ps_len s).
  { induction ts' as [|t0 r IH]; intros Hi Hin ws' Hw'; [contradiction|]. cbn [work_of] in Hw'.
    destruct (layout (shape_of t0) (t_piece_length t0) (length (t_pieces t0))) as [ps| | |] eqn:El; cbn [bind] in Hw'; try discriminate.
    destruct (work_of_pieces es (t_info_hash t0) ps (t_pieces t0)) as [w| | |] eqn:Ew; cbn [bind] in Hw'; try discriminate.
    destruct (work_of es r) as [rest| | |] eqn:Er; cbn [bind] in Hw'; try discriminate. inversion Hw'; subst.
    destruct Hin as [->|Hin].
    2: { destruct (IH (fun x Hx => Hi x (or_intror Hx)) Hin rest eq_refl) as (pc & s & H1 & H2). exists pc, s. split; [apply in_or_app; now right|exact H2]. }
    pose proof (proj1 (Forall_forall _ _) Hts t Ht) as Hok.
    (* the layout of t in closed form *)
    assert (Hlay : exists L files nh, L = t_piece_length t /\ files = lens_of t /\ nh = length (t_pieces t) /\ 0 < L /\ hashes_ok files L nh /\
                   length ps = nh /\ forall i p, nth_error ps i = Some p -> pos_segs (p_segs p) = spec_piece files L i).
    { exists (t_piece_length t), (lens_of t), (length (t_pieces t)).
      assert (Hpos : 0 < t_piece_length t).
      { destruct (torrent_layout_spec t Hok) as [Hp|Hz]; [exact Hp|]. exfalso.
        assert (flen <= total (lens_of t)).
        { clear -Hk. revert k Hk. induction (lens_of t) as [|x l IHl]; intros [|k] Hk; cbn in Hk; try discriminate.
          - inversion Hk; subst. unfold total; cbn [fold_right]. lia.
          - specialize (IHl k Hk). unfold total in *; cbn [fold_right]. lia. }
        lia. }
      destruct Hok as [HL [(fl & Hl & Hf & Hb & Hh)|(fs & Hl & Hf & Hne & Hh)]]; unfold shape_of, lens_of, files_of in *; rewrite Hl, ?Hf in *.
      - assert (Hk' : hashes_ok [fl] (t_piece_length t) (length (t_pieces t))).
        { apply hash_count_ok_iff. unfold total; cbn [fold_right]. rewrite N.add_0_r. exact Hh. }
        destruct (layout_single_spec fl _ _ Hb Hk') as (ps' & Hlay' & Hlen & Hall). cbn [layout] in El. rewrite El in Hlay'. inversion Hlay'; subst ps'.
        split; [reflexivity|]. split; [reflexivity|]. split; [reflexivity|]. split; [exact Hpos|]. split; [exact Hk'|]. split; [exact Hlen|].
        intros i p Hp. destruct (Hall i p Hp) as [_ [Hs _]]. exact Hs.
      - assert (Hk' : hashes_ok (map f_length fs) (t_piece_length t) (length (t_pieces t))) by (apply hash_count_ok_iff; exact Hh).
        assert (Hne' : map f_length fs <> []) by (destruct fs; [congruence|discriminate]).
        destruct (layout_multi_spec _ _ _ Hne' HL Hk') as (ps' & Hlay' & Hlen & Hall). cbn [layout] in El. rewrite El in Hlay'. inversion Hlay'; subst ps'.
        split; [reflexivity|]. split; [reflexivity|]. split; [reflexivity|]. split; [exact Hpos|]. split; [exact Hk'|]. split; [exact Hlen|].
        intros i p Hp. destruct (Hall i p Hp) as [Hs _]. exact Hs. }
    destruct Hlay as (L & files & nh & -> & -> & -> & Hpos & Hh & Hlen & Hspec).
    destruct (spec_covers (lens_of t) (t_piece_length t) k flen o Hpos Hk Ho) as (sg & Hsg & Hcf & Hco).
    set (g := start_of (lens_of t) k + o) in *. set (i := N.to_nat (g / t_piece_length t)) in *.
    assert (Hg : g < total (lens_of t)).
    { subst g. unfold start_of. rewrite <- (firstn_skipn k (lens_of t)) at 2. rewrite total_app.
      rewrite (skipn_nth _ _ _ Hk), total_cons. lia. }
    assert (Hi' : (i < length (t_pieces t))%nat).
    { destruct Hh as [H1 _]. subst i. pose proof (N.div_mod g (t_piece_length t) ltac:(lia)). pose proof (N.mod_lt g (t_piece_length t) ltac:(lia)). nia. }
    destruct (nth_error ps i) as [p|] eqn:Ep; [|apply nth_error_None in Ep; lia].
    assert (Hinp : In sg (p_segs p)).
    { rewrite <- (Hspec i p Ep) in Hsg. unfold pos_segs in Hsg. apply filter_In in Hsg. tauto. }
    destruct (work_of_pieces_nth _ ps (t_pieces t) w Ew ltac:(lia) i p Ep) as (pc & Hpc & Hsegs).
    destruct (segs_of_in _ _ _ sg Hsegs Hinp) as (s & Hs1 & Hs2 & Hs3 & Hs4).
    destruct (find_entry_some _ _ _ Hs4) as (_ & Hih & Hfi).
    exists pc, s. split; [apply in_or_app; left; eapply nth_error_In; eauto|]. split; [exact Hs1|]. split; [exact Hih|].
    split; [congruence|]. rewrite Hs2, Hs3. exact Hco. }
  apply (G ts (incl_refl _) Ht ws Hw).
Qed.
End Glue.

(** ** The scanning phase of a run of loadable torrents

    [run_setup]: the torrents are what the loader returns, pairwise distinct (the orchestrator
    de-duplicates by info-hash); the table and the work list are the model's; [content] is the
    torrents' real content (of the declared lengths, and collision-free at every piece: whatever
    hashes to a piece's hash IS the piece's content); entries with the same export path denote the
    same file, and initially no two such paths are hard links of one inode; the pool holds the
    evaluation programs of pieces of the work list. *)
Definition run_setup (H : list N -> list N) (content : entry -> list N) (export : path) (ts : list torrent) (ix : index)
           (es : list entry) (ws : list wpiece) (f0 : fs) (pool0 : list prog) : Prop :=
  Forall torrent_ok ts /\ NoDup (map t_info_hash ts) /\
  populate ix (metadata_table export ts 0) = Ok es /\ work_of es ts = Ok ws /\
  (forall e, In e es -> N.of_nat (length (content e)) = e_len e) /\ Forall (cr H content) ws /\
  table_functional content es /\ alias_free content es f0 /\
  Forall (fun pg => exists pc, In pc ws /\ pg = solve_prog H pc) pool0.

Theorem whole_run_safe H content export ts ix es ws f0 pool0 s :
  run_setup H content export ts ix es ws f0 pool0 -> sreach {| s_fs := f0; s_pool := pool0 |} s ->
  SI content es f0 (s_fs s) /\ Forall (pgood content es) (s_pool s).
Proof.
  intros (Hts & Hnd & Hpop & Hw & Hc & Hcr & Hf & Ha & Hp) Hr.
  apply (run_safe content es f0 pool0 s Hf Ha); [|exact Hr].
  exact (work_pool_good export ts ix es Hts Hnd Hpop content Hc H ws pool0 Hw Hcr Hp).
Qed.

Theorem whole_run_bytes_sound H content export ts ix es ws f0 pool0 s e i :
  run_setup H content export ts ix es ws f0 pool0 -> sreach {| s_fs := f0; s_pool := pool0 |} s ->
  owner es (s_fs s) i e -> Inv (fs_content f0 i) (content e) (N.to_nat (e_len e)) (fs_content (s_fs s) i).
Proof. intros Hs Hr Ho. destruct (whole_run_safe _ _ _ _ _ _ _ _ _ _ Hs Hr) as [HS _]. exact (si_inv _ _ _ _ HS e i Ho). Qed.

Theorem whole_run_outside_untouched H content export ts ix es ws f0 pool0 s :
  run_setup H content export ts ix es ws f0 pool0 -> sreach {| s_fs := f0; s_pool := pool0 |} s ->
  (forall p n, fs_lookup f0 p = Some n -> fs_lookup (s_fs s) p = Some n) /\
  (forall i, (forall e, ~ owner es (s_fs s) i e) -> fs_content (s_fs s) i = fs_content f0 i) /\
  (forall p n, fs_lookup f0 p = None -> fs_lookup (s_fs s) p = Some n ->
     (n = NDir /\ exists e, nonpad es e /\ In p (prefixes (parent (e_target e)))) \/
     (exists e i, nonpad es e /\ p = e_target e /\ n = NFile i /\ fresh_ino f0 <= i)).
Proof.
  intros Hs Hr. destruct (whole_run_safe _ _ _ _ _ _ _ _ _ _ Hs Hr) as [HS _].
  split; [exact (si_mono _ _ _ _ HS)|]. split; [exact (si_same _ _ _ _ HS)|exact (si_new _ _ _ _ HS)].
Qed.

Theorem whole_run_verified_preserved H content export ts ix es ws f0 pool0 s e i lo hi :
  run_setup H content export ts ix es ws f0 pool0 -> sreach {| s_fs := f0; s_pool := pool0 |} s ->
  owner es (s_fs s) i e -> (hi <= N.to_nat (e_len e))%nat ->
  holds (content e) (fs_content f0 i) lo hi -> holds (content e) (fs_content (s_fs s) i) lo hi.
Proof. intros Hs Hr Ho Hhi Hh. destruct (whole_run_safe _ _ _ _ _ _ _ _ _ _ Hs Hr) as [HS _]. exact (si_ver _ _ _ _ HS e i lo hi Ho Hhi Hh). Qed.

Theorem whole_run_no_panic H content export ts ix es ws f0 pool0 s pg :
  run_setup H content export ts ix es ws f0 pool0 -> sreach {| s_fs := f0; s_pool := pool0 |} s ->
  In pg (s_pool s) -> pg <> Ret PanicO.
Proof.
  intros Hs Hr Hin. destruct (whole_run_safe _ _ _ _ _ _ _ _ _ _ Hs Hr) as [_ Hg]. rewrite Forall_forall in Hg.
  apply (pgood_not_panic content es). auto.
Qed.

Theorem whole_run_created H content export ts ix es ws f0 pool0 s p n :
  run_setup H content export ts ix es ws f0 pool0 -> sreach {| s_fs := f0; s_pool := pool0 |} s ->
  fs_lookup f0 p = None -> fs_lookup (s_fs s) p = Some n ->
  (n = NDir /\ exists e, nonpad es e /\ In p (prefixes (parent (e_target e)))) \/
  (exists e i, nonpad es e /\ p = e_target e /\ n = NFile i /\ fresh_ino f0 <= i).
Proof. intros Hs Hr. destruct (whole_run_outside_untouched _ _ _ _ _ _ _ _ _ _ Hs Hr) as (_ & _ & H3). apply H3. Qed.

Theorem whole_run_pool_good H content export ts ix es ws f0 pool0 s pg :
  run_setup H content export ts ix es ws f0 pool0 -> sreach {| s_fs := f0; s_pool := pool0 |} s ->
  In pg (s_pool s) -> pgood content es pg.
Proof. intros Hs Hr Hin. destruct (whole_run_safe _ _ _ _ _ _ _ _ _ _ Hs Hr) as [_ Hg]. rewrite Forall_forall in Hg. auto. Qed.

(** ** [table_functional] from the shape of the torrents
    Entries with the same export path are the same file: different torrents have disjoint
    subtrees (hex of the info-hash is injective), and within a torrent distinct files have distinct
    paths (hypothesis: the loader does not refuse a file list that names one path twice; such a
    torrent has no consistent export image and is outside every property's quantifier). *)
Lemma starts_with_prefix_app (a b p : path) : starts_with (a ++ b) p = true -> starts_with a p = true.
Proof.
  revert p; induction a as [|x a IH]; intros p Hs; [reflexivity|]. destruct p as [|y p]; [discriminate|].
  cbn in *. apply andb_true_iff in Hs. destruct Hs as [H1 H2]. rewrite H1. cbn. now apply IH.
Qed.

Theorem table_functional_of_distinct_paths export ts ix es content :
  Forall torrent_ok ts -> NoDup (map t_info_hash ts) ->
  Forall (fun t => Forall (fun x => x < 256) (t_info_hash t)) ts ->
  Forall (fun t => NoDup (map f_path (files_of t))) ts ->
  populate ix (metadata_table export ts 0) = Ok es ->
  (forall e1 e2, e_ih e1 = e_ih e2 -> e_findex e1 = e_findex e2 -> content e1 = content e2) ->
  table_functional content es.
Proof.
  intros Hts Hnd Hbytes Hpaths Hpop Hcont e1 e2 [Hi1 _] [Hi2 _] Htg.
  destruct (populate_in _ _ _ _ Hpop Hi1) as (a1 & s1 & Ha1 & ->). destruct (populate_in _ _ _ _ Hpop Hi2) as (a2 & s2 & Ha2 & ->).
  cbn [with_searches e_target e_len e_ih e_findex] in *.
  destruct (table_target_confined _ _ _ _ Ha1) as (t1 & Ht1 & Hih1 & Hst1 & _).
  destruct (table_target_confined _ _ _ _ Ha2) as (t2 & Ht2 & Hih2 & Hst2 & _).
  rewrite Forall_forall in Hbytes, Hpaths, Hts.
  assert (Hsame : t_info_hash t1 = t_info_hash t2).
  { apply (subtrees_disjoint export _ _ (e_target a1)); [apply Hbytes; auto|apply Hbytes; auto| |].
    - apply (starts_with_prefix_app (export ++ [hexdigest (t_info_hash t1)]) [[68;97;116;97]]). rewrite <- app_assoc. exact Hst1.
    - rewrite Htg. apply (starts_with_prefix_app (export ++ [hexdigest (t_info_hash t2)]) [[68;97;116;97]]). rewrite <- app_assoc. exact Hst2. }
  assert (t1 = t2) by (apply (NoDup_map_inj t_info_hash ts); auto). subst t2.
  (* both entries belong to t1 *)
  assert (Hent : forall a, In a (metadata_table export ts 0) -> e_ih a = t_info_hash t1 -> exists id, In a (entries_of export t1 id)).
  { intros a Ha Hih. destruct (metadata_table_in _ _ _ _ Ha) as (t' & id' & Ht' & He').
    assert (e_ih a = t_info_hash t') as Hq.
    { unfold entries_of in He'. destruct (t_files t') as [fs|]; [now destruct (entries_multi_nth _ _ _ _ _ _ He')|].
      destruct (t_length t'); [|contradiction]. destruct He' as [<-|[]]. reflexivity. }
    assert (t' = t1) by (apply (NoDup_map_inj t_info_hash ts); auto; congruence). subst t'. eauto. }
  destruct (Hent a1 Ha1 Hih1) as (id1 & E1). destruct (Hent a2 Ha2 Hih2) as (id2 & E2).
  destruct (Hts t1 Ht1) as [_ [(flen & Hl & Hf & _)|(fs & Hl & Hf & _)]]; unfold entries_of in E1, E2; rewrite ?Hf, ?Hl in *.
  - destruct E1 as [<-|[]], E2 as [<-|[]]. split; [apply Hcont; reflexivity|reflexivity].
  - destruct (entries_multi_nth _ _ _ _ _ _ E1) as (_ & k1 & f1 & Hk1 & Hn1 & Hlen1 & Htg1 & _).
    destruct (entries_multi_nth _ _ _ _ _ _ E2) as (_ & k2 & f2 & Hk2 & Hn2 & Hlen2 & Htg2 & _).
    rewrite Htg1, Htg2 in Htg. unfold target_multi in Htg. apply app_inv_head in Htg.
    change ([hexdigest (t_info_hash t1); data_dir_multi; t_name t1] ++ f_path f1) with ([hexdigest (t_info_hash t1); data_dir_multi; t_name t1] ++ f_path f1) in Htg.
    apply app_inv_head in Htg.
    assert (Hk : k1 = k2).
    { specialize (Hpaths t1 Ht1). unfold files_of in Hpaths. rewrite Hf in Hpaths.
      assert (N1 : nth_error (map f_path fs) k1 = Some (f_path f1)) by now apply map_nth_error.
      assert (N2 : nth_error (map f_path fs) k2 = Some (f_path f1)) by (rewrite Htg; now apply map_nth_error).
      apply (proj1 (NoDup_nth_error (map f_path fs)) Hpaths); [apply nth_error_Some; congruence|congruence]. }
    subst k2. assert (f1 = f2) by congruence. subst f2. split; [apply Hcont; cbn [with_searches e_ih e_findex]; congruence|cbn [with_searches e_len]; congruence].
Qed.

(** ** The whole of [start]: prelude, then scanning
    The mutating operations of the prelude (whatever the probes answer, whichever operations fail)
    are [set_len] of export images to their declared lengths, so the invariant - stated relative to
    the file system as it was BEFORE the run - holds when scanning starts, and from there in every
    reachable state of the scanning phase. *)
Lemma populate_entry ix es0 es e0 : populate ix es0 = Ok es -> In e0 es0 -> exists s, In (with_searches e0 s) es.
Proof.
  revert es; induction es0 as [|a r IH]; intros es Hp Hin; [contradiction|]. cbn [populate] in Hp.
  destruct (searches_for ix a) as [s| | |]; cbn [bind] in Hp; try discriminate.
  destruct (populate ix r) as [rs| | |]; cbn [bind] in Hp; try discriminate. inversion Hp; subst.
  destruct Hin as [->|Hin]; [exists s; now left|]. destruct (IH rs eq_refl Hin) as [s' Hs']. exists s'. now right.
Qed.

Theorem whole_start_safe H content export ts ix es ws fi ans mutok scans uexport rz applied pool0 s :
  run_setup H content export ts ix es ws fi pool0 ->
  (* [applied]: the prelude's operations that reached the file system, in order *)
  incl applied (fst (run_prelude ans mutok (prelude_prog scans uexport rz (metadata_table export ts 0) (fun _ => Ret Success)))) ->
  sreach {| s_fs := apply_ops fi applied; s_pool := pool0 |} s ->
  SI content es fi (s_fs s) /\ Forall (pgood content es) (s_pool s).
Proof.
  intros Hs Hinc Hr. pose proof Hs as (Hts & Hnd & Hpop & Hw & Hc & Hcr & Hf & Ha & Hp).
  assert (Happ : Forall (entry_setlen es) applied).
  { apply Forall_forall. intros o Ho. apply Hinc in Ho. apply prelude_ops_shape in Ho; [|reflexivity].
    destruct Ho as (e0 & Hin0 & Hpad & ->). destruct (populate_entry _ _ _ _ Hpop Hin0) as [sr Hin].
    exists (with_searches e0 sr). split; [split; [exact Hin|exact Hpad]|reflexivity]. }
  assert (HS0 : SI content es fi (apply_ops fi applied)).
  { apply (SI_apply_setlens content es fi applied Happ). now apply SI_init. }
  apply (sys_invariant content es fi Hf _ _ Hr HS0).
  exact (work_pool_good export ts ix es Hts Hnd Hpop content Hc H ws pool0 Hw Hcr Hp).
Qed.


(** ** From the command line to [run_setup]: the torrent list the run works on
    [loaded H xs]: the documents that load, in the order given; [distinct_torrents] sorts them by
    info-hash and drops repetitions (orchestrator.rs).  The result satisfies the first two premises
    of [run_setup], whatever was presented (duplicates, any order, unloadable documents). *)
Definition loaded (H : list N -> list N) (xs : list (list N)) : list torrent :=
  flat_map (fun x => match load H x with Ok t => [t] | _ => [] end) xs.

Theorem presented_list_ok H xs : Forall (fun x => len x <= u64max) xs ->
  Forall torrent_ok (distinct_torrents (loaded H xs)) /\ NoDup (map t_info_hash (distinct_torrents (loaded H xs))).
Proof.
  intros Hx. split; [|apply distinct_nodup].
  apply Forall_forall. intros t Ht. destruct (distinct_spec (loaded H xs)) as (_ & Hsub & _). apply Hsub in Ht.
  unfold loaded in Ht. apply in_flat_map in Ht. destruct Ht as (x & Hin & Hl).
  destruct (load H x) as [t'| | |] eqn:El; try contradiction. destruct Hl as [<-|[]].
  rewrite Forall_forall in Hx. exact (load_torrent_ok H x t' (Hx x Hin) El).
Qed.
