(** The metadata table: where every entry's export path lies (C03, C12), and the counters (C15). *)
From TB Require Import Base Decimal BencodeModel TorrentModel TorrentProofs PathModel FsModel SolverModel FinderModel RunModel RunProofs
                       Generated GeneratedObligations.
From Coq Require Import ZifyN ZifyNat ZifyBool.
Local Open Scope N_scope.

Lemma entries_multi_in export t : forall fs findex id e, In e (entries_multi export t fs findex id) ->
  exists f, In f fs /\ e_target e = target_multi export (t_info_hash t) (t_name t) (f_path f) /\
            e_pad e = is_padding (f_path f) /\ e_len e = f_length f /\ e_ih e = t_info_hash t.
Proof.
  induction fs as [|f r IH]; intros findex id e Hin; [contradiction|]. cbn [entries_multi] in Hin.
  destruct Hin as [<-|Hin]; [exists f; cbn; auto using in_eq|].
  destruct (IH _ _ _ Hin) as (f' & H1 & H2). exists f'. split; [now right|exact H2].
Qed.

Lemma entries_of_in export t id e : In e (entries_of export t id) ->
  e_ih e = t_info_hash t /\
  ((t_files t = None /\ e_target e = target_single export (t_info_hash t) (t_name t) /\ e_pad e = false) \/
   (exists fs f, t_files t = Some fs /\ In f fs /\ e_target e = target_multi export (t_info_hash t) (t_name t) (f_path f) /\
                 e_pad e = is_padding (f_path f))).
Proof.
  unfold entries_of. destruct (t_files t) as [fs|] eqn:Ef.
  - intros Hin. destruct (entries_multi_in _ _ _ _ _ _ Hin) as (f & H1 & H2 & H3 & _ & H5).
    split; [exact H5|]. right. exists fs, f. auto.
  - destruct (t_length t); [|contradiction]. intros [<-|[]]. cbn. auto.
Qed.

Lemma metadata_table_in export : forall ts id e, In e (metadata_table export ts id) ->
  exists t id', In t ts /\ In e (entries_of export t id').
Proof.
  induction ts as [|t r IH]; intros id e Hin; [contradiction|]. cbn [metadata_table] in Hin.
  apply in_app_or in Hin. destruct Hin as [Hin|Hin]; [exists t, id; auto using in_eq|].
  destruct (IH _ _ Hin) as (t' & id' & H1 & H2). exists t', id'. auto using in_cons.
Qed.

(** Every export path of the table is [export/<hex of its torrent's info-hash>/Data/<name>...];
    so is its parent directory or a prefix of the Data directory. *)
Theorem table_target_confined export ts id e : In e (metadata_table export ts id) ->
  exists t, In t ts /\ e_ih e = t_info_hash t /\
    starts_with (export ++ [hexdigest (t_info_hash t); [68;97;116;97]]) (e_target e) = true /\
    starts_with (export ++ [hexdigest (t_info_hash t); [68;97;116;97]]) (parent (e_target e)) = true.
Proof.
  intros Hin. destruct (metadata_table_in _ _ _ _ Hin) as (t & id' & Ht & He). exists t. split; [exact Ht|].
  destruct (entries_of_in _ _ _ _ He) as [Hih [(Hf & Htg & _)|(fs & f & Hf & Hfin & Htg & _)]]; (split; [exact Hih|]).
  - rewrite Htg. destruct (target_single_shape export (t_info_hash t) (t_name t)) as [Hs1 Hs2]. split; [exact Hs2|].
    rewrite Hs1. unfold parent.
    change (export ++ [hexdigest (t_info_hash t); [68;97;116;97]; t_name t]) with (export ++ ([hexdigest (t_info_hash t); [68;97;116;97]] ++ [t_name t])).
    rewrite app_assoc, removelast_app by discriminate. cbn [removelast]. apply starts_with_app.
  - rewrite Htg. destruct (target_multi_shape export (t_info_hash t) (t_name t) (f_path f)) as [Hs1 Hs2]. split.
    + rewrite Hs1.
      change ([hexdigest (t_info_hash t); [68;97;116;97]; t_name t] ++ f_path f) with ([hexdigest (t_info_hash t); [68;97;116;97]] ++ (t_name t :: f_path f)).
      rewrite app_assoc. apply starts_with_app.
    + rewrite Hs1. unfold parent.
      change ([hexdigest (t_info_hash t); [68;97;116;97]; t_name t] ++ f_path f) with ([hexdigest (t_info_hash t); [68;97;116;97]] ++ (t_name t :: f_path f)).
      rewrite app_assoc, removelast_app by discriminate. apply starts_with_app.
Qed.

(** Two different torrents never share an export path: their subtrees start with different
    40-digit directory names. *)
Lemma starts_with_both a b p : starts_with a p = true -> starts_with b p = true -> length a = length b -> a = b.
Proof.
  revert b p; induction a as [|x a IH]; intros [|y b] [|z p] Ha Hb Hl; cbn in *; try discriminate; try reflexivity.
  apply andb_true_iff in Ha. destruct Ha as [Ha1 Ha2]. apply andb_true_iff in Hb. destruct Hb as [Hb1 Hb2].
  apply beq_eq in Ha1. apply beq_eq in Hb1. f_equal; [congruence|]. eapply IH; eauto.
Qed.

Theorem subtrees_disjoint export ih1 ih2 p :
  Forall (fun x => x < 256) ih1 -> Forall (fun x => x < 256) ih2 ->
  starts_with (export ++ [hexdigest ih1]) p = true -> starts_with (export ++ [hexdigest ih2]) p = true -> ih1 = ih2.
Proof.
  intros B1 B2 H1 H2. assert (He : export ++ [hexdigest ih1] = export ++ [hexdigest ih2]).
  { eapply starts_with_both; eauto. rewrite !app_length. reflexivity. }
  apply app_inv_head in He. inversion He. now apply hex_injective.
Qed.

(** ** Counters (C15) *)
Theorem counters_sum os : forall c, Forall (fun o => o <> PanicO) os ->
  let c' := fold_left count os c in
  (c_success c' + c_failed c' + c_fault c' = c_success c + c_failed c + c_fault c + length os)%nat /\ c_total c' = c_total c.
Proof.
  induction os as [|o r IH]; intros c Hf; cbn [fold_left length]; [split; lia|].
  inversion Hf as [|? ? Ho Hr]; subst. destruct (IH (count c o) Hr) as [H1 H2].
  destruct o; cbn [count c_success c_failed c_fault c_total] in *; try congruence; split; lia.
Qed.

Theorem one_line_per_piece os c : length (progress c os) = length os.
Proof. revert c; induction os as [|o r IH]; intros c; cbn [progress length]; [reflexivity|]. now rewrite IH. Qed.
