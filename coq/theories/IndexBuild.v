(** The index as [FileCache] builds it (finder.rs: [nodes.entry(len).or_default().insert(path, info)]).

    AvailProofs states C02 against an index satisfying [ix_of_fs] - "the index holds exactly the
    registered set" - and the trace validator compares that set with the index the implementation
    built.  This file closes the remaining gap on the model side: the insertion procedure itself.

    - [put_node]: insert into the inner map (keyed by path: a second insertion of the same path
      replaces the file identity, as [HashMap::insert] does);
    - [ix_insert]: insert into the outer map (keyed by length; [entry(len).or_default()]);
    - [build_index regs]: the insertions of a registration list, in order.

    [build_index_spec]: when the registrations are functional - one identity per (length, path),
    which holds for registrations read off ONE file system state, [regs_of_fs_functional] - the
    built index holds exactly the registered set, whatever the order and multiplicity of the
    insertions (scan directories repeated, nested, or containing the export tree: C17).
    [built_index_is_ix_of_fs]: hence the index built from the scan listing and the export probes
    satisfies [AvailProofs.ix_of_fs], for every file system, table and set of scan directories. *)
From TB Require Import Base PathModel FsModel SolverModel FinderModel RunModel RunProofs AvailProofs IndexModel.
From Coq Require Import ZifyN ZifyNat ZifyBool.
Local Open Scope N_scope.

(** ** The inner map *)
(** Paths of an inner list are unique ([HashMap] keys). *)
Definition uniq (l : nodes) : Prop := NoDup (map fst l).

Lemma put_node_paths x l q : In q (map fst (put_node x l)) <-> q = fst x \/ In q (map fst l).
Proof.
  induction l as [|y r IH]; cbn [put_node map In].
  - split; [intros [H|[]]; now left|intros [H|[]]; now left].
  - destruct (path_eqb (fst y) (fst x)) eqn:Eq; cbn [map In].
    + apply path_eqb_eq in Eq. rewrite Eq. split; [intros [H|H]; [now left|right; now right]|intros [H|[H|H]]; [now left|now left|now right]].
    + rewrite IH. split; [intros [H|[H|H]]|intros [H|[H|H]]]; auto.
Qed.

Lemma put_node_uniq x l : uniq l -> uniq (put_node x l).
Proof.
  unfold uniq. induction l as [|y r IH]; cbn [put_node map]; intros Hu.
  - constructor; [intros []|constructor].
  - inversion Hu as [|a b Hn Hr]; subst. destruct (path_eqb (fst y) (fst x)) eqn:Eq; cbn [map].
    + apply path_eqb_eq in Eq. rewrite <- Eq. constructor; assumption.
    + constructor; [|exact (IH Hr)]. rewrite put_node_paths. intros [H|H]; [|exact (Hn H)].
      rewrite H in Eq. rewrite (proj2 (path_eqb_eq _ _) eq_refl) in Eq. discriminate.
Qed.

Lemma uniq_in_fst l p id : uniq l -> In (p, id) l -> forall id', In (p, id') l -> id' = id.
Proof.
  unfold uniq. induction l as [|[q j] r IH]; cbn [map fst In]; intros Hu Hin id' Hin'; [contradiction|].
  inversion Hu as [|a b Hn Hr]; subst.
  destruct Hin as [H|H], Hin' as [H'|H'].
  - congruence.
  - inversion H; subst. exfalso. apply Hn. change p with (fst (p, id')). now apply in_map.
  - inversion H'; subst. exfalso. apply Hn. change p with (fst (p, id)). now apply in_map.
  - exact (IH Hr H id' H').
Qed.

(** After the insertion: the inserted node, and every other node whose path differs. *)
Lemma put_node_spec x l p id : uniq l ->
  (In (p, id) (put_node x l) <-> (p, id) = x \/ (p <> fst x /\ In (p, id) l)).
Proof.
  intros Hu. induction l as [|[q j] r IH]; cbn [put_node In fst].
  - split; [intros [H|[]]; left; now symmetry|intros [H|[_ []]]; left; now symmetry].
  - inversion Hu as [|a b Hn Hr]; subst. cbn [fst] in Hn. specialize (IH Hr).
    destruct (path_eqb q (fst x)) eqn:Eq; cbn [In].
    + apply path_eqb_eq in Eq. subst q. split.
      * intros [H|H]; [left; now symmetry|]. right. split; [|now right].
        intros ->. apply Hn. change (fst x) with (fst (fst x, id)). now apply in_map.
      * intros [H|[Hne [H|H]]]; [left; now symmetry| |now right]. inversion H; subst. congruence.
    + rewrite IH. split.
      * intros [H|[H|[Hne H]]]; [|now left|right; split; [exact Hne|now right]].
        right. inversion H; subst. split; [|now left]. intros ->. rewrite (proj2 (path_eqb_eq _ _) eq_refl) in Eq. discriminate.
      * intros [H|[Hne [H|H]]]; [right; now left|now left|right; right; now split].
Qed.

(** ** The outer map *)
Definition ix_ok (ix : index) : Prop := Forall (fun e => uniq (snd e)) ix.

Lemma ix_insert_ok ix n x : ix_ok ix -> ix_ok (ix_insert ix n x).
Proof.
  unfold ix_ok. induction ix as [|[m ns] r IH]; cbn [ix_insert]; intros Hok.
  - constructor; [|constructor]. cbn [snd]. unfold uniq. cbn [map]. constructor; [intros []|constructor].
  - inversion Hok as [|a b Hh Hr]; subst. cbn [snd] in Hh. destruct (n =? m).
    + constructor; [cbn [snd]; now apply put_node_uniq|exact Hr].
    + constructor; [exact Hh|exact (IH Hr)].
Qed.

Definition holds (ix : index) (n : N) (p : path) (id : fileid) : Prop :=
  exists ns, nodes_of ix n = Some ns /\ In (p, id) ns.

Lemma ix_insert_spec ix n x m p id : ix_ok ix ->
  (holds (ix_insert ix n x) m p id <->
   (m = n /\ (p, id) = x) \/ ((m <> n \/ p <> fst x) /\ holds ix m p id)).
Proof.
  unfold holds, nodes_of. induction ix as [|[k ns] r IH]; cbn [ix_insert]; intros Hok.
  - cbn [assoc_n]. split.
    + intros (l & Hl & Hin). destruct (N.eqb_spec m n) as [->|]; [|discriminate]. inversion Hl; subst l.
      destruct Hin as [H|[]]. left. split; [reflexivity|now symmetry].
    + intros [[-> H]|[_ (l & Hl & _)]]; [|discriminate]. exists [x]. rewrite N.eqb_refl. split; [reflexivity|left; now symmetry].
  - inversion Hok as [|a b Hh Hr]; subst. cbn [snd] in Hh. specialize (IH Hr).
    destruct (N.eqb_spec n k) as [->|Hnk]; cbn [assoc_n].
    + destruct (N.eqb_spec m k) as [->|Hmk].
      * split.
        -- intros (l & Hl & Hin). inversion Hl; subst l. apply (put_node_spec x ns p id Hh) in Hin.
           destruct Hin as [H|[Hne H]]; [left; now split|]. right. split; [now right|]. exists ns. now split.
        -- intros [[_ H]|[[H|Hne] (l & Hl & Hin)]]; [| congruence |].
           ++ exists (put_node x ns). split; [reflexivity|]. apply (put_node_spec x ns p id Hh). now left.
           ++ inversion Hl; subst l. exists (put_node x ns). split; [reflexivity|]. apply (put_node_spec x ns p id Hh). right. now split.
      * split.
        -- intros (l & Hl & Hin). right. split; [now left|]. exists l. now split.
        -- intros [[H _]|[_ H]]; [congruence|exact H].
    + destruct (N.eqb_spec m k) as [->|Hmk].
      * split.
        -- intros (l & Hl & Hin). right. split; [left; congruence|]. exists l. now split.
        -- intros [[H _]|[_ H]]; [congruence|exact H].
      * exact IH.
Qed.

(** ** The whole insertion sequence *)
Definition functional (regs : list reg) : Prop :=
  forall n p id id', In (n, (p, id)) regs -> In (n, (p, id')) regs -> id = id'.

Lemma build_from_spec : forall regs ix, ix_ok ix ->
  functional regs ->
  (forall n p id id', holds ix n p id -> In (n, (p, id')) regs -> id = id') ->
  let ix' := fold_left (fun ix r => ix_insert ix (fst r) (snd r)) regs ix in
  ix_ok ix' /\ forall n p id, holds ix' n p id <-> (In (n, (p, id)) regs \/ holds ix n p id).
Proof.
  induction regs as [|[k [q j]] regs IH]; cbn [fold_left fst snd]; intros ix Hok Hf Hc.
  - split; [exact Hok|]. intros n p id. split; [now right|intros [[]|H]; exact H].
  - assert (Hok' : ix_ok (ix_insert ix k (q, j))) by now apply ix_insert_ok.
    assert (Hf' : functional regs) by (intros n p id id' H1 H2; apply (Hf n p id id'); now right).
    assert (Hc' : forall n p id id', holds (ix_insert ix k (q, j)) n p id -> In (n, (p, id')) regs -> id = id').
    { intros n p id id' Hh Hin. apply (ix_insert_spec ix k (q, j) n p id Hok) in Hh.
      destruct Hh as [[-> H]|[_ Hh]].
      - inversion H; subst. apply (Hf k q j id'); [now left|now right].
      - apply (Hc n p id id' Hh). now right. }
    destruct (IH _ Hok' Hf' Hc') as [H1 H2]. split; [exact H1|]. intros n p id. rewrite H2.
    rewrite (ix_insert_spec ix k (q, j) n p id Hok). cbn [In fst]. split.
    + intros [H|[[-> H]|[_ H]]]; [left; now right|left; left; now rewrite H|now right].
    + intros [[H|H]|H]; [inversion H; subst; right; left; now split|now left|].
      destruct (N.eqb_spec n k) as [->|Hn]; [|right; right; split; [now left|exact H]].
      destruct (path_eqb p q) eqn:Ep; [|right; right; split; [right; intros ->; rewrite (proj2 (path_eqb_eq _ _) eq_refl) in Ep; discriminate|exact H]].
      apply path_eqb_eq in Ep. subst p. right. left. split; [reflexivity|]. f_equal. apply (Hc k q id j H). now left.
Qed.

Theorem build_index_spec regs : functional regs ->
  forall n p id, holds (build_index regs) n p id <-> In (n, (p, id)) regs.
Proof.
  intros Hf n p id. unfold build_index.
  destruct (build_from_spec regs [] (Forall_nil _) Hf) as [_ H].
  - intros m q i i' (l & Hl & _). discriminate.
  - rewrite H. split; [intros [Hi|(l & Hl & _)]; [exact Hi|discriminate]|now left].
Qed.

(** Order and multiplicity of the insertions do not matter (C17: repeated / nested scan
    directories, the export directory among them, a torrent listed twice). *)
Corollary build_index_invariant regs regs' : functional regs ->
  (forall r, In r regs <-> In r regs') ->
  forall n p id, holds (build_index regs) n p id <-> holds (build_index regs') n p id.
Proof.
  intros Hf Heq n p id.
  assert (Hf' : functional regs') by (intros m q i i' H1 H2; apply (Hf m q i i'); now apply Heq).
  rewrite (build_index_spec regs Hf), (build_index_spec regs' Hf'). apply Heq.
Qed.

(** ** Registrations read off one file system state *)
Section OfFs.
Variable f : fs.
Variable dev : N.
Variable under : path -> bool.
Variable es0 : list entry.

(** What the walks and the export probes insert, given the paths the walks list ([listing], in any
    order, with any repetitions) and the table. *)
Definition scan_regs (listing : list path) : list reg :=
  flat_map (fun p => match listed_of f dev p with
                     | Some l => if under p then match scan_registers (unique_lengths es0) l with Some r => [r] | None => [] end else []
                     | None => [] end) listing.

Definition export_regs : list reg :=
  flat_map (fun e => match export_registers (listed_of f dev) e with Some r => [r] | None => [] end) es0.

Lemma listed_of_path p l : listed_of f dev p = Some l -> l_path l = p.
Proof. unfold listed_of. destruct (fs_lookup f p) as [[|i]|]; try discriminate. intros H. inversion H. reflexivity. Qed.

Lemma scan_regs_in listing n p id : In (n, (p, id)) (scan_regs listing) <->
  In p listing /\ exists l, listed_of f dev p = Some l /\ under p = true /\ scan_registers (unique_lengths es0) l = Some (n, (p, id)).
Proof.
  unfold scan_regs. rewrite in_flat_map. split.
  - intros (q & Hq & Hin). destruct (listed_of f dev q) as [l|] eqn:El; [|contradiction].
    destruct (under q) eqn:Eu; [|contradiction].
    destruct (scan_registers (unique_lengths es0) l) as [r|] eqn:Er; [|contradiction]. destruct Hin as [Hr|[]]. subst r.
    assert (q = p).
    { assert (Hp : l_path l = p).
      { unfold scan_registers in Er. destruct (existsb (N.eqb (l_len l)) (unique_lengths es0)); [|discriminate]. congruence. }
      rewrite <- Hp. symmetry. now apply listed_of_path. }
    subst q. split; [exact Hq|]. exists l. auto.
  - intros (Hq & l & El & Eu & Er). exists p. split; [exact Hq|]. rewrite El, Eu, Er. now left.
Qed.

Lemma export_regs_in n p id : In (n, (p, id)) export_regs <->
  exists e, In e es0 /\ export_registers (listed_of f dev) e = Some (n, (p, id)).
Proof.
  unfold export_regs. rewrite in_flat_map. split.
  - intros (e & He & Hin). destruct (export_registers (listed_of f dev) e) as [r|] eqn:Er; [|contradiction].
    destruct Hin as [Hr|[]]. subst r. exists e. auto.
  - intros (e & He & Er). exists e. split; [exact He|]. rewrite Er. now left.
Qed.

(** A registration of path [p] carries the identity [p] resolves to in [f]. *)
Lemma reg_id_scan l n p id : listed_of f dev p = Some l -> scan_registers (unique_lengths es0) l = Some (n, (p, id)) ->
  exists i, fs_lookup f p = Some (NFile i) /\ id = (dev, i).
Proof.
  unfold listed_of, scan_registers. destruct (fs_lookup f p) as [[|i]|]; try discriminate. intros H. inversion H; subst l. cbn [l_len l_path l_id].
  destruct (existsb _ _); [|discriminate]. intros H'. inversion H'; subst. exists i. auto.
Qed.

Lemma reg_id_export e n p id : export_registers (listed_of f dev) e = Some (n, (p, id)) ->
  exists i, fs_lookup f p = Some (NFile i) /\ id = (dev, i).
Proof.
  unfold export_registers, listed_of. destruct (e_pad e); [discriminate|].
  destruct (fs_lookup f (e_target e)) as [[|i]|] eqn:El; try discriminate. cbn [l_len l_id].
  destruct (_ =? _); [|discriminate]. intros H. inversion H; subst. exists i. auto.
Qed.

Lemma regs_of_fs_functional listing : functional (scan_regs listing ++ export_regs).
Proof.
  assert (Hid : forall n p id, In (n, (p, id)) (scan_regs listing ++ export_regs) -> exists i, fs_lookup f p = Some (NFile i) /\ id = (dev, i)).
  { intros n p id Hin. apply in_app_or in Hin. destruct Hin as [Hin|Hin].
    - apply scan_regs_in in Hin. destruct Hin as (_ & l & El & _ & Er). exact (reg_id_scan l n p id El Er).
    - apply export_regs_in in Hin. destruct Hin as (e & _ & Er). exact (reg_id_export e n p id Er). }
  intros n p id id' H1 H2. destruct (Hid _ _ _ H1) as (i & Hi & ->). destruct (Hid _ _ _ H2) as (i' & Hi' & ->). congruence.
Qed.

(** The walks list (at least) every regular file under a scan directory: then the index the
    insertion procedure builds is the registered set of [AvailProofs.ix_of_fs]. *)
Theorem built_index_is_ix_of_fs listing :
  (forall p i, fs_lookup f p = Some (NFile i) -> under p = true -> In p listing) ->
  ix_of_fs f dev under es0 (build_index (scan_regs listing ++ export_regs)).
Proof.
  intros Hcomplete n p id. fold (holds (build_index (scan_regs listing ++ export_regs)) n p id).
  rewrite (build_index_spec _ (regs_of_fs_functional listing)). rewrite in_app_iff, scan_regs_in, export_regs_in.
  split.
  - intros [(_ & H)|H]; [now left|now right].
  - intros [(l & El & Eu & Er)|H]; [|now right]. left. split; [|exists l; auto].
    unfold listed_of in El. destruct (fs_lookup f p) as [[|i]|] eqn:Ef; try discriminate. exact (Hcomplete p i Ef Eu).
Qed.
End OfFs.

(** ** The listing of a walk.  In the model a walk of the scan directories lists the paths of the
    file system that lie under one of them (the validator computes exactly this list, with the
    extracted [under_of], and compares the resulting index with the implementation's).  For that
    listing the completeness hypothesis of [built_index_is_ix_of_fs] is a theorem: the index of a
    run is the registered set, with no hypothesis left. *)
Definition walk_listing (f : fs) (under : path -> bool) : list path :=
  filter under (map fst (fs_nodes f)).

Lemma assoc_path_in {A} (l : list (path * A)) p a : assoc_path l p = Some a -> In p (map fst l).
Proof.
  induction l as [|[q b] r IH]; cbn [assoc_path map fst In]; [discriminate|].
  destruct (path_eqb p q) eqn:Eq; [apply path_eqb_eq in Eq; now left|]. intros H. right. exact (IH H).
Qed.

Lemma walk_listing_complete f under p i :
  fs_lookup f p = Some (NFile i) -> under p = true -> In p (walk_listing f under).
Proof.
  intros Hl Hu. unfold walk_listing. apply filter_In. split; [|exact Hu].
  unfold fs_lookup in Hl. destruct p as [|c p]; [discriminate|]. exact (assoc_path_in _ _ _ Hl).
Qed.

Theorem walked_index_is_ix_of_fs f dev under es0 :
  ix_of_fs f dev under es0 (build_index (scan_regs f dev under es0 (walk_listing f under) ++ export_regs f dev es0)).
Proof. apply built_index_is_ix_of_fs. intros p i. apply walk_listing_complete. Qed.

(** ** The whole run, with the index built rather than assumed: WholeRunProofs'
    [whole_run_present_piece_recovered] for the index the insertion procedure builds from the
    walk's listing and the export probes in the start state. *)
From TB Require Import SolverProofs SearchProofs FinderProofs SystemModel SystemProofs EstablishProofs CompleteProofs RerunProofs TerminationProofs GlueProofs WholeRunProofs.
Theorem whole_run_built_index_present_piece_recovered H content export ts es ws f0 dev under i pc :
  let es0 := metadata_table export ts 0 in
  let ix := build_index (scan_regs f0 dev under es0 (walk_listing f0 under) ++ export_regs f0 dev es0) in
  run_setup H content export ts ix es ws f0 (map (solve_prog H) ws) ->
  nth_error ws i = Some pc ->
  H (piece_bytes content pc) = w_hash pc ->
  Forall (pad_zero content) (w_segs pc) ->
  Forall (seg_present_stable content f0 under es0 es) (w_segs pc) ->
  let s0 := {| s_fs := f0; s_pool := map (solve_prog H) ws |} in
  (exists s', freach s0 s' /\ finished s') /\
  (forall s', freach s0 s' -> finished s' ->
     nth_error (s_pool s') i = Some (Ret Success) /\
     forall sg, In sg (w_segs pc) -> e_pad (ps_entry sg) = false -> holds_seg content (s_fs s') sg).
Proof.
  intros es0 ix Hset Hn Hh Hpz Hps.
  exact (whole_run_present_piece_recovered H content export ts ix es ws f0 dev under i pc Hset Hn Hh Hpz
           (walked_index_is_ix_of_fs f0 dev under es0) Hps).
Qed.

(** ** Non-vacuity: the example world of RunExample.v.  The walk lists the candidate twice (a scan
    directory given twice); the built index is the example's index, whichever way round. *)
From TB Require Import RunExample.
Example ex_built_index :
  build_index (scan_regs ex_f0 0 ex_under ex_es0 [[[115];[120]]; [[115];[120]]] ++ export_regs ex_f0 0 ex_es0) = ex_ix /\
  build_index (export_regs ex_f0 0 ex_es0 ++ scan_regs ex_f0 0 ex_under ex_es0 [[[115];[120]]]) = ex_ix.
Proof. split; vm_compute; reflexivity. Qed.

(** A second insertion of a path replaces its identity (what [HashMap::insert] does), and leaves
    the other paths of that length alone. *)
Example ex_put_replaces :
  build_index [(2, ([[1]], (0, 5))); (2, ([[2]], (0, 6))); (2, ([[1]], (0, 7)))] = [(2, [([[1]], (0, 7)); ([[2]], (0, 6))])].
Proof. vm_compute. reflexivity. Qed.
