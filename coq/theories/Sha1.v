(** Executable SHA-1 (FIPS 180-4) over byte lists: the instance of the abstract hash [H] used
    when the model is run; validated against the sha1 crate by the correspondence check. *)
From TB Require Import Base.
Local Open Scope N_scope.


Definition w32 (x : N) : N := N.land x 4294967295.
Definition rotl (n x : N) : N := w32 (N.lor (N.shiftl x n) (N.shiftr x (32 - n))).
Definition add32 (a b : N) : N := w32 (a + b).
Definition not32 (x : N) : N := N.lxor x 4294967295.

Fixpoint be_bytes (n : nat) (x : N) : list N :=
  match n with O => [] | S k => be_bytes k (N.shiftr x 8) ++ [N.land x 255] end.

Definition pad (msg : list N) : list N :=
  let l := N.of_nat (length msg) in
  let k := N.to_nat ((119 - (l mod 64)) mod 64) in
  msg ++ [128] ++ repeat 0 k ++ be_bytes 8 (l * 8).

Fixpoint words (fuel : nat) (bs : list N) : list N :=
  match fuel with O => [] | S f =>
  match bs with
  | a :: b :: c :: d :: rest => (N.lor (N.shiftl a 24) (N.lor (N.shiftl b 16) (N.lor (N.shiftl c 8) d))) :: words f rest
  | _ => [] end end.

Fixpoint chunks16 (fuel : nat) (ws : list N) : list (list N) :=
  match fuel with O => [] | S f =>
  match ws with [] => [] | _ => firstn 16 ws :: chunks16 f (skipn 16 ws) end end.

(* extend schedule: keep last 16 words in reversed list *)
Fixpoint extend (n : nat) (rev_w : list N) : list N :=
  match n with O => rev_w | S k =>
    let g i := nth i rev_w 0 in
    extend k (rotl 1 (N.lxor (N.lxor (g 2%nat) (g 7%nat)) (N.lxor (g 13%nat) (g 15%nat))) :: rev_w)
  end.

Definition st := (N * N * N * N * N)%type.

Definition round (t : nat) (s : st) (w : N) : st :=
  let '(a,b,c,d,e) := s in
  let '(f,k) :=
    if Nat.ltb t 20 then (N.lor (N.land b c) (N.land (not32 b) d), 1518500249)
    else if Nat.ltb t 40 then (N.lxor b (N.lxor c d), 1859775393)
    else if Nat.ltb t 60 then (N.lor (N.lor (N.land b c) (N.land b d)) (N.land c d), 2400959708)
    else (N.lxor b (N.lxor c d), 3395469782) in
  let tmp := add32 (add32 (add32 (add32 (rotl 5 a) f) e) k) w in
  (tmp, a, rotl 30 b, c, d).

Fixpoint rounds (t : nat) (ws : list N) (s : st) : st :=
  match ws with [] => s | w :: r => rounds (S t) r (round t s w) end.

Definition compress (h : st) (blk : list N) : st :=
  let w := rev (extend 64 (rev blk)) in
  let '(a,b,c,d,e) := rounds 0 w h in
  let '(h0,h1,h2,h3,h4) := h in
  (add32 h0 a, add32 h1 b, add32 h2 c, add32 h3 d, add32 h4 e).

Definition sha1 (msg : list N) : list N :=
  let p := pad msg in
  let ws := words (length p) p in
  let blks := chunks16 (length ws) ws in
  let '(h0,h1,h2,h3,h4) := fold_left compress blks (1732584193, 4023233417, 2562383102, 271733878, 3285377520) in
  be_bytes 4 h0 ++ be_bytes 4 h1 ++ be_bytes 4 h2 ++ be_bytes 4 h3 ++ be_bytes 4 h4.

