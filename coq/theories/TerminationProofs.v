(** The scanning phase terminates: the transition system of SystemModel.v has no infinite path -
    whatever the interleaving, the read answers, the failures, the cut writes.  Every step
    replaces one program of the pool by one of its continuations (or, for a cut write, by
    [Ret Fault]); programs are well-founded trees, and a pool of well-founded trees in which one
    component decreases at each step is well-founded.  With ExecProofs (the executor hands out
    every piece once and retires) this is the "terminates" of C05 for the part of a run that
    evaluates pieces; the loops of the real solver are the structural recursions of SolverModel,
    tied to the code by trace validation. *)
From TB Require Import Base TorrentModel PathModel FsModel SolverModel RunModel SystemModel SystemProofs SolverProofs SearchProofs FinderModel EstablishProofs CompleteProofs RerunProofs AvailProofs.
From Coq Require Import Wellfounded.
Local Open Scope N_scope.

Inductive psub : prog -> prog -> Prop :=
| sub_probe p w k r : psub (k r) (Probe p w k)
| sub_read p off len k r : psub (k r) (Read p off len k)
| sub_mut o k b : psub (k b) (Mut o k)
| sub_cut o k : psub (Ret Fault) (Mut o k)
| sub_lock id k : psub k (Lock id k)
| sub_unlock id k : psub k (Unlock id k).

Lemma psub_ret_acc o : Acc psub (Ret o).
Proof. constructor. intros y Hy. inversion Hy. Qed.

Lemma psub_wf : well_founded psub.
Proof.
  intros p. induction p as [o|p w k IH|p off len k IH|o k IH|id k IH|id k IH]; constructor; intros y Hy; inversion Hy; subst; auto.
  apply psub_ret_acc.
Qed.

(** One component of the pool decreases. *)
Definition pool_lt (pool' pool : list prog) : Prop :=
  exists i p p', nth_error pool i = Some p /\ psub p' p /\ pool' = set_nth pool i p'.

Lemma pool_lt_cons_acc : forall x, Acc psub x -> forall r, Acc pool_lt r -> Acc pool_lt (x :: r).
Proof.
  intros x Hx. induction Hx as [x _ IHx]. intros r Hr. induction Hr as [r Hr IHr].
  constructor. intros pool' (i & p & p' & Hn & Hs & ->). destruct i as [|i]; cbn [nth_error set_nth] in *.
  - inversion Hn; subst p. apply IHx; [exact Hs|]. constructor. exact Hr.
  - apply IHr. exists i, p, p'. auto.
Qed.

Lemma pool_lt_wf : well_founded pool_lt.
Proof.
  intros pool. induction pool as [|x r IH].
  - constructor. intros pool' (i & p & p' & Hn & _). destruct i; discriminate.
  - apply pool_lt_cons_acc; [apply psub_wf|exact IH].
Qed.

Lemma sstep_pool_lt s s' : sstep s s' -> pool_lt (s_pool s') (s_pool s).
Proof.
  intros Hst. destruct Hst; cbn [s_pool]; eexists _, _, _; (split; [eassumption|split; [|reflexivity]]); constructor.
Qed.

(** No infinite run: the converse of the step relation is well-founded. *)
Theorem scanning_terminates : well_founded (fun s' s => sstep s s').
Proof.
  apply (wf_incl _ _ (fun s' s => pool_lt (s_pool s') (s_pool s))).
  - intros s' s Hst. exact (sstep_pool_lt s s' Hst).
  - apply (wf_inverse_image _ _ pool_lt s_pool). exact pool_lt_wf.
Qed.

(** Hence every run can be extended to one in which nothing can move any more, and there every
    program has returned (a program that has not returned can always take a step: a failing
    operation, an arbitrary read answer). *)
Definition finished (s : sys) : Prop := forall pg, In pg (s_pool s) -> exists o, pg = Ret o.

Lemma stuck_is_finished s : (forall s', ~ sstep s s') -> finished s.
Proof.
  intros Hstuck pg Hin. destruct (In_nth_error _ _ Hin) as [i Hi]. destruct s as [f pool]. cbn [s_pool] in *.
  destruct pg as [o|p w k|p off len k|o k|id k|id k].
  - eauto.
  - exfalso. exact (Hstuck _ (ss_probe f pool i p w k PNotFound Hi)).
  - exfalso. exact (Hstuck _ (ss_read f pool i p off len k None Hi)).
  - exfalso. exact (Hstuck _ (ss_mut_fail f pool i o k Hi)).
  - exfalso. exact (Hstuck _ (ss_lock f pool i id k Hi)).
  - exfalso. exact (Hstuck _ (ss_unlock f pool i id k Hi)).
Qed.

(** The fault-free system: every run of good programs can be completed, and then every program has
    returned.  (Good programs - the evaluations of pieces - contain no [Probe]; the fault-free
    system answers every other action.) *)
Lemma is_ret_dec (pg : prog) : {exists o, pg = Ret o} + {~ exists o, pg = Ret o}.
Proof. destruct pg; [left; eauto|right; intros [x Hx]; discriminate ..]. Qed.

Section Completes.
Variable content : entry -> list N.
Variable es : list entry.
Hypothesis Hfun : table_functional content es.

Lemma unfinished_fsteps s : Forall (pgood content es) (s_pool s) -> ~ finished s -> exists s', fstep s s'.
Proof.
  intros Hg Hnf. destruct s as [f pool]. unfold finished in Hnf. cbn [s_pool] in *.
  destruct (Forall_Exists_dec (fun pg => exists o, pg = Ret o) is_ret_dec pool) as [Hall|Hex].
  - exfalso. apply Hnf. rewrite Forall_forall in Hall. exact Hall.
  - apply Exists_exists in Hex. destruct Hex as (pg & Hin & Hnr). destruct (In_nth_error _ _ Hin) as [i Hi].
    rewrite Forall_forall in Hg. destruct (Hg pg Hin) as (pc & _ & _ & Hgood).
    destruct pg as [x|p w k|p off len k|x k|id k|id k].
    + exfalso. apply Hnr. eauto.
    + inversion Hgood.
    + eexists. exact (fs_read_ f pool i p off len k Hi).
    + destruct (apply_op f x) as [f1 ok] eqn:Ea. eexists. exact (fs_mut f pool i x k f1 ok Hi Ea).
    + eexists. exact (fs_lock f pool i id k Hi).
    + eexists. exact (fs_unlock f pool i id k Hi).
Qed.

Lemma completes_from f0 s : Acc (fun s' s => sstep s s') s -> SI content es f0 (s_fs s) -> Forall (pgood content es) (s_pool s) ->
  exists s', freach s s' /\ finished s'.
Proof.
  induction 1 as [s _ IH]. intros HS Hg.
  destruct (Forall_Exists_dec (fun pg => exists o, pg = Ret o) is_ret_dec (s_pool s)) as [Hall|Hex].
  - exists s. split; [apply fr_refl|]. unfold finished. rewrite Forall_forall in Hall. exact Hall.
  - destruct (unfinished_fsteps s Hg) as [s1 Hst].
    { intros Hf. apply Exists_exists in Hex. destruct Hex as (pg & Hin & Hnr). exact (Hnr (Hf pg Hin)). }
    destruct (sys_step_invariant content es f0 Hfun s s1 (fstep_is_sstep _ _ Hst) HS Hg) as [HS1 Hg1].
    destruct (IH s1 (fstep_is_sstep _ _ Hst) HS1 Hg1) as (s2 & Hr & Hfin). exists s2. split; [exact (fr_step s s1 s2 Hst Hr)|exact Hfin].
Qed.

Theorem fault_free_run_completes s : alias_free content es (s_fs s) -> Forall (pgood content es) (s_pool s) ->
  exists s', freach s s' /\ finished s'.
Proof. intros Ha Hg. apply (completes_from (s_fs s)); auto. { apply scanning_terminates. } now apply SI_init. Qed.

End Completes.

Lemma set_nth_len {A} (l : list A) : forall i x, length (set_nth l i x) = length l.
Proof. induction l as [|y r IH]; intros [|i] x; cbn; auto. Qed.

Lemma fstep_len s s' : fstep s s' -> length (s_pool s') = length (s_pool s).
Proof. intros Hst. destruct Hst; cbn [s_pool]; apply set_nth_len. Qed.

Lemma freach_len s s' : freach s s' -> length (s_pool s') = length (s_pool s).
Proof. induction 1 as [s|s s1 s2 Hst _ IH]; [reflexivity|]. rewrite IH. exact (fstep_len _ _ Hst). Qed.

(** TOTAL CORRECTNESS of the evaluation of one piece in the fault-free system: from a start state
    in which the piece's data is present (AvailProofs) - complete runs exist, and EVERY complete run,
    under every interleaving with the other pieces' evaluations, ends with this piece's evaluation
    returned [Success] and its segments in place. *)
Theorem present_piece_is_recovered_in_every_complete_run H content es0 ix es dev under pc s i :
  table_functional content es -> wf_piece content pc -> Forall (fun sg => In (ps_entry sg) es) (w_segs pc) ->
  cr H content pc -> H (piece_bytes content pc) = w_hash pc -> Forall (pad_zero content) (w_segs pc) ->
  w_segs pc <> [] -> (forall sg, w_segs pc = [sg] -> ps_len sg <> 0) ->
  populate ix es0 = Ok es -> ix_of_fs (s_fs s) dev under es0 ix ->
  Forall (seg_present_stable content (s_fs s) under es0 es) (w_segs pc) ->
  alias_free content es (s_fs s) -> Forall (pgood content es) (s_pool s) ->
  nth_error (s_pool s) i = Some (solve_prog H pc) ->
  (exists s', freach s s' /\ finished s') /\
  (forall s', freach s s' -> finished s' ->
     nth_error (s_pool s') i = Some (Ret Success) /\
     forall sg, In sg (w_segs pc) -> e_pad (ps_entry sg) = false -> holds_seg content (s_fs s') sg).
Proof.
  intros Hfun Hwf Hall Hcr Hhash Hpadz Hne Hone Hpop Hix Hps Ha Hp Hn. split.
  - exact (fault_free_run_completes content es Hfun s Ha Hp).
  - intros s' Hr Hfin.
    assert (Hlt : (i < length (s_pool s'))%nat).
    { rewrite (freach_len _ _ Hr). apply nth_error_Some. congruence. }
    destruct (nth_error (s_pool s') i) as [pg|] eqn:En; [|apply nth_error_None in En; lia].
    destruct (Hfin pg (nth_error_In _ _ En)) as [o ->].
    destruct (present_means_recovered H content es0 ix es dev under pc s s' i o Hfun Hwf Hall Hcr Hhash Hpadz Hne Hone Hpop Hix Hps Ha Hp Hn Hr En) as [-> Hplace].
    split; [reflexivity|exact Hplace].
Qed.
