(** Trace level: every event sequence the validator accepts for a good program consists of good
    operations (C01, C03, C11, C13); path construction (C03, C12). *)
From TB Require Import Base Decimal BencodeModel TorrentModel TorrentProofs PathModel FsModel SolverModel FinderModel RunModel
                       SolverProofs Generated GeneratedObligations.
From Coq Require Import ZifyN ZifyNat ZifyBool.
Local Open Scope N_scope.

Lemma path_eqb_eq a : forall b, path_eqb a b = true <-> a = b.
Proof.
  induction a as [|x a IH]; intros [|y b]; cbn [path_eqb]; split; intros Hh; try discriminate; try reflexivity.
  - apply andb_true_iff in Hh. destruct Hh as [H1 H2]. apply beq_eq in H1. apply IH in H2. congruence.
  - inversion Hh; subst. apply andb_true_iff. split; [now apply beq_eq|now apply IH].
Qed.

Lemma op_eqb_eq a b : op_eqb a b = true -> a = b.
Proof.
  destruct a, b; cbn [op_eqb]; try discriminate; intros Hh.
  - apply path_eqb_eq in Hh. now subst.
  - apply andb_true_iff in Hh. destruct Hh as [Hh H3]. apply andb_true_iff in Hh. destruct Hh as [H1 H2].
    apply path_eqb_eq in H1. apply Bool.eqb_prop in H2. apply Bool.eqb_prop in H3. now subst.
  - apply andb_true_iff in Hh. destruct Hh as [H1 H2]. apply path_eqb_eq in H1. apply N.eqb_eq in H2. now subst.
  - apply andb_true_iff in Hh. destruct Hh as [Hh H3]. apply andb_true_iff in Hh. destruct Hh as [H1 H2].
    apply path_eqb_eq in H1. apply N.eqb_eq in H2. apply beq_eq in H3. now subst.
Qed.

Section Traces.
Variable H : list N -> list N.
Variable content : entry -> list N.

(** What an observed event may be for piece [pc]: a successful mutating operation is a good
    operation (or, as the last event of a cut-off run, a prefix of a good write); failed
    operations and reads change nothing. *)
Definition ev_ok (pc : wpiece) (e : event) : Prop :=
  match e with
  | EMut o true => good_op content pc o \/ good_cut content pc o
  | EMut _ false => True
  | ERead _ _ _ _ => True
  | EProbe _ _ _ => False
  | EMkPartial p made => path_prefix made p = true /\ good_op content pc (MkdirAll p)
  end.

Lemma op_prefix_good pc o' o : op_prefix o' o = true -> good_op content pc o -> good_cut content pc o'.
Proof.
  destruct o', o; cbn [op_prefix]; try discriminate. intros Hp Hg.
  apply andb_true_iff in Hp. destruct Hp as [Hp Hd]. apply andb_true_iff in Hp. destruct Hp as [Hp Ho].
  apply path_eqb_eq in Hp. apply N.eqb_eq in Ho. apply beq_eq in Hd. subst.
  destruct Hg as (s & Hin & Hpad & Ht & Hoff & Hdata). exists s. repeat split; auto.
  exists (length data). now rewrite <- Hdata.
Qed.

(** Every accepted trace of a good program is made of good events, and a completed one does not
    end in a panic. *)
Theorem walk_good pc : forall pg, good content pc pg -> forall evs n,
  match walk pg evs n with
  | WDone o => Forall (ev_ok pc) evs /\ o <> PanicO
  | WCut => Forall (ev_ok pc) evs
  | _ => True
  end.
Proof.
  induction 1 as [o Ho|p off len k Hk IH|o k Hop Hk IH|i k Hk IH|i k Hk IH]; intros evs n; cbn [walk].
  - destruct evs; [split; [constructor|exact Ho]|exact I].
  - destruct evs as [|[| p' off' len' r | |] rest]; try exact I; [constructor|].
    destruct (read_matches p off len p' off' r); [|exact I].
    specialize (IH r rest (S n)). destruct (walk (k r) rest (S n)); try exact I.
    + destruct IH as [IH1 IH2]. split; [constructor; [exact I|exact IH1]|exact IH2].
    + constructor; [exact I|exact IH].
  - destruct evs as [|[| | o' ok|p' made] rest]; try exact I; [constructor| |].
    2: { destruct o as [p0| | |]; try exact I. destruct (path_eqb p0 p' && path_prefix made p0) eqn:Ep; [|exact I].
         apply andb_true_iff in Ep. destruct Ep as [E1 E2]. apply path_eqb_eq in E1. subst p'.
         specialize (IH false rest (S n)). destruct (walk (k false) rest (S n)); try exact I.
         - destruct IH as [IH1 IH2]. split; [constructor; [split; assumption|assumption]|assumption].
         - constructor; [split; assumption|assumption]. }
    assert (Hgen : match (if (if ok then op_eqb o o' else op_same_target o o') then walk (k ok) rest (S n) else WMismatch n) with
                   | WDone o0 => Forall (ev_ok pc) (EMut o' ok :: rest) /\ o0 <> PanicO
                   | WCut => Forall (ev_ok pc) (EMut o' ok :: rest)
                   | _ => True end).
    { destruct ok.
      - destruct (op_eqb o o') eqn:E; [|exact I]. apply op_eqb_eq in E. subst o'.
        specialize (IH true rest (S n)). destruct (walk (k true) rest (S n)); try exact I.
        + destruct IH as [IH1 IH2]. split; [constructor; [left; exact Hop|exact IH1]|exact IH2].
        + constructor; [left; exact Hop|exact IH].
      - destruct (op_same_target o o'); [|exact I].
        specialize (IH false rest (S n)). destruct (walk (k false) rest (S n)); try exact I.
        + destruct IH as [IH1 IH2]. split; [constructor; [exact I|exact IH1]|exact IH2].
        + constructor; [exact I|exact IH]. }
    destruct ok; [|exact Hgen]. destruct rest as [|e rest']; [|exact Hgen].
    destruct (op_eqb o o') eqn:E.
    + exact Hgen.
    + destruct (op_prefix o' o) eqn:P; [|exact I].
      constructor; [|constructor]. right. eapply op_prefix_good; eauto.
  - apply IH.
  - apply IH.
Qed.
End Traces.

(** ** Where the export files live (C03, C12) *)

Definition plain (c : list N) : Prop := is_plain c = true.

Fixpoint starts_with (pre p : path) : bool :=
  match pre, p with [], _ => true | x :: a, y :: b => beq x y && starts_with a b | _, _ => false end.

Lemma starts_with_app pre rest : starts_with pre (pre ++ rest) = true.
Proof.
  induction pre as [|x a IH]; [reflexivity|]. cbn [starts_with app].
  apply andb_true_iff. split; [now apply beq_eq|exact IH].
Qed.

(** The export path of a file of a torrent is [export/<40 hex digits>/Data/<name>[/<path...>]]:
    lexically inside the per-torrent subtree, below its Data directory. *)
Theorem target_single_shape export ih name :
  target_single export ih name = export ++ [hexdigest ih; [68;97;116;97]; name] /\
  starts_with (export ++ [hexdigest ih; [68;97;116;97]]) (target_single export ih name) = true.
Proof.
  unfold target_single. destruct data_dir_ok as [_ ->]. split; [reflexivity|].
  change (export ++ [hexdigest ih; [68; 97; 116; 97]; name]) with (export ++ ([hexdigest ih; [68;97;116;97]] ++ [name])).
  rewrite app_assoc. apply starts_with_app.
Qed.

Theorem target_multi_shape export ih name fpath :
  target_multi export ih name fpath = export ++ [hexdigest ih; [68;97;116;97]; name] ++ fpath /\
  starts_with (export ++ [hexdigest ih; [68;97;116;97]; name]) (target_multi export ih name fpath) = true.
Proof.
  unfold target_multi. destruct data_dir_ok as [-> _]. split; [reflexivity|].
  rewrite app_assoc. apply starts_with_app.
Qed.
