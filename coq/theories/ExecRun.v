(** An executable replay of observed executor events (the lock / try_lock / unlock operations of
    the sync shim, the piece scope markers and the queue dump of a rebalancing) against the
    transition system of ExecModel.v, on concrete list-based states; and the proof that every
    event it accepts is a sequence of [step]s of that system.  Pieces are numbered. *)
From Coq Require Import List Arith Lia Bool Permutation.
Import ListNotations.
From TB Require Import ExecModel BalanceModel.

Section Run.
Variable n : nat.                       (* number of workers after the clamp *)
Variable nfiles gid : nat -> nat.       (* piece number -> number of files / id of its first file *)

Notation pcT := (pcT nat).
Notation st := (st nat).
Notation B := (balanced nfiles gid).

Record xst := { xa : nat; xsl : option nat; xql : list (option nat); xq : list (list nat);
                xpc : list pcT; xsolved : list nat }.

Fixpoint set_nth {A} (l : list A) (i : nat) (x : A) : list A :=
  match l, i with
  | [], _ => []
  | _ :: r, O => x :: r
  | y :: r, S i' => y :: set_nth r i' x
  end.

Definition ql (x : xst) (i : nat) : option nat := nth i (xql x) None.
Definition qq (x : xst) (i : nat) : list nat := nth i (xq x) [].
Definition pcof (x : xst) (t : nat) : pcT := nth t (xpc x) PDone.

Definition with_pc (x : xst) (t : nat) (p : pcT) : xst :=
  {| xa := xa x; xsl := xsl x; xql := xql x; xq := xq x; xpc := set_nth (xpc x) t p; xsolved := xsolved x |}.

(** What was observed of worker [t]. *)
Inductive obs :=
| OTry (ok : bool)                      (* try_lock on its own queue lock *)
| OUnlockQ (i : nat)                    (* unlock of queue lock i *)
| OLockQ (i : nat)                      (* (blocking) lock of queue lock i, acquired *)
| OLockState | OUnlockState             (* the execution-state lock *)
| OBegin (w : nat) | OEnd (w : nat)     (* piece scope of solver.solve(work) *)
| OQueues (order : list nat) (q' : list (list nat)).   (* queue dump after balance(); [order] is a witness for the hash-map order *)

(** The queues as a function, for the balance model. *)
Definition qfun (l : list (list nat)) : nat -> list nat := fun i => nth i l [].

Fixpoint list_eqb (a b : list nat) : bool :=
  match a, b with [] , [] => true | x :: a', y :: b' => Nat.eqb x y && list_eqb a' b' | _, _ => false end.

Fixpoint nodupb (l : list nat) : bool :=
  match l with [] => true | x :: r => negb (existsb (Nat.eqb x) r) && nodupb r end.

(** Decidable sufficient condition for [balanced a f f'] with the witness [order]. *)
Definition balanced_check (order : list nat) (a : nat) (f f' : list (list nat)) : bool :=
  nodupb order &&
  forallb (fun p => negb (Nat.eqb (nfiles p) 1) || existsb (Nat.eqb (gid p)) order) (flat nat a (qfun f)) &&
  Nat.eqb (length f') (length f) &&
  forallb (fun i => list_eqb (qfun f' i) (balance nat nfiles gid order a (qfun f) i)) (seq 0 (length f)).

Definition is_nil {A} (l : list A) : bool := match l with [] => true | _ => false end.

(** Silent steps of worker [t]: decisions that involve no synchronisation operation. *)
Definition silent (t : nat) (x : xst) : option xst :=
  match pcof x t with
  | PChk => if t <? xa x then Some (with_pc x t PLockOwn) else None
  | PChkLen => if is_nil (qq x t) then Some (with_pc x t (PGather 0)) else Some (with_pc x t PRelOwn)
  | PGather i => if Nat.eqb i t then Some (with_pc x t (PGather (S i)))
                 else if xa x <=? i then Some (with_pc x t PBalance) else None
  | PRelease j hi => if hi <=? j then Some (with_pc x t PRelState) else None
  | _ => None
  end.

Fixpoint settle (fuel : nat) (t : nat) (x : xst) : xst :=
  match fuel with
  | O => x
  | S f => match silent t x with Some x' => settle f t x' | None => x end
  end.

(** One observed event of worker [t] (on a settled state). *)
Definition xobs (t : nat) (o : obs) (x : xst) : option xst :=
  match pcof x t, o with
  | PTry, OTry true =>
      match ql x t with
      | None => Some {| xa := xa x; xsl := xsl x; xql := set_nth (xql x) t (Some t); xq := xq x;
                        xpc := set_nth (xpc x) t PHoldOwn; xsolved := xsolved x |}
      | Some _ => None
      end
  | PTry, OTry false =>
      match ql x t with Some _ => Some (with_pc x t PWantState) | None => None end
  | PHoldOwn, OUnlockQ i =>
      if Nat.eqb i t then
        match rev (qq x t) with
        | w :: rrest => Some {| xa := xa x; xsl := xsl x; xql := set_nth (xql x) t None; xq := set_nth (xq x) t (rev rrest);
                                xpc := set_nth (xpc x) t (PSolve w); xsolved := xsolved x |}
        | [] => Some {| xa := xa x; xsl := xsl x; xql := set_nth (xql x) t None; xq := xq x;
                        xpc := set_nth (xpc x) t PWantState; xsolved := xsolved x |}
        end
      else None
  | PSolve w, OBegin w' => if Nat.eqb w w' then Some x else None
  | PSolve w, OEnd w' =>
      if Nat.eqb w w' then Some {| xa := xa x; xsl := xsl x; xql := xql x; xq := xq x;
                                   xpc := set_nth (xpc x) t PTry; xsolved := w :: xsolved x |}
      else None
  | PWantState, OLockState =>
      match xsl x with
      | None => Some {| xa := xa x; xsl := Some t; xql := xql x; xq := xq x; xpc := set_nth (xpc x) t PChk; xsolved := xsolved x |}
      | Some _ => None
      end
  | PChk, OUnlockState =>
      if xa x <=? t then Some {| xa := xa x; xsl := None; xql := xql x; xq := xq x; xpc := set_nth (xpc x) t PDone; xsolved := xsolved x |}
      else None
  | PLockOwn, OLockQ i =>
      if Nat.eqb i t then
        match ql x t with
        | None => Some {| xa := xa x; xsl := xsl x; xql := set_nth (xql x) t (Some t); xq := xq x;
                          xpc := set_nth (xpc x) t PChkLen; xsolved := xsolved x |}
        | Some _ => None
        end
      else None
  | PRelOwn, OUnlockQ i =>
      if Nat.eqb i t then
        Some {| xa := xa x; xsl := xsl x; xql := set_nth (xql x) t None; xq := xq x; xpc := set_nth (xpc x) t PRelState; xsolved := xsolved x |}
      else None
  | PGather j, OLockQ i =>
      if Nat.eqb i j && negb (Nat.eqb j t) && (j <? xa x) then
        match ql x j with
        | None => Some {| xa := xa x; xsl := xsl x; xql := set_nth (xql x) j (Some t); xq := xq x;
                          xpc := set_nth (xpc x) t (PGather (S j)); xsolved := xsolved x |}
        | Some _ => None
        end
      else None
  | PBalance, OQueues order q' =>
      if balanced_check order (xa x) (xq x) q' then
        Some {| xa := xa x - trailing_empty (qfun q') (xa x); xsl := xsl x; xql := xql x; xq := q';
                xpc := set_nth (xpc x) t (PRelease 0 (xa x)); xsolved := xsolved x |}
      else None
  | PRelease j hi, OUnlockQ i =>
      if Nat.eqb i j && (j <? hi) then
        match ql x j with
        | Some h => if Nat.eqb h t then
                      Some {| xa := xa x; xsl := xsl x; xql := set_nth (xql x) j None; xq := xq x;
                              xpc := set_nth (xpc x) t (PRelease (S j) hi); xsolved := xsolved x |}
                    else None
        | None => None
        end
      else None
  | PRelState, OUnlockState =>
      Some {| xa := xa x; xsl := None; xql := xql x; xq := xq x; xpc := set_nth (xpc x) t PTry; xsolved := xsolved x |}
  | _, _ => None
  end.

Definition xstep (t : nat) (o : obs) (x : xst) : option xst :=
  match xobs t o (settle 6 t x) with Some x' => Some (settle 6 t x') | None => None end.

Definition xinit (q0 : list (list nat)) : xst :=
  {| xa := n; xsl := None; xql := repeat None n; xq := q0; xpc := repeat PTry n; xsolved := [] |}.

Fixpoint xrun (x : xst) (evs : list (nat * obs)) : option xst :=
  match evs with
  | [] => Some x
  | (t, o) :: r => if t <? n then match xstep t o x with Some x' => xrun x' r | None => None end else None
  end.

(** All workers finished. *)
Definition xdone (x : xst) : bool := forallb (fun p => match p with PDone => true | _ => false end) (xpc x) && Nat.eqb (length (xpc x)) n.

End Run.
