(** "Every piece whose data is present on disk is recovered" (C02) at the level of the whole
    system: in the fault-free system, if - in every state the run passes through - each
    non-padding segment of a piece has a candidate that holds the torrent's bytes of the segment,
    every candidate of the piece is readable, and nothing obstructs the export paths (no regular
    file where a directory is needed, no directory where the file goes), then the evaluation of
    the piece cannot end otherwise than in [Success]; with EstablishProofs.success_means_in_place
    the piece is then in place in the export tree.  Whatever the other workers do in between. *)
From TB Require Import Base Decimal BencodeModel TorrentModel TorrentProofs PathModel FsModel SolverModel FinderModel RunModel
                       SolverProofs RunProofs FsProofs SearchProofs SystemModel SystemProofs EstablishProofs Generated GeneratedObligations.
From Coq Require Import ZifyN ZifyNat ZifyBool.
Local Open Scope N_scope.

(** ** When the writer's operations succeed *)
Lemma mkdir_fold_dirs : forall l f q, (forall x, In x l -> is_file f x = false) -> In q l ->
  is_dir (fold_left mkstep l f) q = true.
Proof.
  intros l f q Hnf Hin. destruct (mkdir_fold_lookup l f Hnf q) as [He|(_ & _ & Hd)].
  - (* unchanged: then it was a directory already, or it is set by the fold - show by induction *)
    revert f Hnf He. induction l as [|x r IH]; intros f Hnf He; [contradiction|]. cbn [fold_left] in *.
    assert (Hx : is_file f x = false) by (apply Hnf; now left).
    assert (Hnf' : forall y, In y r -> is_file (mkstep f x) y = false).
    { intros y Hy. unfold mkstep. destruct (is_dir f x); [apply Hnf; now right|].
      unfold is_file. rewrite lookup_set_node. destruct y as [|c y]; [reflexivity|].
      destruct (path_eqb (c :: y) x); [reflexivity|]. apply (Hnf (c :: y)). now right. }
    destruct Hin as [->|Hin].
    + (* q = x: after the first step it is a directory, and stays one *)
      assert (Hd1 : is_dir (mkstep f q) q = true).
      { unfold mkstep. destruct (is_dir f q) eqn:Ed; [exact Ed|]. unfold is_dir. rewrite lookup_set_node.
        destruct q as [|c q]; [reflexivity|]. now rewrite path_eqb_refl. }
      destruct (mkdir_fold_lookup r (mkstep f q) Hnf' q) as [He2|(Hn2 & _ & _)].
      * unfold is_dir in *. now rewrite He2.
      * unfold is_dir in Hd1. now rewrite Hn2 in Hd1.
    + destruct (mkdir_fold_lookup r (mkstep f x) Hnf' q) as [He2|(_ & _ & Hd2)].
      * apply (IH Hin (mkstep f x) Hnf'). exact He2.
      * unfold is_dir. now rewrite Hd2.
  - unfold is_dir. now rewrite Hd.
Qed.

Lemma mkdir_succeeds f p : (forall q, In q (prefixes p) -> is_file f q = false) ->
  exists f', apply_op f (MkdirAll p) = (f', true) /\ (forall q, In q (prefixes p) -> is_dir f' q = true).
Proof.
  intros Hnf. cbn [apply_op].
  assert (He : existsb (is_file f) (prefixes p) = false).
  { destruct (existsb (is_file f) (prefixes p)) eqn:E; [|reflexivity]. apply existsb_exists in E. destruct E as (q & Hq & Hf). rewrite (Hnf q Hq) in Hf. discriminate. }
  rewrite He. eexists. split; [reflexivity|]. intros q Hq. now apply mkdir_fold_dirs.
Qed.

Lemma in_prefixes_self : forall (p : path), p <> [] -> In p (prefixes p).
Proof.
  induction p as [|c r IH]; intros Hne; [congruence|]. cbn [prefixes]. destruct r as [|d r']; [now left|].
  right. apply in_map. apply IH. discriminate.
Qed.

Lemma open_succeeds f p : is_dir f p = false -> (parent p = [] \/ is_dir f (parent p) = true) ->
  exists f' i, apply_op f (OpenW p true false) = (f', true) /\ fs_lookup f' p = Some (NFile i).
Proof.
  intros Hnd Hpar. cbn [apply_op]. unfold is_dir in Hnd. destruct (fs_lookup f p) as [[|i]|] eqn:El; [discriminate| |].
  - exists f, i. auto.
  - assert (Hd : is_dir f (parent p) = true).
    { destruct Hpar as [He|Hd]; [|exact Hd]. rewrite He. reflexivity. }
    rewrite Hd. cbn [andb]. eexists _, (fresh_ino f). split; [reflexivity|].
    rewrite lookup_set_data, lookup_set_node. destruct p as [|c p]; [discriminate|]. now rewrite path_eqb_refl.
Qed.

Section Complete.
Variable H : list N -> list N.
Variable content : entry -> list N.
Variable es : list entry.
Hypothesis Hfun : table_functional content es.
Variable pc : wpiece.
Hypothesis Hwf : wf_piece content pc.
Hypothesis Hall : Forall (fun s => In (ps_entry s) es) (w_segs pc).
Hypothesis Hcr : cr H content pc.
Hypothesis Hhash : H (piece_bytes content pc) = w_hash pc.          (* the hash in the torrent is the hash of the content *)
Hypothesis Hpadz : Forall (pad_zero content) (w_segs pc).            (* padding files are zeros *)
Hypothesis Hne : w_segs pc <> [].
Hypothesis Hone : forall s, w_segs pc = [s] -> ps_len s <> 0.
Variable wit : pseg -> path.                                         (* the witness candidate of each segment *)

(** The piece is available and unobstructed in state [g]. *)
Definition seg_avail (g : fs) (s : pseg) : Prop :=
  e_pad (ps_entry s) = false ->
  (forall q, In q (prefixes (parent (e_target (ps_entry s)))) -> is_file g q = false) /\
  is_dir g (e_target (ps_entry s)) = false /\ e_target (ps_entry s) <> [] /\
  (ps_len s <> 0 -> exists cands, e_searches (ps_entry s) = Some cands /\
     (forall c, In c cands -> fs_read g c (ps_off s) (ps_len s) <> None) /\
     In (wit s) cands /\ fs_read g (wit s) (ps_off s) (ps_len s) = Some (seg_bytes content s)).
Definition avail (g : fs) : Prop := Forall (seg_avail g) (w_segs pc).

(** The program, with an environment that keeps [WI] and availability. *)
Inductive prunA : fs -> prog -> fs -> outcome -> Prop :=
| pa_ret f f1 o : WI content es f f1 -> avail f1 -> prunA f (Ret o) f1 o
| pa_read f f1 p off len k f' o : WI content es f f1 -> avail f1 -> prunA f1 (k (fs_read f1 p off len)) f' o -> prunA f (Read p off len k) f' o
| pa_mut f f1 op k f2 ok f' o : WI content es f f1 -> avail f1 -> apply_op f1 op = (f2, ok) -> prunA f2 (k ok) f' o -> prunA f (Mut op k) f' o
| pa_lock f i k f' o : prunA f k f' o -> prunA f (Lock i k) f' o
| pa_unlock f i k f' o : prunA f k f' o -> prunA f (Unlock i k) f' o.

(** ** The writer never faults *)
Lemma write_prog_succeeds : forall segs srcs pre f f' o,
  (forall s, In s segs -> In s (w_segs pc)) ->
  prunA f (write_prog segs srcs (pre ++ concat (map (seg_bytes content) segs)) (N.of_nat (length pre))) f' o -> o = Success.
Proof.
  pose proof Hwf as Hwf'. unfold wf_piece in Hwf'. rewrite Forall_forall in Hwf'.
  induction segs as [|s segs IH]; intros srcs pre f f' o Hin Hr; cbn [write_prog] in Hr.
  - now inversion Hr.
  - destruct srcs as [|src srcs]; [now inversion Hr|].
    assert (Hs_in : In s (w_segs pc)) by (apply Hin; now left). destruct (Hwf' s Hs_in) as [Hb Hcl].
    assert (Hb' : ps_off s + ps_len s <= N.of_nat (length (content (ps_entry s)))) by lia.
    pose proof (seg_bytes_len content s Hb') as Hsl.
    assert (Hbuf : pre ++ concat (map (seg_bytes content) (s :: segs)) = (pre ++ seg_bytes content s) ++ concat (map (seg_bytes content) segs))
      by (cbn [map concat]; now rewrite app_assoc).
    assert (Hstart : N.of_nat (length pre) + ps_len s = N.of_nat (length (pre ++ seg_bytes content s))) by (rewrite app_length; lia).
    assert (Hrest : forall g, prunA g (write_prog segs srcs ((pre ++ seg_bytes content s) ++ concat (map (seg_bytes content) segs)) (N.of_nat (length (pre ++ seg_bytes content s)))) f' o -> o = Success).
    { intros g Hg. apply (IH srcs (pre ++ seg_bytes content s) g f' o); [intros x Hx; apply Hin; now right|exact Hg]. }
    rewrite Hbuf, Hstart in Hr.
    destruct (e_pad (ps_entry s)) eqn:Hpad; [exact (Hrest f Hr)|].
    destruct (match src with Some sp => path_eqb (e_target (ps_entry s)) sp | None => false end); [exact (Hrest f Hr)|].
    rewrite <- Hstart in Hr at 1.
    replace (N.of_nat (length pre) + ps_len s) with (N.of_nat (length pre) + N.of_nat (length (seg_bytes content s))) in Hr at 1 by lia.
    rewrite <- Hbuf in Hr at 1. cbn [map concat] in Hr. rewrite slice_concat_head in Hr.
    assert (Hav : forall g, avail g -> seg_avail g s) by (intros g Hg; unfold avail in Hg; rewrite Forall_forall in Hg; auto).
    inversion Hr as [| | |g0 i0 k0 g' o0 Hr1|]; subst. clear Hr.
    inversion Hr1 as [| |g0 g1 op0 k0 g2 ok1 g' o0 W1 V1 A1 Hr2| |]; subst. clear Hr1.
    destruct (Hav g1 V1 Hpad) as (Hnf1 & _ & Htne & _).
    destruct (mkdir_succeeds g1 _ Hnf1) as (g2' & Hm & Hdirs). rewrite Hm in A1. inversion A1; subst g2' ok1. cbn [negb] in Hr2.
    inversion Hr2 as [| |g0 g3 op0 k0 g4 ok2 g' o0 W2 V2 A2 Hr3| |]; subst. clear Hr2.
    destruct (Hav g3 V2 Hpad) as (_ & Hnd3 & _ & _).
    assert (Hpar3 : parent (e_target (ps_entry s)) = [] \/ is_dir g3 (parent (e_target (ps_entry s))) = true).
    { destruct (parent (e_target (ps_entry s))) as [|c r] eqn:Ep; [now left|right].
      assert (Hd2 : is_dir g2 (c :: r) = true) by (apply Hdirs; apply in_prefixes_self; discriminate).
      unfold is_dir in *. destruct (fs_lookup g2 (c :: r)) as [[|j]|] eqn:El; try discriminate.
      now rewrite (w_mono _ _ _ _ W2 _ _ El). }
    change (of_create writer_open) with true in A2. change (of_truncate writer_open) with false in A2.
    destruct (open_succeeds g3 _ Hnd3 Hpar3) as (g4' & i4 & Ho & Hl4). rewrite Ho in A2. inversion A2; subst g4' ok2. cbn [negb] in Hr3.
    inversion Hr3 as [| |g0 g5 op0 k0 g6 ok3 g' o0 W3 V3 A3 Hr4| |]; subst. clear Hr3.
    pose proof (w_mono _ _ _ _ W3 _ _ Hl4) as Hl5.
    cbn [apply_op] in A3. rewrite Hl5 in A3. inversion A3; subst g6 ok3. cbn [negb] in Hr4.
    inversion Hr4 as [| |g0 g7 op0 k0 g8 ok4 g' o0 W4 V4 A4 Hr5| |]; subst. clear Hr4.
    assert (Hl6 : fs_lookup (set_data g5 i4 (resize (fs_content g5 i4) (N.to_nat (e_len (ps_entry s))))) (e_target (ps_entry s)) = Some (NFile i4)) by (rewrite lookup_set_data; exact Hl5).
    pose proof (w_mono _ _ _ _ W4 _ _ Hl6) as Hl7.
    cbn [apply_op] in A4. rewrite Hl7 in A4. inversion A4; subst g8 ok4. cbn [negb] in Hr5.
    inversion Hr5 as [| | | |g0 i0 k0 g' o0 Hr6]; subst. clear Hr5.
    exact (Hrest _ Hr6).
    Unshelve. all: exact H.
Qed.

(** ** Reading never faults and finds the data *)
Lemma seg_avail_of g s : avail g -> In s (w_segs pc) -> seg_avail g s.
Proof. intros Hg Hin. unfold avail in Hg. rewrite Forall_forall in Hg. auto. Qed.

Lemma single_succeeds s cands0 : w_segs pc = [s] -> e_pad (ps_entry s) = false -> e_searches (ps_entry s) = Some cands0 ->
  forall cands, (forall c, In c cands -> In c cands0) -> In (wit s) cands ->
  forall f f' o, prunA f (single_prog H pc s cands) f' o -> o = Success.
Proof.
  intros Hs Hpad Hse. assert (Hs_in : In s (w_segs pc)) by (rewrite Hs; now left).
  assert (Hlen : ps_len s <> 0) by now apply Hone.
  induction cands as [|c cs IH]; intros Hsub Hw f f' o Hr; [contradiction|]. cbn [single_prog] in Hr.
  inversion Hr as [|g0 f1 p0 off0 len0 k0 g' o0 W1 V1 Hr1| | |]; subst. clear Hr.
  destruct (seg_avail_of f1 s V1 Hs_in Hpad) as (_ & _ & _ & Hc). destruct (Hc Hlen) as (cands1 & Hse1 & Hread & Hwin & Hwr).
  rewrite Hse in Hse1. inversion Hse1; subst cands1.
  destruct (fs_read f1 c (ps_off s) (ps_len s)) as [bs|] eqn:Er; [|exfalso; apply (Hread c); [apply Hsub; now left|exact Er]].
  destruct (beq (H bs) (w_hash pc)) eqn:Eh.
  - apply beq_eq in Eh. apply Hcr in Eh. subst bs. unfold piece_bytes in Hr1. rewrite Hs in Hr1. cbn [map concat] in Hr1.
    apply (write_prog_succeeds [s] [Some c] [] f1 f' o); [intros x Hx; rewrite Hs; exact Hx|]. cbn [app map concat length]. exact Hr1.
  - assert (Hw' : In (wit s) cs).
    { destruct Hw as [->|Hw]; [|exact Hw]. exfalso.
      rewrite Er in Hwr. inversion Hwr; subst bs.
      assert (Hpb : piece_bytes content pc = seg_bytes content s) by (unfold piece_bytes; rewrite Hs; cbn [map concat]; now rewrite app_nil_r).
      rewrite <- Hpb, Hhash in Eh. assert (beq (w_hash pc) (w_hash pc) = true) by now apply beq_eq. congruence. }
    exact (IH (fun x Hx => Hsub x (or_intror Hx)) Hw' f1 f' o Hr1).
Qed.

Definition has_right (s : pseg) (row : list (option path * list N)) : Prop := exists src, In (src, seg_bytes content s) row.

Lemma preload_seg_complete s cands0 : In s (w_segs pc) -> e_pad (ps_entry s) = false -> ps_len s <> 0 -> e_searches (ps_entry s) = Some cands0 ->
  forall cands acc k f f' o, (forall c, In c cands -> In c cands0) -> (In (wit s) cands \/ has_right s acc) ->
  prunA f (preload_seg cands (ps_off s) (ps_len s) acc k) f' o ->
  (forall g acc', has_right s acc' -> prunA g (k acc') f' o -> o = Success) -> o = Success.
Proof.
  intros Hs_in Hpad Hlen Hse. induction cands as [|c cs IH]; intros acc k f f' o Hsub Hw Hr Hk; cbn [preload_seg] in Hr.
  - destruct Hw as [[]|Hw]. exact (Hk f acc Hw Hr).
  - inversion Hr as [|g0 f1 p0 off0 len0 k0 g' o0 W1 V1 Hr1| | |]; subst. clear Hr.
    destruct (seg_avail_of f1 s V1 Hs_in Hpad) as (_ & _ & _ & Hc). destruct (Hc Hlen) as (cands1 & Hse1 & Hread & Hwin & Hwr).
    rewrite Hse in Hse1. inversion Hse1; subst cands1.
    destruct (fs_read f1 c (ps_off s) (ps_len s)) as [v|] eqn:Er; [|exfalso; apply (Hread c); [apply Hsub; now left|exact Er]].
    assert (Hsub' : forall x, In x cs -> In x cands0) by (intros x Hx; apply Hsub; now right).
    destruct (existsb (fun e => beq (snd e) v) acc) eqn:Ee.
    + apply (IH acc k f1 f' o Hsub'); [|exact Hr1|exact Hk].
      destruct Hw as [[->|Hw]|Hw]; [|now left|now right]. right.
      rewrite Er in Hwr. inversion Hwr; subst v. apply existsb_exists in Ee. destruct Ee as ([src w] & Hin & Hb). cbn [snd] in Hb. apply beq_eq in Hb. subst w. now exists src.
    + apply (IH (acc ++ [(Some c, v)]) k f1 f' o Hsub'); [|exact Hr1|exact Hk].
      destruct Hw as [[->|Hw]|[src Hw]]; [|now left|right; exists src; apply in_or_app; now left]. right.
      rewrite Er in Hwr. inversion Hwr; subst v. exists (Some (wit s)). apply in_or_app. right. now left.
Qed.

Lemma preload_complete : forall segs k f f' o, (forall x, In x segs -> In x (w_segs pc)) ->
  prunA f (preload segs k) f' o ->
  (forall g c, Forall2 has_right segs c -> prunA g (k c) f' o -> o = Success) -> o = Success.
Proof.
  pose proof Hpadz as Hpz. rewrite Forall_forall in Hpz.
  induction segs as [|s r IH]; intros k f f' o Hin Hr Hk; cbn [preload] in Hr.
  - apply (Hk f []); [constructor|exact Hr].
  - assert (Hs_in : In s (w_segs pc)) by (apply Hin; now left).
    assert (Hin' : forall x, In x r -> In x (w_segs pc)) by (intros x Hx; apply Hin; now right).
    destruct (e_pad (ps_entry s)) eqn:Hpad.
    { apply (IH _ f f' o Hin' Hr). intros g c Hc Hg. apply (Hk g ([(None, repeat 0 (N.to_nat (ps_len s)))] :: c)); [|exact Hg]. constructor; [|exact Hc].
      exists None. left. f_equal. symmetry. now apply (Hpz s Hs_in). }
    destruct (N.eqb_spec (ps_len s) 0) as [Hz|Hz].
    { apply (IH _ f f' o Hin' Hr). intros g c Hc Hg. eapply (Hk g); [|exact Hg]. constructor; [|exact Hc].
      eexists. left. f_equal. unfold seg_bytes. rewrite Hz. reflexivity. }
    (* the candidate list is there: take any state of the run *)
    destruct (e_searches (ps_entry s)) as [cands|] eqn:Hse.
    + assert (Hwin0 : In (wit s) cands).
      { (* the witness is among the candidates: read it off a state of the run *)
        assert (G : exists g, avail g) by (clear -Hr; induction Hr; eauto).
        destruct G as [g Hg]. destruct (seg_avail_of g s Hg Hs_in Hpad) as (_ & _ & _ & Hc). destruct (Hc Hz) as (cands1 & Hse1 & _ & Hwin & _).
        rewrite Hse in Hse1. inversion Hse1; subst. exact Hwin. }
      eapply (preload_seg_complete s cands Hs_in Hpad Hz Hse cands [] _ f f' o (fun c Hc => Hc) (or_introl Hwin0) Hr).
      intros g row Hrow Hg. apply (IH _ g f' o Hin' Hg). intros g2 c Hc Hg2. apply (Hk g2 (row :: c)); [constructor; assumption|exact Hg2].
    + inversion Hr; subst. (* Ret PanicO: excluded because some state of the run is available *)
      match goal with Hv : avail _ |- _ => destruct (seg_avail_of _ s Hv Hs_in Hpad) as (_ & _ & _ & Hc) end.
      destruct (Hc Hz) as (cands1 & Hse1 & _). congruence.
Qed.

(** ** Every piece *)
Lemma right_combo : forall segs c, Forall2 has_right segs c ->
  exists combo, picks combo c /\ map snd combo = map (seg_bytes content) segs.
Proof.
  induction 1 as [|s row segs c [src Hin] _ (combo & Hp & Hm)]; [exists []; split; constructor|].
  exists ((src, seg_bytes content s) :: combo). split; [constructor; assumption|]. cbn [map snd]. now rewrite Hm.
Qed.

Lemma multi_succeeds f f' o : prunA f (multi_prog H pc) f' o -> o = Success.
Proof.
  intros Hr. unfold multi_prog in Hr. apply (preload_complete (w_segs pc) _ f f' o (fun x Hx => Hx) Hr).
  intros g c Hc Hg. destruct c as [|row0 crest] eqn:Ec.
  { inversion Hc as [E|]. congruence. }
  rewrite <- Ec in *. clear Ec row0 crest.
  destruct (right_combo _ _ Hc) as (combo & Hp & Hm).
  destruct (find_combo H (w_hash pc) c []) as [r|] eqn:Ef.
  - pose proof (find_combo_hash H (w_hash pc) c [] r Ef) as Hh. apply Hcr in Hh.
    apply (write_prog_succeeds (w_segs pc) (map fst r) [] g f' o (fun x Hx => Hx)). cbn [app length].
    fold (piece_bytes content pc). rewrite <- Hh. exact Hg.
  - exfalso. apply (find_combo_complete H (w_hash pc) c [] combo Hp); [|exact Ef].
    cbn [app]. rewrite Hm. fold (piece_bytes content pc). rewrite Hhash. now apply beq_eq.
Qed.

Theorem solve_succeeds f f' o : prunA f (solve_prog H pc) f' o -> o = Success.
Proof.
  intros Hr. unfold solve_prog in Hr.
  assert (G : exists g, avail g) by (clear -Hr; induction Hr; eauto). destruct G as [g0 Hg0].
  destruct (rejected pc) eqn:Erj.
  { exfalso. unfold rejected in Erj. apply existsb_exists in Erj. destruct Erj as (s & Hin & Hb).
    apply andb_true_iff in Hb. destruct Hb as [Hb Hnone]. apply andb_true_iff in Hb. destruct Hb as [Hp Hl].
    apply negb_true_iff in Hp. apply negb_true_iff in Hl. apply N.eqb_neq in Hl.
    destruct (seg_avail_of g0 s Hg0 Hin Hp) as (_ & _ & _ & Hc). destruct (Hc Hl) as (cands & Hse & _). rewrite Hse in Hnone. discriminate. }
  assert (Hcase : w_segs pc = [] \/ (exists s, w_segs pc = [s]) \/ (exists s s2 r, w_segs pc = s :: s2 :: r)).
  { destruct (w_segs pc) as [|s [|s2 r]]; [now left|right; left; eauto|right; right; eauto]. }
  destruct Hcase as [Es|[(s & Es)|(s & s2 & r & Es)]].
  - congruence.
  - rewrite Es in Hr. destruct (e_pad (ps_entry s)) eqn:Hp; [exact (multi_succeeds f f' o Hr)|].
    assert (Hlen : ps_len s <> 0) by (apply Hone; exact Es).
    assert (Hs_in : In s (w_segs pc)) by (rewrite Es; now left).
    destruct (seg_avail_of g0 s Hg0 Hs_in Hp) as (_ & _ & _ & Hc). destruct (Hc Hlen) as (cands & Hse & _ & Hwin & _).
    rewrite Hse in Hr. exact (single_succeeds s cands Es Hp Hse cands (fun c Hc0 => Hc0) Hwin f f' o Hr).
  - rewrite Es in Hr. exact (multi_succeeds f f' o Hr).
Qed.

(** ** Inside the system *)
Lemma prunA_env f f1 pg f' o : WI content es f f1 -> prunA f1 pg f' o -> prunA f pg f' o.
Proof.
  intros Hw Hr. revert f Hw. induction Hr; intros g Hw.
  - constructor; [eapply WI_trans; eauto|assumption].
  - econstructor; [eapply WI_trans; eauto|assumption|eassumption].
  - econstructor; [eapply WI_trans; eauto|assumption|eassumption|eassumption].
  - constructor. auto.
  - constructor. auto.
Qed.

(** A fault-free run of the system all of whose states keep the piece available. *)
Inductive freachA : sys -> sys -> Prop :=
| fa_refl s : avail (s_fs s) -> freachA s s
| fa_step s s1 s2 : avail (s_fs s) -> fstep s s1 -> freachA s1 s2 -> freachA s s2.

Lemma freachA_prunA i : forall s s', freachA s s' -> alias_free content es (s_fs s) -> Forall (pgood content es) (s_pool s) ->
  forall pg o, nth_error (s_pool s) i = Some pg -> nth_error (s_pool s') i = Some (Ret o) -> prunA (s_fs s) pg (s_fs s') o.
Proof.
  induction 1 as [s Hv|s s1 s2 Hv Hst Hr IH]; intros Ha Hp pg o Hn Hn'.
  - rewrite Hn in Hn'. inversion Hn'; subst. constructor; [apply WI_refl|exact Hv].
  - destruct (fstep_WI content es Hfun s s1 Hst Ha Hp) as (W & A1 & P1).
    destruct Hst as [f pool j p off len k Hj|f pool j op k f1 ok Hj Happ|f pool j id k Hj|f pool j id k Hj]; cbn [s_fs s_pool] in *.
    + destruct (Nat.eq_dec i j) as [->|Hij].
      * rewrite Hj in Hn. inversion Hn; subst. econstructor; [apply WI_refl|exact Hv|]. apply (IH A1 P1); [|exact Hn']. now apply (nth_set_nth_eq pool j _ (Read p off len k)).
      * apply (prunA_env _ f); [exact W|]. apply (IH A1 P1); [|exact Hn']. now rewrite nth_set_nth_neq.
    + destruct (Nat.eq_dec i j) as [->|Hij].
      * rewrite Hj in Hn. inversion Hn; subst. econstructor; [apply WI_refl|exact Hv|exact Happ|]. apply (IH A1 P1); [|exact Hn']. now apply (nth_set_nth_eq pool j _ (Mut op k)).
      * apply (prunA_env _ f1); [exact W|]. apply (IH A1 P1); [|exact Hn']. now rewrite nth_set_nth_neq.
    + destruct (Nat.eq_dec i j) as [->|Hij].
      * rewrite Hj in Hn. inversion Hn; subst. constructor. apply (IH A1 P1); [|exact Hn']. now apply (nth_set_nth_eq pool j _ (Lock id k)).
      * apply (IH A1 P1); [|exact Hn']. now rewrite nth_set_nth_neq.
    + destruct (Nat.eq_dec i j) as [->|Hij].
      * rewrite Hj in Hn. inversion Hn; subst. constructor. apply (IH A1 P1); [|exact Hn']. now apply (nth_set_nth_eq pool j _ (Unlock id k)).
      * apply (IH A1 P1); [|exact Hn']. now rewrite nth_set_nth_neq.
Qed.

Lemma freachA_freach s s' : freachA s s' -> freach s s'.
Proof. induction 1; [constructor|econstructor; eauto]. Qed.

(** The same with the OTHER programs free to fault (C13: a failure elsewhere does not cost this piece). *)
Inductive mreachA (i : nat) : sys -> sys -> Prop :=
| ma_refl s : avail (s_fs s) -> mreachA i s s
| ma_own s s1 s2 : avail (s_fs s) -> fstep s s1 -> mreachA i s1 s2 -> mreachA i s s2
| ma_other s s1 s2 : avail (s_fs s) -> ostep i s s1 -> mreachA i s1 s2 -> mreachA i s s2.

Lemma mreachA_prunA i : forall s s', mreachA i s s' -> alias_free content es (s_fs s) -> Forall (pgood content es) (s_pool s) ->
  forall pg o, nth_error (s_pool s) i = Some pg -> nth_error (s_pool s') i = Some (Ret o) -> prunA (s_fs s) pg (s_fs s') o.
Proof.
  induction 1 as [s Hv|s s1 s2 Hv Hst Hr IH|s s1 s2 Hv [Hss Hsame] Hr IH]; intros Ha Hp pg o Hn Hn'.
  - rewrite Hn in Hn'. inversion Hn'; subst. constructor; [apply WI_refl|exact Hv].
  - destruct (fstep_WI content es Hfun s s1 Hst Ha Hp) as (W & A1 & P1).
    destruct Hst as [f pool j p off len k Hj|f pool j op k f1 ok Hj Happ|f pool j id k Hj|f pool j id k Hj]; cbn [s_fs s_pool] in *.
    + destruct (Nat.eq_dec i j) as [->|Hij].
      * rewrite Hj in Hn. inversion Hn; subst. econstructor; [apply WI_refl|exact Hv|]. apply (IH A1 P1); [|exact Hn']. now apply (nth_set_nth_eq pool j _ (Read p off len k)).
      * apply (prunA_env _ f); [exact W|]. apply (IH A1 P1); [|exact Hn']. now rewrite nth_set_nth_neq.
    + destruct (Nat.eq_dec i j) as [->|Hij].
      * rewrite Hj in Hn. inversion Hn; subst. econstructor; [apply WI_refl|exact Hv|exact Happ|]. apply (IH A1 P1); [|exact Hn']. now apply (nth_set_nth_eq pool j _ (Mut op k)).
      * apply (prunA_env _ f1); [exact W|]. apply (IH A1 P1); [|exact Hn']. now rewrite nth_set_nth_neq.
    + destruct (Nat.eq_dec i j) as [->|Hij].
      * rewrite Hj in Hn. inversion Hn; subst. constructor. apply (IH A1 P1); [|exact Hn']. now apply (nth_set_nth_eq pool j _ (Lock id k)).
      * apply (IH A1 P1); [|exact Hn']. now rewrite nth_set_nth_neq.
    + destruct (Nat.eq_dec i j) as [->|Hij].
      * rewrite Hj in Hn. inversion Hn; subst. constructor. apply (IH A1 P1); [|exact Hn']. now apply (nth_set_nth_eq pool j _ (Unlock id k)).
      * apply (IH A1 P1); [|exact Hn']. now rewrite nth_set_nth_neq.
  - destruct (sstep_WI content es Hfun s s1 Hss Ha Hp) as (W & A1 & P1).
    apply (prunA_env _ (s_fs s1)); [exact W|]. apply (IH A1 P1); [|exact Hn']. now rewrite Hsame.
Qed.

Lemma mreachA_mreach i s s' : mreachA i s s' -> mreach i s s'.
Proof. induction 1; [constructor|eapply mr_own; eauto|eapply mr_other; eauto]. Qed.

Theorem available_means_recovered_despite_faults s s' i o :
  alias_free content es (s_fs s) -> Forall (pgood content es) (s_pool s) ->
  nth_error (s_pool s) i = Some (solve_prog H pc) -> mreachA i s s' -> nth_error (s_pool s') i = Some (Ret o) ->
  o = Success /\ forall sg, In sg (w_segs pc) -> e_pad (ps_entry sg) = false -> holds_seg content (s_fs s') sg.
Proof.
  intros Ha Hp Hn Hr Hn'.
  pose proof (mreachA_prunA i s s' Hr Ha Hp _ _ Hn Hn') as Hrun.
  assert (Ho : o = Success) by exact (solve_succeeds _ _ _ Hrun). subst o. split; [reflexivity|].
  exact (success_means_in_place_despite_faults H content es Hfun s s' i pc Ha Hp Hwf Hall Hcr Hn (mreachA_mreach i s s' Hr) Hn').
Qed.

(** C02 for the whole system: in a fault-free run all of whose states keep the piece available
    and unobstructed, when the piece's evaluation has returned, it has returned [Success] and every
    non-padding segment of the piece is in place in the export tree. *)
Theorem available_means_recovered s s' i o :
  alias_free content es (s_fs s) -> Forall (pgood content es) (s_pool s) ->
  nth_error (s_pool s) i = Some (solve_prog H pc) -> freachA s s' -> nth_error (s_pool s') i = Some (Ret o) ->
  o = Success /\ forall sg, In sg (w_segs pc) -> e_pad (ps_entry sg) = false -> holds_seg content (s_fs s') sg.
Proof.
  intros Ha Hp Hn Hr Hn'.
  pose proof (freachA_prunA i s s' Hr Ha Hp _ _ Hn Hn') as Hrun.
  assert (Ho : o = Success) by exact (solve_succeeds _ _ _ Hrun). subst o. split; [reflexivity|].
  exact (success_means_in_place H content es Hfun s s' i pc Ha Hp Hwf Hall Hcr Hn (freachA_freach s s' Hr) Hn').
Qed.

End Complete.
