(** Proofs about the piece layout model (C06). *)
From TB Require Import Base LayoutModel LayoutSpec.
From Coq Require Import ZifyN ZifyNat ZifyBool Sorted.
Local Open Scope N_scope.

(** The cursor loop without the u64 range checks; [fill_unchecked] shows the checked model
    coincides with it on every state the loader can produce, i.e. no check ever fires. *)
Fixpoint fill0 (fuel : nat) (files : list N) (L : N) (fi : nat) (rem counted : N) (acc : list seg)
  : res (list seg * nat * N) :=
  if counted <? L then
    match fuel with O => OutOfFuel | S fuel' =>
    match nth_error files fi with None => Panic | Some cur =>
      let remainder := L - counted in
      let cur_rem := if remainder <=? rem then rem - remainder else 0 in
      let counted' := if remainder <=? rem then L else counted + rem in
      let sg := {| s_file := fi; s_off := cur - rem; s_len := rem - cur_rem; s_flen := cur |} in
      if cur_rem =? 0 then
        if Nat.eqb (S fi) (length files) then Ok (rev (sg :: acc), S fi, 0)
        else match nth_error files (S fi) with None => Panic | Some nl =>
             fill0 fuel' files L (S fi) nl counted' (sg :: acc) end
      else fill0 fuel' files L fi cur_rem counted' (sg :: acc)
    end end
  else Ok (rev acc, fi, rem).

Lemma fill_unchecked files L : L <= u64max -> forall fuel fi rem counted acc cur,
  nth_error files fi = Some cur -> rem <= cur -> counted <= L ->
  fill fuel files L fi rem counted acc = fill0 fuel files L fi rem counted acc.
Proof.
  intros HL. induction fuel as [|fuel IH]; intros fi rem counted acc cur Hn Hrem Hc; cbn [fill fill0].
  - reflexivity.
  - destruct (N.ltb_spec counted L) as [Hcl|Hcl]; [|reflexivity].
    rewrite Hn. unfold sub64 at 1. destruct (N.leb_spec counted L) as [_|]; [|lia]. cbn [bind].
    destruct (N.leb_spec (L - counted) rem) as [Hle|Hgt].
    + unfold sub64 at 1. destruct (N.leb_spec (L - counted) rem) as [_|]; [|lia]. cbn [bind].
      unfold sub64 at 1. destruct (N.leb_spec rem cur) as [_|]; [|lia]. cbn [bind].
      unfold sub64 at 1. destruct (N.leb_spec (rem - (L - counted)) rem) as [_|]; [|lia]. cbn [bind].
      destruct (N.eqb_spec (rem - (L - counted)) 0) as [He|He].
      * destruct (Nat.eqb (S fi) (length files)); [reflexivity|].
        destruct (nth_error files (S fi)) as [nl|] eqn:Hn2; [|reflexivity].
        apply (IH _ _ _ _ nl); auto; lia.
      * apply (IH _ _ _ _ cur); auto; lia.
    + cbn [bind]. unfold add64. destruct (N.leb_spec (counted + rem) u64max) as [_|]; [|lia]. cbn [bind].
      unfold sub64 at 1. destruct (N.leb_spec rem cur) as [_|]; [|lia]. cbn [bind].
      unfold sub64 at 1. destruct (N.leb_spec 0 rem) as [_|]; [|lia]. cbn [bind].
      rewrite N.eqb_refl.
      destruct (Nat.eqb (S fi) (length files)); [reflexivity|].
      destruct (nth_error files (S fi)) as [nl|] eqn:Hn2; [|reflexivity].
      apply (IH _ _ _ _ nl); auto; lia.
Qed.



Lemma total_app a b : total (a ++ b) = total a + total b.
Proof. unfold total. induction a as [|x a IH]; cbn [app fold_right]; lia. Qed.

Lemma nth_error_split {A} (l : list A) k x :
  nth_error l k = Some x -> l = firstn k l ++ x :: skipn (S k) l.
Proof.
  revert k; induction l as [|y l IH]; intros [|k] H; cbn in *; try discriminate.
  - now inversion H.
  - f_equal. now apply IH.
Qed.

Lemma skipn_nth {A} (l : list A) k x : nth_error l k = Some x -> skipn k l = x :: skipn (S k) l.
Proof.
  revert k; induction l as [|y l IH]; intros [|k] H; cbn in *; try discriminate.
  - now inversion H.
  - now apply IH.
Qed.

Lemma start_of_S files k x : nth_error files k = Some x -> start_of files (S k) = start_of files k + x.
Proof.
  unfold start_of. revert k; induction files as [|y l IH]; intros [|k] H; cbn in *; try discriminate.
  - inversion H. unfold total; cbn. lia.
  - specialize (IH _ H). unfold total in *. cbn [fold_right]. lia.
Qed.

Lemma start_of_all files : start_of files (length files) = total files.
Proof. unfold start_of. now rewrite firstn_all. Qed.

Lemma segs_from_hi_nil k st fs lo hi : hi <= st -> segs_from k st fs lo hi = [].
Proof.
  revert k st; induction fs as [|x fs IH]; intros k st H; cbn [segs_from]; [reflexivity|].
  rewrite IH by lia. destruct (N.ltb_spec (N.max lo st) (N.min hi (st + x))); [lia|reflexivity].
Qed.

Lemma segs_from_empty k st fs lo hi : hi <= lo -> segs_from k st fs lo hi = [].
Proof.
  revert k st; induction fs as [|x fs IH]; intros k st H; cbn [segs_from]; [reflexivity|].
  rewrite IH by lia. destruct (N.ltb_spec (N.max lo st) (N.min hi (st + x))); [lia|reflexivity].
Qed.

Lemma segs_from_lo_irrel2 k st fs lo lo' hi : lo <= st -> lo' <= st -> segs_from k st fs lo hi = segs_from k st fs lo' hi.
Proof.
  revert k st; induction fs as [|x fs IH]; intros k st H H'; cbn [segs_from]; [reflexivity|].
  rewrite (IH (S k) (st + x)) by lia.
  replace (N.max lo st) with st by lia. replace (N.max lo' st) with st by lia. reflexivity.
Qed.
Lemma segs_from_lo_irrel k st fs lo hi : lo <= st -> segs_from k st fs lo hi = segs_from k st fs st hi.
Proof. intros; apply segs_from_lo_irrel2; lia. Qed.


Lemma pos_segs_app a b : pos_segs (a ++ b) = pos_segs a ++ pos_segs b.
Proof. apply filter_app. Qed.

Lemma fill0_spec files L : forall fuel fi rem counted acc cur,
  nth_error files fi = Some cur -> rem <= cur -> (rem = 0 -> cur = 0) -> counted <= L ->
  (length files - fi < fuel)%nat ->
  let g := start_of files fi + cur - rem in
  let E := g + (L - counted) in
  exists out fi' rem',
    fill0 fuel files L fi rem counted acc = Ok (rev acc ++ out, fi', rem') /\
    pos_segs out = segs_from fi (start_of files fi) (skipn fi files) g E /\
    Forall zero_ok out /\
    ((fi' = length files /\ total files <= E) \/
     (exists cur', nth_error files fi' = Some cur' /\ rem' <= cur' /\ (rem' = 0 -> cur' = 0) /\
                   start_of files fi' + cur' - rem' = E)).
Proof.
  induction fuel as [|fuel IH]; intros fi rem counted acc cur Hn Hrem Hz Hc Hf g E; [lia|].
  assert (Hlt : (fi < length files)%nat) by (apply nth_error_Some; congruence).
  cbn [fill0]. destruct (N.ltb_spec counted L) as [Hcl|Hcl].
  2:{ (* loop not entered *)
      exists [], fi, rem. rewrite app_nil_r. split; [reflexivity|]. split.
      - cbn. rewrite segs_from_empty; [reflexivity|]. subst E g. lia.
      - split; [constructor|]. right. exists cur. repeat split; auto. subst E g. lia. }
  rewrite Hn. rewrite (skipn_nth _ _ _ Hn). cbn [segs_from].
  pose proof (start_of_S _ _ _ Hn) as HS.
  destruct (N.leb_spec (L - counted) rem) as [Hle|Hgt].
  - (* piece completes inside this file *)
    set (sg := {| s_file := fi; s_off := cur - rem; s_len := rem - (rem - (L - counted)); s_flen := cur |}).
    assert (Hspec : segs_from fi (start_of files fi) (cur :: skipn (S fi) files) g E = [sg]).
    { cbn [segs_from]. rewrite segs_from_hi_nil by (subst E g; lia).
      destruct (N.ltb_spec (N.max g (start_of files fi)) (N.min E (start_of files fi + cur))) as [_|Hbad];
        [|subst E g; lia].
      rewrite app_nil_r. subst sg. f_equal. f_equal; subst E g; lia. }
    cbn [segs_from] in Hspec.
    assert (Hpos : pos_segs [sg] = [sg]).
    { unfold pos_segs; cbn. destruct (N.ltb_spec 0 (rem - (rem - (L - counted)))); [reflexivity|lia]. }
    assert (Hzo : Forall zero_ok [sg]). { constructor; [|constructor]. unfold zero_ok; cbn. lia. }
    destruct (N.eqb_spec (rem - (L - counted)) 0) as [He|He].
    + destruct (Nat.eqb_spec (S fi) (length files)) as [Hlast|Hnl].
      * exists [sg], (S fi), 0. split; [cbn [rev]; reflexivity|]. split; [rewrite Hpos; symmetry; exact Hspec|].
        split; [exact Hzo|]. left. split; [exact Hlast|].
        rewrite <- start_of_all, <- Hlast, HS. subst E g. lia.
      * destruct (nth_error files (S fi)) as [nl|] eqn:Hn2;
          [|apply nth_error_None in Hn2; lia].
        (* recursive call returns immediately since counted' = L *)
        destruct fuel as [|fuel']; [lia|]. cbn [fill0]. rewrite N.ltb_irrefl.
        exists [sg], (S fi), nl. split; [cbn [rev]; reflexivity|]. split; [rewrite Hpos; symmetry; exact Hspec|].
        split; [exact Hzo|]. right. exists nl. pose proof (start_of_S _ _ _ Hn2) as HS2.
        repeat split; auto; subst E g; lia.
    + destruct fuel as [|fuel']; [lia|]. cbn [fill0]. rewrite N.ltb_irrefl.
      exists [sg], fi, (rem - (L - counted)). split; [cbn [rev]; reflexivity|].
      split; [rewrite Hpos; symmetry; exact Hspec|]. split; [exact Hzo|].
      right. exists cur. repeat split; auto; subst E g; lia.
  - (* file exhausted before the piece is full *)
    rewrite N.eqb_refl.
    set (sg := {| s_file := fi; s_off := cur - rem; s_len := rem - 0; s_flen := cur |}).
    assert (Hhead : (if N.max g (start_of files fi) <? N.min E (start_of files fi + cur)
                     then [{| s_file := fi; s_off := N.max g (start_of files fi) - start_of files fi;
                              s_len := N.min E (start_of files fi + cur) - N.max g (start_of files fi); s_flen := cur |}]
                     else []) = pos_segs [sg]).
    { unfold pos_segs; cbn. destruct (N.ltb_spec 0 (rem - 0)) as [Hp|Hp];
      destruct (N.ltb_spec (N.max g (start_of files fi)) (N.min E (start_of files fi + cur))) as [Hq|Hq];
      subst E g; try lia; [|reflexivity]. subst sg. f_equal. f_equal; lia. }
    assert (Hzo : zero_ok sg). { unfold zero_ok; cbn. intros. assert (rem = 0) by lia. specialize (Hz H0). lia. }
    destruct (Nat.eqb_spec (S fi) (length files)) as [Hlast|Hnl].
    + exists [sg], (S fi), 0. split; [cbn [rev]; reflexivity|]. split.
      * rewrite <- Hhead. assert (skipn (S fi) files = []) as -> by (apply skipn_all2; lia).
        cbn [segs_from]. now rewrite app_nil_r.
      * split; [constructor; [exact Hzo|constructor]|]. left. split; [exact Hlast|].
        rewrite <- start_of_all, <- Hlast, HS. subst E g. lia.
    + destruct (nth_error files (S fi)) as [nl|] eqn:Hn2; [|apply nth_error_None in Hn2; lia].
      destruct (IH (S fi) nl (counted + rem) (sg :: acc) nl Hn2) as (out & fi' & rem' & Hrun & Hps & Hzs & Hcur);
        try lia.
      exists (sg :: out), fi', rem'. split.
      * rewrite Hrun. cbn [rev]. rewrite <- app_assoc. reflexivity.
      * split.
        -- change (sg :: out) with ([sg] ++ out). rewrite pos_segs_app, Hps, <- Hhead. f_equal.
           rewrite HS. rewrite (segs_from_lo_irrel _ _ _ g) by (subst g; lia).
           f_equal; subst E g; lia.
        -- split; [constructor; assumption|].
           destruct Hcur as [[Ha Hb]|(cur' & Hc1 & Hc2 & Hc3 & Hc4)].
           ++ left. split; [exact Ha|]. subst E g. lia.
           ++ right. exists cur'. repeat split; auto. subst E g. lia.
Qed.

(** * From the cursor lemma to whole layouts *)

Lemma total_nil : total [] = 0. Proof. reflexivity. Qed.
Lemma total_cons x l : total (x :: l) = x + total l. Proof. reflexivity. Qed.

Lemma segs_from_skip : forall files k st lo hi fi,
  (fi <= length files)%nat -> st + total (firstn fi files) <= lo ->
  segs_from k st files lo hi = segs_from (k + fi) (st + total (firstn fi files)) (skipn fi files) lo hi.
Proof.
  induction files as [|x fs IH]; intros k st lo hi fi Hfi Hlo.
  - destruct fi; [|cbn in Hfi; lia]. cbn [firstn skipn segs_from]. reflexivity.
  - destruct fi as [|fi].
    + cbn [firstn skipn]. rewrite total_nil, N.add_0_r, Nat.add_0_r. reflexivity.
    + cbn [firstn skipn] in *. rewrite total_cons in *. cbn [segs_from].
      destruct (N.ltb_spec (N.max lo st) (N.min hi (st + x))); [lia|]. cbn [app].
      rewrite (IH (S k) (st + x) lo hi fi); [|cbn in Hfi; lia|lia].
      replace (S k + fi)%nat with (k + S fi)%nat by lia.
      replace (st + x + total (firstn fi fs)) with (st + (x + total (firstn fi fs))) by lia. reflexivity.
Qed.

Lemma segs_from_cap : forall files k st lo hi,
  segs_from k st files lo hi = segs_from k st files lo (N.min hi (st + total files)).
Proof.
  induction files as [|x fs IH]; intros; cbn [segs_from]; [reflexivity|].
  rewrite total_cons.
  rewrite (IH (S k) (st + x) lo hi). rewrite (IH (S k) (st + x) lo (N.min hi (st + (x + total fs)))).
  replace (N.min (N.min hi (st + (x + total fs))) (st + x + total fs)) with (N.min hi (st + x + total fs)) by lia.
  f_equal.
  destruct (N.ltb_spec (N.max lo st) (N.min hi (st + x)));
  destruct (N.ltb_spec (N.max lo st) (N.min (N.min hi (st + (x + total fs))) (st + x))); try lia; [|reflexivity].
  f_equal. f_equal; lia.
Qed.

Definition sumN (l : list N) : N := fold_right N.add 0 l.

Lemma sum64_ok l : forall acc, acc + sumN l <= u64max -> sum64 l acc = Ok (acc + sumN l).
Proof.
  induction l as [|x l IH]; intros acc H; cbn [sum64 sumN fold_right] in *.
  - f_equal. lia.
  - unfold add64. destruct (N.leb_spec (acc + x) u64max) as [_|]; [|lia]. cbn [bind].
    rewrite IH by (unfold sumN; lia). f_equal. unfold sumN. lia.
Qed.

Lemma sum_pos_segs l : sumN (map s_len (pos_segs l)) = sumN (map s_len l).
Proof.
  induction l as [|s l IH]; [reflexivity|]. unfold pos_segs in *. cbn [filter map].
  destruct (N.ltb_spec 0 (s_len s)); cbn [map sumN fold_right] in *; unfold sumN in *; lia.
Qed.

Lemma segs_from_sum fs : forall k st lo hi,
  sumN (map s_len (segs_from k st fs lo hi)) = N.min hi (st + total fs) - N.max lo st.
Proof.
  induction fs as [|x fs IH]; intros k st lo hi; cbn [segs_from].
  - rewrite total_nil. cbn. lia.
  - rewrite map_app. unfold sumN in *. rewrite fold_right_app.
    assert (Hadd : forall a b, fold_right N.add b a = fold_right N.add 0 a + b).
    { induction a as [|y a IHa]; intros b; cbn [fold_right]; [lia|]. rewrite IHa. lia. }
    rewrite Hadd. rewrite (IH (S k) (st + x) lo hi). rewrite total_cons.
    destruct (N.ltb_spec (N.max lo st) (N.min hi (st + x))); cbn [map fold_right s_len]; lia.
Qed.

(** pieces produced from a cursor sitting at global position k*L *)
Lemma pieces_from files L : L <= u64max -> forall nh k fi rem cur,
  nth_error files fi = Some cur -> rem <= cur -> (rem = 0 -> cur = 0) ->
  start_of files fi + cur - rem = N.of_nat k * L ->
  hashes_ok files L (k + nh) ->
  exists ps, pieces_multi files L nh fi rem = Ok ps /\ length ps = nh /\
             forall j p, nth_error ps j = Some p -> piece_ok files L (k + j) p.
Proof.
  intros HL. induction nh as [|nh IH]; intros k fi rem cur Hn Hrem Hz Hpos Hh.
  - exists []. split; [reflexivity|]. split; [reflexivity|]. intros [|j] sg H; discriminate.
  - cbn [pieces_multi].
    assert (Hlt : (fi < length files)%nat) by (apply nth_error_Some; congruence).
    rewrite (fill_unchecked files L HL _ _ _ _ _ cur Hn Hrem) by lia.
    destruct (fill0_spec files L (S (length files)) fi rem 0 [] cur Hn Hrem Hz ltac:(lia) ltac:(lia))
      as (out & fi' & rem' & Hrun & Hps & Hzs & Hcur).
    rewrite Hrun. cbn [rev app bind].
    assert (Hst : start_of files fi <= N.of_nat k * L) by lia.
    assert (Htot : start_of files fi + total (skipn fi files) = total files).
    { unfold start_of. rewrite <- total_app, firstn_skipn. reflexivity. }
    assert (Hsum : sumN (map s_len out) = piece_hi files L k - piece_lo L k).
    { rewrite <- sum_pos_segs, Hps, segs_from_sum. unfold piece_hi, piece_lo. lia. }
    rewrite sum64_ok by (rewrite Hsum; unfold piece_hi, piece_lo; lia). cbn [bind]. rewrite N.add_0_l.
    (* the piece just produced *)
    assert (Hpiece : piece_ok files L (k + 0) {| p_segs := out; p_len := sumN (map s_len out) |}).
    { rewrite Nat.add_0_r. split; [|split; [exact Hzs|exact Hsum]]. cbn [p_segs]. rewrite Hps. unfold spec_piece, piece_lo, piece_hi.
      rewrite Hpos. replace (N.of_nat k * L + (L - 0)) with ((N.of_nat k + 1) * L) by lia.
      rewrite (segs_from_skip files 0 0 (N.of_nat k * L) _ fi); [|lia|unfold start_of in Hst; lia].
      cbn [Nat.add]. replace (0 + total (firstn fi files)) with (start_of files fi) by (unfold start_of; lia).
      rewrite (segs_from_cap (skipn fi files) fi (start_of files fi) _ ((N.of_nat k + 1) * L)).
      rewrite (segs_from_cap (skipn fi files) fi (start_of files fi) _ (N.min _ (total files))).
      f_equal. lia. }
    destruct nh as [|nh'].
    + (* last piece *) cbn [pieces_multi bind]. eexists. split; [reflexivity|]. split; [reflexivity|].
      intros [|[|j]] sg H; try discriminate. inversion H; subst. exact Hpiece.
    + (* more pieces follow: the cursor must still be inside the files *)
      destruct Hh as [Hh1 Hh2].
      destruct Hcur as [[Hend Htot']|(cur' & Hn' & Hrem' & Hz' & Hpos')].
      * exfalso. destruct Hh2 as [|Hh2]; [lia|]. nia.
      * destruct (IH (S k) fi' rem' cur' Hn' Hrem' Hz') as (ps & Hps' & Hlen & Hall).
        -- rewrite Hpos'. nia.
        -- replace (S k + S nh')%nat with (k + S (S nh'))%nat by lia. split; assumption.
        -- rewrite Hps'. cbn [bind]. eexists. split; [reflexivity|]. split; [cbn; lia|].
           intros [|j] sg H.
           ++ inversion H; subst. exact Hpiece.
           ++ replace (k + S j)%nat with (S k + j)%nat by lia. apply Hall. exact H.
Qed.

Theorem layout_multi_spec files L nh : files <> [] -> L <= u64max -> hashes_ok files L nh ->
  exists ps, layout_multi files L nh = Ok ps /\ length ps = nh /\
             forall i p, nth_error ps i = Some p -> piece_ok files L i p.
Proof.
  intros Hne HL Hh. destruct files as [|f0 fs]; [congruence|]. unfold layout_multi.
  apply (pieces_from (f0 :: fs) L HL nh 0 0%nat f0 f0); auto; try lia.
  unfold start_of, total; cbn. lia.
Qed.

(** * Single-file form *)

Lemma pieces_single_spec flen L : flen <= u64max -> forall nh k start rem,
  start + rem = flen -> start = N.min (N.of_nat k * L) flen -> hashes_ok [flen] L (k + nh) ->
  exists ps, pieces_single flen L nh start rem = Ok ps /\ length ps = nh /\
    forall j p, nth_error ps j = Some p ->
      p_segs p = spec_piece [flen] L (k + j) /\ piece_ok [flen] L (k + j) p.
Proof.
  intros Hf. induction nh as [|nh IH]; intros k start rem Hsr Hst Hh.
  - exists []. split; [reflexivity|]. split; [reflexivity|]. intros [|j] p H; discriminate.
  - cbn [pieces_single].
    assert (Htot : total [flen] = flen) by (unfold total; cbn; lia).
    destruct Hh as [Hh1 Hh2]. rewrite Htot in *.
    assert (Hk : N.of_nat k * L < flen) by (destruct Hh2 as [|Hh2]; [lia|nia]).
    assert (Hpos : 0 < rem /\ 0 < L) by (split; [lia|nia]).
    set (rl := if rem <? L then rem else L).
    assert (Hrl : rl = N.min rem L) by (subst rl; destruct (N.ltb_spec rem L); lia).
    unfold sub64. destruct (N.leb_spec rl rem) as [_|]; [|lia]. cbn [bind].
    unfold add64. destruct (N.leb_spec (start + rl) u64max) as [_|]; [|lia]. cbn [bind].
    destruct (IH (S k) (start + rl) (rem - rl)) as (ps & Hps & Hlen & Hall).
    + lia.
    + lia.
    + replace (S k + nh)%nat with (k + S nh)%nat by lia. split; rewrite ?Htot; assumption.
    + rewrite Hps. cbn [bind]. eexists. split; [reflexivity|]. split; [cbn; lia|].
      intros [|j] p H.
      * inversion H; subst p; clear H. rewrite Nat.add_0_r.
        assert (Hsp : spec_piece [flen] L k =
                      [{| s_file := 0; s_off := start; s_len := rl; s_flen := flen |}]).
        { unfold spec_piece, piece_lo, piece_hi. rewrite Htot. cbn [segs_from]. rewrite app_nil_r.
          destruct (N.ltb_spec (N.max (N.of_nat k * L) 0) (N.min (N.min ((N.of_nat k + 1) * L) flen) (0 + flen))); [|lia].
          f_equal. f_equal; lia. }
        cbn [p_segs]. split; [symmetry; exact Hsp|]. split; [|split].
        -- cbn [p_segs]. rewrite Hsp. unfold pos_segs; cbn. destruct (N.ltb_spec 0 rl); [reflexivity|lia].
        -- constructor; [|constructor]. unfold zero_ok; cbn. lia.
        -- cbn [p_len]. unfold piece_hi, piece_lo. rewrite Htot. lia.
      * replace (k + S j)%nat with (S k + j)%nat by lia. apply Hall. exact H.
Qed.

Theorem layout_single_spec flen L nh : flen <= u64max -> hashes_ok [flen] L nh ->
  exists ps, layout_single flen L nh = Ok ps /\ length ps = nh /\
    forall i p, nth_error ps i = Some p -> p_segs p = spec_piece [flen] L i /\ piece_ok [flen] L i p.
Proof.
  intros Hf Hh. unfold layout_single.
  apply (pieces_single_spec flen L Hf nh 0%nat 0 flen); auto; lia.
Qed.

(** * The specification is a partition of the byte space *)

Lemma segs_from_in fs : forall k0 st lo hi s,
  In s (segs_from k0 st fs lo hi) ->
  exists j len, nth_error fs j = Some len /\ s_file s = (k0 + j)%nat /\ s_flen s = len /\ 0 < s_len s /\
    s_off s + s_len s <= len /\
    lo <= st + total (firstn j fs) + s_off s /\ st + total (firstn j fs) + s_off s + s_len s <= hi.
Proof.
  induction fs as [|x fs IH]; intros k0 st lo hi s Hin; cbn [segs_from] in Hin; [contradiction|].
  apply in_app_or in Hin. destruct Hin as [Hin|Hin].
  - destruct (N.ltb_spec (N.max lo st) (N.min hi (st + x))) as [Hlt|]; [|contradiction].
    destruct Hin as [<-|[]]. exists 0%nat, x. cbn [nth_error firstn s_file s_off s_len s_flen].
    rewrite total_nil. repeat split; lia.
  - destruct (IH _ _ _ _ _ Hin) as (j & len & Hn & Hf & Hl & Hp & Hb & Hlo & Hhi).
    exists (S j), len. cbn [nth_error firstn]. rewrite total_cons. repeat split; auto; lia.
Qed.

Lemma segs_from_covers fs : forall k0 st lo hi j len o,
  nth_error fs j = Some len -> o < len ->
  lo <= st + total (firstn j fs) + o < hi ->
  exists s, In s (segs_from k0 st fs lo hi) /\ covers s (k0 + j) o.
Proof.
  induction fs as [|x fs IH]; intros k0 st lo hi j len o Hn Ho Hr; [destruct j; discriminate|].
  cbn [segs_from]. destruct j as [|j]; cbn [nth_error firstn] in *.
  - inversion Hn; subst x. rewrite total_nil in Hr.
    destruct (N.ltb_spec (N.max lo st) (N.min hi (st + len))); [|lia].
    eexists. split; [apply in_or_app; left; left; reflexivity|]. unfold covers; cbn. split; lia.
  - rewrite total_cons in Hr.
    destruct (IH (S k0) (st + x) lo hi j len o Hn Ho) as (s & Hin & Hc); [lia|].
    exists s. split; [apply in_or_app; right; exact Hin|].
    replace (k0 + S j)%nat with (S k0 + j)%nat by lia. exact Hc.
Qed.

Lemma segs_from_files_increasing fs : forall k0 st lo hi,
  StronglySorted (fun a b => (s_file a < s_file b)%nat) (segs_from k0 st fs lo hi) /\
  Forall (fun s => (k0 <= s_file s)%nat) (segs_from k0 st fs lo hi).
Proof.
  induction fs as [|x fs IH]; intros k0 st lo hi; cbn [segs_from]; [split; constructor|].
  destruct (IH (S k0) (st + x) lo hi) as [Hs Hf].
  destruct (N.ltb_spec (N.max lo st) (N.min hi (st + x))); cbn [app].
  - split.
    + constructor; [exact Hs|]. eapply Forall_impl; [|exact Hf]. cbn. intros; lia.
    + constructor; [cbn; lia|]. eapply Forall_impl; [|exact Hf]. cbn. intros; lia.
  - split; [exact Hs|]. eapply Forall_impl; [|exact Hf]. cbn. intros; lia.
Qed.

(** Every byte (file k, offset o) lies in a segment of piece [g / L] (g its global position)... *)
Theorem spec_covers files L k len o : 0 < L ->
  nth_error files k = Some len -> o < len ->
  let g := start_of files k + o in
  exists s, In s (spec_piece files L (N.to_nat (g / L))) /\ covers s k o.
Proof.
  intros HL Hn Ho g. unfold spec_piece.
  assert (Hg : g < total files).
  { subst g. unfold start_of. rewrite <- (firstn_skipn k files) at 2. rewrite total_app.
    rewrite (skipn_nth _ _ _ Hn), total_cons. lia. }
  destruct (segs_from_covers files 0 0 (piece_lo L (N.to_nat (g / L))) (piece_hi files L (N.to_nat (g / L))) k len o Hn Ho)
    as (s & Hin & Hc).
  - unfold piece_lo, piece_hi. rewrite N2Nat.id. fold (start_of files k). fold g.
    pose proof (N.div_mod g L ltac:(lia)). pose proof (N.mod_lt g L ltac:(lia)). nia.
  - exists s. split; [exact Hin|exact Hc].
Qed.

(** ... and in no segment of any other piece; within a piece each file occurs at most once. *)
Theorem spec_covers_unique files L i s k o : 0 < L ->
  In s (spec_piece files L i) -> covers s k o ->
  i = N.to_nat ((start_of files k + o) / L).
Proof.
  intros HL Hin [Hf Ho]. subst k. unfold spec_piece in Hin.
  destruct (segs_from_in _ _ _ _ _ _ Hin) as (j & len & Hn & Hfile & Hl & Hp & Hb & Hlo & Hhi).
  cbn [Nat.add] in Hfile. subst j.
  unfold piece_lo, piece_hi, start_of in *.
  set (g := total (firstn (s_file s) files) + o) in *.
  assert (N.of_nat i * L <= g < (N.of_nat i + 1) * L) by (subst g; lia).
  assert (g / L = N.of_nat i).
  { symmetry. apply (N.div_unique g L (N.of_nat i) (g - N.of_nat i * L)); lia. }
  lia.
Qed.

Theorem spec_piece_files_increasing files L i :
  StronglySorted (fun a b => (s_file a < s_file b)%nat) (spec_piece files L i).
Proof. apply segs_from_files_increasing. Qed.

(** Every segment lies inside its file. *)
Theorem spec_piece_inside files L i s : In s (spec_piece files L i) ->
  nth_error files (s_file s) = Some (s_flen s) /\ 0 < s_len s /\ s_off s + s_len s <= s_flen s.
Proof.
  intros Hin. destruct (segs_from_in _ _ _ _ _ _ Hin) as (j & len & Hn & Hfile & Hl & Hp & Hb & _).
  cbn [Nat.add] in Hfile. rewrite Hfile, Hl. auto.
Qed.

(** The loader's hash-count test is exactly [hashes_ok]. *)
Theorem hash_count_ok_iff files L nh :
  hash_count_ok (total files) L (N.of_nat nh) = true <-> hashes_ok files L nh.
Proof.
  unfold hash_count_ok, hashes_ok. set (T := total files). set (n := N.of_nat nh).
  assert (Hn0 : nh = 0%nat <-> n = 0) by (subst n; lia).
  destruct (N.eqb_spec T 0) as [HT|HT].
  - rewrite HT. rewrite N.eqb_eq. split; [intros H; split; [lia|left; lia]|].
    intros [_ [H|H]]; lia.
  - destruct (N.eqb_spec L 0) as [HL|HL].
    + subst L. split; [discriminate|]. intros [H _]. lia.
    + pose proof (N.div_mod T L HL) as Hdm. pose proof (N.mod_lt T L HL) as Hml.
      rewrite N.eqb_eq.
      destruct (N.ltb_spec 0 (T mod L)) as [Hr|Hr].
      * split; [intros H; split; [nia|right; nia]|].
        intros [H1 [H2|H2]]; [lia|]. nia.
      * split; [intros H; split; [nia|right; nia]|].
        intros [H1 [H2|H2]]; [lia|]. nia.
Qed.
