(** Availability that survives whatever a run does, and what follows from it:

    - [avail_stable]: every non-padding segment of the piece has a witness candidate that the run
      itself can never damage - a file no export path of the table names (the run never writes
      it: [si_same]), or an export image whose bytes at that range already verify for its OWN table
      entry (the run never rewrites them: [si_ver]) - and the table does not ask for a directory
      and a file at the same path.  The hypothesis "and remains so during the run" of C02 is then
      a THEOREM: [stable_SI] - every state related to the start by the whole-run invariant [SI]
      (all reachable states, crashes and faults included) is again stably available.
    - [stable_available_means_recovered]: in the fault-free system a stably available piece ends
      in [Success] and in place - with no assumption about the states passed through.
    - [rerun_recovers] (C11, second sentence): run the tool, kill it anywhere (any reachable
      state of the system with cuts and faults), run it again from the file system it left:
      every piece that was stably available before the FIRST run is recovered by the second.
      By [stable_SI] the same holds after any number of killed runs in between.
    - [runs_keep_in_place] (C04, across runs): over any sequence of runs - each with its own
      table (other torrents, other scan sets) - a byte range that verified in the export tree
      keeps verifying, as long as each run's table either contains the entry or does not own the
      inode. *)
From TB Require Import Base Decimal BencodeModel TorrentModel TorrentProofs PathModel FsModel SolverModel FinderModel RunModel
                       SolverProofs RunProofs FsProofs SearchProofs SystemModel SystemProofs EstablishProofs CompleteProofs Generated GeneratedObligations.
From Coq Require Import ZifyN ZifyNat ZifyBool.
Local Open Scope N_scope.

Lemma nth_error_ext_local {A} : forall (a b : list A), (forall k, nth_error a k = nth_error b k) -> a = b.
Proof.
  induction a as [|x a IH]; intros [|y b] Hk; auto.
  - specialize (Hk 0%nat). discriminate.
  - specialize (Hk 0%nat). discriminate.
  - pose proof (Hk 0%nat) as H0. cbn in H0. inversion H0; subst. f_equal. apply IH. intros k. exact (Hk (S k)).
Qed.

(** Two slices that both agree with the same reference on a range are equal. *)
Lemma holds_same_slice (C a b : list N) lo n :
  holds C a lo (lo + n) -> holds C b lo (lo + n) -> firstn n (skipn lo a) = firstn n (skipn lo b).
Proof.
  intros Ha Hb. apply nth_error_ext_local. intros k.
  destruct (Nat.lt_ge_cases k n) as [Hk|Hk].
  - rewrite !nth_error_firstn_lt, !nth_error_skipn_eq by exact Hk.
    destruct (Ha (lo + k)%nat ltac:(lia)) as (x & Hx & Hc). destruct (Hb (lo + k)%nat ltac:(lia)) as (y & Hy & Hc').
    rewrite Hx, Hy. congruence.
  - assert (forall l : list N, nth_error (firstn n l) k = None) as Hnone.
    { intros l. apply nth_error_None. rewrite firstn_length. lia. }
    now rewrite !Hnone.
Qed.

Section Stable.
Variable content : entry -> list N.
Variable es : list entry.
Hypothesis Hfun : table_functional content es.

Notation nonpad := (nonpad es).
Notation owner := (owner es).

(** An inode that existed at the start is an export image now only if it was one then. *)
Lemma old_owner f0 f i e : SI content es f0 f -> i < fresh_ino f0 -> owner f i e -> owner f0 i e.
Proof.
  intros HS Hi [Hn Hl]. split; [exact Hn|].
  destruct (fs_lookup f0 (e_target e)) as [n|] eqn:E0.
  - pose proof (si_mono _ _ _ _ HS _ _ E0) as E1. congruence.
  - destruct (si_new _ _ _ _ HS _ _ E0 Hl) as [[Hd _]|(e' & j & _ & _ & Hj & Hge)]; [discriminate|].
    inversion Hj; subst j. lia.
Qed.

(** Bytes [lo, hi) of inode [i] cannot be changed by any run over this table. *)
Definition src_stable (f0 : fs) (i : N) (lo hi : nat) : Prop :=
  (forall e, ~ owner f0 i e) \/
  (exists e, owner f0 i e /\ (hi <= N.to_nat (e_len e))%nat /\ holds (content e) (fs_content f0 i) lo hi).

Lemma src_stable_SI f0 f i lo hi : SI content es f0 f -> i < fresh_ino f0 -> src_stable f0 i lo hi -> src_stable f i lo hi.
Proof.
  intros HS Hi [Hu|(e & Ho & Hhi & Hh)].
  - left. intros e Ho. exact (Hu e (old_owner f0 f i e HS Hi Ho)).
  - right. exists e. assert (Ho' : owner f i e) by (destruct Ho as [Hn Hl]; split; [exact Hn|exact (si_mono _ _ _ _ HS _ _ Hl)]).
    split; [exact Ho'|split; [exact Hhi|]]. exact (si_ver _ _ _ _ HS e i lo hi Ho' Hhi Hh).
Qed.

Lemma src_stable_slice f0 f i lo n : SI content es f0 f -> i < fresh_ino f0 -> src_stable f0 i lo (lo + n) ->
  firstn n (skipn lo (fs_content f i)) = firstn n (skipn lo (fs_content f0 i)).
Proof.
  intros HS Hi [Hu|(e & Ho & Hhi & Hh)].
  - rewrite (si_same _ _ _ _ HS i); [reflexivity|]. intros e Ho. exact (Hu e (old_owner f0 f i e HS Hi Ho)).
  - assert (Ho' : owner f i e) by (destruct Ho as [Hn Hl]; split; [exact Hn|exact (si_mono _ _ _ _ HS _ _ Hl)]).
    apply (holds_same_slice (content e)); [|exact Hh]. exact (si_ver _ _ _ _ HS e i lo (lo + n)%nat Ho' Hhi Hh).
Qed.

(** ** A verified range of an export file across runs *)
Definition in_place (f : fs) (e : entry) (lo hi : nat) : Prop :=
  exists i, fs_lookup f (e_target e) = Some (NFile i) /\ holds (content e) (fs_content f i) lo hi.

(** The run's table knows the entry, or owns no path of the entry's inode. *)
Definition coherent (f : fs) (e : entry) : Prop :=
  nonpad e \/ (forall i e', fs_lookup f (e_target e) = Some (NFile i) -> ~ owner f i e').

Lemma SI_in_place f0 f e lo hi : SI content es f0 f -> coherent f0 e -> (hi <= N.to_nat (e_len e))%nat ->
  in_place f0 e lo hi -> in_place f e lo hi.
Proof.
  intros HS Hc Hhi (i & Hl & Hh). exists i. split; [exact (si_mono _ _ _ _ HS _ _ Hl)|].
  destruct Hc as [Hn|Hu].
  - apply (si_ver _ _ _ _ HS e i lo hi); auto. split; [exact Hn|exact (si_mono _ _ _ _ HS _ _ Hl)].
  - rewrite (si_same _ _ _ _ HS i); [exact Hh|]. intros e' Ho.
    exact (Hu i e' Hl (old_owner f0 f i e' HS (lookup_lt_fresh _ _ _ Hl) Ho)).
Qed.

End Stable.

(** Any sequence of runs: each has its own table and relates its start to its end by [SI]. *)
Inductive runs (content : entry -> list N) (e : entry) : fs -> fs -> Prop :=
| runs_nil f : runs content e f f
| runs_cons es f0 f1 f2 : SI content es f0 f1 -> coherent es f0 e -> runs content e f1 f2 -> runs content e f0 f2.

Theorem runs_keep_in_place content e lo hi f0 f : (hi <= N.to_nat (e_len e))%nat ->
  runs content e f0 f -> in_place content f0 e lo hi -> in_place content f e lo hi.
Proof.
  intros Hhi Hr. induction Hr as [f|es f0 f1 f2 HS Hc _ IH]; intros Hp; [exact Hp|].
  apply IH. exact (SI_in_place content es f0 f1 e lo hi HS Hc Hhi Hp).
Qed.

Section Rerun.
Variable H : list N -> list N.
Variable content : entry -> list N.
Variable es : list entry.
Hypothesis Hfun : table_functional content es.
Variable pc : wpiece.
Hypothesis Hwf : wf_piece content pc.
Hypothesis Hall : Forall (fun s => In (ps_entry s) es) (w_segs pc).
Hypothesis Hcr : cr H content pc.
Hypothesis Hhash : H (piece_bytes content pc) = w_hash pc.
Hypothesis Hpadz : Forall (pad_zero content) (w_segs pc).
Hypothesis Hne : w_segs pc <> [].
Hypothesis Hone : forall s, w_segs pc = [s] -> ps_len s <> 0.
Variable wit : pseg -> path.

Notation nonpad := (nonpad es).
Notation owner := (owner es).

(** The table never wants a file where this segment needs a directory, nor a directory where
    this segment's file goes. *)
Definition unobstructed (s : pseg) : Prop :=
  (forall e, nonpad e -> ~ In (e_target e) (prefixes (parent (e_target (ps_entry s))))) /\
  (forall e, nonpad e -> ~ In (e_target (ps_entry s)) (prefixes (parent (e_target e)))).

Definition seg_stable (g : fs) (s : pseg) : Prop :=
  seg_avail content wit g s /\
  (e_pad (ps_entry s) = false -> unobstructed s /\
     (ps_len s <> 0 -> exists i, fs_lookup g (wit s) = Some (NFile i) /\
        src_stable content es g i (N.to_nat (ps_off s)) (N.to_nat (ps_off s) + N.to_nat (ps_len s)))).
Definition avail_stable (g : fs) : Prop := Forall (seg_stable g) (w_segs pc).

Lemma seg_stable_SI f0 f s : SI content es f0 f -> seg_stable f0 s -> seg_stable f s.
Proof.
  intros HS [Hav Hst]. split.
  - intros Hpad. destruct (Hav Hpad) as (Hnf & Hnd & Hne' & Hc). destruct (Hst Hpad) as ((Hu1 & Hu2) & Hw).
    split; [|split; [|split; [exact Hne'|]]].
    + intros q Hq. pose proof (Hnf q Hq) as H0. unfold is_file in *.
      destruct (fs_lookup f0 q) as [n|] eqn:E0.
      * now rewrite (si_mono _ _ _ _ HS _ _ E0).
      * destruct (fs_lookup f q) as [[|j]|] eqn:E1; auto.
        destruct (si_new _ _ _ _ HS _ _ E0 E1) as [[Hd _]|(e' & j' & Hn' & Hq' & _)]; [discriminate|].
        exfalso. apply (Hu1 e' Hn'). now rewrite <- Hq'.
    + unfold is_dir in *. destruct (fs_lookup f0 (e_target (ps_entry s))) as [n|] eqn:E0.
      * now rewrite (si_mono _ _ _ _ HS _ _ E0).
      * destruct (fs_lookup f (e_target (ps_entry s))) as [[|j]|] eqn:E1; auto.
        destruct (si_new _ _ _ _ HS _ _ E0 E1) as [[_ (e' & Hn' & Hin)]|(e' & j' & _ & _ & Hj & _)]; [|discriminate].
        exfalso. exact (Hu2 e' Hn' Hin).
    + intros Hlen. destruct (Hc Hlen) as (cands & Hs & Hread & Hin & Hwit). destruct (Hw Hlen) as (i & Hl & Hsrc).
      exists cands. split; [exact Hs|]. split; [|split; [exact Hin|]].
      * intros c Hcin. pose proof (Hread c Hcin) as Hr. unfold fs_read, fs_file in *.
        destruct (fs_lookup f0 c) as [[|j]|] eqn:E0; try congruence.
        now rewrite (si_mono _ _ _ _ HS _ _ E0).
      * unfold fs_read, fs_file in *. rewrite Hl in Hwit. rewrite (si_mono _ _ _ _ HS _ _ Hl).
        rewrite (src_stable_slice content es f0 f i _ _ HS (lookup_lt_fresh _ _ _ Hl) Hsrc). exact Hwit.
  - intros Hpad. destruct (Hst Hpad) as (Hu & Hw). split; [exact Hu|].
    intros Hlen. destruct (Hw Hlen) as (i & Hl & Hsrc). exists i. split; [exact (si_mono _ _ _ _ HS _ _ Hl)|].
    exact (src_stable_SI content es f0 f i _ _ HS (lookup_lt_fresh _ _ _ Hl) Hsrc).
Qed.

(** "Remains so during the run" is a theorem for stable sources. *)
Theorem stable_SI f0 f : SI content es f0 f -> avail_stable f0 -> avail_stable f.
Proof.
  intros HS Hv. unfold avail_stable in *. rewrite Forall_forall in *. intros s Hs. exact (seg_stable_SI f0 f s HS (Hv s Hs)).
Qed.

Lemma stable_avail g : avail_stable g -> avail content pc wit g.
Proof. unfold avail_stable, avail. rewrite !Forall_forall. intros Hv s Hs. exact (proj1 (Hv s Hs)). Qed.

(** A fault-free run from a stably available state passes only through available states. *)
Lemma freach_freachA f0 : forall s s', freach s s' -> SI content es f0 (s_fs s) -> Forall (pgood content es) (s_pool s) ->
  avail_stable f0 -> freachA content pc wit s s'.
Proof.
  induction 1 as [s|s s1 s2 Hst Hr IH]; intros HS Hp Hv.
  - constructor. apply stable_avail. exact (stable_SI f0 _ HS Hv).
  - destruct (sys_step_invariant content es f0 Hfun s s1 (fstep_is_sstep _ _ Hst) HS Hp) as [HS1 Hp1].
    apply (fa_step content pc wit s s1 s2); [|exact Hst|exact (IH HS1 Hp1 Hv)].
    apply stable_avail. exact (stable_SI f0 _ HS Hv).
Qed.

Theorem stable_available_means_recovered s s' i o :
  alias_free content es (s_fs s) -> Forall (pgood content es) (s_pool s) -> avail_stable (s_fs s) ->
  nth_error (s_pool s) i = Some (solve_prog H pc) -> freach s s' -> nth_error (s_pool s') i = Some (Ret o) ->
  o = Success /\ forall sg, In sg (w_segs pc) -> e_pad (ps_entry sg) = false -> holds_seg content (s_fs s') sg.
Proof.
  intros Ha Hp Hv Hn Hr Hn'.
  apply (available_means_recovered H content es Hfun pc Hwf Hall Hcr Hhash Hpadz Hne Hone wit s s' i o Ha Hp Hn); [|exact Hn'].
  apply (freach_freachA (s_fs s)); auto. now apply SI_init.
Qed.

(** The same when every OTHER program may fault, be answered arbitrarily or be cut ([mreach i]). *)
Lemma mreach_mreachA f0 i : forall s s', mreach i s s' -> SI content es f0 (s_fs s) -> Forall (pgood content es) (s_pool s) ->
  avail_stable f0 -> mreachA content pc wit i s s'.
Proof.
  induction 1 as [s|s s1 s2 Hst Hr IH|s s1 s2 Hst Hr IH]; intros HS Hp Hv.
  - constructor. apply stable_avail. exact (stable_SI f0 _ HS Hv).
  - destruct (sys_step_invariant content es f0 Hfun s s1 (fstep_is_sstep _ _ Hst) HS Hp) as [HS1 Hp1].
    apply (ma_own content pc wit i s s1 s2); [|exact Hst|exact (IH HS1 Hp1 Hv)].
    apply stable_avail. exact (stable_SI f0 _ HS Hv).
  - destruct (sys_step_invariant content es f0 Hfun s s1 (proj1 Hst) HS Hp) as [HS1 Hp1].
    apply (ma_other content pc wit i s s1 s2); [|exact Hst|exact (IH HS1 Hp1 Hv)].
    apply stable_avail. exact (stable_SI f0 _ HS Hv).
Qed.

Theorem stable_available_despite_faults s s' i o :
  alias_free content es (s_fs s) -> Forall (pgood content es) (s_pool s) -> avail_stable (s_fs s) ->
  nth_error (s_pool s) i = Some (solve_prog H pc) -> mreach i s s' -> nth_error (s_pool s') i = Some (Ret o) ->
  o = Success /\ forall sg, In sg (w_segs pc) -> e_pad (ps_entry sg) = false -> holds_seg content (s_fs s') sg.
Proof.
  intros Ha Hp Hv Hn Hr Hn'.
  apply (available_means_recovered_despite_faults H content es Hfun pc Hwf Hall Hcr Hhash Hpadz Hne Hone wit s s' i o Ha Hp Hn); [|exact Hn'].
  apply (mreach_mreachA (s_fs s)); auto. now apply SI_init.
Qed.

(** Kill the first run anywhere; run again from what it left. *)
Theorem rerun_recovers f0 pool0 s1 pool2 s2 i o :
  alias_free content es f0 -> Forall (pgood content es) pool0 -> avail_stable f0 ->
  sreach {| s_fs := f0; s_pool := pool0 |} s1 ->                              (* first run: faults, cut writes, stops anywhere *)
  Forall (pgood content es) pool2 -> nth_error pool2 i = Some (solve_prog H pc) ->
  freach {| s_fs := s_fs s1; s_pool := pool2 |} s2 ->                         (* second run from the state left behind *)
  nth_error (s_pool s2) i = Some (Ret o) ->
  o = Success /\ forall sg, In sg (w_segs pc) -> e_pad (ps_entry sg) = false -> holds_seg content (s_fs s2) sg.
Proof.
  intros Ha Hp0 Hv Hr1 Hp2 Hn Hr2 Hn'.
  destruct (sys_invariant content es f0 Hfun _ s1 Hr1 (SI_init content es f0 Ha) Hp0) as [HS1 _].
  apply (stable_available_means_recovered {| s_fs := s_fs s1; s_pool := pool2 |} s2 i o); auto.
  - exact (si_alias _ _ _ _ HS1).
  - exact (stable_SI f0 _ HS1 Hv).
Qed.

End Rerun.
