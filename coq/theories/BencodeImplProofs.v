(** The byte-by-byte automata of BencodeImpl.v compute exactly what the "digit run, evaluate,
    range-check" model of BencodeModel.v computes, never reach [Panic] (no position overflow) and
    never run out of fuel: an overflow detected at digit k by [checked_mul] / [checked_add] and a
    range failure of the whole numeral are the same event, because appending digits never makes
    the magnitude smaller. *)
From TB Require Import Base Decimal BencodeModel BencodeImpl.
From Coq Require Import ZifyN ZifyNat ZifyBool.
Local Open Scope N_scope.

Lemma usize_is_u64 : usize_max = u64max.
Proof. reflexivity. Qed.

Lemma horner_ge a ds : a <= horner a ds.
Proof. revert a; induction ds as [|d r IH]; intros a; cbn [horner]; [lia|]. specialize (IH (a * 10 + dval d)). lia. Qed.

Lemma len_cons {A} (x : A) l : len (x :: l) = len l + 1.
Proof. unfold len. cbn [length]. lia. Qed.

Lemma add64_ok a b : a + b <= u64max -> add64 a b = Ok (a + b).
Proof. intros Hh. unfold add64. destruct (N.leb_spec (a + b) u64max); [reflexivity|lia]. Qed.

(** ** Strings *)

(** The [Character] state, as a function of what is left. *)
Definition char_spec (p n : N) (r2 : list N) : res (list N * N * list N) :=
  match r2 with
  | [] => Err
  | _ => if n <=? len r2 then Ok (firstn (N.to_nat n) r2, p + n, skipn (N.to_nat n) r2) else Err
  end.

Lemma str_char f p n r2 : p + len r2 <= u64max -> str_auto (S f) SChar p n r2 = char_spec p n r2.
Proof.
  intros Hb. destruct r2 as [|b r]; [reflexivity|]. cbn [str_auto char_spec]. unfold checked_add_u. rewrite usize_is_u64.
  destruct (N.leb_spec (p + n) u64max) as [H1|H1]; cbn [bind]; [reflexivity|].
  destruct (N.leb_spec n (len (b :: r))); [lia|reflexivity].
Qed.

(** The digit loop with accumulator [n]. *)
Definition digits_spec (p n : N) (rest : list N) : res (list N * N * list N) :=
  let '(ds, r1) := take_digits rest in
  let total := horner n ds in
  if usize_max <? total then Err else
  match r1 with
  | c :: r2 => if c =? 58 then char_spec (p + len ds + 1) total r2 else Err
  | [] => Err
  end.

Lemma str_digits : forall rest f p n, (length rest < f)%nat -> p + len rest <= u64max -> n <= usize_max ->
  str_auto f SDigSep p n rest = digits_spec p n rest.
Proof.
  induction rest as [|b r IH]; intros f p n Hf Hb Hn.
  - destruct f; [cbn in Hf; lia|]. cbn [str_auto]. unfold digits_spec. cbn [take_digits horner].
    destruct (N.ltb_spec usize_max n); [lia|reflexivity].
  - destruct f as [|f]; [cbn in Hf; lia|]. cbn [str_auto]. unfold digits_spec. cbn [take_digits]. rewrite len_cons in Hb.
    destruct (is_digit b) eqn:Ed.
    + destruct (take_digits r) as [ds r1] eqn:Et. cbn [horner]. unfold dval.
      unfold checked_mul_u. destruct (N.leb_spec (n * 10) usize_max) as [H1|H1]; cbn [bind].
      * unfold checked_add_u. destruct (N.leb_spec (n * 10 + (b - 48)) usize_max) as [H2|H2]; cbn [bind].
        -- rewrite add64_ok by lia. cbn [bind]. rewrite IH; [|cbn in Hf; lia|lia|lia].
           unfold digits_spec. rewrite Et. rewrite len_cons.
           replace (p + 1 + len ds + 1) with (p + (len ds + 1) + 1) by lia. reflexivity.
        -- pose proof (horner_ge (n * 10 + (b - 48)) ds). destruct (N.ltb_spec usize_max (horner (n * 10 + (b - 48)) ds)); [reflexivity|lia].
      * pose proof (horner_ge (n * 10 + (b - 48)) ds). destruct (N.ltb_spec usize_max (horner (n * 10 + (b - 48)) ds)); [reflexivity|lia].
    + cbn [horner]. destruct (N.ltb_spec usize_max n); [lia|].
      destruct (N.eqb_spec b 58); [|reflexivity].
      rewrite add64_ok by lia. cbn [bind]. unfold len at 1. cbn [length]. replace (p + N.of_nat 0 + 1) with (p + 1) by lia.
      destruct f; [cbn in Hf; lia|]. apply str_char. lia.
Qed.

Lemma horner_pos n ds : 1 <= n -> 1 <= horner n ds.
Proof. intros Hn. pose proof (horner_ge n ds). lia. Qed.

Lemma str_auto_unfold f st pos n rest :
  str_auto (S f) st pos n rest =
  match rest with
  | [] => Err
  | b :: r =>
    match st with
    | SChar => do e <- checked_add_u pos n;
               if n <=? len rest then Ok (firstn (N.to_nat n) rest, e, skipn (N.to_nat n) rest) else Err
    | SDigSep => if is_digit b then do n1 <- checked_mul_u n 10; do n2 <- checked_add_u n1 (b - 48); do p' <- add64 pos 1; str_auto f SDigSep p' n2 r
                 else if b =? 58 then do p' <- add64 pos 1; str_auto f SChar p' n r else Err
    | SSep => if (b =? 58) && (n =? 0) then do p' <- add64 pos 1; Ok ([], p', r) else Err
    | SFirst => if b =? 48 then do p' <- add64 pos 1; str_auto f SSep p' 0 r
                else if (49 <=? b) && (b <=? 57) then do p' <- add64 pos 1; str_auto f SDigSep p' (b - 48) r else Err
    end
  end.
Proof. reflexivity. Qed.

(** The implementation-level string automaton IS the model's [dec_str]. *)
Theorem dec_str_impl_eq pos rest : pos + len rest <= u64max -> dec_str_impl pos rest = dec_str pos rest.
Proof.
  intros Hb. unfold dec_str_impl, dec_str. rewrite str_auto_unfold. destruct rest as [|b r]; [reflexivity|]. rewrite len_cons in Hb.
  cbn [take_digits].
  destruct (N.eqb_spec b 48) as [->|Hb48].
  - (* leading zero: only "0:" *)
    change (is_digit 48) with true. cbn iota.
    rewrite add64_ok by lia. cbn [bind]. rewrite str_auto_unfold. destruct r as [|c r2].
    + cbn [take_digits canon_b negb horner]. reflexivity.
    + cbn [take_digits]. destruct (is_digit c) eqn:Ec.
      * destruct (take_digits r2) as [ds r1]. cbn [canon_b negb].
        assert (c =? 58 = false) as -> by (unfold is_digit in Ec; lia). reflexivity.
      * cbn [canon_b negb horner]. change (usize_max <? 0 * 10 + dval 48) with false. cbn iota.
        change (0 * 10 + dval 48) with 0. rewrite N.eqb_refl, andb_true_r.
        destruct (N.eqb_spec c 58); [|reflexivity]. rewrite len_cons in Hb. rewrite add64_ok by lia. cbn [bind negb].
        destruct (N.ltb_spec (len r2) 0); [lia|]. cbn [N.to_nat firstn skipn]. unfold len at 1. cbn [length].
        replace (pos + 1 + 1) with (pos + N.of_nat 1 + 1 + 0) by lia. reflexivity.
  - assert (Hne : (b =? 48) = false) by now apply N.eqb_neq.
    destruct (is_digit b) eqn:Ed.
    + assert (H19 : (49 <=? b) && (b <=? 57) = true) by (unfold is_digit in Ed; lia). rewrite H19.
      rewrite add64_ok by lia. cbn [bind].
      rewrite str_digits; [|cbn [length]; lia|lia|unfold is_digit in Ed; unfold usize_max; cbn; lia].
      unfold digits_spec. destruct (take_digits r) as [ds r1]. cbn [canon_b negb horner]. rewrite Hne.
      unfold dval. replace (0 * 10 + (b - 48)) with (b - 48) by lia.
      destruct (usize_max <? horner (b - 48) ds); [reflexivity|].
      destruct r1 as [|c r2]; [reflexivity|]. destruct (c =? 58); cbn [negb]; [|reflexivity].
      assert (Hpos : 1 <= horner (b - 48) ds) by (apply horner_pos; unfold is_digit in Ed; lia).
      unfold char_spec. rewrite len_cons.
      destruct r2 as [|c2 r3].
      * destruct (N.ltb_spec (len (@nil N)) (horner (b - 48) ds)); [reflexivity|unfold len in *; cbn in *; lia].
      * destruct (N.leb_spec (horner (b - 48) ds) (len (c2 :: r3))), (N.ltb_spec (len (c2 :: r3)) (horner (b - 48) ds)); try lia; [|reflexivity].
        replace (pos + 1 + len ds + 1 + horner (b - 48) ds) with (pos + (len ds + 1) + 1 + horner (b - 48) ds) by lia. reflexivity.
    + assert (H19 : (49 <=? b) && (b <=? 57) = false) by (unfold is_digit in Ed; lia). rewrite H19. reflexivity.
Qed.

Theorem dec_str_impl_no_panic pos rest : pos + len rest <= u64max ->
  dec_str_impl pos rest <> Panic /\ dec_str_impl pos rest <> OutOfFuel.
Proof.
  intros Hb. rewrite (dec_str_impl_eq pos rest Hb). unfold dec_str.
  destruct (take_digits rest) as [ds r1]. destruct (negb (canon_b ds)); [split; discriminate|].
  destruct (usize_max <? horner 0 ds); [split; discriminate|]. destruct r1 as [|c r2]; [split; discriminate|].
  destruct (negb (c =? 58)); [split; discriminate|]. destruct (len r2 <? horner 0 ds); split; discriminate.
Qed.

(** ** Integers *)
Local Open Scope Z_scope.

Fixpoint hz (z : Z) (ds : list N) : Z := match ds with [] => z | d :: r => hz (z * 10 + Z.of_N (dval d)) r end.
Fixpoint hzn (z : Z) (ds : list N) : Z := match ds with [] => z | d :: r => hzn (z * 10 - Z.of_N (dval d)) r end.

Lemma hz_horner n ds : hz (Z.of_N n) ds = Z.of_N (horner n ds).
Proof. revert n; induction ds as [|d r IH]; intros n; cbn [hz horner]; [reflexivity|]. rewrite <- IH. f_equal. lia. Qed.
Lemma hzn_neg z ds : hzn (- z) ds = - hz z ds.
Proof. revert z; induction ds as [|d r IH]; intros z; cbn [hz hzn]; [reflexivity|]. rewrite <- IH. f_equal. lia. Qed.
Lemma hz_ge z ds : 0 <= z -> z <= hz z ds.
Proof. revert z; induction ds as [|d r IH]; intros z Hz; cbn [hz]; [lia|]. specialize (IH (z * 10 + Z.of_N (dval d))). lia. Qed.
Lemma hzn_le z ds : z <= 0 -> hzn z ds <= z.
Proof. revert z; induction ds as [|d r IH]; intros z Hz; cbn [hzn]; [lia|]. specialize (IH (z * 10 - Z.of_N (dval d))). lia. Qed.

Lemma i128_facts : i128_min < -9 /\ 9 < i128_max.
Proof. split; vm_compute; reflexivity. Qed.

Lemma chk128_ok z : i128_min <= z <= i128_max -> chk128 z = Ok z.
Proof. intros Hh. unfold chk128. destruct (Z.leb_spec i128_min z), (Z.leb_spec z i128_max); try lia. reflexivity. Qed.
Lemma chk128_hi z : i128_max < z -> chk128 z = Err.
Proof. intros Hh. unfold chk128. destruct (Z.leb_spec z i128_max); [lia|]. now rewrite andb_false_r. Qed.
Lemma chk128_lo z : z < i128_min -> chk128 z = Err.
Proof. intros Hh. unfold chk128. destruct (Z.leb_spec i128_min z); [lia|reflexivity]. Qed.

Definition int_tail (total : Z) (p : N) (ds r1 : list N) : res (Z * N * list N) :=
  match r1 with
  | c :: r2 => if (c =? 101)%N then Ok (total, (p + len ds + 1)%N, r2) else Err
  | [] => Err
  end.

Definition pos_spec (p : N) (z : Z) (rest : list N) : res (Z * N * list N) :=
  let '(ds, r1) := take_digits rest in
  if i128_max <? hz z ds then Err else int_tail (hz z ds) p ds r1.
Definition neg_spec (p : N) (z : Z) (rest : list N) : res (Z * N * list N) :=
  let '(ds, r1) := take_digits rest in
  if hzn z ds <? i128_min then Err else int_tail (hzn z ds) p ds r1.

Lemma digit_val b : is_digit b = true -> 0 <= Z.of_N (b - 48) <= 9.
Proof. unfold is_digit. lia. Qed.

Lemma int_pos_loop : forall rest f p z, (length rest < f)%nat -> (p + len rest <= u64max)%N -> 0 <= z <= i128_max ->
  int_auto f IDigit p z rest = pos_spec p z rest.
Proof.
  pose proof i128_facts as [Hmin Hmax].
  induction rest as [|b r IH]; intros f p z Hf Hb Hz.
  - destruct f; [cbn in Hf; lia|]. cbn [int_auto]. unfold pos_spec. cbn [take_digits hz int_tail].
    destruct (Z.ltb_spec i128_max z); [lia|reflexivity].
  - destruct f as [|f]; [cbn in Hf; lia|]. cbn [int_auto]. unfold pos_spec. cbn [take_digits]. rewrite len_cons in Hb.
    destruct (is_digit b) eqn:Ed.
    + pose proof (digit_val b Ed) as Hd. destruct (take_digits r) as [ds r1] eqn:Et. cbn [hz]. unfold dval.
      destruct (Z_le_gt_dec (z * 10) i128_max) as [H1|H1].
      * rewrite (chk128_ok (z * 10)) by lia. cbn [bind].
        destruct (Z_le_gt_dec (z * 10 + Z.of_N (b - 48)) i128_max) as [H2|H2].
        -- rewrite chk128_ok by lia. cbn [bind]. rewrite add64_ok by lia. cbn [bind].
           rewrite IH; [|cbn in Hf; lia|lia|lia]. unfold pos_spec. rewrite Et.
           destruct (i128_max <? hz (z * 10 + Z.of_N (b - 48)) ds); [reflexivity|].
           unfold int_tail. rewrite len_cons. destruct r1 as [|c r2]; [reflexivity|].
           replace (p + 1 + len ds + 1)%N with (p + (len ds + 1) + 1)%N by lia. reflexivity.
        -- rewrite chk128_hi by lia. cbn [bind].
           pose proof (hz_ge (z * 10 + Z.of_N (b - 48)) ds ltac:(lia)). destruct (Z.ltb_spec i128_max (hz (z * 10 + Z.of_N (b - 48)) ds)); [reflexivity|lia].
      * rewrite chk128_hi by lia. cbn [bind].
        pose proof (hz_ge (z * 10 + Z.of_N (b - 48)) ds ltac:(lia)). destruct (Z.ltb_spec i128_max (hz (z * 10 + Z.of_N (b - 48)) ds)); [reflexivity|lia].
    + cbn [hz]. destruct (Z.ltb_spec i128_max z); [lia|]. unfold int_tail.
      destruct (N.eqb_spec b 101); [|reflexivity]. rewrite add64_ok by lia. cbn [bind]. unfold len at 1. cbn [length].
      replace (p + N.of_nat 0 + 1)%N with (p + 1)%N by lia. reflexivity.
Qed.

Lemma int_neg_loop : forall rest f p z, (length rest < f)%nat -> (p + len rest <= u64max)%N -> i128_min <= z <= 0 ->
  int_auto f INeg p z rest = neg_spec p z rest.
Proof.
  pose proof i128_facts as [Hmin Hmax].
  induction rest as [|b r IH]; intros f p z Hf Hb Hz.
  - destruct f; [cbn in Hf; lia|]. cbn [int_auto]. unfold neg_spec. cbn [take_digits hzn int_tail].
    destruct (Z.ltb_spec z i128_min); [lia|reflexivity].
  - destruct f as [|f]; [cbn in Hf; lia|]. cbn [int_auto]. unfold neg_spec. cbn [take_digits]. rewrite len_cons in Hb.
    destruct (is_digit b) eqn:Ed.
    + pose proof (digit_val b Ed) as Hd. destruct (take_digits r) as [ds r1] eqn:Et. cbn [hzn]. unfold dval.
      destruct (Z_le_gt_dec i128_min (z * 10)) as [H1|H1].
      * rewrite (chk128_ok (z * 10)) by lia. cbn [bind].
        destruct (Z_le_gt_dec i128_min (z * 10 - Z.of_N (b - 48))) as [H2|H2].
        -- rewrite chk128_ok by lia. cbn [bind]. rewrite add64_ok by lia. cbn [bind].
           rewrite IH; [|cbn in Hf; lia|lia|lia]. unfold neg_spec. rewrite Et.
           destruct (hzn (z * 10 - Z.of_N (b - 48)) ds <? i128_min); [reflexivity|].
           unfold int_tail. rewrite len_cons. destruct r1 as [|c r2]; [reflexivity|].
           replace (p + 1 + len ds + 1)%N with (p + (len ds + 1) + 1)%N by lia. reflexivity.
        -- rewrite chk128_lo by lia. cbn [bind].
           pose proof (hzn_le (z * 10 - Z.of_N (b - 48)) ds ltac:(lia)). destruct (Z.ltb_spec (hzn (z * 10 - Z.of_N (b - 48)) ds) i128_min); [reflexivity|lia].
      * rewrite chk128_lo by lia. cbn [bind].
        pose proof (hzn_le (z * 10 - Z.of_N (b - 48)) ds ltac:(lia)). destruct (Z.ltb_spec (hzn (z * 10 - Z.of_N (b - 48)) ds) i128_min); [reflexivity|lia].
    + cbn [hzn]. destruct (Z.ltb_spec z i128_min); [lia|]. unfold int_tail.
      destruct (N.eqb_spec b 101); [|reflexivity]. rewrite add64_ok by lia. cbn [bind]. unfold len at 1. cbn [length].
      replace (p + N.of_nat 0 + 1)%N with (p + 1)%N by lia. reflexivity.
Qed.

Lemma int_auto_unfold f st pos z rest :
  int_auto (S f) st pos z rest =
  match rest with
  | [] => Err
  | b :: r =>
    match st with
    | IDigit => if is_digit b then do m <- chk128 (z * 10); do z' <- chk128 (m + Z.of_N (b - 48)); do p' <- add64 pos 1; int_auto f IDigit p' z' r
                else if (b =? 101)%N then do p' <- add64 pos 1; Ok (z, p', r) else Err
    | INeg => if is_digit b then do m <- chk128 (z * 10); do z' <- chk128 (m - Z.of_N (b - 48)); do p' <- add64 pos 1; int_auto f INeg p' z' r
              else if (b =? 101)%N then do p' <- add64 pos 1; Ok (z, p', r) else Err
    | INonZero => if ((49 <=? b) && (b <=? 57))%N then do p' <- add64 pos 1; int_auto f INeg p' (- Z.of_N (b - 48)) r else Err
    | IStop => if (b =? 101)%N then do p' <- add64 pos 1; Ok (z, p', r) else Err
    | IFirst => if ((49 <=? b) && (b <=? 57))%N then do p' <- add64 pos 1; int_auto f IDigit p' (Z.of_N (b - 48)) r
                else if (b =? 48)%N then do p' <- add64 pos 1; int_auto f IStop p' 0 r
                else if (b =? 45)%N then do p' <- add64 pos 1; int_auto f INonZero p' z r
                else Err
    | IStart => if (b =? 105)%N then do p' <- add64 pos 1; int_auto f IFirst p' z r else Err
    end
  end.
Proof. reflexivity. Qed.

Lemma take_digits_nondigit b r : is_digit b = false -> take_digits (b :: r) = ([], b :: r).
Proof. intros Hd. cbn [take_digits]. now rewrite Hd. Qed.

(** The implementation-level integer automaton IS the model's [dec_int]. *)
Theorem dec_int_impl_eq pos rest : (pos + len rest <= u64max)%N -> dec_int_impl pos rest = dec_int pos rest.
Proof.
  pose proof i128_facts as [Hmin Hmax].
  intros Hb. unfold dec_int_impl, dec_int. rewrite int_auto_unfold. destruct rest as [|c0 r0]; [reflexivity|]. rewrite len_cons in Hb.
  destruct (N.eqb_spec c0 105) as [->|]; cbn [negb]; [|reflexivity].
  rewrite add64_ok by lia. cbn [bind]. rewrite int_auto_unfold.
  destruct r0 as [|c r]; [reflexivity|]. rewrite len_cons in Hb.
  destruct (((49 <=? c) && (c <=? 57))%N) eqn:E19.
  - (* positive *)
    assert (Hd : is_digit c = true) by (unfold is_digit; lia). assert (H45 : (c =? 45)%N = false) by lia. rewrite H45.
    rewrite add64_ok by lia. cbn [bind]. rewrite int_pos_loop; [|cbn [length]; lia|lia|lia].
    unfold pos_spec. cbn [take_digits]. rewrite Hd. destruct (take_digits r) as [ds r1]. cbn [canon_b].
    assert (H48 : (c =? 48)%N = false) by lia. rewrite H48. cbn [negb andb horner].
    replace (Z.of_N (c - 48)) with (Z.of_N (0 * 10 + dval c)) by (unfold dval; lia). rewrite hz_horner.
    set (m := horner (0 * 10 + dval c) ds).
    assert (Hlo : (Z.of_N m <? i128_min) = false) by lia. rewrite Hlo. cbn [orb].
    destruct (i128_max <? Z.of_N m); [reflexivity|]. unfold int_tail. rewrite len_cons.
    destruct r1 as [|c' r3]; [reflexivity|].
    replace (pos + 1 + 1 + len ds + 1)%N with (pos + 1 + 0 + (len ds + 1) + 1)%N by lia. reflexivity.
  - destruct (N.eqb_spec c 48) as [->|H48].
    + (* zero *)
      cbn [N.eqb]. change ((48 =? 45)%N) with false. cbn iota.
      rewrite add64_ok by lia. cbn [bind length]. rewrite int_auto_unfold. cbn [take_digits]. change (is_digit 48) with true. cbn iota.
      destruct r as [|c' r3].
      * cbn [take_digits canon_b negb andb horner]. reflexivity.
      * cbn [take_digits]. destruct (is_digit c') eqn:Ed'.
        -- destruct (take_digits r3) as [ds r1]. cbn [canon_b negb]. assert ((c' =? 101)%N = false) as -> by (unfold is_digit in Ed'; lia). reflexivity.
        -- cbn [canon_b negb andb horner]. change (Z.of_N (0 * 10 + dval 48)) with 0.
           assert (Hr : ((0 <? i128_min) || (i128_max <? 0)) = false) by lia. rewrite Hr.
           destruct (N.eqb_spec c' 101); [|reflexivity]. rewrite len_cons in Hb. rewrite add64_ok by lia. cbn [bind].
           unfold len. cbn [length]. replace (pos + 1 + 1 + 1)%N with (pos + 1 + 0 + N.of_nat 1 + 1)%N by lia. reflexivity.
    + destruct (N.eqb_spec c 45) as [->|H45].
      * (* negative *)
        rewrite add64_ok by lia. cbn [bind length]. rewrite int_auto_unfold. destruct r as [|c' r'].
        -- cbn [take_digits canon_b negb]. reflexivity.
        -- rewrite len_cons in Hb. destruct (((49 <=? c') && (c' <=? 57))%N) eqn:E19'.
           ++ assert (Hd : is_digit c' = true) by (unfold is_digit; lia).
              rewrite add64_ok by lia. cbn [bind]. rewrite int_neg_loop; [|cbn [length]; lia|lia|lia].
              unfold neg_spec. cbn [take_digits]. rewrite Hd. destruct (take_digits r') as [ds r1]. cbn [canon_b].
              assert (H48' : (c' =? 48)%N = false) by lia. rewrite H48'. cbn [negb horner].
              replace (- Z.of_N (c' - 48)) with (- Z.of_N (0 * 10 + dval c')) by (unfold dval; lia). rewrite hzn_neg, hz_horner.
              set (m := horner (0 * 10 + dval c') ds).
              assert (Hm : (1 <= m)%N) by (subst m; apply horner_pos; unfold dval; lia).
              assert (Hm0 : (m =? 0)%N = false) by lia. rewrite Hm0. cbn [andb].
              assert (Hhi : (i128_max <? - Z.of_N m) = false) by lia. rewrite Hhi, orb_false_r.
              destruct (- Z.of_N m <? i128_min); [reflexivity|]. unfold int_tail. rewrite len_cons.
              destruct r1 as [|c'' r3]; [reflexivity|].
              replace (pos + 1 + 1 + 1 + len ds + 1)%N with (pos + 1 + 1 + (len ds + 1) + 1)%N by lia. reflexivity.
           ++ (* "-0..." or "-x": refused *)
              cbn [take_digits]. destruct (is_digit c') eqn:Ed'.
              ** assert (c' = 48%N) by (unfold is_digit in Ed'; lia). subst c'. destruct (take_digits r') as [ds r1]. cbn [canon_b].
                 destruct ds as [|d ds']; cbn [negb horner]; [|reflexivity]. change ((0 * 10 + dval 48 =? 0)%N) with true. reflexivity.
              ** cbn [canon_b negb]. reflexivity.
      * (* anything else *)
        assert (Hd : is_digit c = false) by (unfold is_digit; lia).
        assert (H45' : (c =? 45)%N = false) by lia. rewrite ?H45'. rewrite (take_digits_nondigit c r Hd). cbn [canon_b negb]. reflexivity.
Qed.

Theorem dec_int_impl_no_panic pos rest : (pos + len rest <= u64max)%N ->
  dec_int_impl pos rest <> Panic /\ dec_int_impl pos rest <> OutOfFuel.
Proof.
  intros Hb. rewrite (dec_int_impl_eq pos rest Hb). unfold dec_int.
  destruct rest as [|c0 r0]; [split; discriminate|]. destruct (negb (c0 =? 105)%N); [split; discriminate|].
  destruct (match r0 with [] => (false, r0) | c :: r => if (c =? 45)%N then (true, r) else (false, r0) end) as [neg r1].
  destruct (take_digits r1) as [ds r2]. destruct (negb (canon_b ds)); [split; discriminate|].
  destruct (neg && (horner 0 ds =? 0)%N); [split; discriminate|].
  destruct ((_ <? i128_min) || (i128_max <? _)); [split; discriminate|].
  destruct r2 as [|c r3]; [split; discriminate|]. destruct (c =? 101)%N; split; discriminate.
Qed.
