(** C14 - resize pre-flight: short files zero-extended; any over-long file aborts first.  Statements only.
    The pre-flight is evaluated against an arbitrary answer function [ans] for the probes. *)
From TB Require Import Base Decimal BencodeModel TorrentModel TorrentProofs PathModel FsModel SolverModel FinderModel RunModel
                       SolverProofs RunProofs FsProofs FaultProofs PreludeProofs TableProofs Generated GeneratedObligations SystemModel SystemProofs GlueProofs PropertyLemmas SearchProofs FinderProofs SystemModel SystemProofs EstablishProofs CompleteProofs RerunProofs AvailProofs.
Local Open Scope N_scope.

(** If any existing non-padding export file is longer than declared - wherever it sits in the list -
    the pre-flight fails having issued no mutating operation at all. *)
Theorem C14_overlong_aborts_before_any_change ans mutok es k e n id :
  In e es -> e_pad e = false -> ans (e_target e) w1 = PFile n id -> e_len e < n ->
  run_prelude ans mutok (resize_prog es k) = ([], Some Fault).
Proof. exact (resize_abort_no_mutation ans mutok es k e n id). Qed.

(** Otherwise the second pass extends exactly the existing shorter files, each to exactly its
    declared length, in list order, and then continues. *)
Theorem C14_extends_exactly_the_shorter_files ans mutok es k : (forall o, mutok o = true) -> pass2_clean ans es ->
  fst (run_prelude ans mutok (resize_pass2 es k)) = expected_extensions ans es ++ fst (run_prelude ans mutok k) /\
  snd (run_prelude ans mutok (resize_pass2 es k)) = snd (run_prelude ans mutok k).
Proof. exact (resize_extends_exactly ans mutok es k). Qed.

(** [set_len] extends with zeros and keeps the existing bytes. *)
Theorem C14_extension_keeps_bytes b n : (length b <= n)%nat -> resize b n = b ++ repeat 0 (n - length b).
Proof. exact (extension_keeps_bytes b n). Qed.

(** Without the flag the prelude issues no mutating operation; lengths then change only through
    a piece's [SetLen declared], which a piece issues only after its hash matched (C01). *)
Theorem C14_no_flag_no_prelude_change ans mutok scans export es k : (forall a, fst (run_prelude ans mutok (k a)) = []) ->
  fst (run_prelude ans mutok (prelude_prog scans export false es k)) = [].
Proof. exact (noresize_prelude_no_ops ans mutok scans export es k). Qed.

(** The pre-flight opens: probe pass read-only, second pass read-write without create/truncate. *)
Theorem C14_open_modes : w1 = false /\ w2 = true /\ of_create resize_fix_open = false /\ of_truncate resize_fix_open = false.
Proof. repeat split; reflexivity. Qed.

(** WHOLE START.  Whatever the probes of the prelude answer and whichever of its operations fail,
    the operations that reach the file system are [set_len target declared] on export images;
    hence the whole-run invariant, stated relative to the file system as it was BEFORE the run
    (existing bytes kept, zeros appended, nothing else touched), holds when scanning starts and in
    every reachable state of the scanning phase that follows. *)
Theorem C14_whole_start_safe H content export ts ix es ws fi ans mutok scans uexport rz applied pool0 s :
  run_setup H content export ts ix es ws fi pool0 ->
  incl applied (fst (run_prelude ans mutok (prelude_prog scans uexport rz (metadata_table export ts 0) (fun _ => Ret Success)))) ->
  sreach {| s_fs := apply_ops fi applied; s_pool := pool0 |} s ->
  SI content es fi (s_fs s) /\ Forall (pgood content es) (s_pool s).
Proof. exact (whole_start_safe H content export ts ix es ws fi ans mutok scans uexport rz applied pool0 s). Qed.

Theorem C14_prelude_only_sets_declared_lengths ans mutok scans export rz es k o : (forall a, fst (run_prelude ans mutok (k a)) = []) ->
  In o (fst (run_prelude ans mutok (prelude_prog scans export rz es k))) ->
  exists e, In e es /\ e_pad e = false /\ o = SetLen (e_target e) (e_len e).
Proof. exact (prelude_ops_shape ans mutok scans export rz es k o). Qed.

(** "... and then counts as a source": after the pre-flight's [SetLen target declared] on a shorter
    export file, the bytes of a segment that were there are still there and the file has exactly the
    declared length, so the segment is [present] (AvailProofs) at the file's own export location in
    the state the scanning starts from - and C02_present_means_recovered applies to it. *)
Theorem C14_extended_file_counts_as_source content f under es0 e s i f' :
  In e es0 -> e_pad e = false -> e_len e = e_len (ps_entry s) ->
  fs_lookup f (e_target e) = Some (NFile i) -> (length (fs_content f i) <= N.to_nat (e_len e))%nat ->
  (N.to_nat (ps_off s) + N.to_nat (ps_len s) <= length (fs_content f i))%nat ->
  firstn (N.to_nat (ps_len s)) (skipn (N.to_nat (ps_off s)) (fs_content f i)) = seg_bytes content s ->
  apply_op f (SetLen (e_target e) (e_len e)) = (f', true) ->
  present content f' under es0 s (e_target e) i.
Proof. exact (extended_export_file_is_present content f under es0 e s i f'). Qed.

Print Assumptions C14_overlong_aborts_before_any_change.
Print Assumptions C14_extends_exactly_the_shorter_files.
Print Assumptions C14_extension_keeps_bytes.
Print Assumptions C14_no_flag_no_prelude_change.
Print Assumptions C14_open_modes.
Print Assumptions C14_whole_start_safe.
Print Assumptions C14_prelude_only_sets_declared_lengths.
Print Assumptions C14_extended_file_counts_as_source.
