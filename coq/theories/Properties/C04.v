(** C04 - already-verified export data is never rewritten, damaged or lost across runs.  Statements only. *)
From TB Require Import Base Decimal BencodeModel TorrentModel TorrentProofs PathModel FsModel SolverModel FinderModel RunModel
                       SolverProofs RunProofs FsProofs FaultProofs PreludeProofs TableProofs FinderProofs SearchProofs PresentProofs Generated GeneratedObligations SystemModel SystemProofs GlueProofs RunExample RerunProofs.
From Coq Require Import Permutation Sorted.
Local Open Scope N_scope.

(** The export location, when registered for its own entry, is the FIRST candidate - ranking puts
    the exact path first and hard-link pruning keeps the first occurrence - whatever the iteration
    order of the hash map. *)
Theorem C04_export_file_is_first_candidate ix e ns id l :
  e_pad e = false -> nodes_of ix (e_len e) = Some ns -> NoDup (map fst ns) -> In (e_target e, id) ns ->
  searches_for ix e = Ok (Some l) -> exists rest, l = e_target e :: rest.
Proof. exact (export_first ix e ns id l). Qed.

(** A piece that verifies in the export tree (every non-padding segment's first candidate is its
    own export file and that file holds the torrent's bytes there) succeeds without issuing a
    single mutating operation: the all-first combination is tried first, matches, and the writer
    skips every segment whose source is its own target. *)
Theorem C04_verified_multi_piece_not_written H content ans pc c : cache_of ans (w_segs pc) = Some c -> w_segs pc <> [] ->
  wf_segs content (w_segs pc) ->
  Forall target_first (w_segs pc) -> Forall (target_holds content ans) (w_segs pc) -> Forall (pad_zero content) (w_segs pc) ->
  H (piece_bytes content pc) = w_hash pc ->
  eval ans (multi_prog H pc) = ([], Success).
Proof. exact (multi_verified_not_written H content ans pc c). Qed.

Theorem C04_verified_single_piece_not_written H content ans pc s rest : w_segs pc = [s] -> e_pad (ps_entry s) = false ->
  ps_off s + ps_len s <= N.of_nat (length (content (ps_entry s))) ->
  ans (e_target (ps_entry s)) (ps_off s) (ps_len s) = Some (seg_bytes content s) ->
  H (piece_bytes content pc) = w_hash pc ->
  eval ans (single_prog H pc s (e_target (ps_entry s) :: rest)) = ([], Success).
Proof. exact (single_verified_not_written H content ans pc s rest). Qed.

(** Whatever else a run (or any sequence of runs, complete, faulty or interrupted) does, a byte
    range that holds the torrent's bytes keeps holding them under every admissible operation:
    writes only put content, set_len to the declared length never cuts a range inside it, files are
    never opened with truncate.  So the set of verifying pieces only grows. *)
Theorem C04_verified_ranges_preserved truth decl f0 ops f1 j lo hi : run_ops (adm truth decl) f0 ops f1 -> (hi <= decl j)%nat ->
  holds (truth j) (fs_content f0 j) lo hi -> holds (truth j) (fs_content f1 j) lo hi.
Proof. exact (fs_ops_preserve_verified truth decl f0 ops f1 j lo hi). Qed.

(** No truncation on open, at any of the write-mode call sites (re-extracted from the source). *)
Theorem C04_never_truncates : of_truncate writer_open = false /\ of_truncate resize_fix_open = false.
Proof. split; reflexivity. Qed.

(** WHOLE RUN: a byte range of an export image that held the torrent's bytes when scanning started
    holds them in every reachable state - whatever the interleaving, the faults, the crash point -
    hence after any sequence of runs: the set of verifying pieces only grows. *)
Theorem C04_whole_run_verified_preserved H content export ts ix es ws f0 pool0 s e i lo hi :
  run_setup H content export ts ix es ws f0 pool0 -> sreach {| s_fs := f0; s_pool := pool0 |} s ->
  owner es (s_fs s) i e -> (hi <= N.to_nat (e_len e))%nat ->
  holds (content e) (fs_content f0 i) lo hi -> holds (content e) (fs_content (s_fs s) i) lo hi.
Proof. exact (whole_run_verified_preserved H content export ts ix es ws f0 pool0 s e i lo hi). Qed.

(** ACROSS RUNS.  [runs content e f0 f]: any sequence of runs leads from [f0] to [f]; each run has its
    own table [es] (other torrents, scan sets, flags, thread counts - all of which only shape the
    table and the pool), relates its first to its last state by the whole-run invariant [SI]
    (C11_every_interrupted_state_sound: complete, faulted or killed), and either has the entry in its
    table or owns no path of the entry's inode.  A range of [e]'s export file that verified at the
    beginning verifies at the end: the set of verifying pieces only grows. *)
Theorem C04_verified_set_only_grows content e lo hi f0 f : (hi <= N.to_nat (e_len e))%nat ->
  runs content e f0 f -> in_place content f0 e lo hi -> in_place content f e lo hi.
Proof. exact (runs_keep_in_place content e lo hi f0 f). Qed.

Print Assumptions C04_export_file_is_first_candidate.
Print Assumptions C04_verified_multi_piece_not_written.
Print Assumptions C04_verified_single_piece_not_written.
Print Assumptions C04_verified_ranges_preserved.
Print Assumptions C04_never_truncates.
Print Assumptions C04_whole_run_verified_preserved.
Print Assumptions C04_verified_set_only_grows.
