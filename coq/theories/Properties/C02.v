(** C02 - every piece whose data is present on disk is recovered into the export tree.
    Statements only.  Hypotheses of the statement: the run is fault-free (every candidate read
    answers) and the witnesses stay in place (scan files are never written - C03; a torrent's own
    export files only ever receive correct bytes - C01). *)
From TB Require Import IndexModel IndexBuild AvailProofs.
From TB Require Import Base Decimal BencodeModel TorrentModel TorrentProofs PathModel FsModel SolverModel FinderModel RunModel
                       SolverProofs RunProofs FsProofs FaultProofs PreludeProofs TableProofs FinderProofs SearchProofs PresentProofs Generated GeneratedObligations SystemModel SystemProofs GlueProofs EstablishProofs CompleteProofs RunExample RerunProofs AvailProofs TerminationProofs WholeRunProofs.
From Coq Require Import Permutation Sorted.
Local Open Scope N_scope.

(** Index: every registered file of the declared length is represented in the candidate list -
    by itself or by another name of the same inode (hard-link pruning keeps one path per inode) -
    whatever iteration order the hash map had; and the list contains registered files only. *)
Theorem C02_candidates_complete ix e ns p id l :
  e_pad e = false -> nodes_of ix (e_len e) = Some ns -> In (p, id) ns ->
  searches_for ix e = Ok (Some l) -> exists p', In p' l /\ In (p', id) ns.
Proof. exact (searches_complete ix e ns p id l). Qed.

Theorem C02_candidates_sound ix e ns l p :
  e_pad e = false -> nodes_of ix (e_len e) = Some ns -> searches_for ix e = Ok (Some l) -> In p l -> exists id, In (p, id) ns.
Proof. exact (searches_sound ix e ns l p). Qed.

(** Per segment, content de-duplication keeps a representative of every distinct byte string read:
    if every segment has some readable candidate holding the torrent's bytes (padding = zeros,
    empty segments need nothing), a combination yielding the piece's bytes exists in the cache. *)
Theorem C02_witnesses_give_combination content ans segs c : cache_of ans segs = Some c ->
  Forall (fun s => e_pad (ps_entry s) = false -> ps_len s <> 0 ->
            exists cands w, e_searches (ps_entry s) = Some cands /\ In w cands /\ ans w (ps_off s) (ps_len s) = Some (seg_bytes content s)) segs ->
  Forall (pad_zero content) segs ->
  exists combo, picks combo c /\ map snd combo = map (seg_bytes content) segs.
Proof. exact (witnesses_give_combo content ans segs c). Qed.

(** The combination search is exhaustive: if some combination hashes to the piece hash, one is found. *)
Theorem C02_search_exhaustive H hash c pre combo : picks combo c ->
  beq (H (concat (map snd (pre ++ combo)))) hash = true -> find_combo H hash c pre <> None.
Proof. exact (find_combo_complete H hash c pre combo). Qed.

(** Hence a multi-file piece whose data is available succeeds, and every non-padding segment that
    is not sourced from its own export file is written: create directories, open (no truncate),
    set the declared length, write the torrent's bytes of the segment at the segment's offset. *)
Theorem C02_available_piece_recovered H content ans pc c combo : cache_of ans (w_segs pc) = Some c -> w_segs pc <> [] ->
  wf_segs content (w_segs pc) -> cr H content pc -> picks combo c -> map snd combo = map (seg_bytes content) (w_segs pc) ->
  H (piece_bytes content pc) = w_hash pc ->
  exists srcs, length srcs = length (w_segs pc) /\
    eval ans (multi_prog H pc) = (concat (map (fun ss => seg_ops content (fst ss) (snd ss)) (combine (w_segs pc) srcs)), Success).
Proof. exact (multi_available_success H content ans pc c combo). Qed.

(** A piece is rejected only when some non-padding, non-empty segment has no same-length candidate. *)
Theorem C02_rejection_only_without_candidates pc : rejected pc = false -> Forall has_candidates (w_segs pc).
Proof. exact (rejected_false pc). Qed.

(** WHOLE RUN.  In a fault-free run of the system - any interleaving of the workers - all of whose
    states keep the piece available and unobstructed ([avail]: every non-padding positive-length
    segment has its candidate list, every candidate is readable, the witness candidate [wit s] holds
    the torrent's bytes of the segment, no regular file lies on the way to an export file and no
    directory sits where it goes), when the evaluation of the piece has returned it has returned
    [Success], and every non-padding segment of the piece is in place in the export tree.
    Premises about the piece: the side conditions the work list guarantees (C01_every_work_piece_good),
    collision-freeness, the torrent's hash is the hash of the content, padding is zeros. *)
Theorem C02_available_means_recovered H content es pc wit s s' i o :
  table_functional content es -> wf_piece content pc -> Forall (fun sg => In (ps_entry sg) es) (w_segs pc) ->
  cr H content pc -> H (piece_bytes content pc) = w_hash pc -> Forall (pad_zero content) (w_segs pc) ->
  w_segs pc <> [] -> (forall sg, w_segs pc = [sg] -> ps_len sg <> 0) ->
  alias_free content es (s_fs s) -> Forall (pgood content es) (s_pool s) ->
  nth_error (s_pool s) i = Some (solve_prog H pc) -> freachA content pc wit s s' -> nth_error (s_pool s') i = Some (Ret o) ->
  o = Success /\ forall sg, In sg (w_segs pc) -> e_pad (ps_entry sg) = false -> holds_seg content (s_fs s') sg.
Proof. exact (fun Hfun Hwf Hall Hcr Hhash Hpadz Hne Hone => available_means_recovered H content es Hfun pc Hwf Hall Hcr Hhash Hpadz Hne Hone wit s s' i o). Qed.

(** Non-vacuity: a fault-free run of the example of C01 all of whose states keep the piece available. *)
Example C02_available_run_exists :
  exists s, freachA ex_content ex_pc ex_wit {| s_fs := ex_f0; s_pool := ex_pool |} s /\ nth_error (s_pool s) 0 = Some (Ret Success).
Proof. exact ex_freachA. Qed.

(** ... and "remains so during the run" need not be assumed when the sources cannot be damaged by
    the run itself: [avail_stable] asks, at the START only, that each witness candidate is a file no
    export path of the table names, or an export image whose bytes at that range already verify for
    its own entry, and that the table wants no file where a directory is needed (nor the converse).
    Then every state of the run is available (RerunProofs.stable_SI), and the piece is recovered. *)
Theorem C02_stably_available_means_recovered H content es pc wit s s' i o :
  table_functional content es -> wf_piece content pc -> Forall (fun sg => In (ps_entry sg) es) (w_segs pc) ->
  cr H content pc -> H (piece_bytes content pc) = w_hash pc -> Forall (pad_zero content) (w_segs pc) ->
  w_segs pc <> [] -> (forall sg, w_segs pc = [sg] -> ps_len sg <> 0) ->
  alias_free content es (s_fs s) -> Forall (pgood content es) (s_pool s) -> avail_stable content es pc wit (s_fs s) ->
  nth_error (s_pool s) i = Some (solve_prog H pc) -> freach s s' -> nth_error (s_pool s') i = Some (Ret o) ->
  o = Success /\ forall sg, In sg (w_segs pc) -> e_pad (ps_entry sg) = false -> holds_seg content (s_fs s') sg.
Proof. exact (fun Hfun Hwf Hall Hcr Hhash Hpadz Hne Hone => stable_available_means_recovered H content es Hfun pc Hwf Hall Hcr Hhash Hpadz Hne Hone wit s s' i o). Qed.

Theorem C02_stable_availability_is_invariant content es pc wit f0 f :
  SI content es f0 f -> avail_stable content es pc wit f0 -> avail_stable content es pc wit f.
Proof. exact (stable_SI content es pc wit f0 f). Qed.

Example C02_stably_available_somewhere : avail_stable ex_content ex_es ex_pc ex_wit ex_f0.
Proof. exact ex_stable. Qed.

(** C02 AS STATED.  [ix_of_fs]: the index holds exactly what gets registered in the start state (files
    under a scan directory whose length is a declared length; export locations of table entries that
    are regular files of exactly the declared length) - the set the trace validator compares with the
    index the implementation built.  [seg_present_stable]: each non-padding segment has nothing in the
    way of its export path and, if it has bytes, is present at its torrent offset in some regular
    file of exactly the declared file length, under a scan directory or at the export location of a
    table entry, which the run cannot damage ([src_stable]).  Then, in a fault-free run, the piece's
    evaluation returns [Success] and every segment is in place - whatever the hash map's order,
    whichever hard link the pruning kept, whatever other candidates exist, whatever the interleaving. *)
Theorem C02_present_means_recovered H content es0 ix es dev under pc s s' i o :
  table_functional content es -> wf_piece content pc -> Forall (fun sg => In (ps_entry sg) es) (w_segs pc) ->
  cr H content pc -> H (piece_bytes content pc) = w_hash pc -> Forall (pad_zero content) (w_segs pc) ->
  w_segs pc <> [] -> (forall sg, w_segs pc = [sg] -> ps_len sg <> 0) ->
  populate ix es0 = Ok es -> ix_of_fs (s_fs s) dev under es0 ix ->
  Forall (seg_present_stable content (s_fs s) under es0 es) (w_segs pc) ->
  alias_free content es (s_fs s) -> Forall (pgood content es) (s_pool s) ->
  nth_error (s_pool s) i = Some (solve_prog H pc) -> freach s s' -> nth_error (s_pool s') i = Some (Ret o) ->
  o = Success /\ forall sg, In sg (w_segs pc) -> e_pad (ps_entry sg) = false -> holds_seg content (s_fs s') sg.
Proof. exact (present_means_recovered H content es0 ix es dev under pc s s' i o). Qed.

Example C02_present_somewhere : ix_of_fs ex_f0 0 ex_under ex_es0 ex_ix /\
  Forall (seg_present_stable ex_content ex_f0 ex_under ex_es0 ex_es) (w_segs ex_pc).
Proof. exact (conj ex_ix_of_fs ex_present). Qed.

(** TOTAL form: complete fault-free runs exist, and EVERY complete run - under every interleaving
    with the other pieces' evaluations - ends with this piece returned [Success] and in place. *)
Theorem C02_present_piece_recovered_in_every_complete_run H content es0 ix es dev under pc s i :
  table_functional content es -> wf_piece content pc -> Forall (fun sg => In (ps_entry sg) es) (w_segs pc) ->
  cr H content pc -> H (piece_bytes content pc) = w_hash pc -> Forall (pad_zero content) (w_segs pc) ->
  w_segs pc <> [] -> (forall sg, w_segs pc = [sg] -> ps_len sg <> 0) ->
  populate ix es0 = Ok es -> ix_of_fs (s_fs s) dev under es0 ix ->
  Forall (seg_present_stable content (s_fs s) under es0 es) (w_segs pc) ->
  alias_free content es (s_fs s) -> Forall (pgood content es) (s_pool s) ->
  nth_error (s_pool s) i = Some (solve_prog H pc) ->
  (exists s', freach s s' /\ finished s') /\
  (forall s', freach s s' -> finished s' ->
     nth_error (s_pool s') i = Some (Ret Success) /\
     forall sg, In sg (w_segs pc) -> e_pad (ps_entry sg) = false -> holds_seg content (s_fs s') sg).
Proof. exact (present_piece_is_recovered_in_every_complete_run H content es0 ix es dev under pc s i). Qed.

(** END TO END: for a run of loadable torrents ([run_setup]: table and work list built by the model's
    [metadata_table], [populate], [work_of] from what the loader returned) every side condition about
    the piece is discharged; what remains is about the world. *)
Theorem C02_whole_run_present_piece_recovered H content export ts ix es ws f0 dev under i pc :
  run_setup H content export ts ix es ws f0 (map (solve_prog H) ws) ->
  nth_error ws i = Some pc ->
  H (piece_bytes content pc) = w_hash pc -> Forall (pad_zero content) (w_segs pc) ->
  ix_of_fs f0 dev under (metadata_table export ts 0) ix ->
  Forall (seg_present_stable content f0 under (metadata_table export ts 0) es) (w_segs pc) ->
  let s0 := {| s_fs := f0; s_pool := map (solve_prog H) ws |} in
  (exists s', freach s0 s' /\ finished s') /\
  (forall s', freach s0 s' -> finished s' ->
     nth_error (s_pool s') i = Some (Ret Success) /\
     forall sg, In sg (w_segs pc) -> e_pad (ps_entry sg) = false -> holds_seg content (s_fs s') sg).
Proof. exact (whole_run_present_piece_recovered H content export ts ix es ws f0 dev under i pc). Qed.

Example C02_whole_run_premises_hold :
  run_setup Hid ex_content ex_export [ex_t] ex_ix ex_es ex_ws ex_f0 (map (solve_prog Hid) ex_ws) /\
  nth_error ex_ws 0 = Some ex_pc /\ Hid (piece_bytes ex_content ex_pc) = w_hash ex_pc /\ Forall (pad_zero ex_content) (w_segs ex_pc) /\
  ix_of_fs ex_f0 0 ex_under (metadata_table ex_export [ex_t] 0) ex_ix /\
  Forall (seg_present_stable ex_content ex_f0 ex_under (metadata_table ex_export [ex_t] 0) ex_es) (w_segs ex_pc).
Proof.
  split; [exact ex_setup|]. split; [reflexivity|]. split; [reflexivity|]. split.
  - vm_compute w_segs. constructor; [|constructor]. intros Hp. discriminate.
  - exact (conj ex_ix_of_fs ex_present).
Qed.

(** The export part of [ix_of_fs] is what the prelude hands to the index: with every probe answered
    by the file system, the continuation of the export probes receives exactly [export_registers]
    of the table entries. *)
Theorem C02_export_probes_register_the_index_set ans mutok (stat : path -> option listed) k es acc :
  (forall e, In e es -> e_pad e = false ->
     match ans (e_target e) (of_write index_open) with
     | PFile n id => exists l, stat (e_target e) = Some l /\ l_len l = n /\ l_id l = id
     | _ => stat (e_target e) = None
     end) ->
  run_prelude ans mutok (export_probes es acc k) =
  run_prelude ans mutok (k (acc ++ flat_map (fun e => match export_registers stat e with Some x => [x] | None => [] end) es)).
Proof. exact (export_probes_registers ans mutok stat k es acc). Qed.

(** The index itself: what [FileCache]'s insertions ([entry(len).or_default().insert(path, info)])
    build from the walks' listing and the export probes, in any order and with any repetitions, is
    exactly the registered set [ix_of_fs] that the theorems above assume - for every file system,
    table and scan set, provided the walks list every regular file under a scan directory. *)
Theorem C02_built_index_is_the_registered_set f dev under es0 listing :
  (forall p i, fs_lookup f p = Some (NFile i) -> under p = true -> In p listing) ->
  ix_of_fs f dev under es0 (build_index (scan_regs f dev under es0 listing ++ export_regs f dev es0)).
Proof. exact (built_index_is_ix_of_fs f dev under es0 listing). Qed.

Theorem C02_built_index_holds_exactly_the_registrations regs : functional regs ->
  forall n p id, IndexBuild.holds (build_index regs) n p id <-> In (n, (p, id)) regs.
Proof. exact (build_index_spec regs). Qed.

(** ... and for the listing of the model's walk ([walk_listing]: the paths of the file system under
    a scan directory, which is what the validator computes) no hypothesis is left. *)
Theorem C02_walked_index_is_the_registered_set f dev under es0 :
  ix_of_fs f dev under es0 (build_index (scan_regs f dev under es0 (walk_listing f under) ++ export_regs f dev es0)).
Proof. exact (walked_index_is_ix_of_fs f dev under es0). Qed.

(** The whole run with the index BUILT (insertion procedure over the walk's listing and the export
    probes of the start state) instead of assumed. *)
Theorem C02_whole_run_built_index_present_piece_recovered H content export ts es ws f0 dev under i pc :
  let es0 := metadata_table export ts 0 in
  let ix := build_index (scan_regs f0 dev under es0 (walk_listing f0 under) ++ export_regs f0 dev es0) in
  run_setup H content export ts ix es ws f0 (map (solve_prog H) ws) ->
  nth_error ws i = Some pc ->
  H (piece_bytes content pc) = w_hash pc ->
  Forall (pad_zero content) (w_segs pc) ->
  Forall (seg_present_stable content f0 under es0 es) (w_segs pc) ->
  let s0 := {| s_fs := f0; s_pool := map (solve_prog H) ws |} in
  (exists s', freach s0 s' /\ finished s') /\
  (forall s', freach s0 s' -> finished s' ->
     nth_error (s_pool s') i = Some (Ret Success) /\
     forall sg, In sg (w_segs pc) -> e_pad (ps_entry sg) = false -> holds_seg content (s_fs s') sg).
Proof. exact (whole_run_built_index_present_piece_recovered H content export ts es ws f0 dev under i pc). Qed.

Print Assumptions C02_candidates_complete.
Print Assumptions C02_candidates_sound.
Print Assumptions C02_witnesses_give_combination.
Print Assumptions C02_search_exhaustive.
Print Assumptions C02_available_piece_recovered.
Print Assumptions C02_rejection_only_without_candidates.
Print Assumptions C02_available_means_recovered.
Print Assumptions C02_stably_available_means_recovered.
Print Assumptions C02_stable_availability_is_invariant.
Print Assumptions C02_present_means_recovered.
Print Assumptions C02_present_piece_recovered_in_every_complete_run.
Print Assumptions C02_whole_run_present_piece_recovered.
Print Assumptions C02_export_probes_register_the_index_set.
Print Assumptions C02_built_index_is_the_registered_set.
Print Assumptions C02_built_index_holds_exactly_the_registrations.
Print Assumptions C02_walked_index_is_the_registered_set.
Print Assumptions C02_whole_run_built_index_present_piece_recovered.
