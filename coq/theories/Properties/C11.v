(** C11 - interrupting a run at any instant leaves a sound, resumable export tree.  Statements only.
    A crash is a process kill: the kernel's file state survives, an in-flight write leaves a prefix.
    Power loss / write-back reordering is outside the statement (the code never calls fsync). *)
From TB Require Import Base Decimal BencodeModel TorrentModel TorrentProofs PathModel FsModel SolverModel FinderModel RunModel
                       SolverProofs RunProofs FsProofs FaultProofs PreludeProofs TableProofs Generated GeneratedObligations SystemModel SystemProofs GlueProofs RunExample EstablishProofs CompleteProofs RerunProofs SolverModel SearchProofs WholeRunProofs.
Local Open Scope N_scope.

(** Every cut-off event sequence of a good program - cut between or in the middle of any
    operation - consists of good operations, the last possibly a prefix of a good write. *)
Theorem C11_cut_traces_are_good content pc pg : good content pc pg -> forall evs n,
  match walk pg evs n with
  | WDone o => Forall (ev_ok content pc) evs /\ o <> PanicO
  | WCut => Forall (ev_ok content pc) evs
  | _ => True
  end.
Proof. exact (walk_good content pc pg). Qed.

(** A prefix of a good write is still torrent bytes at their own offset, so the byte invariant
    holds in every interrupted state, whatever the order and wherever the cut. *)
Theorem C11_cut_write_is_content (C : list N) off len n j x :
  nth_error (firstn n (firstn len (skipn off C))) j = Some x -> nth_error C (off + j) = Some x.
Proof. exact (slice_is_content C off len n j x). Qed.

Theorem C11_interrupted_bytes_sound old C L ops : Forall (file_op_ok C L) ops ->
  Inv old C L (fold_left (apply_file_op L) ops old).
Proof. exact (file_ops_sound old C L ops). Qed.

(** Every piece that verified before still verifies in the interrupted state. *)
Theorem C11_verified_ranges_survive truth decl f0 ops f1 j lo hi : run_ops (adm truth decl) f0 ops f1 -> (hi <= decl j)%nat ->
  holds (truth j) (fs_content f0 j) lo hi -> holds (truth j) (fs_content f1 j) lo hi.
Proof. exact (fs_ops_preserve_verified truth decl f0 ops f1 j lo hi). Qed.

(** WHOLE RUN: the invariant [SI] (paths only added; unowned inodes untouched; every export image
    byte-sound; verified ranges kept; no aliasing introduced) holds in EVERY reachable state of
    the transition system - whose steps include stopping anywhere and [ss_cut], a write of which
    only a prefix reached the file - and the programs that were in flight are all still good. *)
Theorem C11_every_interrupted_state_sound H content export ts ix es ws f0 pool0 s :
  run_setup H content export ts ix es ws f0 pool0 -> sreach {| s_fs := f0; s_pool := pool0 |} s ->
  SI content es f0 (s_fs s) /\ Forall (pgood content es) (s_pool s).
Proof. exact (whole_run_safe H content export ts ix es ws f0 pool0 s). Qed.

(** The stepper the trace validator uses performs only steps of that system (so every observed
    run, complete or killed, that it accepts is a path of the system). *)
Theorem C11_validator_steps_are_system_steps sched s s' : sys_run s sched = Some s' -> sreach s s'.
Proof. exact (sys_run_reach sched s s'). Qed.

(** RESUMABLE.  Run the tool and kill it anywhere - [s1] is ANY reachable state of the system whose
    steps include faults, cut writes and partial mkdirs - then run it again on the file system it left
    (fault-free second run, any interleaving, pool [pool2] built afresh): every piece that was stably
    available before the FIRST run (C02_stably_available_means_recovered) ends in [Success] and is in
    place.  The killed run cannot have destroyed what an uninterrupted run is guaranteed to recover;
    by C02_stable_availability_is_invariant the same holds after any number of killed runs. *)
Theorem C11_rerun_recovers H content es pc wit f0 pool0 s1 pool2 s2 i o :
  table_functional content es -> wf_piece content pc -> Forall (fun sg => In (ps_entry sg) es) (w_segs pc) ->
  cr H content pc -> H (piece_bytes content pc) = w_hash pc -> Forall (pad_zero content) (w_segs pc) ->
  w_segs pc <> [] -> (forall sg, w_segs pc = [sg] -> ps_len sg <> 0) ->
  alias_free content es f0 -> Forall (pgood content es) pool0 -> avail_stable content es pc wit f0 ->
  sreach {| s_fs := f0; s_pool := pool0 |} s1 ->
  Forall (pgood content es) pool2 -> nth_error pool2 i = Some (solve_prog H pc) ->
  freach {| s_fs := s_fs s1; s_pool := pool2 |} s2 -> nth_error (s_pool s2) i = Some (Ret o) ->
  o = Success /\ forall sg, In sg (w_segs pc) -> e_pad (ps_entry sg) = false -> holds_seg content (s_fs s2) sg.
Proof. exact (fun Hfun Hwf Hall Hcr Hhash Hpadz Hne Hone => rerun_recovers H content es Hfun pc Hwf Hall Hcr Hhash Hpadz Hne Hone wit f0 pool0 s1 pool2 s2 i o). Qed.

(** Non-vacuity: the example's piece is stably available, and its run can be killed in the middle of a write. *)
Example C11_rerun_premises_hold : avail_stable ex_content ex_es ex_pc ex_wit ex_f0 /\
  exists s, sreach {| s_fs := ex_f0; s_pool := ex_pool |} s /\ s_pool s = [Ret Fault] /\ fs_file (s_fs s) ex_target = Some [7; 0].
Proof. exact (conj ex_stable ex_reach_cut). Qed.

(** ... END TO END, for a run of loadable torrents set up as the tool sets it up ([run_setup]). *)
Theorem C11_whole_rerun_recovers H content export ts ix es ws f0 i pc wit s1 s2 o :
  run_setup H content export ts ix es ws f0 (map (solve_prog H) ws) ->
  nth_error ws i = Some pc -> H (piece_bytes content pc) = w_hash pc -> Forall (pad_zero content) (w_segs pc) ->
  avail_stable content es pc wit f0 ->
  sreach {| s_fs := f0; s_pool := map (solve_prog H) ws |} s1 ->
  freach {| s_fs := s_fs s1; s_pool := map (solve_prog H) ws |} s2 -> nth_error (s_pool s2) i = Some (Ret o) ->
  o = Success /\ forall sg, In sg (w_segs pc) -> e_pad (ps_entry sg) = false -> holds_seg content (s_fs s2) sg.
Proof. exact (whole_rerun_recovers H content export ts ix es ws f0 i pc wit s1 s2 o). Qed.

Print Assumptions C11_cut_traces_are_good.
Print Assumptions C11_cut_write_is_content.
Print Assumptions C11_interrupted_bytes_sound.
Print Assumptions C11_verified_ranges_survive.
Print Assumptions C11_every_interrupted_state_sound.
Print Assumptions C11_validator_steps_are_system_steps.
Print Assumptions C11_rerun_recovers.
Print Assumptions C11_whole_rerun_recovers.
