(** C11 - interrupting a run at any instant leaves a sound, resumable export tree.  Statements only.
    A crash is a process kill: the kernel's file state survives, an in-flight write leaves a prefix.
    Power loss / write-back reordering is outside the statement (the code never calls fsync). *)
From TB Require Import Base Decimal BencodeModel TorrentModel TorrentProofs PathModel FsModel SolverModel FinderModel RunModel
                       SolverProofs RunProofs FsProofs FaultProofs PreludeProofs TableProofs Generated GeneratedObligations SystemModel SystemProofs GlueProofs RunExample.
Local Open Scope N_scope.

(** Every cut-off event sequence of a good program - cut between or in the middle of any
    operation - consists of good operations, the last possibly a prefix of a good write. *)
Theorem C11_cut_traces_are_good content pc pg : good content pc pg -> forall evs n,
  match walk pg evs n with
  | WDone o => Forall (ev_ok content pc) evs /\ o <> PanicO
  | WCut => Forall (ev_ok content pc) evs
  | _ => True
  end.
Proof. exact (walk_good content pc pg). Qed.

(** A prefix of a good write is still torrent bytes at their own offset, so the byte invariant
    holds in every interrupted state, whatever the order and wherever the cut. *)
Theorem C11_cut_write_is_content (C : list N) off len n j x :
  nth_error (firstn n (firstn len (skipn off C))) j = Some x -> nth_error C (off + j) = Some x.
Proof. exact (slice_is_content C off len n j x). Qed.

Theorem C11_interrupted_bytes_sound old C L ops : Forall (file_op_ok C L) ops ->
  Inv old C L (fold_left (apply_file_op L) ops old).
Proof. exact (file_ops_sound old C L ops). Qed.

(** Every piece that verified before still verifies in the interrupted state. *)
Theorem C11_verified_ranges_survive truth decl f0 ops f1 j lo hi : run_ops (adm truth decl) f0 ops f1 -> (hi <= decl j)%nat ->
  holds (truth j) (fs_content f0 j) lo hi -> holds (truth j) (fs_content f1 j) lo hi.
Proof. exact (fs_ops_preserve_verified truth decl f0 ops f1 j lo hi). Qed.

(** WHOLE RUN: the invariant [SI] (paths only added; unowned inodes untouched; every export image
    byte-sound; verified ranges kept; no aliasing introduced) holds in EVERY reachable state of
    the transition system - whose steps include stopping anywhere and [ss_cut], a write of which
    only a prefix reached the file - and the programs that were in flight are all still good. *)
Theorem C11_every_interrupted_state_sound H content export ts ix es ws f0 pool0 s :
  run_setup H content export ts ix es ws f0 pool0 -> sreach {| s_fs := f0; s_pool := pool0 |} s ->
  SI content es f0 (s_fs s) /\ Forall (pgood content es) (s_pool s).
Proof. exact (whole_run_safe H content export ts ix es ws f0 pool0 s). Qed.

(** The stepper the trace validator uses performs only steps of that system (so every observed
    run, complete or killed, that it accepts is a path of the system). *)
Theorem C11_validator_steps_are_system_steps sched s s' : sys_run s sched = Some s' -> sreach s s'.
Proof. exact (sys_run_reach sched s s'). Qed.

Print Assumptions C11_cut_traces_are_good.
Print Assumptions C11_cut_write_is_content.
Print Assumptions C11_interrupted_bytes_sound.
Print Assumptions C11_verified_ranges_survive.
Print Assumptions C11_every_interrupted_state_sound.
Print Assumptions C11_validator_steps_are_system_steps.
