(** C17 - the outcome does not depend on how torrents and directories are presented.  Statements only. *)
From TB Require Import IndexModel IndexBuild AvailProofs.
From TB Require Import Base Decimal BencodeModel TorrentModel TorrentProofs PathModel FsModel SolverModel FinderModel RunModel
                       SolverProofs RunProofs FsProofs FaultProofs PreludeProofs TableProofs FinderProofs SearchProofs PresentProofs Generated GeneratedObligations GlueProofs SystemModel SystemProofs EstablishProofs CompleteProofs RerunProofs AvailProofs ScanSetProofs.
From Coq Require Import Permutation Sorted.
Local Open Scope N_scope.

(** The list the run works on has strictly increasing info-hashes (no torrent twice), consists of
    given torrents, and contains every given info-hash ... *)
Theorem C17_distinct_torrents l :
  StronglySorted hlt (distinct_torrents l) /\
  (forall u, In u (distinct_torrents l) -> In u l) /\
  (forall u, In u l -> exists v, In v (distinct_torrents l) /\ t_info_hash v = t_info_hash u).
Proof. exact (distinct_spec l). Qed.

(** ... and it is the same list for any two presentations with the same set of torrents: listing a
    torrent twice or permuting the list changes nothing (info-hash determines the torrent). *)
Theorem C17_torrent_list_presentation l1 l2 :
  (forall t u, In t (l1 ++ l2) -> In u (l1 ++ l2) -> t_info_hash t = t_info_hash u -> t = u) ->
  (forall t, In t l1 <-> In t l2) -> distinct_torrents l1 = distinct_torrents l2.
Proof. exact (distinct_presentation_invariant l1 l2). Qed.

(** The candidate list does not depend on the hash map's iteration order (nor, therefore, on the
    order / repetition / nesting of scan directories, which only affect that order and not the
    set of registered (path, inode) pairs): for every order it represents exactly the registered
    inodes, with the export file first. *)
Theorem C17_candidates_order_independent ix e ns p id l :
  e_pad e = false -> nodes_of ix (e_len e) = Some ns -> In (p, id) ns ->
  searches_for ix e = Ok (Some l) -> exists p', In p' l /\ In (p', id) ns.
Proof. exact (searches_complete ix e ns p id l). Qed.

Theorem C17_export_first_for_every_order ix e ns id l :
  e_pad e = false -> nodes_of ix (e_len e) = Some ns -> NoDup (map fst ns) -> In (e_target e, id) ns ->
  searches_for ix e = Ok (Some l) -> exists rest, l = e_target e :: rest.
Proof. exact (export_first ix e ns id l). Qed.

(** More candidates never remove a recovery: the search is exhaustive over whatever rows it is given. *)
Theorem C17_more_candidates_monotone H hash c pre combo : picks combo c ->
  beq (H (concat (map snd (pre ++ combo)))) hash = true -> find_combo H hash c pre <> None.
Proof. exact (find_combo_complete H hash c pre combo). Qed.

(** Whatever is presented - duplicates, any order, documents that do not load - the list the run
    works on consists of torrents satisfying the loader's guarantees and names every info-hash
    once: the first two premises of the whole-run theorems ([run_setup]). *)
Theorem C17_presented_list_ok H xs : Forall (fun x => len x <= u64max) xs ->
  Forall torrent_ok (distinct_torrents (loaded H xs)) /\ NoDup (map t_info_hash (distinct_torrents (loaded H xs))).
Proof. exact (presented_list_ok H xs). Qed.

(** THE SCAN DIRECTORIES.  Everything C02's theorems say about them they say through
    [under_of scans] ("the file lies under one of the scan directories").  That function is the same
    when the list is permuted, when a directory is repeated, when a directory lying inside another
    is added; adding any other directory (the export directory included) only adds files. *)
Theorem C17_scan_list_permuted scans scans' : Permutation scans scans' -> forall p, under_of scans p = under_of scans' p.
Proof. exact (under_of_perm scans scans'). Qed.
Theorem C17_scan_directory_repeated s scans : In s scans -> forall p, under_of (s :: scans) p = under_of scans p.
Proof. exact (under_of_repeat s scans). Qed.
Theorem C17_scan_directory_nested s s' scans : In s scans -> path_prefix s s' = true -> forall p, under_of (s' :: scans) p = under_of scans p.
Proof. exact (under_of_nested s s' scans). Qed.
Theorem C17_scan_directory_added s scans p : under_of scans p = true -> under_of (s :: scans) p = true.
Proof. exact (under_of_more s scans p). Qed.

(** MORE DATA.  A segment that is present stays present when files are added (nothing removed or
    changed), when more directories are scanned and when more torrents are loaded. *)
Theorem C17_presence_monotone content f f' under under' es0 es0' s c i :
  fs_extends f f' -> (forall p, under p = true -> under' p = true) -> (forall e, In e es0 -> In e es0') ->
  present content f under es0 s c i -> present content f' under' es0' s c i.
Proof. exact (present_mono content f f' under under' es0 es0' s c i). Qed.

(** The index does not depend on the order or multiplicity of the insertions: scan directories
    permuted, repeated or nested, the export directory among them (its files are then inserted by a
    walk AND by the export probes), a torrent listed twice. *)
Theorem C17_index_independent_of_insertion_order regs regs' : functional regs ->
  (forall r, In r regs <-> In r regs') ->
  forall n p id, IndexBuild.holds (build_index regs) n p id <-> IndexBuild.holds (build_index regs') n p id.
Proof. exact (build_index_invariant regs regs'). Qed.

Print Assumptions C17_distinct_torrents.
Print Assumptions C17_torrent_list_presentation.
Print Assumptions C17_candidates_order_independent.
Print Assumptions C17_export_first_for_every_order.
Print Assumptions C17_more_candidates_monotone.
Print Assumptions C17_presented_list_ok.
Print Assumptions C17_scan_list_permuted.
Print Assumptions C17_scan_directory_repeated.
Print Assumptions C17_scan_directory_nested.
Print Assumptions C17_scan_directory_added.
Print Assumptions C17_presence_monotone.
Print Assumptions C17_index_independent_of_insertion_order.
