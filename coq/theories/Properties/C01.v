(** C01 - only SHA-1-verified torrent bytes are ever written into the export tree.  Statements only. *)
From TB Require Import Base Decimal BencodeModel TorrentModel TorrentProofs PathModel FsModel SolverModel FinderModel RunModel
                       SolverProofs RunProofs FsProofs FaultProofs PreludeProofs TableProofs Generated GeneratedObligations SystemModel SystemProofs GlueProofs RunExample.
Local Open Scope N_scope.

(** For every piece: whatever the candidate reads return and whichever operations fail - hence under
    every interleaving with other workers, every decoy/candidate combination and every prior export
    state - the evaluation issues only good operations: on the export image of one of the piece's own
    non-padding segments, the torrent's bytes of that segment at that segment's offset; and the write
    branch is entered only after the assembled buffer matched the piece hash.  [cr] is collision
    freeness at this piece; the side conditions on the piece come from the layout (C06). *)
Theorem C01_piece_issues_only_good_ops H content pc :
  wf_piece content pc -> cr H content pc -> w_segs pc <> [] ->
  (forall s, w_segs pc = [s] -> ps_len s <> 0) ->
  good content pc (solve_prog H pc).
Proof. exact (solve_prog_good H content pc). Qed.

(** Every event sequence the trace validator accepts for such a program - complete or cut off -
    consists of good operations only. *)
Theorem C01_accepted_traces_are_good content pc pg : good content pc pg -> forall evs n,
  match walk pg evs n with
  | WDone o => Forall (ev_ok content pc) evs /\ o <> PanicO
  | WCut => Forall (ev_ok content pc) evs
  | _ => True
  end.
Proof. exact (walk_good content pc pg). Qed.

(** Byte level, for any file and ANY order of [set_len declared] and (complete or cut) writes of
    torrent bytes at their own offsets: every byte is what it was before, a zero of extension, or
    the torrent's byte at that offset. *)
Theorem C01_file_bytes_sound old C L ops : Forall (file_op_ok C L) ops ->
  Inv old C L (fold_left (apply_file_op L) ops old).
Proof. exact (file_ops_sound old C L ops). Qed.

(** Lifted to the file-system model: along any run of admissible operations (never truncating,
    set_len to the declared length, torrent bytes at their own offsets), every inode's content
    satisfies the byte invariant - inodes no operation names are unchanged. *)
Theorem C01_fs_bytes_sound truth decl f0 ops f1 : run_ops (adm truth decl) f0 ops f1 ->
  forall j, Inv (fs_content f0 j) (truth j) (decl j) (fs_content f1 j).
Proof. exact (fs_ops_sound truth decl f0 ops f1). Qed.

(** WHOLE RUN.  For the torrents the loader returns, the table and work list the model builds from
    them and the pool of their piece programs ([run_setup]: the remaining premises are that
    [content] is the torrents' real content, collision-free at every piece, that entries with one
    export path denote one file, and that no two export paths are initially hard links of one
    inode), in EVERY reachable state of the scanning phase - any interleaving of the workers, any
    I/O faults, cut anywhere including inside a write - every byte of every export image is the
    byte it held before, a zero of extension, or the torrent's byte at that offset. *)
Theorem C01_whole_run_bytes_sound H content export ts ix es ws f0 pool0 s e i :
  run_setup H content export ts ix es ws f0 pool0 -> sreach {| s_fs := f0; s_pool := pool0 |} s ->
  owner es (s_fs s) i e -> Inv (fs_content f0 i) (content e) (N.to_nat (e_len e)) (fs_content (s_fs s) i).
Proof. exact (whole_run_bytes_sound H content export ts ix es ws f0 pool0 s e i). Qed.

(** The side conditions of [C01_piece_issues_only_good_ops] hold for every piece of the work list
    of loadable, pairwise distinct torrents (from the layout theorems, C06): collision-freeness is
    the only premise left. *)
Theorem C01_every_work_piece_good export ts ix es content H ws pc :
  Forall torrent_ok ts -> NoDup (map t_info_hash ts) -> populate ix (metadata_table export ts 0) = Ok es ->
  (forall e, In e es -> N.of_nat (length (content e)) = e_len e) ->
  work_of es ts = Ok ws -> In pc ws -> cr H content pc -> good content pc (solve_prog H pc).
Proof. exact (fun Hts Hnd Hpop Hc => work_programs_good export ts ix es Hts Hnd Hpop content Hc H ws pc). Qed.

(** Non-vacuity: a concrete [run_setup], a complete run of it and a run cut inside its write. *)
Example C01_setup_satisfiable : run_setup Hid ex_content ex_export [ex_t] ex_ix ex_es ex_ws ex_f0 ex_pool.
Proof. exact ex_setup. Qed.
Example C01_run_reaches_written_state :
  exists s, sreach {| s_fs := ex_f0; s_pool := ex_pool |} s /\ s_pool s = [Ret Success] /\ fs_file (s_fs s) ex_target = Some [7; 8].
Proof. exact ex_reach. Qed.
Example C01_run_reaches_cut_state :
  exists s, sreach {| s_fs := ex_f0; s_pool := ex_pool |} s /\ s_pool s = [Ret Fault] /\ fs_file (s_fs s) ex_target = Some [7; 0].
Proof. exact ex_reach_cut. Qed.

Print Assumptions C01_piece_issues_only_good_ops.
Print Assumptions C01_accepted_traces_are_good.
Print Assumptions C01_file_bytes_sound.
Print Assumptions C01_fs_bytes_sound.
Print Assumptions C01_whole_run_bytes_sound.
Print Assumptions C01_every_work_piece_good.
