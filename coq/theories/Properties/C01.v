(** C01 - only SHA-1-verified torrent bytes are ever written into the export tree.  Statements only. *)
From TB Require Import Base Decimal BencodeModel TorrentModel TorrentProofs PathModel FsModel SolverModel FinderModel RunModel
                       SolverProofs RunProofs FsProofs FaultProofs PreludeProofs TableProofs Generated GeneratedObligations.
Local Open Scope N_scope.

(** For every piece: whatever the candidate reads return and whichever operations fail - hence under
    every interleaving with other workers, every decoy/candidate combination and every prior export
    state - the evaluation issues only good operations: on the export image of one of the piece's own
    non-padding segments, the torrent's bytes of that segment at that segment's offset; and the write
    branch is entered only after the assembled buffer matched the piece hash.  [cr] is collision
    freeness at this piece; the side conditions on the piece come from the layout (C06). *)
Theorem C01_piece_issues_only_good_ops H content pc :
  wf_piece content pc -> cr H content pc -> w_segs pc <> [] ->
  (forall s, w_segs pc = [s] -> ps_len s <> 0) ->
  good content pc (solve_prog H pc).
Proof. exact (solve_prog_good H content pc). Qed.

(** Every event sequence the trace validator accepts for such a program - complete or cut off -
    consists of good operations only. *)
Theorem C01_accepted_traces_are_good content pc pg : good content pc pg -> forall evs n,
  match walk pg evs n with
  | WDone o => Forall (ev_ok content pc) evs /\ o <> PanicO
  | WCut => Forall (ev_ok content pc) evs
  | _ => True
  end.
Proof. exact (walk_good content pc pg). Qed.

(** Byte level, for any file and ANY order of [set_len declared] and (complete or cut) writes of
    torrent bytes at their own offsets: every byte is what it was before, a zero of extension, or
    the torrent's byte at that offset. *)
Theorem C01_file_bytes_sound old C L ops : Forall (file_op_ok C L) ops ->
  Inv old C L (fold_left (apply_file_op L) ops old).
Proof. exact (file_ops_sound old C L ops). Qed.

(** Lifted to the file-system model: along any run of admissible operations (never truncating,
    set_len to the declared length, torrent bytes at their own offsets), every inode's content
    satisfies the byte invariant - inodes no operation names are unchanged. *)
Theorem C01_fs_bytes_sound truth decl f0 ops f1 : run_ops (adm truth decl) f0 ops f1 ->
  forall j, Inv (fs_content f0 j) (truth j) (decl j) (fs_content f1 j).
Proof. exact (fs_ops_sound truth decl f0 ops f1). Qed.

Print Assumptions C01_piece_issues_only_good_ops.
Print Assumptions C01_accepted_traces_are_good.
Print Assumptions C01_file_bytes_sound.
Print Assumptions C01_fs_bytes_sound.
