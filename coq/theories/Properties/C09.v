(** C09 - decoding and loading are total: any bytes give a value or an error.
    Statements only.  Partial: the theorems are about the models (every unchecked arithmetic
    operation, slice and index of the loader is a Panic-capable model operation; loops run on
    explicit fuel); stack depth, wall-clock time and allocator behaviour are runtime and are
    exercised by the child-process runs of the check. *)
From TB Require Import Base Decimal BencodeModel BencodeSpec BencodeProofs TorrentModel TorrentProofs BencodeImpl BencodeImplProofs.
Local Open Scope N_scope.

(** The decoder model returns a value or an error for every byte string: never Panic ... *)
Theorem C09_decode_no_panic x : decode x <> Panic.
Proof. exact (decode_no_panic x). Qed.

(** ... and never out of fuel: |x| + 1 units of fuel (one per consumed byte) always suffice, i.e.
    the number of loop iterations / recursive calls is bounded by the input length, whatever
    numbers are written inside the input. *)
Theorem C09_decode_fuel_linear x : decode x <> OutOfFuel.
Proof. exact (decode_total x). Qed.
Theorem C09_dec_any_fuel fuel p rest : (length rest < fuel)%nat -> dec_any fuel p rest <> OutOfFuel.
Proof. exact (dec_any_fuel fuel p rest). Qed.

(** Loading: never Panic (the info-span slice is always in range, the u128 sum of the declared
    lengths cannot overflow) and never out of fuel, for every input a machine can hold. *)
Theorem C09_load_total H x : len x <= u64max -> load H x <> Panic /\ load H x <> OutOfFuel.
Proof. exact (load_total H x). Qed.

(** The two numeric automata of parser.rs modelled state by state and byte by byte, with the
    arithmetic as written (checked_mul / checked_add / checked_sub, the unchecked [position += 1],
    [position.checked_add(n)] against [bytes.len()]): they compute exactly the functions the decoder
    model uses, never overflow the position (no [Panic]) and never need more fuel than bytes. *)
Theorem C09_string_automaton_is_model pos rest : pos + len rest <= u64max -> dec_str_impl pos rest = dec_str pos rest.
Proof. exact (dec_str_impl_eq pos rest). Qed.
Theorem C09_integer_automaton_is_model pos rest : pos + len rest <= u64max -> dec_int_impl pos rest = dec_int pos rest.
Proof. exact (dec_int_impl_eq pos rest). Qed.
Theorem C09_string_automaton_no_overflow pos rest : pos + len rest <= u64max ->
  dec_str_impl pos rest <> Panic /\ dec_str_impl pos rest <> OutOfFuel.
Proof. exact (dec_str_impl_no_panic pos rest). Qed.
Theorem C09_integer_automaton_no_overflow pos rest : pos + len rest <= u64max ->
  dec_int_impl pos rest <> Panic /\ dec_int_impl pos rest <> OutOfFuel.
Proof. exact (dec_int_impl_no_panic pos rest). Qed.

Print Assumptions C09_decode_no_panic.
Print Assumptions C09_decode_fuel_linear.
Print Assumptions C09_dec_any_fuel.
Print Assumptions C09_load_total.
Print Assumptions C09_string_automaton_is_model.
Print Assumptions C09_integer_automaton_is_model.
Print Assumptions C09_string_automaton_no_overflow.
Print Assumptions C09_integer_automaton_no_overflow.
