(** C16 - bad paths fail before any change; loadable torrents never crash a run.  Statements only.
    Partial: allocation failure (known finding K2) and thread panics at join are runtime. *)
From TB Require Import Base Decimal BencodeModel TorrentModel TorrentProofs PathModel FsModel SolverModel FinderModel RunModel
                       SolverProofs RunProofs FsProofs FaultProofs PreludeProofs TableProofs Generated GeneratedObligations SystemModel SystemProofs GlueProofs RunExample SetupTotal.
Local Open Scope N_scope.

(** A scan or export path that is relative, missing or not a directory - whichever position it
    has - makes the run fail having issued only [stat] probes: no mutating operation. *)
Theorem C16_bad_path_no_effect ans mutok scans export rz es k :
  Exists (bad_dir ans) (scans ++ [export]) -> run_prelude ans mutok (prelude_prog scans export rz es k) = ([], Some Fault).
Proof. exact (bad_path_no_effect ans mutok scans export rz es k). Qed.

(** No piece evaluation of a loadable torrent reaches a panic, whatever the directory contents
    (every read answer) and whichever operations fail. *)
Theorem C16_piece_never_panics H content pc :
  wf_piece content pc -> cr H content pc -> w_segs pc <> [] -> (forall s, w_segs pc = [s] -> ps_len s <> 0) ->
  good content pc (solve_prog H pc).
Proof. exact (solve_prog_good H content pc). Qed.

(** Loading never panics (C09), so a torrent file that fails to load is an [Err] the CLI skips. *)
Theorem C16_load_total H x : len x <= u64max -> load H x <> Panic /\ load H x <> OutOfFuel.
Proof. exact (load_total H x). Qed.

(** WHOLE RUN: in no reachable state is any program of the pool at a panic. *)
Theorem C16_whole_run_no_panic H content export ts ix es ws f0 pool0 s pg :
  run_setup H content export ts ix es ws f0 pool0 -> sreach {| s_fs := f0; s_pool := pool0 |} s ->
  In pg (s_pool s) -> pg <> Ret PanicO.
Proof. exact (whole_run_no_panic H content export ts ix es ws f0 pool0 s pg). Qed.

(** What the loader returns satisfies the premises of the layout and work-list theorems. *)
Theorem C16_loaded_torrent_ok H x t : len x <= u64max -> load H x = Ok t -> torrent_ok t.
Proof. exact (load_torrent_ok H x t). Qed.

(** THE SET-UP NEVER PANICS.  For torrents the loader returned ([torrent_ok], [paths_ok]: C16_loaded_torrent_ok,
    C16_loaded_paths_ok) and ANY index whose registered paths have a last component - any directory
    contents - the candidate ranking ([populate], with its [file_name().unwrap()]) and the work-list
    construction ([work_of]: layout, [find_entry(..).unwrap()]) return [Ok]: the hypotheses
    "[populate .. = Ok es]" and "[work_of es ts = Ok ws]" of the whole-run theorems always hold. *)
Theorem C16_setup_never_panics export ts ix : Forall torrent_ok ts -> Forall paths_ok ts -> index_paths_ok ix ->
  exists es ws, populate ix (metadata_table export ts 0) = Ok es /\ work_of es ts = Ok ws.
Proof. exact (setup_total export ts ix). Qed.

(** FROM THE COMMAND LINE: any list of byte strings given as torrents (loadable or not, repeated, in any order) and any
    index give a [run_setup] - the premise of every whole-run theorem - under assumptions about the world only. *)
Theorem C16_every_presented_list_sets_up H content export xs ix f0 :
  Forall (fun x => len x <= u64max) xs -> index_paths_ok ix ->
  let ts := distinct_torrents (loaded H xs) in
  (forall es, populate ix (metadata_table export ts 0) = Ok es ->
     (forall e, In e es -> N.of_nat (length (content e)) = e_len e) /\ table_functional content es /\
     alias_free content es f0 /\ forall ws, work_of es ts = Ok ws -> Forall (cr H content) ws) ->
  exists es ws, run_setup H content export ts ix es ws f0 (map (solve_prog H) ws).
Proof. exact (run_setup_from_bytes H content export xs ix f0). Qed.

Theorem C16_loaded_paths_ok H x t : len x <= u64max -> load H x = Ok t -> paths_ok t.
Proof. exact (load_paths_ok H x t). Qed.

Print Assumptions C16_bad_path_no_effect.
Print Assumptions C16_piece_never_panics.
Print Assumptions C16_load_total.
Print Assumptions C16_whole_run_no_panic.
Print Assumptions C16_loaded_torrent_ok.
Print Assumptions C16_setup_never_panics.
Print Assumptions C16_loaded_paths_ok.
Print Assumptions C16_every_presented_list_sets_up.
