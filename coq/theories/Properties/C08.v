(** C08 - the decoder accepts exactly canonical bencode and returns the value it denotes.
    Statements only. *)
From TB Require Import Base Decimal BencodeModel BencodeSpec BencodeProofs.
Local Open Scope N_scope.

(** Accepted <-> the input is the encoding of exactly one canonical value (integers within the
    signed 128-bit range without leading zeros / negative zero, strings with canonical length that
    fit, keys strictly ascending in raw byte order, no trailing bytes), and the returned tree is
    that value annotated with the exact start / continuation offset of every node. *)
Theorem C08_decode_spec x t :
  decode x = Ok t <-> exists v, canonical v /\ x = enc v /\ t = annot 0 v.
Proof. exact (decode_spec x t). Qed.

Print Assumptions C08_decode_spec.
