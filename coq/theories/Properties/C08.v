(** C08 - the decoder accepts exactly canonical bencode and returns the value it denotes.
    Statements only. *)
From TB Require Import Base Decimal BencodeModel BencodeSpec BencodeProofs.
Local Open Scope N_scope.

(** Accepted <-> the input is the encoding of exactly one canonical value (integers within the
    signed 128-bit range without leading zeros / negative zero, strings with canonical length that
    fit, keys strictly ascending in raw byte order, no trailing bytes), and the returned tree is
    that value annotated with the exact start / continuation offset of every node. *)
Theorem C08_decode_spec x t :
  decode x = Ok t <-> exists v, canonical v /\ x = enc v /\ t = annot 0 v.
Proof. exact (decode_spec x t). Qed.

(** Every node's recorded start and continuation offsets delimit exactly the bytes of that node
    (dictionary keys included). *)
Theorem C08_spans_exact x t n :
  decode x = Ok t -> In n (subtoks t) -> slice x (tok_start n) (tok_end n) = enc (erase n).
Proof. exact (spans_exact x t n). Qed.

(** Re-encoding the returned tree reproduces the input byte for byte. *)
Theorem C08_reencode x t : decode x = Ok t -> enc (erase t) = x.
Proof. exact (reencode x t). Qed.

(** "Exactly one": two canonical values with the same encoding are equal. *)
Theorem C08_unique_value v w : canonical v -> canonical w -> enc v = enc w -> v = w.
Proof. exact (canonical_enc_inj v w). Qed.

(** The decoder never runs out of its fuel (|x| + 1): it is a total function of the input. *)
Theorem C08_decode_total x : decode x <> OutOfFuel.
Proof. exact (decode_total x). Qed.

(** Non-vacuity: a dictionary with a nested list, a negative integer and an empty string. *)
Example C08_example :
  let v := BDict [([99;111;119], BList [BInt (-3); BStr []]); ([115;112;97;109], BStr [101;103;103;115])] in
  canonical v /\ decode (enc v) = Ok (annot 0 v).
Proof.
  cbv zeta. split; [|vm_compute; reflexivity].
  cbn; repeat split; try exact I; try reflexivity; vm_compute; discriminate.
Qed.

Print Assumptions C08_decode_spec.
Print Assumptions C08_spans_exact.
Print Assumptions C08_reencode.
Print Assumptions C08_unique_value.
Print Assumptions C08_decode_total.
