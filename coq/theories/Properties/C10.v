(** C10 - a torrent loads iff it is well-formed, and the loaded fields are faithful.
    Statements only. [spec_doc] (TorrentSpec.v) is the well-formedness specification, written over
    the abstract value with exact-key look-ups. *)
From TB Require Import Base Decimal BencodeModel BencodeSpec Utf8 Generated GeneratedObligations LayoutModel LayoutSpec TorrentModel TorrentSpec TorrentProofs LayoutProofs Utf8 Utf8Proofs.
Local Open Scope N_scope.

(** A byte string (of any length a machine can hold) loads iff it is the canonical encoding of a
    value meeting the specification; the result is the torrent the specification computes. *)
Theorem C10_load_iff_wellformed H x t : len x <= u64max ->
  (load H x = Ok t <-> exists v, canonical v /\ x = enc v /\ spec_doc H v = Some t).
Proof. exact (load_iff_spec H x t). Qed.

(** What the specification demands, clause by clause, and that the loaded fields are the values
    in the input: name ('.utf-8' variant first) valid UTF-8 and plain; pieces a string of whole
    20-byte hashes which are its consecutive blocks; piece length unsigned 64-bit; exactly one of an
    unsigned length or a non-empty files list; as many hashes as ceil(total / piece length). *)
Theorem C10_fields_faithful d ih t : spec_info d ih = Some t ->
  t_info_hash t = ih /\
  first_some (v_str (lookup d key_name_utf8)) (v_str (lookup d key_name)) = Some (t_name t) /\
  utf8_valid (t_name t) = true /\ is_plain (t_name t) = true /\
  (exists pcs, v_str (lookup d key_pieces) = Some pcs /\ len pcs mod hash_len = 0 /\
               t_pieces t = chunks (length pcs) (N.to_nat hash_len) pcs) /\
  (exists plz, v_int (lookup d key_piece_length) = Some plz /\ to_u64 plz = Some (t_piece_length t)) /\
  ((exists z flen, v_int (lookup d key_length) = Some z /\ v_list (lookup d key_files) = None /\
      to_u64 z = Some flen /\ t_length t = Some flen /\ t_files t = None /\
      hash_count_ok flen (t_piece_length t) (len (t_pieces t)) = true) \/
   (exists l fs, v_int (lookup d key_length) = None /\ v_list (lookup d key_files) = Some l /\
      spec_files l = Some fs /\ fs <> [] /\ t_length t = None /\ t_files t = Some fs /\
      hash_count_ok (sumN (map f_length fs)) (t_piece_length t) (len (t_pieces t)) = true)).
Proof. exact (spec_info_fields d ih t). Qed.

(** The hashes are exactly the consecutive blocks of the pieces string. *)
Theorem C10_hashes_are_blocks n fuel b : (0 < n)%nat -> (length b <= fuel)%nat -> concat (chunks fuel n b) = b.
Proof. intros Hn. exact (chunks_concat n Hn fuel b). Qed.

(** Look-ups are by exact key: in a canonical dictionary the scan finds precisely the value bound
    to the key equal to the target - a neighbouring key that merely shares a prefix never substitutes. *)
Theorem C10_exact_key kvs prev key v : keys_sorted prev kvs -> (lookup kvs key = Some v <-> In (key, v) kvs).
Proof. intros Hs. exact (lookup_exact kvs prev Hs key v). Qed.

(** The hash-count clause is the ceil(total / piece length) relation used by the layout (C06). *)
Theorem C10_hash_count files L nh : hash_count_ok (total files) L (N.of_nat nh) = true <-> hashes_ok files L nh.
Proof. exact (hash_count_ok_iff files L nh). Qed.

(** Non-vacuity: a two-file document with a decoy key and a '.utf-8' path loads. *)
Example C10_example :
  exists t, load (fun _ => []) (enc (BDict [([105;110;102;111],
       BDict [([102;105;108;101;115], BList [BDict [([108;101;110;103;116;104], BInt 3); ([112;97;116;104], BList [BStr [97]])];
                                            BDict [([108;101;110;103;116;104], BInt 0); ([112;97;116;104], BList [BStr [98]]); ([112;97;116;104;46;117;116;102;45;56], BList [BStr [99]; BStr [100]])]]);
              ([108;101;110;103;116], BInt 9);
              ([110;97;109;101], BStr [110]);
              ([112;105;101;99;101;32;108;101;110;103;116;104], BInt 4);
              ([112;105;101;99;101;115], BStr (repeat 7 20))])])) = Ok t
   /\ t_files t = Some [{| f_length := 3; f_path := [[97]] |}; {| f_length := 0; f_path := [[99];[100]] |}].
Proof. eexists. split; vm_compute; reflexivity. Qed.

(** What "UTF-8" means in the clauses above: [utf8_valid] accepts exactly the encodings (RFC 3629,
    shortest form) of sequences of Unicode scalar values - 0..0x10FFFF without the surrogates. *)
Theorem C10_utf8_means_scalar_values bs : utf8_valid bs = true <-> exists cps, Forall scalar cps /\ bs = encode cps.
Proof. exact (utf8_valid_iff bs). Qed.
Example C10_utf8_examples :
  utf8_valid [195; 169] = true /\ encode [233] = [195; 169] /\           (* e-acute *)
  utf8_valid [192; 175] = false /\                                       (* overlong '/' *)
  utf8_valid [237; 160; 128] = false /\                                  (* surrogate D800 *)
  utf8_valid [244; 144; 128; 128] = false /\                             (* above 10FFFF *)
  encode [128512] = [240; 159; 152; 128].                                (* U+1F600 *)
Proof. vm_compute. repeat split; reflexivity. Qed.

Print Assumptions C10_load_iff_wellformed.
Print Assumptions C10_fields_faithful.
Print Assumptions C10_hashes_are_blocks.
Print Assumptions C10_exact_key.
Print Assumptions C10_hash_count.
Print Assumptions C10_utf8_means_scalar_values.
