(** C15 - the reported availability figures are truthful and account for every piece.  Statements only. *)
From TB Require Import Base Decimal BencodeModel TorrentModel TorrentProofs PathModel FsModel SolverModel FinderModel RunModel
                       SolverProofs RunProofs FsProofs FaultProofs PreludeProofs TableProofs Generated GeneratedObligations.
Local Open Scope N_scope.

(** After any list of piece outcomes (none of which is a panic - C16), succeeded + failed + faulted
    has grown by exactly the number of pieces evaluated and the total is unchanged. *)
Theorem C15_counters_sum os c : Forall (fun o => o <> PanicO) os ->
  let c' := fold_left count os c in
  (c_success c' + c_failed c' + c_fault c' = c_success c + c_failed c + c_fault c + length os)%nat /\ c_total c' = c_total c.
Proof. exact (counters_sum os c). Qed.

(** One progress line per piece. *)
Theorem C15_one_line_per_piece os c : length (progress c os) = length os.
Proof. exact (one_line_per_piece os c). Qed.

(** A piece is counted as succeeded only when its program returned [Success], which every accepted
    trace reaches only through good operations (the found branch: hash matched, bytes written). *)
Theorem C15_success_only_via_good_trace content pc pg : good content pc pg -> forall evs n,
  match walk pg evs n with
  | WDone o => Forall (ev_ok content pc) evs /\ o <> PanicO
  | WCut => Forall (ev_ok content pc) evs
  | _ => True
  end.
Proof. exact (walk_good content pc pg). Qed.

Print Assumptions C15_counters_sum.
Print Assumptions C15_one_line_per_piece.
Print Assumptions C15_success_only_via_good_trace.
