(** C15 - the reported availability figures are truthful and account for every piece.  Statements only. *)
From TB Require Import Base Decimal BencodeModel TorrentModel TorrentProofs PathModel FsModel SolverModel FinderModel RunModel
                       SolverProofs RunProofs FsProofs FaultProofs PreludeProofs TableProofs Generated GeneratedObligations SystemModel SystemProofs GlueProofs EstablishProofs RunExample SearchProofs CompleteProofs RerunProofs AvailProofs TerminationProofs.
Local Open Scope N_scope.

(** After any list of piece outcomes (none of which is a panic - C16), succeeded + failed + faulted
    has grown by exactly the number of pieces evaluated and the total is unchanged. *)
Theorem C15_counters_sum os c : Forall (fun o => o <> PanicO) os ->
  let c' := fold_left count os c in
  (c_success c' + c_failed c' + c_fault c' = c_success c + c_failed c + c_fault c + length os)%nat /\ c_total c' = c_total c.
Proof. exact (counters_sum os c). Qed.

(** One progress line per piece. *)
Theorem C15_one_line_per_piece os c : length (progress c os) = length os.
Proof. exact (one_line_per_piece os c). Qed.

(** A piece is counted as succeeded only when its program returned [Success], which every accepted
    trace reaches only through good operations (the found branch: hash matched, bytes written). *)
Theorem C15_success_only_via_good_trace content pc pg : good content pc pg -> forall evs n,
  match walk pg evs n with
  | WDone o => Forall (ev_ok content pc) evs /\ o <> PanicO
  | WCut => Forall (ev_ok content pc) evs
  | _ => True
  end.
Proof. exact (walk_good content pc pg). Qed.

(** "Every piece counted as succeeded verifies in the export tree afterwards": in every fault-free
    run of the system (any interleaving of the workers; reads answered by the shared file system),
    when the evaluation of a piece has returned [Success], every non-padding segment of the piece
    is in place - its export file holds the torrent's bytes of the segment at the segment's offset,
    whether this evaluation wrote them or found them there ... *)
Theorem C15_success_means_in_place H content es s s' i pc :
  table_functional content es -> alias_free content es (s_fs s) -> Forall (pgood content es) (s_pool s) ->
  wf_piece content pc -> Forall (fun sg => In (ps_entry sg) es) (w_segs pc) -> cr H content pc ->
  nth_error (s_pool s) i = Some (solve_prog H pc) -> freach s s' -> nth_error (s_pool s') i = Some (Ret Success) ->
  forall sg, In sg (w_segs pc) -> e_pad (ps_entry sg) = false -> holds_seg content (s_fs s') sg.
Proof. exact (fun Hfun => success_means_in_place H content es Hfun s s' i pc). Qed.

(** ... and stays in place in every later state, fault-free or not (C04: never damaged again). *)
Theorem C15_in_place_forever content es s s' pc sg :
  table_functional content es -> alias_free content es (s_fs s) -> Forall (pgood content es) (s_pool s) -> sreach s s' ->
  wf_piece content pc -> Forall (fun x => In (ps_entry x) es) (w_segs pc) -> In sg (w_segs pc) -> e_pad (ps_entry sg) = false ->
  holds_seg content (s_fs s) sg -> holds_seg content (s_fs s') sg.
Proof. exact (fun Hfun => in_place_forever content es Hfun s s' pc sg). Qed.

(** Non-vacuity: a fault-free run of the example of C01 that ends with the piece returned as [Success]. *)
Example C15_fault_free_run_exists :
  exists s, freach {| s_fs := ex_f0; s_pool := ex_pool |} s /\ nth_error (s_pool s) 0 = Some (Ret Success).
Proof. exact ex_freach. Qed.

(** "... and every piece that already verified in the export tree, or whose data was available as in
    C02, is counted as succeeded": in every complete fault-free run the evaluation of a piece whose
    data is present ([seg_present_stable]; a piece that already verifies is present in its own
    export files, which are their own first candidates - C04) has returned [Success], the outcome
    the counters of C15_counters_sum count as succeeded; and it is then in place. *)
Theorem C15_available_piece_counted_succeeded H content es0 ix es dev under pc s i :
  table_functional content es -> wf_piece content pc -> Forall (fun sg => In (ps_entry sg) es) (w_segs pc) ->
  cr H content pc -> H (piece_bytes content pc) = w_hash pc -> Forall (pad_zero content) (w_segs pc) ->
  w_segs pc <> [] -> (forall sg, w_segs pc = [sg] -> ps_len sg <> 0) ->
  populate ix es0 = Ok es -> ix_of_fs (s_fs s) dev under es0 ix ->
  Forall (seg_present_stable content (s_fs s) under es0 es) (w_segs pc) ->
  alias_free content es (s_fs s) -> Forall (pgood content es) (s_pool s) ->
  nth_error (s_pool s) i = Some (solve_prog H pc) ->
  (exists s', freach s s' /\ finished s') /\
  (forall s', freach s s' -> finished s' ->
     nth_error (s_pool s') i = Some (Ret Success) /\
     forall sg, In sg (w_segs pc) -> e_pad (ps_entry sg) = false -> holds_seg content (s_fs s') sg).
Proof. exact (present_piece_is_recovered_in_every_complete_run H content es0 ix es dev under pc s i). Qed.

Print Assumptions C15_counters_sum.
Print Assumptions C15_one_line_per_piece.
Print Assumptions C15_success_only_via_good_trace.
Print Assumptions C15_success_means_in_place.
Print Assumptions C15_in_place_forever.
Print Assumptions C15_available_piece_counted_succeeded.
