(** C12 - export files sit at the documented location with exactly the declared length.  Statements only. *)
From TB Require Import Base Decimal BencodeModel TorrentModel TorrentProofs PathModel FsModel SolverModel FinderModel RunModel
                       SolverProofs RunProofs FsProofs FaultProofs PreludeProofs TableProofs Generated GeneratedObligations SystemModel SystemProofs GlueProofs RunExample PropertyLemmas.
Local Open Scope N_scope.

Theorem C12_single_file_location export ih name :
  target_single export ih name = export ++ [hexdigest ih; [68;97;116;97]; name] /\
  starts_with (export ++ [hexdigest ih; [68;97;116;97]]) (target_single export ih name) = true.
Proof. exact (target_single_shape export ih name). Qed.

Theorem C12_multi_file_location export ih name fpath :
  target_multi export ih name fpath = export ++ [hexdigest ih; [68;97;116;97]; name] ++ fpath /\
  starts_with (export ++ [hexdigest ih; [68;97;116;97]; name]) (target_multi export ih name fpath) = true.
Proof. exact (target_multi_shape export ih name fpath). Qed.

(** The directory name has 40 lowercase hexadecimal digits for a 20-byte hash. *)
Theorem C12_dir_name_length ih : length ih = 20%nat -> length (hexdigest ih) = 40%nat.
Proof. exact (dir_name_length ih). Qed.

(** What a piece may create or write: only export images of its non-padding segments; [SetLen]
    always sets exactly the declared length; padding entries never occur in a mutating operation. *)
Theorem C12_only_targets_declared_length H content pc :
  wf_piece content pc -> cr H content pc -> w_segs pc <> [] -> (forall s, w_segs pc = [s] -> ps_len s <> 0) ->
  good content pc (solve_prog H pc).
Proof. exact (solve_prog_good H content pc). Qed.

(** Distinct torrents never share an export file: their subtrees are disjoint. *)
Theorem C12_subtrees_disjoint export ih1 ih2 p :
  Forall (fun x => x < 256) ih1 -> Forall (fun x => x < 256) ih2 ->
  starts_with (export ++ [hexdigest ih1]) p = true -> starts_with (export ++ [hexdigest ih2]) p = true -> ih1 = ih2.
Proof. exact (subtrees_disjoint export ih1 ih2 p). Qed.

(** After [set_len declared] the file has exactly the declared length, and a write inside the
    declared length keeps it. *)
Theorem C12_resize_length b n : length (resize b n) = n.
Proof. exact (resize_length b n). Qed.

(** WHOLE RUN: whatever exists in a reachable state and did not exist when scanning started is a
    directory on the way to the export image of a non-padding entry, or such an export image - so
    no other file appears and padding files are never created. *)
Theorem C12_whole_run_creates_only_export_images H content export ts ix es ws f0 pool0 s p n :
  run_setup H content export ts ix es ws f0 pool0 -> sreach {| s_fs := f0; s_pool := pool0 |} s ->
  fs_lookup f0 p = None -> fs_lookup (s_fs s) p = Some n ->
  (n = NDir /\ exists e, nonpad es e /\ In p (prefixes (parent (e_target e)))) \/
  (exists e i, nonpad es e /\ p = e_target e /\ n = NFile i /\ fresh_ino f0 <= i).
Proof. exact (whole_run_created H content export ts ix es ws f0 pool0 s p n). Qed.

(** Every export path denotes exactly one torrent file: different torrents have disjoint subtrees
    and, within a torrent, files with distinct paths have distinct export paths (the premise
    [table_functional] of the whole-run theorems, from the shape of the torrents). *)
Theorem C12_one_file_per_export_path export ts ix es content :
  Forall torrent_ok ts -> NoDup (map t_info_hash ts) ->
  Forall (fun t => Forall (fun x => x < 256) (t_info_hash t)) ts ->
  Forall (fun t => NoDup (map f_path (files_of t))) ts ->
  populate ix (metadata_table export ts 0) = Ok es ->
  (forall e1 e2, e_ih e1 = e_ih e2 -> e_findex e1 = e_findex e2 -> content e1 = content e2) ->
  table_functional content es.
Proof. exact (table_functional_of_distinct_paths export ts ix es content). Qed.

(** Once an export image has its declared length it keeps it in every continuation of the run
    (every [set_len] sets the declared length, every write stays inside it, nothing truncates) ... *)
Theorem C12_declared_length_is_kept content es f0 s s' e i :
  table_functional content es -> sreach s s' -> SI content es f0 (s_fs s) -> Forall (pgood content es) (s_pool s) ->
  owner es (s_fs s) i e -> length (fs_content (s_fs s) i) = N.to_nat (e_len e) ->
  owner es (s_fs s') i e /\ length (fs_content (s_fs s') i) = N.to_nat (e_len e).
Proof. exact (sized_stable content es f0 s s' e i). Qed.

(** ... and in every piece program every write into a file is preceded, with only successful
    answers in between, by [set_len] on that file (to the declared length, by [good]): so a file
    that has received a piece has exactly the declared length. *)
Theorem C12_write_preceded_by_set_len H pc : armed_ok None (solve_prog H pc).
Proof. exact (solve_prog_write_order H pc). Qed.

Print Assumptions C12_single_file_location.
Print Assumptions C12_multi_file_location.
Print Assumptions C12_dir_name_length.
Print Assumptions C12_only_targets_declared_length.
Print Assumptions C12_subtrees_disjoint.
Print Assumptions C12_resize_length.
Print Assumptions C12_whole_run_creates_only_export_images.
Print Assumptions C12_one_file_per_export_path.
Print Assumptions C12_declared_length_is_kept.
Print Assumptions C12_write_preceded_by_set_len.
