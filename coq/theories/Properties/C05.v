From TB Require Import Base.
