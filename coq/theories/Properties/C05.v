(** C05 - any thread count and interleaving: terminates, each piece evaluated exactly once.
    Statements only.  The executor is the transition system of ExecModel.v (every step of every
    thread is one lock / try_lock / pop / solve / unlock action) with the concrete rebalancing
    relation of BalanceModel.v; [n] is the number of worker threads after the clamp
    max(min(pieces, threads), 1), so thread counts 0, 1 and more-than-pieces are instances.
    No assumption on the scheduler is made anywhere: the statements hold for every reachable
    state, i.e. along every interleaving. *)
From Coq Require Import List Arith Lia Bool Permutation.
Import ListNotations.
From TB Require Import ExecModel ExecProofs BalanceModel BalanceProofs ExecRun ExecRunProofs.
From TB Require SystemModel SystemProofs EstablishProofs TerminationProofs GlueProofs SolverModel SolverProofs SearchProofs FinderModel AvailProofs WholeRunProofs.
From TB Require Import ComposeProofs.

Section C05.
Variable piece : Type.
Variable nfiles gid : piece -> nat.     (* number of files of a piece / id of its first file *)
Variable n : nat.
Notation B := (balanced nfiles gid).
Notation reach := (reach piece n B).
Notation init := (init piece n).

(** No piece is ever lost or duplicated: solved ++ in-flight ++ queued is always a permutation of
    the initial work, whatever was rebalanced and whoever retired. *)
Theorem C05_work_conserved q0 s : (forall i, n <= i -> q0 i = []) -> reach (init q0) s ->
  Permutation (solved s ++ flat piece n (Fin piece s) ++ flat piece n (q s)) (flat piece n q0).
Proof.
  exact (exec_conservation piece n B (balanced_perm piece nfiles gid) (balanced_out piece nfiles gid)
           (balanced_mono piece nfiles gid) (balanced_total piece nfiles gid) q0 s).
Qed.

(** When every worker has finished, every piece has been evaluated exactly once. *)
Theorem C05_exactly_once q0 s : (forall i, n <= i -> q0 i = []) -> reach (init q0) s ->
  (forall t, t < n -> pc s t = PDone) -> Permutation (solved s) (flat piece n q0).
Proof.
  exact (exec_exactly_once piece n B (balanced_perm piece nfiles gid) (balanced_out piece nfiles gid)
           (balanced_mono piece nfiles gid) (balanced_total piece nfiles gid) q0 s).
Qed.

(** No deadlock: in every reachable state in which some worker has not finished, some worker can
    take a step (lock order: execution state, own queue, other queues ascending). *)
Theorem C05_deadlock_free q0 s : (forall i, n <= i -> q0 i = []) -> reach (init q0) s ->
  (exists t, t < n /\ pc s t <> PDone) -> exists s', any_step piece n B s s'.
Proof.
  exact (exec_deadlock_free piece n B (balanced_perm piece nfiles gid) (balanced_out piece nfiles gid)
           (balanced_mono piece nfiles gid) (balanced_total piece nfiles gid) q0 s).
Qed.

(** No livelock: a natural-number measure strictly decreases at EVERY step of EVERY thread, so every
    execution has at most [measure (init q0)] steps under every scheduler (no fairness needed);
    with deadlock freedom, every maximal execution ends with all workers finished. *)
Theorem C05_terminates q0 : (forall i, n <= i -> q0 i = []) ->
  forall s s', reach (init q0) s -> any_step piece n B s s' -> measure piece n s' < measure piece n s.
Proof.
  exact (exec_terminates piece n B (balanced_perm piece nfiles gid) (balanced_out piece nfiles gid)
           (balanced_mono piece nfiles gid) (balanced_total piece nfiles gid) q0).
Qed.

(** The rebalancing itself: a permutation of the active queues' work, other queues untouched,
    queues filled evenly from the front. *)
Theorem C05_balance_moves_every_item a f f' : B a f f' -> Permutation (flat piece a f') (flat piece a f).
Proof. exact (balanced_perm piece nfiles gid a f f'). Qed.
Theorem C05_balance_outside_untouched a f f' i : B a f f' -> a <= i -> f' i = f i.
Proof. exact (balanced_out piece nfiles gid a f f' i). Qed.
Theorem C05_balance_even a f f' i j : B a f f' -> i <= j -> j < a -> length (f' j) <= length (f' i).
Proof. exact (balanced_mono piece nfiles gid a f f' i j). Qed.
End C05.

(** The tie to the code: the synchronisation log of a real run of executor::run (lock / try_lock /
    unlock of the queue locks and of the execution-state lock, piece scope markers, queue dumps
    after every balance) is replayed through the extracted [xrun]; every log it accepts is a path
    of the transition system above from its initial state - with pieces numbered, [nfiles] / [gid]
    the number of files of a piece and the id of its first file. *)
Theorem C05_accepted_log_is_model_path n nfiles gid q0 evs x' : length q0 = n ->
  xrun n nfiles gid (xinit n q0) evs = Some x' ->
  exists s', ExecModel.reach nat n (balanced nfiles gid) (ExecModel.init nat n (qfun q0)) s' /\ R n x' s'.
Proof. exact (accepted_log_is_model_path n nfiles gid q0 evs x'). Qed.

(** THE EVALUATIONS THEMSELVES TERMINATE.  The scanning phase as the transition system of
    SystemModel.v (a pool of piece evaluations over one shared file system; steps: any program's
    next action, failed operations, arbitrary read answers, a write cut short) has no infinite
    path: the converse of its step relation is well-founded.  So the "solve" steps the executor
    model takes for granted always return, under every interleaving and every fault pattern. *)
Theorem C05_every_evaluation_terminates : well_founded (fun s' s => SystemModel.sstep s s').
Proof. exact TerminationProofs.scanning_terminates. Qed.

(** ... and in the fault-free system a run of good programs can always be completed; when nothing
    can move any more every program has returned (no evaluation is stuck half-way). *)
Theorem C05_fault_free_run_completes content es s : SystemProofs.table_functional content es ->
  SystemProofs.alias_free content es (SystemModel.s_fs s) -> Forall (SystemProofs.pgood content es) (SystemModel.s_pool s) ->
  exists s', EstablishProofs.freach s s' /\ TerminationProofs.finished s'.
Proof. exact (fun Hfun => TerminationProofs.fault_free_run_completes content es Hfun s). Qed.

Theorem C05_stuck_means_all_returned s : (forall s', ~ SystemModel.sstep s s') -> TerminationProofs.finished s.
Proof. exact (TerminationProofs.stuck_is_finished s). Qed.

(** EXECUTOR AND EVALUATIONS TOGETHER (ComposeProofs.v).  A worker that has popped piece [w] performs
    the steps of program [w] of the pool - that worker, that program - and takes the executor's
    "solved" step once the program has returned; [nfiles] / [gid] as above, pieces numbered.  The
    program steps are those of the full system [sstep] (failures, arbitrary read answers, cut
    writes); the same statements hold for the fault-free system (ComposeProofs is generic). *)
Section C05_composed.
Variable nfiles gid : nat -> nat.
Variable n : nat.
Notation Bn := (balanced nfiles gid).
Notation S := SystemModel.sstep.
Variable q0 : nat -> list nat.
Hypothesis Hq0 : forall i, n <= i -> q0 i = [].

(** Every run of the composition is a run of the executor model and a path of the system of
    SystemModel.v: all the theorems about either hold of it. *)
Theorem C05_composed_run_is_executor_run c0 c : creach n Bn S c0 c -> ExecModel.reach nat n Bn (ce c0) (ce c).
Proof. exact (proj_exec n Bn S c0 c). Qed.
Theorem C05_composed_run_is_system_path c0 c : creach n Bn S c0 c -> SystemModel.sreach (cs c0) (cs c).
Proof. exact (full_proj_sys n Bn c0 c). Qed.

(** It terminates: no infinite run from any state whose executor part is reachable. *)
Theorem C05_composed_terminates c : ExecModel.reach nat n Bn (ExecModel.init nat n q0) (ce c) ->
  Acc (fun c'' c' => cany n Bn S c' c'') c.
Proof.
  exact (compose_terminates n Bn (balanced_perm nat nfiles gid) (balanced_out nat nfiles gid) (balanced_mono nat nfiles gid)
           (balanced_total nat nfiles gid) S q0 Hq0 c).
Qed.

(** It does not get stuck: while some worker has not finished, some worker can move - an executor
    action, a step of the program it is evaluating, or "solved" when that program has returned. *)
Theorem C05_composed_progress f pool c : (forall w, In w (flat nat n q0) -> w < length pool) ->
  creach n Bn S (cinit n q0 f pool) c -> (exists t, t < n /\ pc (ce c) t <> PDone) -> exists c', cany n Bn S c c'.
Proof.
  exact (full_progress n Bn (balanced_perm nat nfiles gid) (balanced_out nat nfiles gid) (balanced_mono nat nfiles gid)
           (balanced_total nat nfiles gid) q0 Hq0 f pool c).
Qed.

(** When every worker has finished: the solved list is a permutation of the work and the program of
    every piece has returned - each was run to completion ... *)
Theorem C05_composed_exactly_once f pool c : creach n Bn S (cinit n q0 f pool) c -> (forall t, t < n -> pc (ce c) t = PDone) ->
  Permutation (solved (ce c)) (flat nat n q0) /\
  forall w, In w (flat nat n q0) -> exists o, nth_error (SystemModel.s_pool (cs c)) w = Some (SolverModel.Ret o).
Proof.
  exact (compose_exactly_once n Bn (balanced_perm nat nfiles gid) (balanced_out nat nfiles gid) (balanced_mono nat nfiles gid)
           (balanced_total nat nfiles gid) S q0 Hq0 f pool c).
Qed.

(** Complete runs exist (so the statements above are about something): termination + progress. *)
Theorem C05_composed_run_completes f pool : (forall w, In w (flat nat n q0) -> w < length pool) ->
  exists c, creach n Bn S (cinit n q0 f pool) c /\ forall t, t < n -> pc (ce c) t = PDone.
Proof.
  exact (full_completes n Bn (balanced_perm nat nfiles gid) (balanced_out nat nfiles gid) (balanced_mono nat nfiles gid)
           (balanced_total nat nfiles gid) q0 Hq0 f pool).
Qed.

(** ... by one worker: two workers never evaluate the same piece. *)
Theorem C05_one_worker_per_piece e t t' w : NoDup (flat nat n q0) -> ExecModel.reach nat n Bn (ExecModel.init nat n q0) e ->
  t < n -> t' < n -> pc e t = PSolve w -> pc e t' = PSolve w -> t = t'.
Proof.
  exact (fun Hnd => solver_unique n Bn (balanced_perm nat nfiles gid) (balanced_out nat nfiles gid) (balanced_mono nat nfiles gid)
           (balanced_total nat nfiles gid) q0 Hq0 Hnd e t t' w).
Qed.
End C05_composed.

(** END TO END (WholeRunProofs.v): a run of loadable torrents ([run_setup]) with [n] workers whose queues
    [q0] hold the numbers of the pieces of the work list, in the fault-free composition of the executor
    with the evaluations.  Complete runs exist; every run terminates; EVERY complete run - any
    interleaving of executor actions and evaluation steps, any rebalancing - has evaluated every piece
    exactly once, and each piece whose data is present (C02) has ended in [Success] and is in place:
    "the outcome satisfies the same guarantees as a single-threaded run". *)
Theorem C05_whole_run_any_schedule nfiles gid n q0 H content export ts ix es ws f0 dev under i pc :
  (forall k, n <= k -> q0 k = []) ->
  GlueProofs.run_setup H content export ts ix es ws f0 (map (SolverModel.solve_prog H) ws) ->
  (forall w, In w (flat nat n q0) -> w < length ws) -> In i (flat nat n q0) ->
  nth_error ws i = Some pc -> H (SolverProofs.piece_bytes content pc) = SolverModel.w_hash pc ->
  Forall (SearchProofs.pad_zero content) (SolverModel.w_segs pc) ->
  AvailProofs.ix_of_fs f0 dev under (FinderModel.metadata_table export ts 0) ix ->
  Forall (AvailProofs.seg_present_stable content f0 under (FinderModel.metadata_table export ts 0) es) (SolverModel.w_segs pc) ->
  let c0 := cinit n q0 f0 (map (SolverModel.solve_prog H) ws) in
  (exists c, creach n (balanced nfiles gid) SystemModel.fstep c0 c /\ forall t, t < n -> ExecModel.pc (ce c) t = PDone) /\
  (forall c, creach n (balanced nfiles gid) SystemModel.fstep c0 c -> Acc (fun c'' c' => cany n (balanced nfiles gid) SystemModel.fstep c' c'') c) /\
  (forall c, creach n (balanced nfiles gid) SystemModel.fstep c0 c -> (forall t, t < n -> ExecModel.pc (ce c) t = PDone) ->
     Permutation (solved (ce c)) (flat nat n q0) /\
     nth_error (SystemModel.s_pool (cs c)) i = Some (SolverModel.Ret SolverModel.Success) /\
     forall sg, In sg (SolverModel.w_segs pc) -> SolverModel.e_pad (SolverModel.ps_entry sg) = false ->
                EstablishProofs.holds_seg content (SystemModel.s_fs (cs c)) sg).
Proof.
  exact (fun Hq0 => WholeRunProofs.whole_composed_run_recovers n (balanced nfiles gid) (balanced_perm nat nfiles gid) (balanced_out nat nfiles gid)
           (balanced_mono nat nfiles gid) (balanced_total nat nfiles gid) q0 Hq0 H content export ts ix es ws f0 dev under i pc).
Qed.

Print Assumptions C05_work_conserved.
Print Assumptions C05_exactly_once.
Print Assumptions C05_deadlock_free.
Print Assumptions C05_terminates.
Print Assumptions C05_balance_moves_every_item.
Print Assumptions C05_balance_outside_untouched.
Print Assumptions C05_balance_even.
Print Assumptions C05_accepted_log_is_model_path.
Print Assumptions C05_every_evaluation_terminates.
Print Assumptions C05_fault_free_run_completes.
Print Assumptions C05_stuck_means_all_returned.
Print Assumptions C05_composed_run_is_executor_run.
Print Assumptions C05_composed_run_is_system_path.
Print Assumptions C05_composed_terminates.
Print Assumptions C05_composed_progress.
Print Assumptions C05_composed_exactly_once.
Print Assumptions C05_one_worker_per_piece.
Print Assumptions C05_composed_run_completes.
Print Assumptions C05_whole_run_any_schedule.
