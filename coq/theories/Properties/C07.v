(** C07 - the info-hash is the SHA-1 of the exact bytes of the info value in the file.
    Statements only.  [H] is SHA-1, abstract: the theorems hold for every function; the executable
    instance Sha1.sha1 is validated against the sha1 crate by the correspondence check. *)
From TB Require Import Base Decimal BencodeModel BencodeSpec Utf8 Generated GeneratedObligations TorrentModel TorrentSpec TorrentProofs.
Local Open Scope N_scope.

(** The info-hash of a loaded torrent is H of exactly the bytes that encode the value bound to
    the top-level key "info" in the input (they occur in the file as a contiguous block). *)
Theorem C07_info_hash_is_H_of_info_bytes H x t : len x <= u64max -> load H x = Ok t ->
  exists root info pre post,
    x = enc (BDict root) /\ canonical (BDict root) /\ lookup root key_info = Some (BDict info) /\
    x = pre ++ enc (BDict info) ++ post /\ t_info_hash t = H (enc (BDict info)).
Proof. exact (info_hash_is_H_of_info_value H x t). Qed.

(** It is unaffected by other top-level keys, their order or size: two loadable documents whose
    info values are equal have equal info-hashes (keys inside info that the tool does not interpret
    are part of the value and hashed as they stand). *)
Theorem C07_info_hash_indep_outer H x1 x2 t1 t2 root1 root2 info :
  len x1 <= u64max -> len x2 <= u64max ->
  load H x1 = Ok t1 -> load H x2 = Ok t2 ->
  x1 = enc (BDict root1) -> canonical (BDict root1) -> x2 = enc (BDict root2) -> canonical (BDict root2) ->
  lookup root1 key_info = Some info -> lookup root2 key_info = Some info ->
  t_info_hash t1 = t_info_hash t2.
Proof. exact (info_hash_indep_outer H x1 x2 t1 t2 root1 root2 info). Qed.

(** The key is literally "info". *)
Theorem C07_key_is_info : key_info = [105;110;102;111].
Proof. exact key_info_ok. Qed.

(** The directory name: two lowercase hexadecimal digits per byte (40 for a 20-byte hash), decodable. *)
Theorem C07_hex_length bs : length (hexdigest bs) = (2 * length bs)%nat.
Proof. exact (hex_length bs). Qed.
Theorem C07_hex_lowercase bs : Forall (fun b => b < 256) bs -> Forall (fun c => is_lower_hex c = true) (hexdigest bs).
Proof. exact (hex_lowercase bs). Qed.
Theorem C07_hex_injective a b : Forall (fun x => x < 256) a -> Forall (fun x => x < 256) b ->
  hexdigest a = hexdigest b -> a = b.
Proof. exact (hex_injective a b). Qed.
Theorem C07_hex_format : hex_format = [123;58;48;50;120;63;125].
Proof. exact hex_format_ok. Qed.

Print Assumptions C07_info_hash_is_H_of_info_bytes.
Print Assumptions C07_info_hash_indep_outer.
Print Assumptions C07_key_is_info.
Print Assumptions C07_hex_length.
Print Assumptions C07_hex_lowercase.
Print Assumptions C07_hex_injective.
Print Assumptions C07_hex_format.
