(** C13 - an I/O failure on one piece is confined to that piece.  Statements only. *)
From TB Require Import Base Decimal BencodeModel TorrentModel TorrentProofs PathModel FsModel SolverModel FinderModel RunModel
                       SolverProofs RunProofs FsProofs FaultProofs PreludeProofs TableProofs Generated GeneratedObligations SystemModel SystemProofs GlueProofs RunExample SearchProofs EstablishProofs CompleteProofs.
From TB Require ExecModel BalanceModel BalanceProofs ComposeProofs AvailProofs SearchProofs WholeRunProofs.
Local Open Scope N_scope.

(** For every piece and with no hypothesis at all: any I/O error answer (a candidate that cannot
    be opened or read, a directory/open/set_len/seek/write that fails) ends the evaluation as
    [Fault], after at most releasing the file lock - nothing else is attempted ... *)
Theorem C13_fault_ends_the_piece H pc : fault_closed (solve_prog H pc).
Proof. exact (solve_prog_fault_closed H pc). Qed.

(** ... no lock guard is leaked on any path (so no mutex is left held or poisoned) ... *)
Theorem C13_no_lock_leaked H pc : lock_ok None (solve_prog H pc).
Proof. exact (solve_prog_lock_ok H pc). Qed.

(** ... and the operations issued before the failure are still good operations: correct torrent
    bytes at correct offsets (goodness holds for every answer, including error answers). *)
Theorem C13_ops_before_fault_good H content pc :
  wf_piece content pc -> cr H content pc -> w_segs pc <> [] -> (forall s, w_segs pc = [s] -> ps_len s <> 0) ->
  good content pc (solve_prog H pc).
Proof. exact (solve_prog_good H content pc). Qed.

(** The piece is counted exactly once, as faulted; the other counters are untouched. *)
Theorem C13_fault_counted c : count c Fault = {| c_success := c_success c; c_failed := c_failed c; c_fault := S (c_fault c); c_total := c_total c |}.
Proof. reflexivity. Qed.

(** WHOLE RUN: after any number of I/O failures anywhere (every [ss_mut_fail] / failed read step),
    every program still in the pool - the pieces other workers are evaluating, and the faulted
    piece's own remainder - is still good: the failure changed nothing for the others. *)
Theorem C13_whole_run_other_pieces_unaffected H content export ts ix es ws f0 pool0 s pg :
  run_setup H content export ts ix es ws f0 pool0 -> sreach {| s_fs := f0; s_pool := pool0 |} s ->
  In pg (s_pool s) -> pgood content es pg.
Proof. exact (whole_run_pool_good H content export ts ix es ws f0 pool0 s pg). Qed.

(** WHOLE RUN, functional form of the confinement: let every OTHER program take arbitrary steps of
    the full system - failed operations, arbitrary read answers, a write cut short - while the
    evaluation of this piece itself meets no failure ([mreachA i]); if the piece stays available and
    unobstructed, its evaluation still can only return [Success] and its segments are in place.  A
    failure on one piece does not cost any other piece. *)
Theorem C13_failure_elsewhere_costs_nothing H content es pc wit s s' i o :
  table_functional content es -> wf_piece content pc -> Forall (fun sg => In (ps_entry sg) es) (w_segs pc) ->
  cr H content pc -> H (piece_bytes content pc) = w_hash pc -> Forall (pad_zero content) (w_segs pc) ->
  w_segs pc <> [] -> (forall sg, w_segs pc = [sg] -> ps_len sg <> 0) ->
  alias_free content es (s_fs s) -> Forall (pgood content es) (s_pool s) ->
  nth_error (s_pool s) i = Some (solve_prog H pc) -> mreachA content pc wit i s s' -> nth_error (s_pool s') i = Some (Ret o) ->
  o = Success /\ forall sg, In sg (w_segs pc) -> e_pad (ps_entry sg) = false -> holds_seg content (s_fs s') sg.
Proof. exact (fun Hfun Hwf Hall Hcr Hhash Hpadz Hne Hone => available_means_recovered_despite_faults H content es Hfun pc Hwf Hall Hcr Hhash Hpadz Hne Hone wit s s' i o). Qed.

(** END TO END, ANY SCHEDULE (ComposeProofs.v, WholeRunProofs.v): the executor with [n] workers composed with
    the evaluations, in which the evaluation of piece [i] meets no failure and EVERY OTHER evaluation may
    fail anywhere, be answered arbitrarily, be cut in the middle of a write ([pstep_but i]).  Complete
    runs exist, every run terminates, every complete run has evaluated every piece exactly once, and
    piece [i], whose data is present, has ended in [Success] and is in place: failures elsewhere are
    confined to the pieces they hit, and the run returns normally. *)
Theorem C13_whole_run_failures_elsewhere_any_schedule nfiles gid n q0 H content export ts ix es ws f0 dev under i pc :
  (forall k, (n <= k)%nat -> q0 k = []) ->
  run_setup H content export ts ix es ws f0 (map (solve_prog H) ws) ->
  (forall w, In w (ExecModel.flat nat n q0) -> (w < length ws)%nat) -> In i (ExecModel.flat nat n q0) ->
  nth_error ws i = Some pc -> H (piece_bytes content pc) = w_hash pc -> Forall (SearchProofs.pad_zero content) (w_segs pc) ->
  AvailProofs.ix_of_fs f0 dev under (metadata_table export ts 0) ix ->
  Forall (AvailProofs.seg_present_stable content f0 under (metadata_table export ts 0) es) (w_segs pc) ->
  let c0 := ComposeProofs.cinit n q0 f0 (map (solve_prog H) ws) in
  let B := BalanceModel.balanced nfiles gid in
  (exists c, ComposeProofs.creach n B (ComposeProofs.pstep_but i) c0 c /\ forall t, (t < n)%nat -> ExecModel.pc (ComposeProofs.ce c) t = ExecModel.PDone) /\
  (forall c, ComposeProofs.creach n B (ComposeProofs.pstep_but i) c0 c ->
     Acc (fun c'' c' => ComposeProofs.cany n B (ComposeProofs.pstep_but i) c' c'') c) /\
  (forall c, ComposeProofs.creach n B (ComposeProofs.pstep_but i) c0 c -> (forall t, (t < n)%nat -> ExecModel.pc (ComposeProofs.ce c) t = ExecModel.PDone) ->
     Permutation.Permutation (ExecModel.solved (ComposeProofs.ce c)) (ExecModel.flat nat n q0) /\
     nth_error (s_pool (ComposeProofs.cs c)) i = Some (Ret Success) /\
     forall sg, In sg (w_segs pc) -> e_pad (ps_entry sg) = false -> EstablishProofs.holds_seg content (s_fs (ComposeProofs.cs c)) sg).
Proof.
  exact (fun Hq0 => WholeRunProofs.whole_composed_run_recovers_despite_faults n (BalanceModel.balanced nfiles gid)
           (BalanceProofs.balanced_perm nat nfiles gid) (BalanceProofs.balanced_out nat nfiles gid)
           (BalanceProofs.balanced_mono nat nfiles gid) (BalanceProofs.balanced_total nat nfiles gid) q0 Hq0 H content export ts ix es ws f0 dev under i pc).
Qed.

Print Assumptions C13_fault_ends_the_piece.
Print Assumptions C13_no_lock_leaked.
Print Assumptions C13_ops_before_fault_good.
Print Assumptions C13_fault_counted.
Print Assumptions C13_whole_run_other_pieces_unaffected.
Print Assumptions C13_failure_elsewhere_costs_nothing.
Print Assumptions C13_whole_run_failures_elsewhere_any_schedule.
