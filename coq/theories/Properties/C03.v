(** C03 - nothing outside the loaded torrents' export subtrees is ever touched.  Statements only. *)
From TB Require Import Base Decimal BencodeModel TorrentModel TorrentProofs PathModel FsModel SolverModel FinderModel RunModel
                       SolverProofs RunProofs FsProofs FaultProofs PreludeProofs TableProofs Generated GeneratedObligations SystemModel SystemProofs GlueProofs RunExample PropertyLemmas.
Local Open Scope N_scope.

(** Every mutating operation of a piece evaluation names the export path of one of the piece's
    non-padding entries, or that path's parent directory (C01_piece_issues_only_good_ops), and
    every export path of the metadata table - and its parent - lies lexically inside
    export/<40 hex digits of its torrent's info-hash>/Data. *)
Theorem C03_targets_confined export ts id e : In e (metadata_table export ts id) ->
  exists t, In t ts /\ e_ih e = t_info_hash t /\
    starts_with (export ++ [hexdigest (t_info_hash t); [68;97;116;97]]) (e_target e) = true /\
    starts_with (export ++ [hexdigest (t_info_hash t); [68;97;116;97]]) (parent (e_target e)) = true.
Proof. exact (table_target_confined export ts id e). Qed.

(** A loadable torrent only declares plain names: the name and every path component are non-empty,
    not '.' or '..', and contain no '/', so appending them cannot leave the subtree. *)
Theorem C03_loaded_name_plain d ih t : TorrentSpec.spec_info d ih = Some t -> is_plain (t_name t) = true.
Proof. exact (loaded_name_plain d ih t). Qed.

(** Open modes (re-extracted from the source on every run): candidates and index probes are
    read-only; only the writer (targets) and the resize second pass (targets) open for writing,
    never with truncate. *)
Theorem C03_open_modes :
  of_write candidate_open = false /\ of_write index_open = false /\ of_write resize_probe_open = false /\
  of_create candidate_open = false /\ of_create index_open = false /\ of_create resize_probe_open = false /\ of_create resize_fix_open = false /\
  of_truncate candidate_open = false /\ of_truncate index_open = false /\ of_truncate resize_probe_open = false /\
  of_truncate resize_fix_open = false /\ of_truncate writer_open = false.
Proof. repeat split; reflexivity. Qed.

(** The resize pre-flight only ever issues [SetLen target declared] on non-padding entries. *)
Theorem C03_resize_ops_on_targets ans mutok es k o : In o (fst (run_prelude ans mutok (resize_pass2 es k))) ->
  In o (fst (run_prelude ans mutok k)) \/ exists e, In e es /\ e_pad e = false /\ o = SetLen (e_target e) (e_len e).
Proof. exact (pass2_ops_shape ans mutok es k o). Qed.

(** Inodes no operation names keep their content (frame). *)
Theorem C03_unnamed_inodes_unchanged f o f' ok j : apply_op f o = (f', ok) ->
  fs_lookup f (op_path o) <> Some (NFile j) -> fs_content f' j = fs_content f j.
Proof. exact (unnamed_inodes_unchanged f o f' ok j). Qed.

(** WHOLE RUN, every reachable state of the scanning phase (any interleaving, faults, crash point):
    no path is removed, renamed or retyped; an inode that is not the export image of a non-padding
    table entry keeps its exact content - every file reached through a scan directory, every
    bystander (unless it is a hard link of an export file); and whatever appears is a directory on
    the way to an export file or an export file itself (a fresh inode). *)
Theorem C03_whole_run_outside_untouched H content export ts ix es ws f0 pool0 s :
  run_setup H content export ts ix es ws f0 pool0 -> sreach {| s_fs := f0; s_pool := pool0 |} s ->
  (forall p n, fs_lookup f0 p = Some n -> fs_lookup (s_fs s) p = Some n) /\
  (forall i, (forall e, ~ owner es (s_fs s) i e) -> fs_content (s_fs s) i = fs_content f0 i) /\
  (forall p n, fs_lookup f0 p = None -> fs_lookup (s_fs s) p = Some n ->
     (n = NDir /\ exists e, nonpad es e /\ In p (prefixes (parent (e_target e)))) \/
     (exists e i, nonpad es e /\ p = e_target e /\ n = NFile i /\ fresh_ino f0 <= i)).
Proof. exact (whole_run_outside_untouched H content export ts ix es ws f0 pool0 s). Qed.

Print Assumptions C03_targets_confined.
Print Assumptions C03_loaded_name_plain.
Print Assumptions C03_open_modes.
Print Assumptions C03_resize_ops_on_targets.
Print Assumptions C03_unnamed_inodes_unchanged.
Print Assumptions C03_whole_run_outside_untouched.
