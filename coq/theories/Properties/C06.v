(** C06 - the piece layout is an exact partition of the torrent's byte space onto files.
    Statements only: every theorem is closed by [exact] of a lemma of LayoutProofs.v. *)
From TB Require Import Base LayoutModel LayoutSpec LayoutProofs TorrentModel SolverModel FinderModel RunModel GlueProofs.
From Coq Require Import Sorted.
Local Open Scope N_scope.

(** Multi-file form: for every non-empty vector of file lengths (any magnitudes), every piece
    length that fits a u64 and the hash count the loader enforces, the model of
    [Pieces::from_torrent] returns (never panics, never overflows, never runs out of fuel)
    one piece per hash, and piece [i]'s positive-length segments are exactly the
    (file, offset, length) ranges that intersect [i*L, min((i+1)*L, total)), in file order;
    zero-length segments occur only for empty files; the length field is the interval's length. *)
Theorem C06_layout_multi files L nh :
  files <> [] -> L <= u64max -> hashes_ok files L nh ->
  exists ps, layout_multi files L nh = Ok ps /\ length ps = nh /\
             forall i p, nth_error ps i = Some p -> piece_ok files L i p.
Proof. exact (layout_multi_spec files L nh). Qed.

(** Single-file form: the segments are exactly the specification (no zero-length segment at all). *)
Theorem C06_layout_single flen L nh :
  flen <= u64max -> hashes_ok [flen] L nh ->
  exists ps, layout_single flen L nh = Ok ps /\ length ps = nh /\
    forall i p, nth_error ps i = Some p -> p_segs p = spec_piece [flen] L i /\ piece_ok [flen] L i p.
Proof. exact (layout_single_spec flen L nh). Qed.

(** The loader's hash-count test (torrent.rs) is exactly the hypothesis used above. *)
Theorem C06_hash_count files L nh :
  hash_count_ok (total files) L (N.of_nat nh) = true <-> hashes_ok files L nh.
Proof. exact (hash_count_ok_iff files L nh). Qed.

(** Partition: every byte of every file lies in a segment of piece (global position / L) ... *)
Theorem C06_every_byte_covered files L k len o :
  0 < L -> nth_error files k = Some len -> o < len ->
  exists s, In s (spec_piece files L (N.to_nat ((start_of files k + o) / L))) /\ covers s k o.
Proof. exact (spec_covers files L k len o). Qed.

(** ... and of no other piece ... *)
Theorem C06_byte_in_one_piece files L i s k o :
  0 < L -> In s (spec_piece files L i) -> covers s k o ->
  i = N.to_nat ((start_of files k + o) / L).
Proof. exact (spec_covers_unique files L i s k o). Qed.

(** ... and within a piece each file contributes at most one segment, in torrent order. *)
Theorem C06_segments_in_file_order files L i :
  StronglySorted (fun a b => (s_file a < s_file b)%nat) (spec_piece files L i).
Proof. exact (spec_piece_files_increasing files L i). Qed.

(** Each segment lies inside its file and has positive length. *)
Theorem C06_segment_inside_file files L i s :
  In s (spec_piece files L i) ->
  nth_error files (s_file s) = Some (s_flen s) /\ 0 < s_len s /\ s_off s + s_len s <= s_flen s.
Proof. exact (spec_piece_inside files L i s). Qed.

(** For every torrent the loader returns ([torrent_ok], see C16_loaded_torrent_ok) the layout
    model returns one piece per hash; no piece is empty, a one-segment piece has positive length,
    and every segment lies inside the file it names and carries that file's declared length. *)
Theorem C06_loaded_torrent_layout t : torrent_ok t ->
  exists ps, layout (shape_of t) (t_piece_length t) (length (t_pieces t)) = Ok ps /\ length ps = length (t_pieces t) /\
    forall p, In p ps -> p_segs p <> [] /\ (forall sg, p_segs p = [sg] -> s_len sg <> 0) /\ Forall (seg_fits (lens_of t)) (p_segs p).
Proof. exact (torrent_layout t). Qed.

(** Lifted to the work list the run evaluates: every byte (file k, offset o) of every loaded
    torrent lies in a segment of some piece of the work list, and that segment
    is tied to the table entry of that very file (same info-hash, same file index). *)
Theorem C06_work_list_covers_every_byte ts es ws t k flen o :
  Forall torrent_ok ts -> work_of es ts = Ok ws -> In t ts -> nth_error (lens_of t) k = Some flen -> o < flen ->
  exists pc s, In pc ws /\ In s (w_segs pc) /\ e_ih (ps_entry s) = t_info_hash t /\ e_findex (ps_entry s) = k /\
               ps_off s <= o < ps_off s + ps_len s.
Proof. exact (fun Hts => work_covers_every_byte ts es Hts ws t k flen o). Qed.

(** Non-vacuity: a layout with empty files first, in the middle and last, file ends on piece ends. *)
Example C06_example_hypotheses : [0;4;0;4;3;0] <> [] /\ 4 <= u64max /\ hashes_ok [0;4;0;4;3;0] 4 3.
Proof. split; [discriminate|]. split; [unfold u64max; lia|]. unfold hashes_ok, total; cbn. lia. Qed.
Example C06_example_value :
  layout_multi [0;4;0;4;3;0] 4 3 = Ok
   [ {| p_segs := [ {| s_file := 0; s_off := 0; s_len := 0; s_flen := 0 |};
                    {| s_file := 1; s_off := 0; s_len := 4; s_flen := 4 |} ]; p_len := 4 |};
     {| p_segs := [ {| s_file := 2; s_off := 0; s_len := 0; s_flen := 0 |};
                    {| s_file := 3; s_off := 0; s_len := 4; s_flen := 4 |} ]; p_len := 4 |};
     {| p_segs := [ {| s_file := 4; s_off := 0; s_len := 3; s_flen := 3 |};
                    {| s_file := 5; s_off := 0; s_len := 0; s_flen := 0 |} ]; p_len := 3 |} ].
Proof. vm_compute. reflexivity. Qed.
(** Lengths at the top of the u64 range and a total above 2^64 do not overflow. *)
Example C06_example_huge :
  exists ps, layout_multi [18446744073709551615; 18446744073709551615] 18446744073709551615 2 = Ok ps.
Proof. eexists. vm_compute. reflexivity. Qed.

Print Assumptions C06_layout_multi.
Print Assumptions C06_layout_single.
Print Assumptions C06_hash_count.
Print Assumptions C06_every_byte_covered.
Print Assumptions C06_byte_in_one_piece.
Print Assumptions C06_segments_in_file_order.
Print Assumptions C06_segment_inside_file.
Print Assumptions C06_loaded_torrent_layout.
Print Assumptions C06_work_list_covers_every_byte.
