(** Proofs about the executor transition system (C05): conservation of work, exactly-once,
    deadlock freedom, termination by a strictly decreasing measure - for every thread count and
    every scheduler, with no fairness assumption.  [balanced] is any rebalancing relation with the four
    facts below (proved of the concrete function in BalanceProofs.v).
    The gathered queue locks are released one at a time ([PRelease j hi]): the invariant records exactly
    which queue locks a gathering / balancing / releasing thread holds, and the measure charges every
    "wasted pass" through the state lock (own queue found non-empty) to the release step that made it
    possible (see [Fc] / [dist]). *)
From Coq Require Import List Arith Lia Bool Permutation.
Import ListNotations.
From TB Require Import ExecModel.

Section Exec.
Variable piece : Type.
Variable n : nat.
Variable balanced : nat -> (nat -> list piece) -> (nat -> list piece) -> Prop.
Notation st := (st piece).
Notation step := (step piece balanced).
Notation any_step := (any_step piece n balanced).
Notation reach := (reach piece n balanced).
Notation init := (init piece n).
Notation pcT := (pcT piece).
Notation flat := (flat piece).

Hypothesis bal_perm  : forall a f f', balanced a f f' -> Permutation (flat a f') (flat a f).
Hypothesis bal_out   : forall a f f' i, balanced a f f' -> a <= i -> f' i = f i.
Hypothesis bal_mono  : forall a f f' i j, balanced a f f' -> i <= j -> j < a -> length (f' j) <= length (f' i).
Hypothesis bal_total : forall a f, exists f', balanced a f f'.


Lemma upd_same {A} (f : nat -> A) t v : upd f t v t = v.
Proof. unfold upd. now rewrite Nat.eqb_refl. Qed.
Lemma upd_other {A} (f : nat -> A) t v x : x <> t -> upd f t v x = f x.
Proof. unfold upd. intros. destruct (Nat.eqb_spec x t); congruence. Qed.

(* ---------- classification of program counters ---------- *)
Definition holds_slock (p : pcT) : bool :=
  match p with PChk | PLockOwn | PChkLen | PGather _ | PBalance | PRelease _ _ | PRelOwn | PRelState => true | _ => false end.
(* does thread [t] at [p] hold the lock of its own queue?  While releasing, iff its index is still ahead *)
Definition holds_own (t : nat) (p : pcT) : bool :=
  match p with PHoldOwn | PChkLen | PGather _ | PBalance | PRelOwn => true
             | PRelease j hi => (j <=? t) && (t <? hi) | _ => false end.
Definition in_active (p : pcT) : bool :=
  match p with PLockOwn | PChkLen | PGather _ | PBalance | PRelOwn => true | _ => false end.
Definition gathering (p : pcT) : bool := match p with PGather _ | PBalance => true | _ => false end.
(* the program counters at which a thread may hold queue locks of other threads *)
Definition multi (p : pcT) : bool := match p with PGather _ | PBalance | PRelease _ _ => true | _ => false end.

Record Inv (s : st) : Prop := {
  i_act : active s <= n;
  i_gat : forall t i, t < n -> pc s t = PGather i -> i <= active s;
  i_sl  : forall t, t < n -> holds_slock (pc s t) = true -> slock s = Some t;
  i_in  : forall t, t < n -> in_active (pc s t) = true -> t < active s;
  i_emp : forall t, t < n -> gathering (pc s t) = true -> q s t = [];
  i_own : forall t, t < n -> holds_own t (pc s t) = true -> qlock s t = Some t;
  i_nown: forall t, t < n -> holds_own t (pc s t) = false -> qlock s t <> Some t;
  i_oth : forall i t, qlock s i = Some t -> t <> i -> t < n /\ multi (pc s t) = true;
  i_tail: forall i, active s <= i -> q s i = [];
  i_slc : forall r, slock s = Some r -> r < n /\ holds_slock (pc s r) = true;
  i_ownc: forall i, qlock s i = Some i -> i < n /\ holds_own i (pc s i) = true;
  i_gl  : forall r j i, r < n -> pc s r = PGather j -> qlock s i = Some r -> i <> r -> i < j;
  i_done: forall t, t < n -> pc s t = PDone -> active s <= t;
  (* exactly which queue locks a gathering / balancing / releasing thread holds *)
  i_gh  : forall r j i, r < n -> pc s r = PGather j -> i < j -> i < active s -> qlock s i = Some r;
  i_bh  : forall r i, r < n -> pc s r = PBalance -> i < active s -> qlock s i = Some r;
  i_bl  : forall r i, r < n -> pc s r = PBalance -> qlock s i = Some r -> i < active s;
  i_rh  : forall r j hi i, r < n -> pc s r = PRelease j hi -> j <= i -> i < hi -> qlock s i = Some r;
  i_rl  : forall r j hi i, r < n -> pc s r = PRelease j hi -> qlock s i = Some r -> j <= i /\ i < hi
}.

Ltac upd_simpl := repeat (
  rewrite upd_same in * ||
  match goal with
  | H : ?u <> ?t |- context [upd _ ?t _ ?u] => rewrite (upd_other _ t _ u H)
  | H : ?u <> ?t, H' : context [upd _ ?t _ ?u] |- _ => rewrite (upd_other _ t _ u H) in H'
  end).

Lemma inv_init q0 : (forall i, n <= i -> q0 i = []) -> Inv (init q0).
Proof.
  intros Hq. constructor; cbn; intros; try discriminate; try lia; auto.
Qed.

Lemma trailing_empty_le (f : nat -> list piece) a : trailing_empty f a <= a.
Proof. induction a; cbn; [lia|]. destruct (f a); lia. Qed.

Lemma trailing_empty_spec (f : nat -> list piece) a i : a - trailing_empty f a <= i -> i < a -> f i = [].
Proof.
  induction a as [|a IH]; cbn; intros; [lia|].
  destruct (f a) eqn:E; [|lia].
  destruct (Nat.eq_dec i a) as [->|]; [exact E|]. apply IH; lia.
Qed.

Ltac thr u t := destruct (Nat.eq_dec u t) as [?|?]; [subst u|].
Ltac pcrw := repeat match goal with
  | H : pc ?s ?t = _ |- _ => rewrite H in *; clear H
  end.
Ltac fin := cbn in *; try discriminate; try congruence; try lia; auto.

Ltac prem := repeat match goal with
  | H : true = true -> _ |- _ => specialize (H eq_refl)
  | H : false = true -> _ |- _ => clear H
  | H : true = false -> _ |- _ => clear H
  | H : false = false -> _ |- _ => specialize (H eq_refl)
  end.
Ltac fwd := repeat match goal with
  | H : ?P -> _, H' : ?P |- _ => specialize (H H')
  end.
Ltac fin2 := prem; fwd; try discriminate; try congruence; try lia; auto.

Lemma in_active_sl p : in_active p = true -> holds_slock p = true. Proof. destruct p; cbn; auto. Qed.
Lemma gathering_sl p : gathering p = true -> holds_slock p = true. Proof. destruct p; cbn; auto. Qed.
Lemma gathering_own t p : gathering p = true -> holds_own t p = true. Proof. destruct p; cbn; auto; discriminate. Qed.
Lemma gathering_in p : gathering p = true -> in_active p = true. Proof. destruct p; cbn; auto. Qed.
Lemma multi_sl p : multi p = true -> holds_slock p = true. Proof. destruct p; cbn; auto. Qed.

(* ---------- brute-force machinery for the preservation lemmas ---------- *)
Definition mark {A} (a : A) : Prop := True.

(* boolean-classified invariant fields at thread u *)
Ltac inst I u Hu :=
  lazymatch goal with
  | _ : mark (u, I) |- _ => idtac
  | _ =>
    assert (mark (u, I)) by exact Logic.I;
    pose proof (i_sl _ I u Hu);
    pose proof (i_in _ I u Hu);
    pose proof (i_emp _ I u Hu);
    pose proof (i_own _ I u Hu);
    pose proof (i_nown _ I u Hu)
  end.
Ltac inst_thr I := repeat match goal with
  | Hu : ?u < n |- _ => lazymatch goal with | _ : mark (u, I) |- _ => fail | _ => inst I u Hu end
  end.

(* the fields indexed by a concrete program counter, for every thread whose pc is known *)
Ltac facts I := repeat match goal with
  | Hr : ?r < n, H : pc ?s ?r = ?p |- _ =>
      lazymatch goal with | _ : mark (r, p, I) |- _ => fail | _ => idtac end;
      assert (mark (r, p, I)) by exact Logic.I;
      lazymatch p with
      | PGather ?j => pose proof (i_gat _ I r j Hr H); pose proof (fun k => i_gl _ I r j k Hr H);
                      pose proof (fun k => i_gh _ I r j k Hr H)
      | PBalance => pose proof (fun k => i_bh _ I r k Hr H); pose proof (fun k => i_bl _ I r k Hr H)
      | PRelease ?j ?hi => pose proof (fun k => i_rh _ I r j hi k Hr H); pose proof (fun k => i_rl _ I r j hi k Hr H)
      | PDone => pose proof (i_done _ I r Hr H)
      | _ => idtac
      end
  end.

(* case split on every comparison of an updated function's argument with the updated index *)
Ltac updq := repeat (upd_simpl;
  match goal with
  | |- context [upd _ ?x _ ?i] => destruct (Nat.eq_dec i x); [subst|]
  | H : context [upd _ ?x _ ?i] |- _ => destruct (Nat.eq_dec i x); [subst|]
  end); upd_simpl.

Ltac bdestr := repeat (match goal with
  | |- context [?a <=? ?b] => destruct (Nat.leb_spec a b)
  | H : context [?a <=? ?b] |- _ => destruct (Nat.leb_spec a b)
  | |- context [?a <? ?b] => destruct (Nat.ltb_spec a b)
  | H : context [?a <? ?b] |- _ => destruct (Nat.ltb_spec a b)
  end; cbn [andb] in *).

(* instantiate a universally quantified (over nat) hypothesis with every nat in the context *)
Ltac inst_nat H :=
  repeat match goal with
  | x : nat |- _ =>
      let T := type of (H x) in
      lazymatch goal with | _ : T |- _ => fail | _ => pose proof (H x) end
  end.
Ltac inst_nats := repeat match goal with
  | H : forall k : nat, _ |- _ =>
      lazymatch type of H with context [balanced] => fail | _ => idtac end;
      progress (inst_nat H)
  end.
Ltac pcinv := repeat match goal with
  | H : PGather _ = PGather _ |- _ => inversion H; clear H; subst
  | H : PRelease _ _ = PRelease _ _ |- _ => inversion H; clear H; subst
  | H : PSolve _ = PSolve _ |- _ => inversion H; clear H; subst
  end.

(* discharge premises that are provable by assumption / arithmetic / congruence *)
Ltac fwdl := repeat match goal with
  | H : ?P -> _ |- _ =>
      match type of P with Prop => idtac end;
      let HP := fresh in assert (HP : P) by (assumption || reflexivity || lia || congruence);
      specialize (H HP); clear HP
  end.
Ltac splits := repeat match goal with |- _ /\ _ => split end.
Ltac deconj := repeat match goal with H : _ /\ _ |- _ => destruct H end.
Ltac solve_it := splits; cbn in *; try discriminate; try congruence; try lia; auto.

Ltac step_cases Hs :=
  destruct Hs; cbn [active slock qlock q pc solved pend set_pc] in *.
Ltac quick := try solve [splits; first [discriminate | assumption | congruence | lia]].
Ltac crunch I :=
  updq; inst_thr I; facts I; pcrw; try discriminate; pcinv;
  cbn [holds_slock holds_own in_active gathering multi] in *; prem; quick;
  bdestr; prem; quick;
  inst_nats; fwdl; deconj; solve_it.

Lemma step_act s s' t : Inv s -> t < n -> step t s s' -> active s' <= n.
Proof. intros I Ht Hs. pose proof (i_act _ I). destruct Hs; cbn; lia. Qed.

Lemma step_gat s s' t : Inv s -> t < n -> step t s s' ->
  forall u i, u < n -> pc s' u = PGather i -> i <= active s'.
Proof. intros I Ht Hs u i Hu Hp. step_cases Hs; thr u t; crunch I. Qed.

Lemma step_sl s s' t : Inv s -> t < n -> step t s s' ->
  forall u, u < n -> holds_slock (pc s' u) = true -> slock s' = Some u.
Proof. intros I Ht Hs u Hu Hp. step_cases Hs; thr u t; crunch I. Qed.

Lemma step_in s s' t : Inv s -> t < n -> step t s s' ->
  forall u, u < n -> in_active (pc s' u) = true -> u < active s'.
Proof.
  intros I Ht Hs u Hu Hp. pose proof (in_active_sl (pc s u)).
  step_cases Hs; thr u t; crunch I.
Qed.

Lemma step_emp s s' t : Inv s -> t < n -> step t s s' ->
  forall u, u < n -> gathering (pc s' u) = true -> q s' u = [].
Proof.
  intros I Ht Hs u Hu Hp. pose proof (gathering_sl (pc s u)).
  step_cases Hs; thr u t; crunch I.
Qed.

Lemma step_own s s' t : Inv s -> t < n -> step t s s' ->
  forall u, u < n -> holds_own u (pc s' u) = true -> qlock s' u = Some u.
Proof.
  intros I Ht Hs u Hu Hp.
  step_cases Hs; thr u t; crunch I.
Qed.

Lemma step_nown s s' t : Inv s -> t < n -> step t s s' ->
  forall u, u < n -> holds_own u (pc s' u) = false -> qlock s' u <> Some u.
Proof.
  intros I Ht Hs u Hu Hp.
  step_cases Hs; thr u t; crunch I.
Qed.

Lemma step_oth s s' t : Inv s -> t < n -> step t s s' ->
  forall i r, qlock s' i = Some r -> r <> i -> r < n /\ multi (pc s' r) = true.
Proof.
  intros I Ht Hs i0 r Hq Hne. pose proof (i_oth _ I) as O.
  step_cases Hs; thr r t; thr i0 t; updq;
    try (match goal with H : Some _ = Some _ |- _ => inversion H; subst end);
    try discriminate; try congruence;
    try (split; [assumption | upd_simpl; reflexivity]).
  all: destruct (O _ _ Hq Hne) as [Hr Hg]; split; [exact Hr|].
  all: crunch I.
Qed.

Lemma step_tail s s' t : Inv s -> t < n -> step t s s' -> forall i, active s' <= i -> q s' i = [].
Proof.
  intros I Ht Hs i0 Hi. pose proof (i_tail _ I) as T.
  step_cases Hs; auto.
  - (* pop_some *) destruct (Nat.eq_dec i0 t); [subst; rewrite (T _ Hi) in *; destruct rest; discriminate|].
    rewrite upd_other by auto. auto.
  - (* balance *) destruct (le_lt_dec (active s) i0).
    + match goal with Hb : balanced _ _ _ |- _ => rewrite (bal_out _ _ _ _ Hb) by auto end. auto.
    + eapply trailing_empty_spec; eauto.
Qed.

Lemma step_slc s s' t : Inv s -> t < n -> step t s s' ->
  forall r, slock s' = Some r -> r < n /\ holds_slock (pc s' r) = true.
Proof.
  intros I Ht Hs r Hr. pose proof (i_slc _ I r) as SC.
  step_cases Hs; try discriminate;
    try (inversion Hr; subst r; split; [assumption|rewrite upd_same; reflexivity]).
  all: destruct (SC Hr) as [Hrn Hh]; split; [assumption|].
  all: thr r t; crunch I.
Qed.

Lemma step_ownc s s' t : Inv s -> t < n -> step t s s' ->
  forall i, qlock s' i = Some i -> i < n /\ holds_own i (pc s' i) = true.
Proof.
  intros I Ht Hs i0 Hq. pose proof (i_ownc _ I i0) as OC.
  step_cases Hs; thr i0 t; updq; try discriminate;
    try (split; [assumption | reflexivity]); try congruence.
  all: destruct (OC Hq) as [Hin Hh]; split; [assumption|].
  all: crunch I.
Qed.

Lemma step_gl s s' t : Inv s -> t < n -> step t s s' ->
  forall r j i, r < n -> pc s' r = PGather j -> qlock s' i = Some r -> i <> r -> i < j.
Proof.
  intros I Ht Hs r j i0 Hr Hp Hq Hne. pose proof (i_oth _ I i0 r) as O. pose proof (multi_sl (pc s r)).
  step_cases Hs; thr r t; thr i0 t; updq; try discriminate; try congruence.
  all: try (destruct (O Hq (not_eq_sym Hne)) as [_ Hg]).
  all: crunch I.
Qed.

Lemma step_done s s' t : Inv s -> t < n -> step t s s' ->
  forall u, u < n -> pc s' u = PDone -> active s' <= u.
Proof.
  intros I Ht Hs u Hu Hp.
  step_cases Hs; thr u t; crunch I.
Qed.

Lemma step_gh s s' t : Inv s -> t < n -> step t s s' ->
  forall r j i, r < n -> pc s' r = PGather j -> i < j -> i < active s' -> qlock s' i = Some r.
Proof.
  intros I Ht Hs r j i0 Hr Hp Hj Hi.
  step_cases Hs; thr r t; thr i0 t; crunch I.
Qed.

Lemma step_bh s s' t : Inv s -> t < n -> step t s s' ->
  forall r i, r < n -> pc s' r = PBalance -> i < active s' -> qlock s' i = Some r.
Proof.
  intros I Ht Hs r i0 Hr Hp Hi.
  step_cases Hs; thr r t; thr i0 t; crunch I.
Qed.

Lemma step_bl s s' t : Inv s -> t < n -> step t s s' ->
  forall r i, r < n -> pc s' r = PBalance -> qlock s' i = Some r -> i < active s'.
Proof.
  intros I Ht Hs r i0 Hr Hp Hq.
  step_cases Hs; thr r t; thr i0 t; crunch I.
Qed.

Lemma step_rh s s' t : Inv s -> t < n -> step t s s' ->
  forall r j hi i, r < n -> pc s' r = PRelease j hi -> j <= i -> i < hi -> qlock s' i = Some r.
Proof.
  intros I Ht Hs r j0 hi0 i0 Hr Hp Hj Hi.
  step_cases Hs; thr r t; thr i0 t; crunch I.
Qed.

Lemma step_rl s s' t : Inv s -> t < n -> step t s s' ->
  forall r j hi i, r < n -> pc s' r = PRelease j hi -> qlock s' i = Some r -> j <= i /\ i < hi.
Proof.
  intros I Ht Hs r j0 hi0 i0 Hr Hp Hq.
  step_cases Hs; thr r t; thr i0 t; crunch I.
Qed.


Lemma inv_step s s' t : Inv s -> t < n -> step t s s' -> Inv s'.
Proof.
  intros I Ht Hs. constructor.
  - eapply step_act; eauto.
  - eapply step_gat; eauto.
  - eapply step_sl; eauto.
  - eapply step_in; eauto.
  - eapply step_emp; eauto.
  - eapply step_own; eauto.
  - eapply step_nown; eauto.
  - eapply step_oth; eauto.
  - eapply step_tail; eauto.
  - eapply step_slc; eauto.
  - eapply step_ownc; eauto.
  - eapply step_gl; eauto.
  - eapply step_done; eauto.
  - eapply step_gh; eauto.
  - eapply step_bh; eauto.
  - eapply step_bl; eauto.
  - eapply step_rh; eauto.
  - eapply step_rl; eauto.
Qed.

Lemma inv_reach q0 s : (forall i, n <= i -> q0 i = []) -> reach (init q0) s -> Inv s.
Proof.
  intros Hq R. induction R as [|s s' R IH [t [Ht Hs]]]; [now apply inv_init|]. eapply inv_step; eauto.
Qed.
(* ------------------------------------------------------------------ *)
(* Termination measure                                                  *)
Fixpoint sumf (f : nat -> nat) (k : nat) : nat := match k with O => 0 | S k' => sumf f k' + f k' end.

Lemma sumf_ext f g k : (forall i, i < k -> f i = g i) -> sumf f k = sumf g k.
Proof. induction k; cbn; intros; [reflexivity|]. rewrite IHk by (intros; apply H; lia). rewrite H by lia. reflexivity. Qed.

Lemma sumf_change F F' k t : t < k -> (forall i, i < k -> i <> t -> F' i = F i) ->
  sumf F' k + F t = sumf F k + F' t.
Proof.
  induction k; intros Ht H; [lia|]. cbn.
  destruct (Nat.eq_dec t k) as [->|].
  - rewrite (sumf_ext F' F k) by (intros; apply H; lia). lia.
  - rewrite (H k) by lia. assert (t < k) by lia. specialize (IHk H0). 
    assert (sumf F' k + F t = sumf F k + F' t) by (apply IHk; intros; apply H; lia). lia.
Qed.

Lemma sumf_ge F k t : t < k -> F t <= sumf F k.
Proof. induction k; intros; [lia|]. cbn. destruct (Nat.eq_dec t k) as [->|]; [lia|]. assert (t<k) by lia. specialize (IHk H0). lia. Qed.

Lemma sumf_le_const F k c : (forall i, i < k -> F i <= c) -> sumf F k <= c * k.
Proof. induction k; cbn; intros; [lia|]. specialize (IHk (fun i Hi => H i (Nat.lt_lt_succ_r _ _ Hi))). pose proof (H k (Nat.lt_succ_diag_r k)). lia. Qed.

Lemma sumf_zero F k : (forall i, i < k -> F i = 0) -> sumf F k = 0.
Proof. induction k; cbn; intros; [lia|]. rewrite IHk by (intros; apply H; lia). rewrite H by lia. reflexivity. Qed.

Lemma sumf_split_ext f g a k : a <= k -> (forall i, a <= i -> f i = g i) -> sumf f a = sumf g a -> sumf f k = sumf g k.
Proof. induction k; intros. - assert (a = 0) by lia. subst. reflexivity.
  - destruct (Nat.eq_dec a (S k)) as [->|]; [assumption|]. cbn. rewrite IHk by (auto; lia). rewrite H0 by lia. reflexivity. Qed.

Lemma flat_length a f : length (flat a f) = sumf (fun i => length (f i)) a.
Proof.
  unfold flat. induction a; [reflexivity|]. rewrite seq_S, map_app, concat_app, app_length. cbn.
  rewrite app_nil_r. rewrite IHa. reflexivity.
Qed.


Lemma sumf_change_le F F' k t : t < k -> (forall i, i < k -> i <> t -> F' i <= F i) ->
  sumf F' k + F t <= sumf F k + F' t.
Proof.
  induction k; intros Ht H; [lia|]. cbn.
  destruct (Nat.eq_dec t k) as [->|].
  - assert (sumf F' k <= sumf F k).
    { clear IHk Ht. induction k; cbn; [lia|]. assert (sumf F' k <= sumf F k) by (apply IHk; intros; apply H; lia).
      pose proof (H k). lia. }
    lia.
  - pose proof (H k). assert (sumf F' k + F t <= sumf F k + F' t) by (apply IHk; [lia|intros; apply H; lia]). lia.
Qed.

Lemma sumf_le F F' k : (forall i, i < k -> F' i <= F i) -> sumf F' k <= sumf F k.
Proof. induction k; cbn; intros H; [lia|]. pose proof (H k). assert (sumf F' k <= sumf F k) by (apply IHk; intros; apply H; lia). lia. Qed.

(* at most one index goes up, by at most one *)
Lemma sumf_le_bump F F' k j : (forall i, i < k -> i <> j -> F' i <= F i) -> F' j <= F j + 1 ->
  sumf F' k <= sumf F k + 1.
Proof.
  intros H Hj. destruct (lt_dec j k) as [Hjk|Hjk].
  - pose proof (sumf_change_le F F' k j Hjk H). lia.
  - pose proof (sumf_le F F' k). assert (sumf F' k <= sumf F k) by (apply H0; intros; apply H; lia). lia.
Qed.

Definition nilb (l : list piece) : bool := match l with [] => true | _ => false end.
Definition Fq (s : st) i := length (q s i).
Definition Fe (s : st) i := if (i <? active s) && nilb (q s i) then 1 else 0.
Definition Fi (s : st) i := match pc s i with PSolve _ => 1 | _ => 0 end.
(* [Fc s i] = 1 iff thread i may still pass through the state lock without balancing (a "wasted
   pass": it finds its own queue non-empty and releases again): it is on such a pass already, or it
   waits for / holds the state lock with a non-empty queue whose lock no other thread holds.
   With one-at-a-time release such passes are reachable with [pend] false: a worker that solved a
   piece during the release phase fails its try_lock (its queue lock is still held by the releasing
   thread), and after the release finds its rebalanced queue non-empty.  The only steps that raise
   [Fc] of some thread are [s_balance] (paid by [cB]) and [s_release] of that thread's queue lock
   (by at most one, paid by the [cC + 1] drop of [dist (PRelease j hi)]); [s_rel_state] lowers it
   and thereby pays for the jump of [dist] back to [PTry].  A measure of the old shape
   (state-sums + sum of [dist (pc i)]) cannot work any more: [s_try_fail] changes nothing but the pc
   (PTry -> PWantState), while a wasted pass changes nothing but the pc (PWantState -> PTry). *)
Definition free_or_own (l : option nat) (i : nat) : bool := match l with None => true | Some h => h =? i end.
Definition Fc (s : st) i :=
  match pc s i with
  | PWantState | PChk | PLockOwn | PChkLen => if free_or_own (qlock s i) i && negb (nilb (q s i)) then 1 else 0
  | PRelease _ _ | PRelOwn | PRelState => 1
  | _ => 0
  end.
Definition cC := n + 11.
Definition dist (p : pcT) : nat :=
  match p with
  | PTry => n + 12 | PHoldOwn => n + 11 | PSolve _ => n + 10 | PWantState => n + 10
  | PChk => n + 9 | PLockOwn => n + 8 | PChkLen => n + 7
  | PGather i => 5 + (n - i) | PBalance => 4
  | PRelease j hi => 3 + (cC + 1) * (hi - j)
  | PRelOwn => 3 | PRelState => 2 | PDone => 0
  end.
Definition Fd (s : st) i := dist (pc s i).

Definition cB := cC * n + (cC + 1) * n + 5.
Definition measure (s : st) : nat :=
  3 * (sumf (Fq s) n + sumf (Fi s) n) + cB * (sumf (Fq s) n + sumf (Fe s) n) + cC * sumf (Fc s) n + sumf (Fd s) n.

Lemma Fc_le1 s k : Fc s k <= 1.
Proof. unfold Fc. destruct (pc s k); try lia; destruct (_ && _); lia. Qed.

Lemma Fc_same s s' k : pc s' k = pc s k -> q s' k = q s k -> qlock s' k = qlock s k -> Fc s' k = Fc s k.
Proof. unfold Fc. intros -> -> ->. reflexivity. Qed.

Lemma Fc_le_lock s s' k h : pc s' k = pc s k -> q s' k = q s k -> qlock s' k = Some h -> h <> k -> Fc s' k <= Fc s k.
Proof.
  unfold Fc. intros -> -> -> Hne. cbn [free_or_own]. rewrite (proj2 (Nat.eqb_neq h k) Hne). cbn [andb].
  destruct (pc s k); try lia; destruct (_ && _); lia.
Qed.

Ltac chg F s s' t Ht :=
  let H := fresh "CH" in
  assert (H : sumf (F s') n + F s t = sumf (F s) n + F s' t)
    by (apply sumf_change; [exact Ht | intros ? ? ?; unfold F; cbn [active slock qlock q pc solved pend set_pc]; upd_simpl; reflexivity]).

Lemma mul_mono k x y : x <= y -> k * x <= k * y. Proof. intros. now apply Nat.mul_le_mono_l. Qed.

Ltac abstract_sums s s' :=
  let Q' := fresh "Q'" in set (Q' := sumf (Fq s') n) in *;
  let Q := fresh "Q" in set (Q := sumf (Fq s) n) in *;
  let E' := fresh "E'" in set (E' := sumf (Fe s') n) in *;
  let E := fresh "E" in set (E := sumf (Fe s) n) in *;
  let I' := fresh "I'" in set (I' := sumf (Fi s') n) in *;
  let I := fresh "I" in set (I := sumf (Fi s) n) in *;
  let P' := fresh "P'" in set (P' := sumf (Fc s') n) in *;
  let P := fresh "P" in set (P := sumf (Fc s) n) in *;
  let D' := fresh "D'" in set (D' := sumf (Fd s') n) in *;
  let D := fresh "D" in set (D := sumf (Fd s) n) in *;
  clearbody Q' Q E' E I' I P' P D' D.

(* every step except balance / release: no thread other than the stepping one gains a wasted pass *)
Lemma Fc_other s s' t k : step t s s' -> pc s t <> PBalance -> (forall j hi, pc s t <> PRelease j hi) ->
  k <> t -> Fc s' k <= Fc s k.
Proof.
  intros Hs NB NR Hk.
  destruct Hs; try congruence; try (exfalso; eapply NR; eauto; fail);
    cbn [active slock qlock q pc solved pend set_pc] in *.
  all: try (apply Nat.eq_le_incl; apply Fc_same; cbn [active slock qlock q pc solved pend set_pc]; upd_simpl; reflexivity).
  (* gather_lock *)
  destruct (Nat.eq_dec k i) as [->|].
  - eapply Fc_le_lock; cbn [active slock qlock q pc solved pend set_pc]; upd_simpl; eauto.
  - apply Nat.eq_le_incl; apply Fc_same; cbn [active slock qlock q pc solved pend set_pc]; upd_simpl; reflexivity.
Qed.

Lemma measure_dec_local s s' t : Inv s -> t < n -> step t s s' ->
  pc s t <> PBalance -> (forall j hi, pc s t <> PRelease j hi) -> measure s' < measure s.
Proof.
  intros I Ht Hs NB NR. inst I t Ht. pose proof (i_act _ I) as Hact.
  assert (CHc : sumf (Fc s') n + Fc s t <= sumf (Fc s) n + Fc s' t).
  { apply sumf_change_le; [exact Ht|]. intros k _ Hk. eapply Fc_other; eauto. }
  destruct Hs; try congruence; try (exfalso; eapply NR; eauto; fail);
  match goal with |- measure ?s' < measure ?s =>
    chg Fq s s' t Ht; chg Fe s s' t Ht; chg Fi s s' t Ht; chg Fd s s' t Ht;
    unfold measure; abstract_sums s s' end.
  all: unfold Fq, Fe, Fi, Fc, Fd in *; cbn [active slock qlock q pc solved pend set_pc] in *; upd_simpl.
  all: facts I; pcrw; cbn [dist holds_slock holds_own in_active gathering multi] in *; prem.
  all: repeat match goal with
       | H : qlock _ _ = _ |- _ => rewrite H in *
       | H : q _ _ = [] |- _ => rewrite H in *
       | H : q ?s ?t <> [] |- _ => destruct (q s t) eqn:?; [congruence|clear H]
       end.
  all: cbn [free_or_own nilb negb andb length] in *; rewrite ?Nat.eqb_refl, ?andb_false_r in *; cbn [free_or_own nilb negb andb] in *.
  all: pose proof (mul_mono cC _ _ CHc) as CM; rewrite !Nat.mul_add_distr_l in CM.
  all: assert (HcC : cC = n + 11) by reflexivity.
  all: try lia.
  - (* try_fail *)
    assert (Hh : h <> t) by congruence. rewrite (proj2 (Nat.eqb_neq h t) Hh) in *. cbn [andb] in *. lia.
  - (* pop_some *)
    rewrite H6 in *. rewrite app_length in *. cbn [length] in *.
    assert (nilb (rest ++ [w]) = false) as Hn by (destruct rest; reflexivity). rewrite Hn in *.
    rewrite andb_false_r in *.
    assert (HQE : Q' + E' <= Q + E) by (destruct ((t <? active s) && nilb rest); lia).
    pose proof (mul_mono cB _ _ HQE). lia.
Qed.

Lemma measure_dec_release s t j hi : Inv s -> t < n -> pc s t = PRelease j hi ->
  forall s', step t s s' -> measure s' < measure s.
Proof.
  intros I Ht Hpc s' Hs.
  inversion Hs; subst; try congruence.
  - (* release of queue lock j0 *)
    match goal with H : pc s t = PRelease ?a ?b |- _ => rewrite Hpc in H; inversion H; subst a b; clear H end.
    match goal with |- measure ?s' < measure ?s =>
      chg Fq s s' t Ht; chg Fe s s' t Ht; chg Fi s s' t Ht; chg Fd s s' t Ht;
      assert (CHc : sumf (Fc s') n <= sumf (Fc s) n + 1);
      [|unfold measure; abstract_sums s s'] end.
    { apply (sumf_le_bump _ _ n j).
      - intros k _ Hk. destruct (Nat.eq_dec k t) as [->|Hkt].
        + unfold Fc; cbn [pc]. rewrite upd_same, Hpc. lia.
        + apply Nat.eq_le_incl, Fc_same; cbn [active slock qlock q pc solved pend set_pc];
            rewrite ?upd_other by auto; reflexivity.
      - match goal with |- Fc ?s' _ <= _ => pose proof (Fc_le1 s' j) end. lia. }
    unfold Fq, Fe, Fi, Fd in *; cbn [active slock qlock q pc solved pend set_pc] in *; upd_simpl.
    rewrite Hpc in *. cbn [dist] in *.
    assert (HD : (cC + 1) * (hi - j) = (cC + 1) * (hi - S j) + (cC + 1)).
    { replace (hi - j) with (S (hi - S j)) by lia. rewrite Nat.mul_succ_r. reflexivity. }
    pose proof (mul_mono cC _ _ CHc) as CM. rewrite Nat.mul_add_distr_l, Nat.mul_1_r in CM.
    assert (Q' = Q) by lia. assert (E' = E) by lia. subst Q' E'.
    set (X := (cC + 1) * (hi - S j)) in *. set (Y := (cC + 1) * (hi - j)) in *. clearbody X Y.
    set (Z := cB * (Q + E)). clearbody Z. lia.
  - (* release_done *)
    match goal with H : pc s t = PRelease ?a ?b |- _ => rewrite Hpc in H; inversion H; subst a b; clear H end.
    match goal with |- measure ?s' < measure ?s =>
      chg Fq s s' t Ht; chg Fe s s' t Ht; chg Fi s s' t Ht; chg Fd s s' t Ht; chg Fc s s' t Ht;
      unfold measure; abstract_sums s s' end.
    unfold Fq, Fe, Fi, Fd, Fc in *; cbn [active slock qlock q pc solved pend set_pc] in *; upd_simpl.
    rewrite Hpc in *. cbn [dist] in *.
    assert (Q' = Q) by lia. assert (E' = E) by lia. assert (P' = P) by lia. subst Q' E' P'.
    set (X := (cC + 1) * (hi - j)) in *. clearbody X. lia.
Qed.
(* ---- the balance step ---- *)
Lemma trailing_empty_stop (f : nat -> list piece) a : 0 < a - trailing_empty f a -> f (a - trailing_empty f a - 1) <> [].
Proof.
  induction a as [|a IH]; cbn; [lia|]. destruct (f a) eqn:E.
  - intros. replace (S a - S (trailing_empty f a)) with (a - trailing_empty f a) in * by lia. apply IH. lia.
  - intros _. cbn. replace (a - 0) with a by lia. congruence.
Qed.

Lemma bal_nonempty_below a f f' i : balanced a f f' -> i < a - trailing_empty f' a -> f' i <> [].
Proof.
  intros Hb Hi. set (k := trailing_empty f' a) in *.
  assert (Hk : k <= a) by apply trailing_empty_le.
  assert (Hpos : 0 < a - k) by lia.
  pose proof (trailing_empty_stop f' a Hpos) as Hne. fold k in Hne.
  assert (Hlen : length (f' (a - k - 1)) <= length (f' i)).
  { apply (bal_mono _ _ _ _ _ Hb); lia. }
  destruct (f' (a - k - 1)) eqn:E1; [congruence|]. destruct (f' i); [cbn in Hlen; lia|congruence].
Qed.

Lemma measure_dec_balance s t : Inv s -> t < n -> pc s t = PBalance ->
  forall s', step t s s' -> measure s' < measure s.
Proof.
  intros I Ht Hpc s' Hs. pose proof (i_act _ I) as Hact. pose proof (i_tail _ I) as Tl.
  pose proof (i_in _ I t Ht) as Hin. pose proof (i_emp _ I t Ht) as Hemp.
  rewrite Hpc in *. cbn [in_active gathering] in *. specialize (Hin eq_refl). specialize (Hemp eq_refl).
  inversion Hs as [| | | | | | | | | | | | | |s0 qb Hpc0 Hbal| | | |]; subst; try congruence. clear Hs.
  match goal with |- measure ?s1 < _ => set (s' := s1) end.
  (* queue length preserved *)
  assert (HQ : sumf (Fq s') n = sumf (Fq s) n).
  { apply (sumf_split_ext _ _ (active s)); [exact Hact| |].
    - intros i Hi. unfold Fq, s'; cbn. now rewrite (bal_out _ _ _ _ Hbal).
    - pose proof (bal_perm (active s) (q s) qb Hbal) as Pm. apply Permutation_length in Pm.
      rewrite !flat_length in Pm. exact Pm. }
  (* no empty active queue afterwards *)
  assert (HE' : sumf (Fe s') n = 0).
  { apply sumf_zero. intros i Hi. unfold Fe, s'; cbn [active q].
    destruct (Nat.ltb_spec i (active s - trailing_empty qb (active s))) as [Hlt|]; [|reflexivity].
    pose proof (bal_nonempty_below _ _ _ _ Hbal Hlt). destruct (qb i); [congruence|reflexivity]. }
  (* the balancing thread's own queue was empty and active *)
  assert (HE : 1 <= sumf (Fe s) n).
  { pose proof (sumf_ge (Fe s) n t Ht) as G1. unfold Fe at 1 in G1. rewrite Hemp in G1.
    destruct (Nat.ltb_spec t (active s)); [exact G1|lia]. }
  assert (HI : sumf (Fi s') n = sumf (Fi s) n).
  { apply sumf_ext. intros i Hi. unfold Fi, s'; cbn [pc]. destruct (Nat.eq_dec i t) as [->|]; upd_simpl; [now rewrite Hpc|reflexivity]. }
  assert (HP : sumf (Fc s') n <= 1 * n) by (apply sumf_le_const; intros; apply Fc_le1).
  assert (HD : sumf (Fd s') n + 4 = sumf (Fd s) n + (3 + (cC + 1) * active s)).
  { assert (X: sumf (Fd s') n + Fd s t = sumf (Fd s) n + Fd s' t).
    { apply sumf_change; [exact Ht|]. intros i Hi Hne. unfold Fd, s'; cbn [pc]. now rewrite upd_other. }
    assert (Fd s t = 4) by (unfold Fd; rewrite Hpc; reflexivity).
    assert (Fd s' t = 3 + (cC + 1) * active s) by (unfold Fd, s'; cbn [pc dist]; rewrite upd_same; cbn [dist]; now rewrite Nat.sub_0_r).
    lia. }
  assert (HA : (cC + 1) * active s <= (cC + 1) * n) by (apply mul_mono; exact Hact).
  unfold measure. abstract_sums s s'. subst.
  assert (HX : cB * (Q + 0) + cB <= cB * (Q + E)).
  { replace (cB * (Q + 0) + cB) with (cB * (Q + 1)) by (rewrite !Nat.mul_add_distr_l; lia). apply mul_mono. lia. }
  assert (HY : cC * P' <= cC * n) by (apply mul_mono; lia).
  assert (cB = cC * n + (cC + 1) * n + 5) by reflexivity.
  set (X := (cC + 1) * active s) in *. set (Y := (cC + 1) * n) in *. clearbody X Y. lia.
Qed.

Theorem measure_dec s s' t : Inv s -> t < n -> step t s s' -> measure s' < measure s.
Proof.
  intros I Ht Hs. destruct (pc s t) eqn:E; try (apply (measure_dec_local s s' t); auto; congruence).
  - eapply measure_dec_balance; eauto.
  - eapply measure_dec_release; eauto.
Qed.

Theorem exec_terminates q0 : (forall i, n <= i -> q0 i = []) ->
  forall s s', reach (init q0) s -> any_step s s' -> measure s' < measure s.
Proof using bal_perm bal_out bal_mono bal_total.
  (* all four facts about [balanced] are parameters of every exported theorem (uniform interface for Properties/C05.v) *)
  intros Hq s s' R [t [Ht Hs]]. eapply measure_dec; eauto. eapply inv_reach; eauto. Qed.
(* ------------------------------------------------------------------ *)
(* Deadlock freedom                                                     *)
Lemma list_last_or_nil {A} (l : list A) : l = [] \/ exists r w, l = r ++ [w].
Proof. destruct l as [|x l] using rev_ind; [now left|right; eauto]. Qed.

Theorem progress s : Inv s -> (exists t, t < n /\ pc s t <> PDone) -> exists s', any_step s s'.
Proof.
  intros I [t0 [Ht0 Hnd]].
  destruct (slock s) as [r|] eqn:SL.
  - (* the holder of the state lock can move, or waits for a thread that can *)
    destruct (i_slc _ I r SL) as [Hr Hh].
    (* no other thread holds a queue lock that is not its own *)
    assert (OnlyR : forall i h, qlock s i = Some h -> h <> i -> h = r).
    { intros i h Q Hne. destruct (i_oth _ I i h Q Hne) as [Hh2 Hg].
      pose proof (i_sl _ I h Hh2 (multi_sl _ Hg)). congruence. }
    destruct (pc s r) eqn:P; cbn in Hh; try discriminate.
    + (* PChk *) destruct (le_lt_dec (active s) r); eexists; exists r; split; auto; [eapply s_chk_exit|eapply s_chk_stay]; eauto.
    + (* PLockOwn *)
      assert (qlock s r = None).
      { destruct (qlock s r) as [h|] eqn:Q; [|reflexivity]. exfalso.
        destruct (Nat.eq_dec h r) as [->|Hne].
        - pose proof (i_nown _ I r Hr) as F. rewrite P in F. cbn in F. apply F; auto.
        - apply Hne. eapply OnlyR; eauto. }
      eexists; exists r; split; auto. eapply s_lock_own; eauto.
    + (* PChkLen *) destruct (q s r) eqn:Q; eexists; exists r; split; auto; [eapply s_len_none|eapply s_len_some]; eauto; congruence.
    + (* PGather i *)
      destruct (Nat.eq_dec i r) as [->|Hir]; [eexists; exists r; split; auto; eapply s_gather_skip; eauto|].
      destruct (le_lt_dec (active s) i); [eexists; exists r; split; auto; eapply s_gather_done; eauto|].
      destruct (qlock s i) as [h|] eqn:Q; [|eexists; exists r; split; auto; eapply s_gather_lock; eauto].
      destruct (Nat.eq_dec h i) as [->|Hne].
      * (* queue i is held by its owner: it is in PHoldOwn and can pop *)
        destruct (i_ownc _ I i Q) as [Hin Ho].
        assert (pc s i = PHoldOwn) as Pi.
        { destruct (pc s i) eqn:Pi; cbn in Ho; try discriminate; auto;
          exfalso; assert (holds_slock (pc s i) = true) as X by (rewrite Pi; reflexivity);
          pose proof (i_sl _ I i Hin X); congruence. }
        destruct (list_last_or_nil (q s i)) as [Hn|[rest [w Hw]]]; eexists; exists i; split; auto;
          [eapply s_pop_none|eapply s_pop_some]; eauto.
      * exfalso. assert (h = r) by (eapply OnlyR; eauto). subst h.
        pose proof (i_gl _ I r i i Hr P Q Hir). lia.
    + (* PBalance *) destruct (bal_total (active s) (q s)) as [q' Hb]. eexists; exists r; split; auto. eapply s_balance; eauto.
    + (* PRelease j hi: release the next gathered lock, or finish *)
      destruct (le_lt_dec hi j).
      * eexists; exists r; split; auto. eapply s_release_done; eauto.
      * eexists; exists r; split; auto. eapply s_release; eauto. eapply (i_rh _ I r j hi j); eauto.
    + eexists; exists r; split; auto. eapply s_rel_own; eauto.
    + eexists; exists r; split; auto. eapply s_rel_state; eauto.
  - (* state lock free: any thread that is not done can move *)
    pose proof (i_sl _ I t0 Ht0) as B.
    destruct (pc s t0) eqn:P; cbn in B; try (specialize (B eq_refl)); try congruence.
    + destruct (qlock s t0) eqn:Q; eexists; exists t0; split; auto; [eapply s_try_fail|eapply s_try_ok]; eauto.
    + destruct (list_last_or_nil (q s t0)) as [Hn|[rest [w Hw]]]; eexists; exists t0; split; auto;
        [eapply s_pop_none|eapply s_pop_some]; eauto.
    + eexists; exists t0; split; auto. eapply s_solve; eauto.
    + eexists; exists t0; split; auto. eapply s_want; eauto.
Qed.

Theorem exec_deadlock_free q0 s : (forall i, n <= i -> q0 i = []) -> reach (init q0) s ->
  (exists t, t < n /\ pc s t <> PDone) -> exists s', any_step s s'.
Proof using bal_perm bal_out bal_mono bal_total.
  (* all four facts about [balanced] are parameters of every exported theorem (uniform interface for Properties/C05.v) *)
  intros. eapply progress; eauto. eapply inv_reach; eauto. Qed.

(* ------------------------------------------------------------------ *)
(* Conservation: every piece is solved exactly once                     *)
Lemma flat_S k f : flat (S k) f = flat k f ++ f k.
Proof. unfold flat. rewrite seq_S, map_app, concat_app. cbn. now rewrite app_nil_r. Qed.

Lemma flat_ext k f g : (forall i, i < k -> f i = g i) -> flat k f = flat k g.
Proof. induction k; intros; [reflexivity|]. rewrite !flat_S, IHk by (intros; apply H; lia). now rewrite H by lia. Qed.

Lemma flat_change k F F' t : t < k -> (forall i, i < k -> i <> t -> F' i = F i) ->
  Permutation (flat k F' ++ F t) (flat k F ++ F' t).
Proof.
  induction k; intros Ht H; [lia|]. rewrite !flat_S.
  destruct (Nat.eq_dec t k) as [->|].
  - rewrite (flat_ext k F' F) by (intros; apply H; lia).
    rewrite <- !app_assoc. apply Permutation_app_head. apply Permutation_app_comm.
  - rewrite (H k) by lia. assert (Ht' : t < k) by lia.
    assert (IH : Permutation (flat k F' ++ F t) (flat k F ++ F' t)) by (apply IHk; auto; intros; apply H; lia).
    rewrite <- !app_assoc.
    rewrite (Permutation_app_comm (F k) (F t)), (Permutation_app_comm (F k) (F' t)).
    rewrite !app_assoc. apply Permutation_app_tail. exact IH.
Qed.

Definition Fin (s : st) (t : nat) : list piece := match pc s t with PSolve w => [w] | _ => [] end.
Definition pool (s : st) : list piece := solved s ++ flat n (Fin s) ++ flat n (q s).

Lemma flat_split_ext f g a k : a <= k -> (forall i, a <= i -> f i = g i) ->
  Permutation (flat a f) (flat a g) -> Permutation (flat k f) (flat k g).
Proof.
  induction k; intros. - assert (a = 0) by lia. subst. assumption.
  - destruct (Nat.eq_dec a (S k)) as [->|]; [assumption|]. rewrite !flat_S, H0 by lia.
    apply Permutation_app_tail. apply IHk; auto; lia.
Qed.

Lemma pool_step s s' t : Inv s -> t < n -> step t s s' -> Permutation (pool s') (pool s).
Proof.
  intros I Ht Hs. pose proof (i_act _ I) as Hact. unfold pool.
  destruct Hs; unfold set_pc; cbn [active slock qlock q pc solved pend].
  all: try (match goal with |- Permutation (_ ++ flat n (Fin ?s') ++ _) (_ ++ flat n (Fin ?s) ++ _) =>
        assert (HF : flat n (Fin s') = flat n (Fin s))
          by (apply flat_ext; intros k Hk; unfold Fin; cbn [pc]; destruct (Nat.eq_dec k t) as [->|];
              [rewrite upd_same; match goal with H : pc _ _ = _ |- _ => rewrite H end; reflexivity
              |rewrite upd_other by auto; reflexivity]);
        rewrite HF; reflexivity end).
  - (* pop_some *)
    set (s' := {| active := active s; slock := slock s; qlock := upd (qlock s) t None; q := upd (q s) t rest;
                  pc := upd (pc s) t (PSolve w); solved := solved s; pend := pend s |}).
    apply Permutation_app_head.
    assert (P1 : Permutation (flat n (Fin s') ++ Fin s t) (flat n (Fin s) ++ Fin s' t))
      by (apply flat_change; auto; intros; unfold Fin, s'; cbn [pc]; now rewrite upd_other).
    assert (Fin s t = []) as E1 by (unfold Fin; now rewrite H).
    assert (Fin s' t = [w]) as E2 by (unfold Fin, s'; cbn [pc]; now rewrite upd_same).
    rewrite E1, E2, app_nil_r in P1.
    assert (P2 : Permutation (flat n (upd (q s) t rest) ++ q s t) (flat n (q s) ++ upd (q s) t rest t))
      by (apply flat_change; auto; intros; now rewrite upd_other).
    rewrite upd_same, H0 in P2.
    assert (P3 : Permutation (flat n (upd (q s) t rest) ++ [w]) (flat n (q s))).
    { apply (Permutation_app_inv_r rest). rewrite <- app_assoc.
      rewrite (Permutation_app_comm [w] rest). exact P2. }
    rewrite P1, <- app_assoc. apply Permutation_app_head.
    rewrite (Permutation_app_comm [w]). exact P3.
  - (* solve *)
    set (s' := {| active := active s; slock := slock s; qlock := qlock s; q := q s; pc := upd (pc s) t PTry;
                  solved := w :: solved s; pend := upd (pend s) t false |}).
    assert (P1 : Permutation (flat n (Fin s') ++ Fin s t) (flat n (Fin s) ++ Fin s' t))
      by (apply flat_change; auto; intros; unfold Fin, s'; cbn [pc]; now rewrite upd_other).
    assert (Fin s t = [w]) as E1 by (unfold Fin; now rewrite H).
    assert (Fin s' t = []) as E2 by (unfold Fin, s'; cbn [pc]; now rewrite upd_same).
    rewrite E1, E2, app_nil_r in P1. rewrite <- P1.
    cbn [app]. rewrite <- !app_assoc. change ([w] ++ flat n (q s)) with (w :: flat n (q s)).
    rewrite (app_assoc (solved s) (flat n (Fin s')) (w :: flat n (q s))).
    apply Permutation_cons_app. rewrite <- app_assoc. reflexivity.
  - (* balance *)
    apply Permutation_app_head.
    match goal with |- Permutation (flat n (Fin ?s1) ++ _) _ =>
      assert (HF : flat n (Fin s1) = flat n (Fin s)) end.
    { apply flat_ext; intros k Hk; unfold Fin; cbn [pc]. destruct (Nat.eq_dec k t) as [->|];
        [rewrite upd_same, H; reflexivity | rewrite upd_other by auto; reflexivity]. }
    rewrite HF. apply Permutation_app_head.
    match goal with Hb : balanced _ _ _ |- _ =>
      apply (flat_split_ext _ _ (active s)); [auto| intros; apply (bal_out _ _ _ _ Hb); auto | apply (bal_perm _ _ _ Hb)] end.
Qed.

Theorem exec_conservation q0 s : (forall i, n <= i -> q0 i = []) -> reach (init q0) s ->
  Permutation (solved s ++ flat n (Fin s) ++ flat n (q s)) (flat n q0).
Proof using bal_perm bal_out bal_mono bal_total.
  (* all four facts about [balanced] are parameters of every exported theorem (uniform interface for Properties/C05.v) *)
 
  intros Hq R. induction R as [|s s' R IH [t [Ht Hs]]].
  - unfold init, Fin; cbn. assert (flat n (fun _ : nat => @nil piece) = []) as ->; [|reflexivity].
    clear. induction n; [reflexivity|]. rewrite flat_S, IHn0. reflexivity.
  - rewrite <- IH. apply (pool_step s s' t); auto. eapply inv_reach; eauto.
Qed.

Theorem exec_exactly_once q0 s : (forall i, n <= i -> q0 i = []) -> reach (init q0) s ->
  (forall t, t < n -> pc s t = PDone) -> Permutation (solved s) (flat n q0).
Proof using bal_perm bal_out bal_mono bal_total.
  (* all four facts about [balanced] are parameters of every exported theorem (uniform interface for Properties/C05.v) *)
 
  intros Hq R Hd. pose proof (exec_conservation q0 s Hq R) as C. pose proof (inv_reach q0 s Hq R) as I.
  assert (flat n (Fin s) = []) as E1.
  { assert (flat n (Fin s) = flat n (fun _ => [])) as -> by (apply flat_ext; intros; unfold Fin; now rewrite Hd).
    clear. induction n; [reflexivity|]. rewrite flat_S, IHn0. reflexivity. }
  assert (flat n (q s) = []) as E2.
  { (* thread 0 is done, so active = 0 and every queue is empty *)
    assert (flat n (q s) = flat n (fun _ => [])) as ->.
    { apply flat_ext; intros i Hi. apply (i_tail _ I).
      assert (H0 : 0 < n) by lia. pose proof (i_done _ I 0 H0 (Hd 0 H0)). lia. }
    clear. induction n; [reflexivity|]. rewrite flat_S, IHn0. reflexivity. }
  rewrite E1, E2, !app_nil_r in C. exact C.
Qed.
End Exec.
