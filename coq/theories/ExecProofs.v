(** Proofs about the executor transition system (C05): conservation of work, exactly-once,
    deadlock freedom, termination by a strictly decreasing measure - for every thread count and
    every scheduler, with no fairness assumption.  [balanced] is any rebalancing relation with the four
    facts below (proved of the concrete function in BalanceProofs.v). *)
From Coq Require Import List Arith Lia Bool Permutation.
Import ListNotations.
From TB Require Import ExecModel.

Section Exec.
Variable piece : Type.
Variable n : nat.
Variable balanced : nat -> (nat -> list piece) -> (nat -> list piece) -> Prop.
Notation st := (st piece).
Notation step := (step piece balanced).
Notation any_step := (any_step piece n balanced).
Notation reach := (reach piece n balanced).
Notation init := (init piece n).
Notation pcT := (pcT piece).
Notation flat := (flat piece).

Hypothesis bal_perm  : forall a f f', balanced a f f' -> Permutation (flat a f') (flat a f).
Hypothesis bal_out   : forall a f f' i, balanced a f f' -> a <= i -> f' i = f i.
Hypothesis bal_mono  : forall a f f' i j, balanced a f f' -> i <= j -> j < a -> length (f' j) <= length (f' i).
Hypothesis bal_total : forall a f, exists f', balanced a f f'.


Lemma upd_same {A} (f : nat -> A) t v : upd f t v t = v.
Proof. unfold upd. now rewrite Nat.eqb_refl. Qed.
Lemma upd_other {A} (f : nat -> A) t v x : x <> t -> upd f t v x = f x.
Proof. unfold upd. intros. destruct (Nat.eqb_spec x t); congruence. Qed.

(* ---------- classification of program counters ---------- *)
Definition holds_slock (p : pcT) : bool :=
  match p with PChk | PLockOwn | PChkLen | PGather _ | PBalance | PRelOwn | PRelState => true | _ => false end.
Definition holds_own (p : pcT) : bool :=
  match p with PHoldOwn | PChkLen | PGather _ | PBalance | PRelOwn => true | _ => false end.
Definition in_active (p : pcT) : bool :=
  match p with PLockOwn | PChkLen | PGather _ | PBalance | PRelOwn => true | _ => false end.
Definition gathering (p : pcT) : bool := match p with PGather _ | PBalance => true | _ => false end.
Definition idle_pre (p : pcT) : bool := match p with PWantState | PChk | PLockOwn | PChkLen => true | _ => false end.
Definition releasing (p : pcT) : bool := match p with PRelOwn | PRelState => true | _ => false end.

Record Inv (s : st) : Prop := {
  i_act : active s <= n;
  i_gat : forall t i, t < n -> pc s t = PGather i -> i <= active s;
  i_sl  : forall t, t < n -> holds_slock (pc s t) = true -> slock s = Some t;
  i_in  : forall t, t < n -> in_active (pc s t) = true -> t < active s;
  i_emp : forall t, t < n -> gathering (pc s t) = true -> q s t = [];
  i_own : forall t, t < n -> holds_own (pc s t) = true -> qlock s t = Some t;
  i_nown: forall t, t < n -> holds_own (pc s t) = false -> qlock s t <> Some t;
  i_oth : forall i t, qlock s i = Some t -> t <> i -> t < n /\ gathering (pc s t) = true;
  i_tail: forall i, active s <= i -> q s i = [];
  i_J   : forall t, t < n -> idle_pre (pc s t) = true -> pend s t = false ->
                    q s t = [] \/ exists r, r <> t /\ qlock s t = Some r;
  i_rel : forall t, t < n -> releasing (pc s t) = true -> pend s t = true;
  i_slc : forall r, slock s = Some r -> r < n /\ holds_slock (pc s r) = true;
  i_ownc: forall i, qlock s i = Some i -> i < n /\ holds_own (pc s i) = true;
  i_gl  : forall r j i, r < n -> pc s r = PGather j -> qlock s i = Some r -> i <> r -> i < j;
  i_done: forall t, t < n -> pc s t = PDone -> active s <= t
}.


Ltac upd_simpl := repeat (
  rewrite upd_same in * ||
  match goal with
  | H : ?u <> ?t |- context [upd _ ?t _ ?u] => rewrite (upd_other _ t _ u H)
  | H : ?u <> ?t, H' : context [upd _ ?t _ ?u] |- _ => rewrite (upd_other _ t _ u H) in H'
  end).

Lemma inv_init q0 : (forall i, n <= i -> q0 i = []) -> Inv (init q0).
Proof.
  intros Hq. constructor; cbn; intros; try discriminate; try lia; auto.
Qed.

Lemma release_all_spec t l i r : release_all t l i = Some r <-> (l i = Some r /\ r <> t).
Proof.
  unfold release_all. destruct (l i) as [h|]; [|split; [discriminate|intros [? _]; discriminate]].
  destruct (Nat.eqb_spec h t); split; intros H; try discriminate.
  - destruct H as [H1 H2]. inversion H1; subst. contradiction.
  - inversion H; subst. auto.
  - destruct H as [H1 _]. exact H1.
Qed.

Lemma trailing_empty_le (f : nat -> list piece) a : trailing_empty f a <= a.
Proof. induction a; cbn; [lia|]. destruct (f a); lia. Qed.

Lemma trailing_empty_spec (f : nat -> list piece) a i : a - trailing_empty f a <= i -> i < a -> f i = [].
Proof.
  induction a as [|a IH]; cbn; intros; [lia|].
  destruct (f a) eqn:E; [|lia].
  destruct (Nat.eq_dec i a) as [->|]; [exact E|]. apply IH; lia.
Qed.


Ltac thr u t := destruct (Nat.eq_dec u t) as [?|?]; [subst u|].
Ltac pcrw := repeat match goal with
  | H : pc ?s ?t = _ |- _ => rewrite H in *; clear H
  end.
Ltac fin := cbn in *; try discriminate; try congruence; try lia; auto.

(* instantiate all invariant fields at thread u *)
Ltac inst I u Hu :=
  let a := fresh "A" in pose proof (i_gat _ I u) as a;
  let b := fresh "B" in pose proof (i_sl _ I u Hu) as b;
  let c := fresh "C" in pose proof (i_in _ I u Hu) as c;
  let d := fresh "D" in pose proof (i_emp _ I u Hu) as d;
  let e := fresh "E" in pose proof (i_own _ I u Hu) as e;
  let f := fresh "F" in pose proof (i_nown _ I u Hu) as f;
  let g := fresh "G" in pose proof (i_J _ I u Hu) as g;
  let h := fresh "H" in pose proof (i_rel _ I u Hu) as h.


Ltac prem := repeat match goal with
  | H : true = true -> _ |- _ => specialize (H eq_refl)
  | H : false = true -> _ |- _ => clear H
  | H : true = false -> _ |- _ => clear H
  | H : false = false -> _ |- _ => specialize (H eq_refl)
  end.
Ltac fwd := repeat match goal with
  | H : ?P -> _, H' : ?P |- _ => specialize (H H')
  end.
Ltac fin2 := prem; fwd; try discriminate; try congruence; try lia; auto.

Lemma step_act s s' t : Inv s -> t < n -> step t s s' -> active s' <= n.
Proof. intros I Ht Hs. pose proof (i_act _ I). destruct Hs; cbn; lia. Qed.

Lemma step_gat s s' t : Inv s -> t < n -> step t s s' ->
  forall u i, u < n -> pc s' u = PGather i -> i <= active s'.
Proof.
  intros I Ht Hs u i Hu Hp. inst I t Ht. inst I u Hu.
  destruct Hs; cbn [active slock qlock q pc solved pend set_pc] in *; thr u t; upd_simpl;
    try discriminate; try (inversion Hp; subst); pcrw; fin.
  all: try (apply A0; auto; fail).
  all: try (specialize (A _ Hu eq_refl); lia).
  all: fin2.
Qed.



Lemma in_active_sl p : in_active p = true -> holds_slock p = true. Proof. destruct p; cbn; auto. Qed.
Lemma gathering_sl p : gathering p = true -> holds_slock p = true. Proof. destruct p; cbn; auto. Qed.
Lemma gathering_own p : gathering p = true -> holds_own p = true. Proof. destruct p; cbn; auto. Qed.
Lemma gathering_in p : gathering p = true -> in_active p = true. Proof. destruct p; cbn; auto. Qed.
Lemma releasing_sl p : releasing p = true -> holds_slock p = true. Proof. destruct p; cbn; auto. Qed.

Ltac go I t Ht u Hu Hs :=
  inst I t Ht; inst I u Hu;
  match type of Hs with step _ ?s _ =>
    pose proof (in_active_sl (pc s u)); pose proof (gathering_sl (pc s u));
    pose proof (gathering_own (pc s u)); pose proof (releasing_sl (pc s u)) end;
  destruct Hs; cbn [active slock qlock q pc solved pend set_pc] in *; thr u t; upd_simpl;
    pcrw; fin; fin2.

Lemma step_sl s s' t : Inv s -> t < n -> step t s s' ->
  forall u, u < n -> holds_slock (pc s' u) = true -> slock s' = Some u.
Proof. intros I Ht Hs u Hu Hp. go I t Ht u Hu Hs. Qed.

Lemma step_in s s' t : Inv s -> t < n -> step t s s' ->
  forall u, u < n -> in_active (pc s' u) = true -> u < active s'.
Proof. intros I Ht Hs u Hu Hp. go I t Ht u Hu Hs. Qed.

Lemma step_emp s s' t : Inv s -> t < n -> step t s s' ->
  forall u, u < n -> gathering (pc s' u) = true -> q s' u = [].
Proof. intros I Ht Hs u Hu Hp. go I t Ht u Hu Hs. Qed.


Lemma step_own s s' t : Inv s -> t < n -> step t s s' ->
  forall u, u < n -> holds_own (pc s' u) = true -> qlock s' u = Some u.
Proof.
  intros I Ht Hs u Hu Hp. go I t Ht u Hu Hs.
  - rewrite upd_other by auto. assumption.
  - destruct (Nat.eq_dec u i); [subst; congruence|]. rewrite upd_other by auto. assumption.
  - apply release_all_spec. auto.
Qed.


Lemma step_nown s s' t : Inv s -> t < n -> step t s s' ->
  forall u, u < n -> holds_own (pc s' u) = false -> qlock s' u <> Some u.
Proof.
  intros I Ht Hs u Hu Hp. go I t Ht u Hu Hs.
  - destruct (Nat.eq_dec u i); [subst; rewrite upd_same; congruence|]. rewrite upd_other by auto. assumption.
  - intros X. apply release_all_spec in X. tauto.
  - intros X. apply release_all_spec in X. tauto.
Qed.


Lemma step_oth s s' t : Inv s -> t < n -> step t s s' ->
  forall i r, qlock s' i = Some r -> r <> i -> r < n /\ gathering (pc s' r) = true.
Proof.
  intros I Ht Hs i0 r Hq Hne. pose proof (i_oth _ I) as O. inst I t Ht.
  pose proof (gathering_sl (pc s t)) as GS.
  destruct Hs; cbn [active slock qlock q pc solved pend set_pc] in *;
  try (destruct (Nat.eq_dec i0 t); [subst i0; rewrite upd_same in Hq; congruence | rewrite upd_other in Hq by auto]);
  try (match goal with H : release_all _ _ _ = Some _ |- _ => apply release_all_spec in H; destruct H as [Hq Hrt] end).
  all: try (match goal with i : nat |- context [PGather (S ?i)] =>
          destruct (Nat.eq_dec i0 i); [subst i0; rewrite upd_same in Hq; inversion Hq; subst r; rewrite upd_same; cbn; auto | rewrite upd_other in Hq by auto] end).
  all: destruct (O _ _ Hq Hne) as [Hr Hg]; split; [exact Hr|].
  all: thr r t; upd_simpl; pcrw; fin; fin2.
Qed.

Lemma step_tail s s' t : Inv s -> t < n -> step t s s' -> forall i, active s' <= i -> q s' i = [].
Proof.
  intros I Ht Hs i0 Hi. pose proof (i_tail _ I) as T. inst I t Ht.
  destruct Hs; cbn [active slock qlock q pc solved pend set_pc] in *; auto.
  - (* pop_some *) destruct (Nat.eq_dec i0 t); [subst; rewrite (T _ Hi) in *; destruct rest; discriminate|].
    rewrite upd_other by auto. auto.
  - (* balance *) destruct (le_lt_dec (active s) i0).
    + match goal with Hb : balanced _ _ _ |- _ => rewrite (bal_out _ _ _ _ Hb) by auto end. auto.
    + eapply trailing_empty_spec; eauto.
Qed.


Lemma step_J s s' t : Inv s -> t < n -> step t s s' ->
  forall u, u < n -> idle_pre (pc s' u) = true -> pend s' u = false ->
    q s' u = [] \/ exists r, r <> u /\ qlock s' u = Some r.
Proof.
  intros I Ht Hs u Hu Hp Hpe. pose proof (i_J _ I) as J. go I t Ht u Hu Hs.
  - right. exists h. split; congruence.
  - destruct G as [|[r [? ?]]]; auto; congruence.
  - destruct (Nat.eq_dec u i).
    + subst. right. exists t. rewrite upd_same. auto.
    + rewrite upd_other by auto. auto.
Qed.


Lemma step_rel s s' t : Inv s -> t < n -> step t s s' ->
  forall u, u < n -> releasing (pc s' u) = true -> pend s' u = true.
Proof.
  intros I Ht Hs u Hu Hp. pose proof (i_J _ I) as J. go I t Ht u Hu Hs.
  destruct (pend s t) eqn:P; auto. destruct (G eq_refl) as [|[r [? ?]]]; congruence.
Qed.


Lemma step_slc s s' t : Inv s -> t < n -> step t s s' ->
  forall r, slock s' = Some r -> r < n /\ holds_slock (pc s' r) = true.
Proof.
  intros I Ht Hs r Hr. pose proof (i_slc _ I r) as SC. inst I t Ht.
  destruct Hs; cbn [active slock qlock q pc solved pend set_pc] in *; try discriminate;
    try (inversion Hr; subst r; split; [assumption|rewrite upd_same; reflexivity]).
  all: destruct (SC Hr) as [Hrn Hh]; split; [assumption|].
  all: thr r t; upd_simpl; pcrw; fin; fin2.
Qed.

Lemma step_ownc s s' t : Inv s -> t < n -> step t s s' ->
  forall i, qlock s' i = Some i -> i < n /\ holds_own (pc s' i) = true.
Proof.
  intros I Ht Hs i0 Hq. pose proof (i_ownc _ I i0) as OC. inst I t Ht.
  destruct Hs; cbn [active slock qlock q pc solved pend set_pc] in *.
  all: try (match goal with H : release_all _ _ _ = Some _ |- _ => apply release_all_spec in H; destruct H as [Hq Hrt] end).
  all: try (match goal with H : upd (qlock _) ?x _ ?k = Some ?k |- _ =>
          destruct (Nat.eq_dec k x) as [?|?]; [subst k; rewrite upd_same in H | rewrite upd_other in H by auto] end).
  all: try discriminate.
  all: try (split; [assumption| upd_simpl; reflexivity]).
  all: try (inversion Hq; congruence).
  all: destruct (OC Hq) as [Hin Hh]; split; [assumption|].
  all: thr i0 t; upd_simpl; pcrw; fin; fin2.
Qed.

Lemma step_gl s s' t : Inv s -> t < n -> step t s s' ->
  forall r j i, r < n -> pc s' r = PGather j -> qlock s' i = Some r -> i <> r -> i < j.
Proof.
  intros I Ht Hs r j i0 Hr Hp Hq Hne. pose proof (i_gl _ I r) as GL. pose proof (i_oth _ I i0 r) as O. inst I t Ht. inst I r Hr.
  pose proof (gathering_sl (pc s r)) as GS.
  destruct Hs; cbn [active slock qlock q pc solved pend set_pc] in *.
  all: try (match goal with H : release_all _ _ _ = Some _ |- _ => apply release_all_spec in H; destruct H as [Hq Hrt] end).
  all: thr r t; upd_simpl; try discriminate.
  all: try (inversion Hp; subst).
  all: try (destruct (Nat.eq_dec i0 t); [subst i0; rewrite upd_same in *; congruence | rewrite upd_other in Hq by auto]).
  all: try (match goal with H : context [upd (qlock ?s) ?i (Some ?t) ?i0] |- _ =>
          destruct (Nat.eq_dec i0 i); [subst i0; rewrite upd_same in H | rewrite upd_other in H by auto] end).
  all: try (eapply GL; eauto; fail).
  all: try (specialize (GL _ _ Hr H1 Hq Hne); lia).
  all: try (destruct (O Hq (not_eq_sym Hne)) as [_ Hg]; pcrw; fin; fin2; fail).
  all: try (inversion Hq; congruence).
  all: try lia.
Qed.

Lemma step_done s s' t : Inv s -> t < n -> step t s s' ->
  forall u, u < n -> pc s' u = PDone -> active s' <= u.
Proof.
  intros I Ht Hs u Hu Hp. pose proof (i_done _ I u Hu) as DN. inst I t Ht.
  destruct Hs; cbn [active slock qlock q pc solved pend set_pc] in *; thr u t; upd_simpl; try discriminate; auto.
  all: try (specialize (DN Hp); lia).
Qed.

Lemma inv_step s s' t : Inv s -> t < n -> step t s s' -> Inv s'.
Proof.
  intros I Ht Hs. constructor.
  - eapply step_act; eauto.
  - eapply step_gat; eauto.
  - eapply step_sl; eauto.
  - eapply step_in; eauto.
  - eapply step_emp; eauto.
  - eapply step_own; eauto.
  - eapply step_nown; eauto.
  - eapply step_oth; eauto.
  - eapply step_tail; eauto.
  - eapply step_J; eauto.
  - eapply step_rel; eauto.
  - eapply step_slc; eauto.
  - eapply step_ownc; eauto.
  - eapply step_gl; eauto.
  - eapply step_done; eauto.
Qed.

Lemma inv_reach q0 s : (forall i, n <= i -> q0 i = []) -> reach (init q0) s -> Inv s.
Proof.
  intros Hq R. induction R as [|s s' R IH [t [Ht Hs]]]; [now apply inv_init|]. eapply inv_step; eauto.
Qed.

(* ------------------------------------------------------------------ *)
(* Termination measure                                                  *)
Fixpoint sumf (f : nat -> nat) (k : nat) : nat := match k with O => 0 | S k' => sumf f k' + f k' end.

Lemma sumf_ext f g k : (forall i, i < k -> f i = g i) -> sumf f k = sumf g k.
Proof. induction k; cbn; intros; [reflexivity|]. rewrite IHk by (intros; apply H; lia). rewrite H by lia. reflexivity. Qed.

Lemma sumf_change F F' k t : t < k -> (forall i, i < k -> i <> t -> F' i = F i) ->
  sumf F' k + F t = sumf F k + F' t.
Proof.
  induction k; intros Ht H; [lia|]. cbn.
  destruct (Nat.eq_dec t k) as [->|].
  - rewrite (sumf_ext F' F k) by (intros; apply H; lia). lia.
  - rewrite (H k) by lia. assert (t < k) by lia. specialize (IHk H0). 
    assert (sumf F' k + F t = sumf F k + F' t) by (apply IHk; intros; apply H; lia). lia.
Qed.

Lemma sumf_ge F k t : t < k -> F t <= sumf F k.
Proof. induction k; intros; [lia|]. cbn. destruct (Nat.eq_dec t k) as [->|]; [lia|]. assert (t<k) by lia. specialize (IHk H0). lia. Qed.

Lemma sumf_le_const F k c : (forall i, i < k -> F i <= c) -> sumf F k <= c * k.
Proof. induction k; cbn; intros; [lia|]. specialize (IHk (fun i Hi => H i (Nat.lt_lt_succ_r _ _ Hi))). pose proof (H k (Nat.lt_succ_diag_r k)). lia. Qed.

Lemma sumf_zero F k : (forall i, i < k -> F i = 0) -> sumf F k = 0.
Proof. induction k; cbn; intros; [lia|]. rewrite IHk by (intros; apply H; lia). rewrite H by lia. reflexivity. Qed.

Lemma sumf_split_ext f g a k : a <= k -> (forall i, a <= i -> f i = g i) -> sumf f a = sumf g a -> sumf f k = sumf g k.
Proof. induction k; intros. - assert (a = 0) by lia. subst. reflexivity.
  - destruct (Nat.eq_dec a (S k)) as [->|]; [assumption|]. cbn. rewrite IHk by (auto; lia). rewrite H0 by lia. reflexivity. Qed.

Lemma flat_length a f : length (flat a f) = sumf (fun i => length (f i)) a.
Proof.
  unfold flat. induction a; [reflexivity|]. rewrite seq_S, map_app, concat_app, app_length. cbn.
  rewrite app_nil_r. rewrite IHa. reflexivity.
Qed.

Definition nilb (l : list piece) : bool := match l with [] => true | _ => false end.
Definition Fq (s : st) i := length (q s i).
Definition Fe (s : st) i := if (i <? active s) && nilb (q s i) then 1 else 0.
Definition Fi (s : st) i := match pc s i with PSolve _ => 1 | _ => 0 end.
Definition Fp (s : st) i := if pend s i then 1 else 0.
Definition dist (p : pcT) : nat :=
  match p with
  | PTry => n + 12 | PHoldOwn => n + 11 | PSolve _ => n + 10 | PWantState => n + 10
  | PChk => n + 9 | PLockOwn => n + 8 | PChkLen => n + 7
  | PGather i => 5 + (n - i) | PBalance => 4 | PRelOwn => 3 | PRelState => 2 | PDone => 0
  end.
Definition Fd (s : st) i := dist (pc s i).

Definition cC := n + 11.
Definition cB := cC * n + 5.
Definition measure (s : st) : nat :=
  3 * (sumf (Fq s) n + sumf (Fi s) n) + cB * (sumf (Fq s) n + sumf (Fe s) n) + cC * sumf (Fp s) n + sumf (Fd s) n.


Ltac chg F s s' t Ht :=
  let H := fresh "CH" in
  assert (H : sumf (F s') n + F s t = sumf (F s) n + F s' t)
    by (apply sumf_change; [exact Ht | intros ? ? ?; unfold F; cbn [active slock qlock q pc solved pend set_pc]; upd_simpl; reflexivity]).

Lemma mul_mono k x y : x <= y -> k * x <= k * y. Proof. intros. now apply Nat.mul_le_mono_l. Qed.


Ltac abstract_sums s s' :=
  let Q' := fresh "Q'" in set (Q' := sumf (Fq s') n) in *;
  let Q := fresh "Q" in set (Q := sumf (Fq s) n) in *;
  let E' := fresh "E'" in set (E' := sumf (Fe s') n) in *;
  let E := fresh "E" in set (E := sumf (Fe s) n) in *;
  let I' := fresh "I'" in set (I' := sumf (Fi s') n) in *;
  let I := fresh "I" in set (I := sumf (Fi s) n) in *;
  let P' := fresh "P'" in set (P' := sumf (Fp s') n) in *;
  let P := fresh "P" in set (P := sumf (Fp s) n) in *;
  let D' := fresh "D'" in set (D' := sumf (Fd s') n) in *;
  let D := fresh "D" in set (D := sumf (Fd s) n) in *;
  clearbody Q' Q E' E I' I P' P D' D.

Lemma measure_dec_local s s' t : Inv s -> t < n -> step t s s' ->
  pc s t <> PBalance -> measure s' < measure s.
Proof.
  intros I Ht Hs NB. inst I t Ht. pose proof (i_act _ I) as Hact.
  destruct Hs; try congruence;
  match goal with |- measure ?s' < measure ?s =>
    chg Fq s s' t Ht; chg Fe s s' t Ht; chg Fi s s' t Ht; chg Fp s s' t Ht; chg Fd s s' t Ht;
    unfold measure; abstract_sums s s' end.
  all: unfold Fq, Fe, Fi, Fp, Fd in *; cbn [active slock qlock q pc solved pend set_pc] in *; upd_simpl.
  all: pcrw; cbn [dist holds_slock holds_own in_active gathering idle_pre releasing] in *; prem.
  all: try lia.
  - (* pop_some *)
    rewrite H1 in *. rewrite app_length in *. cbn [length] in *.
    assert (nilb (rest ++ [w]) = false) as Hn by (destruct rest; reflexivity). rewrite Hn in *.
    rewrite andb_false_r in *.
    assert (HQE : Q' + E' <= Q + E0) by (destruct ((t <? active s) && nilb rest); lia).
    pose proof (mul_mono cB _ _ HQE). lia.
  - (* rel_state *)
    rewrite H in *. assert (P = P' + 1) by lia. subst P.
    assert (cC * (P' + 1) = cC * P' + cC) by (rewrite Nat.mul_add_distr_l; lia).
    assert (cC = n + 11) by reflexivity. lia.
Qed.

(* ---- the balance step ---- *)
Lemma trailing_empty_stop (f : nat -> list piece) a : 0 < a - trailing_empty f a -> f (a - trailing_empty f a - 1) <> [].
Proof.
  induction a as [|a IH]; cbn; [lia|]. destruct (f a) eqn:E.
  - intros. replace (S a - S (trailing_empty f a)) with (a - trailing_empty f a) in * by lia. apply IH. lia.
  - intros _. cbn. replace (a - 0) with a by lia. congruence.
Qed.

Lemma bal_nonempty_below a f f' i : balanced a f f' -> i < a - trailing_empty f' a -> f' i <> [].
Proof.
  intros Hb Hi. set (k := trailing_empty f' a) in *.
  assert (Hk : k <= a) by apply trailing_empty_le.
  assert (Hpos : 0 < a - k) by lia.
  pose proof (trailing_empty_stop f' a Hpos) as Hne. fold k in Hne.
  assert (Hlen : length (f' (a - k - 1)) <= length (f' i)).
  { apply (bal_mono _ _ _ _ _ Hb); lia. }
  destruct (f' (a - k - 1)) eqn:E1; [congruence|]. destruct (f' i); [cbn in Hlen; lia|congruence].
Qed.

Lemma measure_dec_balance s t : Inv s -> t < n -> pc s t = PBalance ->
  forall s', step t s s' -> measure s' < measure s.
Proof.
  intros I Ht Hpc s' Hs. inst I t Ht. pose proof (i_act _ I) as Hact. pose proof (i_tail _ I) as Tl.
  rewrite Hpc in *. cbn [holds_slock holds_own in_active gathering idle_pre releasing] in *. prem.
  inversion Hs as [| | | | | | | | | | | | | |s0 q' Hpc0 Hb| |]; subst; try congruence. clear Hs.
  set (s' := {| active := active s - trailing_empty q' (active s); slock := slock s;
       qlock := release_all t (qlock s); q := q'; pc := upd (pc s) t PRelState;
       solved := solved s; pend := fun _ : nat => true |}).
  (* queue length preserved *)
  assert (HQ : sumf (Fq s') n = sumf (Fq s) n).
  { apply (sumf_split_ext _ _ (active s)); [exact Hact| |].
    - intros i Hi. unfold Fq, s'; cbn. now rewrite (bal_out _ _ _ _ Hb).
    - pose proof (bal_perm (active s) (q s) q' Hb) as Pm. apply Permutation_length in Pm.
      rewrite !flat_length in Pm. exact Pm. }
  (* no empty active queue afterwards *)
  assert (HE' : sumf (Fe s') n = 0).
  { apply sumf_zero. intros i Hi. unfold Fe, s'; cbn [active q].
    destruct (Nat.ltb_spec i (active s - trailing_empty q' (active s))) as [Hlt|]; [|reflexivity].
    pose proof (bal_nonempty_below _ _ _ _ Hb Hlt). destruct (q' i); [congruence|reflexivity]. }
  (* the balancing thread's own queue was empty and active *)
  assert (HE : 1 <= sumf (Fe s) n).
  { pose proof (sumf_ge (Fe s) n t Ht) as G1. unfold Fe at 1 in G1. rewrite D in G1.
    destruct (Nat.ltb_spec t (active s)); [exact G1|lia]. }
  assert (HI : sumf (Fi s') n = sumf (Fi s) n).
  { apply sumf_ext. intros i Hi. unfold Fi, s'; cbn [pc]. destruct (Nat.eq_dec i t) as [->|]; upd_simpl; [now rewrite Hpc|reflexivity]. }
  assert (HP : sumf (Fp s') n <= 1 * n) by (apply sumf_le_const; intros; unfold Fp, s'; cbn; lia).
  assert (HD : sumf (Fd s') n + 4 = sumf (Fd s) n + 2).
  { assert (X: sumf (Fd s') n + Fd s t = sumf (Fd s) n + Fd s' t).
    { apply sumf_change; [exact Ht|]. intros i Hi Hne. unfold Fd, s'; cbn [pc]. now rewrite upd_other. }
    assert (Fd s t = 4) by (unfold Fd; rewrite Hpc; reflexivity).
    assert (Fd s' t = 2) by (unfold Fd, s'; cbn [pc]; rewrite upd_same; reflexivity).
    lia. }
  unfold measure. abstract_sums s s'. subst.
  assert (HX : cB * (Q + 0) + cB <= cB * (Q + E0)).
  { replace (cB * (Q + 0) + cB) with (cB * (Q + 1)) by (rewrite !Nat.mul_add_distr_l; lia). apply mul_mono. lia. }
  assert (HY : cC * P' <= cC * n) by (apply mul_mono; lia).
  assert (cB = cC * n + 5) by reflexivity. lia.
Qed.

Theorem measure_dec s s' t : Inv s -> t < n -> step t s s' -> measure s' < measure s.
Proof.
  intros I Ht Hs. destruct (pc s t) eqn:E; try (apply (measure_dec_local s s' t); auto; congruence).
  eapply measure_dec_balance; eauto.
Qed.

Theorem exec_terminates q0 : (forall i, n <= i -> q0 i = []) ->
  forall s s', reach (init q0) s -> any_step s s' -> measure s' < measure s.
Proof. intros Hq s s' R [t [Ht Hs]]. eapply measure_dec; eauto. eapply inv_reach; eauto. Qed.

(* ------------------------------------------------------------------ *)
(* Deadlock freedom                                                     *)
Lemma list_last_or_nil {A} (l : list A) : l = [] \/ exists r w, l = r ++ [w].
Proof. destruct l as [|x l] using rev_ind; [now left|right; eauto]. Qed.

Theorem progress s : Inv s -> (exists t, t < n /\ pc s t <> PDone) -> exists s', any_step s s'.
Proof.
  intros I [t0 [Ht0 Hnd]].
  destruct (slock s) as [r|] eqn:SL.
  - (* the holder of the state lock can move, or waits for a thread that can *)
    destruct (i_slc _ I r SL) as [Hr Hh]. inst I r Hr.
    destruct (pc s r) eqn:P; cbn in Hh; try discriminate; try rewrite P in *;
      cbn [holds_slock holds_own in_active gathering idle_pre releasing] in *; prem.
    + (* PChk *) destruct (le_lt_dec (active s) r); eexists; exists r; split; auto; [eapply s_chk_exit|eapply s_chk_stay]; eauto.
    + (* PLockOwn *)
      assert (qlock s r = None).
      { destruct (qlock s r) as [h|] eqn:Q; [|reflexivity]. exfalso.
        destruct (Nat.eq_dec h r) as [->|Hne]; [congruence|].
        destruct (i_oth _ I r h Q Hne) as [Hh2 Hg]. pose proof (i_sl _ I h Hh2 (gathering_sl _ Hg)). congruence. }
      eexists; exists r; split; auto. eapply s_lock_own; eauto.
    + (* PChkLen *) destruct (q s r) eqn:Q; eexists; exists r; split; auto; [eapply s_len_none|eapply s_len_some]; eauto; congruence.
    + (* PGather i *)
      destruct (Nat.eq_dec i r) as [->|Hir]; [eexists; exists r; split; auto; eapply s_gather_skip; eauto|].
      destruct (le_lt_dec (active s) i); [eexists; exists r; split; auto; eapply s_gather_done; eauto|].
      destruct (qlock s i) as [h|] eqn:Q; [|eexists; exists r; split; auto; eapply s_gather_lock; eauto].
      destruct (Nat.eq_dec h i) as [->|Hne].
      * (* queue i is held by its owner: it is in PHoldOwn and can pop *)
        destruct (i_ownc _ I i Q) as [Hin Ho].
        assert (pc s i = PHoldOwn) as Pi.
        { destruct (pc s i) eqn:Pi; cbn in Ho; try discriminate; auto;
          exfalso; assert (holds_slock (pc s i) = true) as X by (rewrite Pi; reflexivity);
          pose proof (i_sl _ I i Hin X); congruence. }
        destruct (list_last_or_nil (q s i)) as [Hn|[rest [w Hw]]]; eexists; exists i; split; auto;
          [eapply s_pop_none|eapply s_pop_some]; eauto.
      * exfalso. destruct (i_oth _ I i h Q Hne) as [Hh2 Hg]. pose proof (i_sl _ I h Hh2 (gathering_sl _ Hg)).
        assert (h = r) by congruence. subst h. pose proof (i_gl _ I r i i Hr P Q Hir). lia.
    + destruct (bal_total (active s) (q s)) as [q' Hb]. eexists; exists r; split; auto. eapply s_balance; eauto.
    + eexists; exists r; split; auto. eapply s_rel_own; eauto.
    + eexists; exists r; split; auto. eapply s_rel_state; eauto.
  - (* state lock free: any thread that is not done can move *)
    inst I t0 Ht0.
    destruct (pc s t0) eqn:P; cbn in *; prem; try congruence.
    + destruct (qlock s t0) eqn:Q; eexists; exists t0; split; auto; [eapply s_try_fail|eapply s_try_ok]; eauto.
    + destruct (list_last_or_nil (q s t0)) as [Hn|[rest [w Hw]]]; eexists; exists t0; split; auto;
        [eapply s_pop_none|eapply s_pop_some]; eauto.
    + eexists; exists t0; split; auto. eapply s_solve; eauto.
    + eexists; exists t0; split; auto. eapply s_want; eauto.
Qed.

Theorem exec_deadlock_free q0 s : (forall i, n <= i -> q0 i = []) -> reach (init q0) s ->
  (exists t, t < n /\ pc s t <> PDone) -> exists s', any_step s s'.
Proof. intros. eapply progress; eauto. eapply inv_reach; eauto. Qed.

(* ------------------------------------------------------------------ *)
(* Conservation: every piece is solved exactly once                     *)
Lemma flat_S k f : flat (S k) f = flat k f ++ f k.
Proof. unfold flat. rewrite seq_S, map_app, concat_app. cbn. now rewrite app_nil_r. Qed.

Lemma flat_ext k f g : (forall i, i < k -> f i = g i) -> flat k f = flat k g.
Proof. induction k; intros; [reflexivity|]. rewrite !flat_S, IHk by (intros; apply H; lia). now rewrite H by lia. Qed.

Lemma flat_change k F F' t : t < k -> (forall i, i < k -> i <> t -> F' i = F i) ->
  Permutation (flat k F' ++ F t) (flat k F ++ F' t).
Proof.
  induction k; intros Ht H; [lia|]. rewrite !flat_S.
  destruct (Nat.eq_dec t k) as [->|].
  - rewrite (flat_ext k F' F) by (intros; apply H; lia).
    rewrite <- !app_assoc. apply Permutation_app_head. apply Permutation_app_comm.
  - rewrite (H k) by lia. assert (Ht' : t < k) by lia.
    assert (IH : Permutation (flat k F' ++ F t) (flat k F ++ F' t)) by (apply IHk; auto; intros; apply H; lia).
    rewrite <- !app_assoc.
    rewrite (Permutation_app_comm (F k) (F t)), (Permutation_app_comm (F k) (F' t)).
    rewrite !app_assoc. apply Permutation_app_tail. exact IH.
Qed.

Definition Fin (s : st) (t : nat) : list piece := match pc s t with PSolve w => [w] | _ => [] end.
Definition pool (s : st) : list piece := solved s ++ flat n (Fin s) ++ flat n (q s).

Lemma flat_split_ext f g a k : a <= k -> (forall i, a <= i -> f i = g i) ->
  Permutation (flat a f) (flat a g) -> Permutation (flat k f) (flat k g).
Proof.
  induction k; intros. - assert (a = 0) by lia. subst. assumption.
  - destruct (Nat.eq_dec a (S k)) as [->|]; [assumption|]. rewrite !flat_S, H0 by lia.
    apply Permutation_app_tail. apply IHk; auto; lia.
Qed.

Lemma pool_step s s' t : Inv s -> t < n -> step t s s' -> Permutation (pool s') (pool s).
Proof.
  intros I Ht Hs. pose proof (i_act _ I) as Hact. unfold pool.
  destruct Hs; unfold set_pc; cbn [active slock qlock q pc solved pend].
  all: try (match goal with |- Permutation (_ ++ flat n (Fin ?s') ++ _) (_ ++ flat n (Fin ?s) ++ _) =>
        assert (HF : flat n (Fin s') = flat n (Fin s))
          by (apply flat_ext; intros j Hj; unfold Fin; cbn [pc]; destruct (Nat.eq_dec j t) as [->|];
              [rewrite upd_same; match goal with H : pc _ _ = _ |- _ => rewrite H end; reflexivity
              |rewrite upd_other by auto; reflexivity]);
        rewrite HF; reflexivity end).
  - (* pop_some *)
    set (s' := {| active := active s; slock := slock s; qlock := upd (qlock s) t None; q := upd (q s) t rest;
                  pc := upd (pc s) t (PSolve w); solved := solved s; pend := pend s |}).
    apply Permutation_app_head.
    assert (P1 : Permutation (flat n (Fin s') ++ Fin s t) (flat n (Fin s) ++ Fin s' t))
      by (apply flat_change; auto; intros; unfold Fin, s'; cbn [pc]; now rewrite upd_other).
    assert (Fin s t = []) as E1 by (unfold Fin; now rewrite H).
    assert (Fin s' t = [w]) as E2 by (unfold Fin, s'; cbn [pc]; now rewrite upd_same).
    rewrite E1, E2, app_nil_r in P1.
    assert (P2 : Permutation (flat n (upd (q s) t rest) ++ q s t) (flat n (q s) ++ upd (q s) t rest t))
      by (apply flat_change; auto; intros; now rewrite upd_other).
    rewrite upd_same, H0 in P2.
    assert (P3 : Permutation (flat n (upd (q s) t rest) ++ [w]) (flat n (q s))).
    { apply (Permutation_app_inv_r rest). rewrite <- app_assoc.
      rewrite (Permutation_app_comm [w] rest). exact P2. }
    rewrite P1, <- app_assoc. apply Permutation_app_head.
    rewrite (Permutation_app_comm [w]). exact P3.
  - (* solve *)
    set (s' := {| active := active s; slock := slock s; qlock := qlock s; q := q s; pc := upd (pc s) t PTry;
                  solved := w :: solved s; pend := upd (pend s) t false |}).
    assert (P1 : Permutation (flat n (Fin s') ++ Fin s t) (flat n (Fin s) ++ Fin s' t))
      by (apply flat_change; auto; intros; unfold Fin, s'; cbn [pc]; now rewrite upd_other).
    assert (Fin s t = [w]) as E1 by (unfold Fin; now rewrite H).
    assert (Fin s' t = []) as E2 by (unfold Fin, s'; cbn [pc]; now rewrite upd_same).
    rewrite E1, E2, app_nil_r in P1. rewrite <- P1.
    cbn [app]. rewrite <- !app_assoc. change ([w] ++ flat n (q s)) with (w :: flat n (q s)).
    rewrite (app_assoc (solved s) (flat n (Fin s')) (w :: flat n (q s))).
    apply Permutation_cons_app. rewrite <- app_assoc. reflexivity.
  - (* balance *)
    apply Permutation_app_head.
    assert (HF : flat n (Fin {| active := active s - trailing_empty q' (active s); slock := slock s;
         qlock := release_all t (qlock s); q := q'; pc := upd (pc s) t PRelState;
         solved := solved s; pend := fun _ : nat => true |}) = flat n (Fin s)).
    { apply flat_ext; intros j Hj; unfold Fin; cbn [pc]. destruct (Nat.eq_dec j t) as [->|];
        [rewrite upd_same, H; reflexivity | rewrite upd_other by auto; reflexivity]. }
    rewrite HF. apply Permutation_app_head.
    match goal with Hb : balanced _ _ _ |- _ =>
      apply (flat_split_ext _ _ (active s)); [auto| intros; apply (bal_out _ _ _ _ Hb); auto | apply (bal_perm _ _ _ Hb)] end.
Qed.

Theorem exec_conservation q0 s : (forall i, n <= i -> q0 i = []) -> reach (init q0) s ->
  Permutation (solved s ++ flat n (Fin s) ++ flat n (q s)) (flat n q0).
Proof.
  intros Hq R. induction R as [|s s' R IH [t [Ht Hs]]].
  - unfold init, Fin; cbn. assert (flat n (fun _ : nat => @nil piece) = []) as ->; [|reflexivity].
    clear. induction n; [reflexivity|]. rewrite flat_S, IHn0. reflexivity.
  - rewrite <- IH. apply (pool_step s s' t); auto. eapply inv_reach; eauto.
Qed.

Theorem exec_exactly_once q0 s : (forall i, n <= i -> q0 i = []) -> reach (init q0) s ->
  (forall t, t < n -> pc s t = PDone) -> Permutation (solved s) (flat n q0).
Proof.
  intros Hq R Hd. pose proof (exec_conservation q0 s Hq R) as C. pose proof (inv_reach q0 s Hq R) as I.
  assert (flat n (Fin s) = []) as E1.
  { assert (flat n (Fin s) = flat n (fun _ => [])) as -> by (apply flat_ext; intros; unfold Fin; now rewrite Hd).
    clear. induction n; [reflexivity|]. rewrite flat_S, IHn0. reflexivity. }
  assert (flat n (q s) = []) as E2.
  { (* thread 0 is done, so active = 0 and every queue is empty *)
    assert (flat n (q s) = flat n (fun _ => [])) as ->.
    { apply flat_ext; intros i Hi. apply (i_tail _ I).
      assert (H0 : 0 < n) by lia. pose proof (i_done _ I 0 H0 (Hd 0 H0)). lia. }
    clear. induction n; [reflexivity|]. rewrite flat_S, IHn0. reflexivity. }
  rewrite E1, E2, !app_nil_r in C. exact C.
Qed.
End Exec.
