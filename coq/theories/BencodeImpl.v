(** Implementation-level model of the two numeric automata of src/bencode/parser.rs -
    [decode_string] (StringState: FirstDigit / Seperator / DigitOrSeperator / Character) and
    [decode_integer] (IntegerState: StartCharacter / FirstDigit / NonZeroDigit / NegativeDigit /
    Digit / StopCharacter) - state by state, byte by byte, with the arithmetic as written:
    [checked_mul] / [checked_add] / [checked_sub] give [Err] when they leave the range,
    [position += 1] is the unchecked u64 addition [add64] (a [Panic] if it overflowed), and the
    [Character] state performs [position.checked_add(n)] and the comparison with [bytes.len()]. *)
From TB Require Import Base Decimal BencodeModel.
Local Open Scope N_scope.

Definition checked_mul_u (a b : N) : res N := if a * b <=? usize_max then Ok (a * b) else Err.
Definition checked_add_u (a b : N) : res N := if a + b <=? usize_max then Ok (a + b) else Err.
Definition chk128 (z : Z) : res Z := if ((i128_min <=? z) && (z <=? i128_max))%Z then Ok z else Err.

Inductive sstate := SFirst | SSep | SDigSep | SChar.

(** One loop iteration per byte; [rest] is [bytes[position..]]. *)
Fixpoint str_auto (fuel : nat) (st : sstate) (pos n : N) (rest : list N) : res (list N * N * list N) :=
  match fuel with O => OutOfFuel | S f =>
  match rest with
  | [] => Err                                   (* bytes.get(position) = None: unexpected end of file *)
  | b :: r =>
    match st with
    | SChar =>
        do e <- checked_add_u pos n;              (* position.checked_add(characters_to_read) *)
        if n <=? len rest                         (* .filter(|end| *end <= bytes.len()) *)
        then Ok (firstn (N.to_nat n) rest, e, skipn (N.to_nat n) rest) else Err
    | SDigSep =>
        if is_digit b then
          do n1 <- checked_mul_u n 10; do n2 <- checked_add_u n1 (b - 48);
          do p' <- add64 pos 1; str_auto f SDigSep p' n2 r
        else if b =? 58 then do p' <- add64 pos 1; str_auto f SChar p' n r
        else Err
    | SSep =>
        if (b =? 58) && (n =? 0) then do p' <- add64 pos 1; Ok ([], p', r) else Err
    | SFirst =>
        if b =? 48 then do p' <- add64 pos 1; str_auto f SSep p' 0 r
        else if (49 <=? b) && (b <=? 57) then do p' <- add64 pos 1; str_auto f SDigSep p' (b - 48) r
        else Err
    end
  end end.

Definition dec_str_impl (pos : N) (rest : list N) : res (list N * N * list N) :=
  str_auto (S (S (length rest))) SFirst pos 0 rest.

Inductive istate := IStart | IFirst | INonZero | INeg | IDigit | IStop.

Fixpoint int_auto (fuel : nat) (st : istate) (pos : N) (z : Z) (rest : list N) : res (Z * N * list N) :=
  match fuel with O => OutOfFuel | S f =>
  match rest with
  | [] => Err
  | b :: r =>
    match st with
    | IDigit =>
        if is_digit b then
          do m <- chk128 (z * 10); do z' <- chk128 (m + Z.of_N (b - 48));
          do p' <- add64 pos 1; int_auto f IDigit p' z' r
        else if b =? 101 then do p' <- add64 pos 1; Ok (z, p', r)
        else Err
    | INeg =>
        if is_digit b then
          do m <- chk128 (z * 10); do z' <- chk128 (m - Z.of_N (b - 48));
          do p' <- add64 pos 1; int_auto f INeg p' z' r
        else if b =? 101 then do p' <- add64 pos 1; Ok (z, p', r)
        else Err
    | INonZero =>
        if (49 <=? b) && (b <=? 57) then do p' <- add64 pos 1; int_auto f INeg p' (- Z.of_N (b - 48)) r else Err
    | IStop =>
        if b =? 101 then do p' <- add64 pos 1; Ok (z, p', r) else Err
    | IFirst =>
        if (49 <=? b) && (b <=? 57) then do p' <- add64 pos 1; int_auto f IDigit p' (Z.of_N (b - 48)) r
        else if b =? 48 then do p' <- add64 pos 1; int_auto f IStop p' 0 r
        else if b =? 45 then do p' <- add64 pos 1; int_auto f INonZero p' z r
        else Err
    | IStart =>
        if b =? 105 then do p' <- add64 pos 1; int_auto f IFirst p' z r else Err
    end
  end end.

Definition dec_int_impl (pos : N) (rest : list N) : res (Z * N * list N) :=
  int_auto (S (S (length rest))) IStart pos 0 rest.
