(** Structural facts about every piece program, with no hypothesis at all (C13, C05):
    an I/O error answer leads straight to [Ret Fault] after releasing the file lock; locks are
    taken one at a time and always released before the program returns. *)
From TB Require Import Base Decimal BencodeModel TorrentModel PathModel FsModel SolverModel Generated.
Local Open Scope N_scope.

(** The program ends in a fault without touching anything else (at most it drops its lock). *)
Inductive ends_fault : prog -> Prop :=
| ef_ret : ends_fault (Ret Fault)
| ef_unlock i : ends_fault (Unlock i (Ret Fault)).

(** On every path: an error answer ends the evaluation as a fault, and a fault is the only way an
    error answer is absorbed. *)
Inductive fault_closed : prog -> Prop :=
| fc_ret o : fault_closed (Ret o)
| fc_read p off len k : ends_fault (k None) -> (forall v, fault_closed (k (Some v))) -> fault_closed (Read p off len k)
| fc_mut o k : ends_fault (k false) -> fault_closed (k true) -> fault_closed (Mut o k)
| fc_lock i k : fault_closed k -> fault_closed (Lock i k)
| fc_unlock i k : fault_closed k -> fault_closed (Unlock i k).

(** Lock discipline: [held] is the lock currently held (at most one); a lock is only taken when
    none is held, only the held lock is released, and nothing is held when the program returns. *)
Inductive lock_ok : option nat -> prog -> Prop :=
| lo_ret o : lock_ok None (Ret o)
| lo_read h p off len k : (forall r, lock_ok h (k r)) -> lock_ok h (Read p off len k)
| lo_mut h o k : (forall b, lock_ok h (k b)) -> lock_ok h (Mut o k)
| lo_lock i k : lock_ok (Some i) k -> lock_ok None (Lock i k)
| lo_unlock i k : lock_ok None k -> lock_ok (Some i) (Unlock i k).

Section Facts.
Variable H : list N -> list N.

Lemma write_prog_fc : forall segs srcs buf start, fault_closed (write_prog segs srcs buf start).
Proof.
  induction segs as [|s segs IH]; intros srcs buf start; cbn [write_prog]; [constructor|].
  destruct srcs as [|src srcs]; [constructor|].
  destruct (e_pad (ps_entry s)); [apply IH|].
  destruct (match src with Some sp => path_eqb (e_target (ps_entry s)) sp | None => false end); [apply IH|].
  destruct (slice_opt buf start (start + ps_len s)); [|constructor].
  constructor. constructor; [constructor|]. cbn [negb].
  constructor; [constructor|]. cbn [negb]. constructor; [constructor|]. cbn [negb].
  constructor; [constructor|]. cbn [negb]. constructor. apply IH.
Qed.

Lemma write_prog_lock : forall segs srcs buf start, lock_ok None (write_prog segs srcs buf start).
Proof.
  induction segs as [|s segs IH]; intros srcs buf start; cbn [write_prog]; [constructor|].
  destruct srcs as [|src srcs]; [constructor|].
  destruct (e_pad (ps_entry s)); [apply IH|].
  destruct (match src with Some sp => path_eqb (e_target (ps_entry s)) sp | None => false end); [apply IH|].
  destruct (slice_opt buf start (start + ps_len s)); [|constructor].
  constructor. constructor. intros [|]; cbn [negb]; [|repeat constructor].
  constructor. intros [|]; cbn [negb]; [|repeat constructor].
  constructor. intros [|]; cbn [negb]; [|repeat constructor].
  constructor. intros [|]; cbn [negb]; [|repeat constructor].
  constructor. apply IH.
Qed.

Lemma preload_seg_fc : forall cands off len acc k, (forall l, fault_closed (k l)) -> fault_closed (preload_seg cands off len acc k).
Proof.
  induction cands as [|c cs IH]; intros off len acc k Hk; cbn [preload_seg]; [apply Hk|].
  constructor; [constructor|]. intros v. destruct (existsb _ acc); apply IH; assumption.
Qed.

Lemma preload_seg_lock : forall cands off len acc k, (forall l, lock_ok None (k l)) -> lock_ok None (preload_seg cands off len acc k).
Proof.
  induction cands as [|c cs IH]; intros off len acc k Hk; cbn [preload_seg]; [apply Hk|].
  constructor. intros [v|]; [|constructor]. destruct (existsb _ acc); apply IH; assumption.
Qed.

Lemma preload_fc : forall segs k, (forall c, fault_closed (k c)) -> fault_closed (preload segs k).
Proof.
  induction segs as [|s r IH]; intros k Hk; cbn [preload]; [apply Hk|].
  destruct (e_pad (ps_entry s)); [apply IH; intros; apply Hk|].
  destruct (ps_len s =? 0); [apply IH; intros; apply Hk|].
  destruct (e_searches (ps_entry s)); [|constructor].
  apply preload_seg_fc. intros l0. apply IH. intros; apply Hk.
Qed.

Lemma preload_lock : forall segs k, (forall c, lock_ok None (k c)) -> lock_ok None (preload segs k).
Proof.
  induction segs as [|s r IH]; intros k Hk; cbn [preload]; [apply Hk|].
  destruct (e_pad (ps_entry s)); [apply IH; intros; apply Hk|].
  destruct (ps_len s =? 0); [apply IH; intros; apply Hk|].
  destruct (e_searches (ps_entry s)); [|constructor].
  apply preload_seg_lock. intros l0. apply IH. intros; apply Hk.
Qed.

Lemma single_prog_fc pc s : forall cands, fault_closed (single_prog H pc s cands).
Proof.
  induction cands as [|c cs IH]; cbn [single_prog]; [constructor|].
  constructor; [constructor|]. intros v. destruct (beq (H v) (w_hash pc)); [apply write_prog_fc|exact IH].
Qed.

Lemma single_prog_lock pc s : forall cands, lock_ok None (single_prog H pc s cands).
Proof.
  induction cands as [|c cs IH]; cbn [single_prog]; [constructor|].
  constructor. intros [v|]; [|constructor]. destruct (beq (H v) (w_hash pc)); [apply write_prog_lock|exact IH].
Qed.

Lemma multi_prog_fc pc : fault_closed (multi_prog H pc).
Proof.
  unfold multi_prog. apply preload_fc. intros c. destruct c; [constructor|].
  destruct (find_combo H (w_hash pc) (l :: c) []); [apply write_prog_fc|constructor].
Qed.

Lemma multi_prog_lock pc : lock_ok None (multi_prog H pc).
Proof.
  unfold multi_prog. apply preload_lock. intros c. destruct c; [constructor|].
  destruct (find_combo H (w_hash pc) (l :: c) []); [apply write_prog_lock|constructor].
Qed.

(** Every I/O failure while evaluating or writing a piece ends that piece as faulted, after the
    file lock has been released: no guard is leaked and nothing else is attempted. *)
Theorem solve_prog_fault_closed pc : fault_closed (solve_prog H pc).
Proof.
  unfold solve_prog. destruct (rejected pc); [constructor|].
  destruct (w_segs pc) as [|s [|s2 r]]; [apply multi_prog_fc| |apply multi_prog_fc].
  destruct (e_pad (ps_entry s)); [apply multi_prog_fc|].
  destruct (e_searches (ps_entry s)); [apply single_prog_fc|constructor].
Qed.

Theorem solve_prog_lock_ok pc : lock_ok None (solve_prog H pc).
Proof.
  unfold solve_prog. destruct (rejected pc); [constructor|].
  destruct (w_segs pc) as [|s [|s2 r]]; [apply multi_prog_lock| |apply multi_prog_lock].
  destruct (e_pad (ps_entry s)); [apply multi_prog_lock|].
  destruct (e_searches (ps_entry s)); [apply single_prog_lock|constructor].
Qed.
End Facts.

(** ** Write order (C12): in every piece program, every write into a file is preceded - in the same
    program, with nothing but a successful answer in between - by [set_len declared] on that file. *)
Inductive armed_ok : option (path * N) -> prog -> Prop :=
| ao_ret a o : armed_ok a (Ret o)
| ao_read a p off len k : (forall r, armed_ok a (k r)) -> armed_ok a (Read p off len k)
| ao_probe a p w k : (forall r, armed_ok a (k r)) -> armed_ok a (Probe p w k)
| ao_lock a i k : armed_ok a k -> armed_ok a (Lock i k)
| ao_unlock a i k : armed_ok a k -> armed_ok a (Unlock i k)
| ao_mkdir a p k : (forall b, armed_ok None (k b)) -> armed_ok a (Mut (MkdirAll p) k)
| ao_open a p c t k : (forall b, armed_ok None (k b)) -> armed_ok a (Mut (OpenW p c t) k)
| ao_setlen a p n k : armed_ok (Some (p, n)) (k true) -> armed_ok None (k false) -> armed_ok a (Mut (SetLen p n) k)
| ao_write p n off d k : (forall b, armed_ok None (k b)) -> armed_ok (Some (p, n)) (Mut (WriteAt p off d) k).

Section WriteOrder.
Variable H : list N -> list N.

Lemma write_prog_armed : forall segs srcs buf start, armed_ok None (write_prog segs srcs buf start).
Proof.
  induction segs as [|s segs IH]; intros srcs buf start; cbn [write_prog]; [constructor|].
  destruct srcs as [|src srcs]; [constructor|].
  destruct (e_pad (ps_entry s)); [apply IH|].
  destruct (match src with Some sp => path_eqb (e_target (ps_entry s)) sp | None => false end); [apply IH|].
  destruct (slice_opt buf start (start + ps_len s)); [|constructor].
  constructor. constructor. intros [|]; cbn [negb]; [|repeat constructor].
  constructor. intros [|]; cbn [negb]; [|repeat constructor].
  constructor; cbn [negb]; [|repeat constructor].
  constructor. intros [|]; cbn [negb]; [|repeat constructor].
  constructor. apply IH.
Qed.

Lemma preload_seg_armed : forall cands off len acc k, (forall l, armed_ok None (k l)) -> armed_ok None (preload_seg cands off len acc k).
Proof.
  induction cands as [|c cs IH]; intros off len acc k Hk; cbn [preload_seg]; [apply Hk|].
  constructor. intros [v|]; [|constructor]. destruct (existsb _ acc); apply IH; exact Hk.
Qed.

Lemma preload_armed : forall segs k, (forall c, armed_ok None (k c)) -> armed_ok None (preload segs k).
Proof.
  induction segs as [|s r IH]; intros k Hk; cbn [preload]; [apply Hk|].
  destruct (e_pad (ps_entry s)); [apply IH; intros c; apply Hk|].
  destruct (ps_len s =? 0); [apply IH; intros c; apply Hk|].
  destruct (e_searches (ps_entry s)) as [cands|]; [|constructor].
  apply preload_seg_armed. intros l. apply IH. intros c. apply Hk.
Qed.

Lemma single_prog_armed pc s : forall cands, armed_ok None (single_prog H pc s cands).
Proof.
  induction cands as [|c cs IH]; cbn [single_prog]; [constructor|].
  constructor. intros [bs|]; [|constructor]. destruct (beq (H bs) (w_hash pc)); [apply write_prog_armed|exact IH].
Qed.

Theorem solve_prog_write_order pc : armed_ok None (solve_prog H pc).
Proof.
  unfold solve_prog. destruct (rejected pc); [constructor|].
  assert (Hm : armed_ok None (multi_prog H pc)).
  { unfold multi_prog. apply preload_armed. intros c. destruct c; [constructor|].
    destruct (find_combo H (w_hash pc) (l :: c) []); [apply write_prog_armed|constructor]. }
  destruct (w_segs pc) as [|s [|s2 r]]; try exact Hm.
  destruct (e_pad (ps_entry s)); [exact Hm|]. destruct (e_searches (ps_entry s)); [apply single_prog_armed|constructor].
Qed.
End WriteOrder.
